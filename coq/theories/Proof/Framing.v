(* Message.set_body_reader is sound for the declarative framing rules: whatever it accepts, RFC 9112
   frames identically; whatever the rules call ambiguous or malformed, it refuses. *)
From Coq Require Import List NArith ZArith Bool Lia Arith.
From GV Require Import Base.Bytes Base.PyStr Model.Parser Spec.Rfc9112.
Import ListNotations.

Definition st_ok (st : fstate) (seen : list bytes) : Prop :=
  forallb known seen = true /\
  (f_chunked st = true -> count_chunked seen = 1%nat /\ is_chunked (last seen []) = true) /\
  (f_chunked st = false -> count_chunked seen = 0%nat).

Lemma count_chunked_app a b : count_chunked (a ++ b) = (count_chunked a + count_chunked b)%nat.
Proof. unfold count_chunked. rewrite filter_app, app_length. reflexivity. Qed.

Lemma te_vals_ok : forall vals st seen st',
    st_ok st seen -> te_vals st vals = inl st' -> st_ok st' (seen ++ vals) /\ f_cl st' = f_cl st.
Proof.
  induction vals as [|v t IH]; intros st seen st' Hok H; cbn [te_vals] in H.
  - injection H as <-. rewrite app_nil_r. split; [exact Hok|reflexivity].
  - destruct Hok as (Hk & Hc1 & Hc0).
    assert (Hsnoc : forall st1, st_ok st1 (seen ++ [v]) -> te_vals st1 t = inl st' ->
                     st_ok st' (seen ++ v :: t) /\ f_cl st' = f_cl st1).
    { intros st1 Hok1 H1. assert (Eapp : seen ++ v :: t = (seen ++ [v]) ++ t) by (rewrite <- app_assoc; reflexivity). rewrite Eapp.
      eapply IH; eassumption. }
    destruct (classify v) eqn:Ec.
    + destruct (f_chunked st) eqn:Ech; [discriminate H|].
      apply Hsnoc in H; [exact H|]. unfold st_ok. cbn [f_chunked].
      assert (Hv : is_chunked v = true) by (unfold is_chunked; rewrite Ec; reflexivity).
      split; [|split].
      * rewrite forallb_app, Hk. cbn. unfold known. rewrite Ec. reflexivity.
      * intros _. rewrite count_chunked_app, (Hc0 eq_refl), last_last. unfold count_chunked at 1. cbn [filter]. rewrite Hv. split; reflexivity.
      * discriminate.
    + destruct (f_chunked st) eqn:Ech; [discriminate H|].
      apply Hsnoc in H; [exact H|]. unfold st_ok. cbn [f_chunked]. try rewrite Ech.
      assert (Hv : is_chunked v = false) by (unfold is_chunked; rewrite Ec; reflexivity).
      split; [|split].
      * rewrite forallb_app, Hk. cbn. unfold known. rewrite Ec. reflexivity.
      * discriminate.
      * intros _. rewrite count_chunked_app, (Hc0 eq_refl). unfold count_chunked. cbn [filter]. rewrite Hv. reflexivity.
    + destruct (f_chunked st) eqn:Ech; [discriminate H|].
      apply Hsnoc in H; [exact H|]. unfold st_ok. cbn [f_chunked]. try rewrite Ech.
      assert (Hv : is_chunked v = false) by (unfold is_chunked; rewrite Ec; reflexivity).
      split; [|split].
      * rewrite forallb_app, Hk. cbn. unfold known. rewrite Ec. reflexivity.
      * discriminate.
      * intros _. rewrite count_chunked_app, (Hc0 eq_refl). unfold count_chunked. cbn [filter]. rewrite Hv. reflexivity.
    + discriminate H.
Qed.

Definition hs_ok (st : fstate) (pre : list header) : Prop :=
  st_ok st (codings pre) /\
  match f_cl st with None => values_of n_cl pre = [] | Some v => values_of n_cl pre = [v] end.

Lemma codings_app a b : codings (a ++ b) = codings a ++ codings b.
Proof. unfold codings, values_of. rewrite filter_app, map_app, flat_map_app. reflexivity. Qed.
Lemma values_of_app n a b : values_of n (a ++ b) = values_of n a ++ values_of n b.
Proof. unfold values_of. rewrite filter_app, map_app. reflexivity. Qed.
Lemma values_of_one n n' v : values_of n [(n', v)] = if beq n' n then [v] else [].
Proof. unfold values_of. cbn [filter fst]. destruct (beq n' n); reflexivity. Qed.
Lemma codings_one n' v : codings [(n', v)] = if beq n' n_te then map (strip is_ows) (split_char 44 v) else [].
Proof. unfold codings. rewrite values_of_one. destruct (beq n' n_te); cbn; rewrite ?app_nil_r; reflexivity. Qed.

Lemma scan_headers_ok : forall hs st pre st',
    hs_ok st pre -> scan_headers st hs = inl st' -> hs_ok st' (pre ++ hs).
Proof.
  induction hs as [|[n v] t IH]; intros st pre st' Hok H; cbn [scan_headers] in H.
  - injection H as <-. rewrite app_nil_r. exact Hok.
  - assert (Eapp : pre ++ (n, v) :: t = (pre ++ [(n, v)]) ++ t) by (rewrite <- app_assoc; reflexivity). rewrite Eapp. clear Eapp.
    destruct Hok as [Hst Hcl].
    destruct (beq n n_cl) eqn:Ecl.
    + apply beq_true in Ecl. subst n.
      destruct (f_cl st) as [old|] eqn:Eold; [discriminate H|].
      eapply IH; [|exact H]. unfold hs_ok. cbn [f_cl f_chunked].
      rewrite codings_app, values_of_app, Hcl.
      rewrite codings_one, values_of_one, beq_refl. change (beq n_cl n_te) with false. rewrite app_nil_r.
      split; [exact Hst|reflexivity].
    + destruct (beq n n_te) eqn:Ete.
      * apply beq_true in Ete. subst n.
        destruct (te_vals st (map (strip is_ows) (split_char 44 v))) as [st1|e] eqn:Et; [|discriminate H].
        destruct (te_vals_ok _ _ _ _ Hst Et) as [Hst1 Hcl1].
        eapply IH; [|exact H]. unfold hs_ok.
        rewrite codings_app, values_of_app, Hcl1.
        rewrite codings_one, values_of_one, beq_refl, Ecl, app_nil_r.
        split; [exact Hst1|exact Hcl].
      * eapply IH; [|exact H]. unfold hs_ok.
        rewrite codings_app, values_of_app.
        rewrite codings_one, values_of_one, Ete, Ecl, !app_nil_r.
        split; [exact Hst|exact Hcl].
Qed.

Theorem framing_sound : forall hs ver f mc,
    set_body_reader hs ver = inl (f, mc) -> rfc_framing hs ver = Some f.
Proof.
  intros hs ver f mc H. unfold set_body_reader in H.
  destruct (scan_headers _ hs) as [st|e] eqn:Es; [|discriminate H].
  assert (H0 : hs_ok {| f_chunked := false; f_cl := None; f_must_close := false |} []).
  { unfold hs_ok, st_ok. cbn. repeat split; auto; discriminate. }
  pose proof (scan_headers_ok _ _ _ _ H0 Es) as [(Hk & Hc1 & Hc0) Hcl]. cbn [app] in *.
  unfold rfc_framing. rewrite Hk. cbn [negb].
  destruct (f_chunked st) eqn:Ech.
  - destruct (Hc1 eq_refl) as [Hcnt Hlast]. rewrite Hcnt, Hlast. unfold version_lt_11.
    destruct ((fst ver =? 0)%N || ((fst ver =? 1)%N && (snd ver =? 0)%N)); [discriminate H|]. cbn [negb andb].
    destruct (f_cl st) eqn:Ecl; [discriminate H|]. injection H as <- <-. rewrite Hcl. reflexivity.
  - rewrite (Hc0 eq_refl).
    destruct (f_cl st) as [v|] eqn:Ecl; rewrite Hcl.
    + destruct (all_digits v && (blen v <=? max_str_digits)%N); [|discriminate H]. injection H as <- <-. reflexivity.
    + injection H as <- <-. reflexivity.
Qed.

(* contrapositive: ambiguous or malformed framing is never accepted *)
Theorem malformed_framing_refused : forall hs ver,
    rfc_framing hs ver = None -> exists e, set_body_reader hs ver = inr e.
Proof.
  intros hs ver H. destruct (set_body_reader hs ver) as [[f mc]|e] eqn:E; [|eauto].
  rewrite (framing_sound _ _ _ _ E) in H. discriminate.
Qed.

(* each class named by the property makes the declarative rules say "malformed" *)
Lemma forallb_known_false cs v : In v cs -> known v = false -> forallb known cs = false.
Proof.
  induction cs as [|x t IH]; intros Hin Hk; [destruct Hin|]. cbn. destruct Hin as [->|Hin]; [rewrite Hk; reflexivity|].
  rewrite (IH Hin Hk). apply andb_false_r.
Qed.

Theorem class_cl_with_chunked hs ver : cl_with_chunked hs -> rfc_framing hs ver = None.
Proof.
  intros [Hc Hl]. unfold rfc_framing. destruct (negb (forallb known (codings hs))); [reflexivity|]. rewrite Hc.
  destruct (values_of n_cl hs); [congruence|]. cbn [length Nat.eqb]. rewrite !andb_false_r. reflexivity.
Qed.
Theorem class_repeated_cl hs ver : repeated_cl hs -> rfc_framing hs ver = None.
Proof.
  intros Hl. unfold repeated_cl in Hl. unfold rfc_framing. destruct (negb (forallb known (codings hs))); [reflexivity|].
  destruct (values_of n_cl hs) as [|a [|b t]]; cbn [length] in Hl; try lia.
  destruct (count_chunked (codings hs)) as [|[|n]]; [reflexivity| |reflexivity].
  cbn [length Nat.eqb]. rewrite !andb_false_r. reflexivity.
Qed.
Theorem class_non_digit_cl hs ver : non_digit_cl hs -> rfc_framing hs ver = None.
Proof.
  intros (v & Hv & Hd). unfold rfc_framing. destruct (negb (forallb known (codings hs))); [reflexivity|]. rewrite Hv.
  destruct (count_chunked (codings hs)) as [|[|n]]; [rewrite Hd; reflexivity| |reflexivity].
  cbn [length Nat.eqb]. rewrite !andb_false_r. reflexivity.
Qed.
Theorem class_chunked_not_last hs ver : chunked_not_last hs -> rfc_framing hs ver = None.
Proof.
  intros [Hc Hl]. unfold rfc_framing. destruct (negb (forallb known (codings hs))); [reflexivity|]. rewrite Hc, Hl. reflexivity.
Qed.
Theorem class_chunked_repeated hs ver : chunked_repeated hs -> rfc_framing hs ver = None.
Proof.
  intros Hc. unfold chunked_repeated in Hc. unfold rfc_framing. destruct (negb (forallb known (codings hs))); [reflexivity|].
  destruct (count_chunked (codings hs)) as [|[|n]]; try lia. reflexivity.
Qed.
Theorem class_unknown_coding hs ver : unknown_coding hs -> rfc_framing hs ver = None.
Proof.
  intros (v & Hin & Hk). unfold rfc_framing. rewrite (forallb_known_false _ _ Hin Hk). reflexivity.
Qed.
Theorem class_chunked_on_http10 hs ver : chunked_on_http10 hs ver -> rfc_framing hs ver = None.
Proof.
  intros [Hc Hv]. unfold rfc_framing. destruct (negb (forallb known (codings hs))); [reflexivity|]. rewrite Hc, Hv.
  rewrite andb_false_r. reflexivity.
Qed.
