(* C01, chunked bodies: whatever the chunked reader delivers as a complete body is exactly what the
   RFC 9112 section 7.1 grammar assigns to the stream -
     chunked-body = *chunk last-chunk trailer-section CRLF
     chunk        = chunk-size [ chunk-ext ] CRLF chunk-data CRLF      (chunk-size = 1*HEXDIG)
   - same bytes, same end of message. *)
From Coq Require Import List NArith ZArith Bool Lia Arith.
From GV Require Import Base.Bytes Base.Scan Base.PyStr Gen.GenParser Model.Parser Proof.TakeDrop Proof.ParserHead
     Proof.ChunkedSteps Proof.ChunkedDecode Proof.LengthReader.
Import ListNotations.
Local Open Scope N_scope.

(* chunk-size [ BWS chunk-ext ] : the size is 1*HEXDIG; an extension starts with ";" after optional
   whitespace; no CR or LF anywhere in the line *)
Definition strict_size_line (line : bytes) (n : N) : Prop :=
  mem 13 line = false /\ mem 10 line = false /\
  exists sz ext, line = sz ++ ext /\ sz <> [] /\ forallb is_hexdigit sz = true /\ n = hex_value sz /\
                 (ext = [] \/ exists bws rest, ext = bws ++ 59 :: rest /\ forallb is_ows bws = true).

(* [line] is what precedes the first CRLF of [s], [rest] what follows it *)
Definition first_line (s line rest : bytes) : Prop :=
  find_pat CRLF s = Some (length line) /\ s = line ++ CRLF ++ rest.

(* trailer-section CRLF: empty, or field lines up to the first empty line *)
Definition trailer_end (rest after : bytes) : Prop :=
  rest = CRLF ++ after \/
  (prefixb CRLF rest = false /\ exists block, find_pat CRLFCRLF rest = Some (length block) /\ rest = block ++ CRLFCRLF ++ after).

Inductive rfc_chunked : bytes -> bytes -> bytes -> Prop :=      (* stream, body, what follows the message *)
| rc_last s line rest after :
    first_line s line rest -> strict_size_line line 0 -> trailer_end rest after -> rfc_chunked s [] after
| rc_chunk s line n data s' D after :
    first_line s line (data ++ CRLF ++ s') -> strict_size_line line n -> 0 < n -> blen data = n ->
    rfc_chunked s' D after -> rfc_chunked s (data ++ D) after.

(* ---- list facts ---- *)
Lemma find_char_split c : forall l j, find_char c l = Some j -> l = firstn j l ++ c :: skipn (S j) l.
Proof.
  induction l as [|x t IH]; intros j H; [discriminate|]. cbn [find_char] in H.
  destruct (x =? c) eqn:E.
  - injection H as <-. apply N.eqb_eq in E. subst. reflexivity.
  - destruct (find_char c t) as [k|] eqn:Ek; [|discriminate]. injection H as <-. cbn. f_equal. apply IH. reflexivity.
Qed.
Lemma lstrip_split f : forall l, exists pre, l = pre ++ lstrip f l /\ forallb f pre = true.
Proof.
  induction l as [|x t IH]; [exists []; auto|]. cbn [lstrip]. destruct (f x) eqn:E.
  - destruct IH as (pre & H1 & H2). exists (x :: pre). cbn. rewrite E, H2. split; [f_equal; exact H1|reflexivity].
  - exists []. auto.
Qed.
Lemma forallb_rev' {A} (f : A -> bool) l : forallb f (rev l) = forallb f l.
Proof. induction l as [|x t IH]; cbn; [reflexivity|]. rewrite forallb_app, IH. cbn. rewrite andb_true_r. apply andb_comm. Qed.
Lemma rstrip_split f l : exists suf, l = rstrip f l ++ suf /\ forallb f suf = true.
Proof.
  unfold rstrip. destruct (lstrip_split f (rev l)) as (pre & H1 & H2).
  exists (rev pre). split; [|rewrite forallb_rev'; exact H2].
  rewrite <- rev_app_distr, <- H1, rev_involutive. reflexivity.
Qed.
Lemma find_pat_split p : forall s i, find_pat p s = Some i -> s = firstn i s ++ p ++ skipn (i + length p) s.
Proof.
  intros s i H. pose proof (find_pat_sound _ _ _ H) as Hs. apply prefixb_spec in Hs as [t Ht].
  rewrite <- (firstn_skipn i s) at 1. f_equal. rewrite Ht. f_equal.
  rewrite Nat.add_comm, <- skipn_skipn, Ht. rewrite skipn_app, skipn_all, Nat.sub_diag. reflexivity.
Qed.

(* ---- what a size line accepted by parse_chunk_size looks like ---- *)
Definition lim_of (c : cfg) := max_buffer_headers c.
Lemma zsize_unfold c s :
  zsize c s = zs_of_cut c (abs_cut (find_pat CRLF) (cap_over (lim_of c)) 2 (cap_post (lim_of c) 2) s).
Proof.
  unfold zsize. rewrite parse_chunk_size_cut.
  rewrite (scan_canon (find_pat CRLF) (cap_over (max_buffer_headers c)) 2 2 (cap_post (max_buffer_headers c) 2)
             (find_pat_stable CRLF) crlf_late crlf_bound (cap_over_mono _) (cap_early _ 2)).
  cbn [concat]. rewrite app_nil_r. reflexivity.
Qed.

Lemma zs_line_strict c line rest k :
  match zs_line c line rest k with
  | ZChunk n r => r = rest /\ strict_size_line line n /\ 0 < n
  | ZLast a tr => strict_size_line line 0 /\ k rest = inl (a, tr)
  | ZErr _ => True
  end.
Proof.
  unfold zs_line. destruct (mem 13 line || mem 10 line) eqn:Em; [exact I|]. apply orb_false_elim in Em as [E13 E10].
  set (sz := match find_char 59 line with Some j => rstrip is_ows (firstn j line) | None => line end).
  assert (Hshape : exists ext, line = sz ++ ext /\ (ext = [] \/ exists bws r, ext = bws ++ 59 :: r /\ forallb is_ows bws = true)).
  { unfold sz. destruct (find_char 59 line) as [j|] eqn:Ef.
    - destruct (rstrip_split is_ows (firstn j line)) as (suf & H1 & H2).
      exists (suf ++ 59 :: skipn (S j) line). split.
      + rewrite app_assoc, <- H1. apply find_char_split. exact Ef.
      + right. exists suf, (skipn (S j) line). auto.
    - exists []. rewrite app_nil_r. auto. }
  destruct (negb (hexdigits_ok sz)) eqn:Eh; [exact I|]. apply negb_false_iff in Eh.
  destruct sz as [|z sz'] eqn:Esz; [exact I|].
  destruct Hshape as (ext & Hl & Hext).
  assert (Hstrict : forall n, n = hex_value (z :: sz') -> strict_size_line line n).
  { intros n Hn. split; [exact E13|]. split; [exact E10|]. exists (z :: sz'), ext. repeat split; auto. discriminate. }
  destruct (hex_value (z :: sz') =? 0) eqn:E0.
  - apply N.eqb_eq in E0. destruct (k rest) as [[a tr]|e] eqn:Ek; [|exact I]. split; [apply Hstrict; symmetry; exact E0|reflexivity].
  - apply N.eqb_neq in E0. split; [reflexivity|]. split; [apply Hstrict; reflexivity|lia].
Qed.

Lemma abs_cut_found find over wb post s i pre rest :
  abs_cut find over wb post s = CFound i pre rest -> find s = Some i /\ pre = firstn (i + wb) s /\ rest = skipn (i + wb) s.
Proof.
  unfold abs_cut. destruct (find s) as [j|]; [|destruct (over _); discriminate].
  destruct (post j); [discriminate|]. intros [= <- <- <-]. auto.
Qed.

Lemma zsize_chunk_shape c s n rest : zsize c s = ZChunk n rest ->
  exists line, first_line s line rest /\ strict_size_line line n /\ 0 < n.
Proof.
  rewrite zsize_unfold. destruct (abs_cut _ _ 2 _ s) as [i pre r| |] eqn:Ec; cbn [zs_of_cut]; try discriminate.
  apply abs_cut_found in Ec as (Hf & -> & ->).
  pose proof (zs_line_strict c (firstn i (firstn (i + 2) s)) (skipn (i + 2) s) (fun r => canonT (parse_trailers c r []))) as Hz.
  intros H. rewrite H in Hz. destruct Hz as (Hr & Hs & Hn). subst rest.
  rewrite firstn_firstn in Hs. replace (Nat.min i (i + 2)) with i in Hs by lia.
  pose proof (crlf_bound _ _ Hf) as Hb.
  exists (firstn i s). split; [|auto]. split.
  - rewrite firstn_length. replace (Nat.min i (length s)) with i by lia. exact Hf.
  - apply (find_pat_split CRLF). exact Hf.
Qed.

Lemma trailers_shape c rest a tr : canonT (parse_trailers c rest []) = inl (a, tr) -> rest <> [] -> trailer_end rest a \/ a = [].
Proof.
  rewrite parse_trailers_cut.
  rewrite (scan_canon hdr_find (cap_over (max_buffer_headers c)) 4 2 (hdr_post (max_buffer_headers c))
             hdr_find_stable hdr_find_late hdr_find_bound (cap_over_mono _) (hdr_early _ (max_buffer_headers_ge4 c))).
  cbn [concat]. rewrite app_nil_r. intros H _.
  destruct (abs_cut _ _ 2 _ rest) as [i pre r| |] eqn:Ec; cbn [tr_of_cut] in H; try discriminate.
  - apply abs_cut_found in Ec as (Hf & -> & ->).
    destruct (hdr_found_shape _ _ Hf) as [[Hd ->]|(Hd & Hp & Hb)].
    + rewrite prefixb_firstn in H by (cbn; lia). rewrite Hd in H. injection H as <- <-. left. left.
      apply prefixb_spec in Hd as [t ->]. reflexivity.
    + rewrite prefixb_firstn in H by (cbn; lia). rewrite Hd in H.
      destruct (parse_headers c true false _) as [[hs hh]|e]; [|discriminate]. injection H as <- <-.
      left. right. split; [exact Hd|]. exists (firstn i rest). split.
      * rewrite firstn_length. replace (Nat.min i (length rest)) with i by lia. exact Hp.
      * change (match skipn (i + 2) rest with _ :: _ :: l0 => l0 | _ => [] end) with (skipn 2 (skipn (i + 2) rest)).
        rewrite skipn_skipn. replace (2 + (i + 2))%nat with (i + 4)%nat by lia. apply (find_pat_split CRLFCRLF). exact Hp.
  - injection H as <- <-. right. reflexivity.
Qed.

Lemma zsize_last_shape c s a tr : zsize c s = ZLast a tr ->
  exists line rest, first_line s line rest /\ strict_size_line line 0 /\ (trailer_end rest a \/ a = []).
Proof.
  rewrite zsize_unfold. destruct (abs_cut _ _ 2 _ s) as [i pre r| |] eqn:Ec; cbn [zs_of_cut]; try discriminate.
  apply abs_cut_found in Ec as (Hf & -> & ->).
  pose proof (zs_line_strict c (firstn i (firstn (i + 2) s)) (skipn (i + 2) s) (fun r => canonT (parse_trailers c r []))) as Hz.
  intros H. rewrite H in Hz. destruct Hz as (Hs & Hk).
  rewrite firstn_firstn in Hs. replace (Nat.min i (i + 2)) with i in Hs by lia.
  pose proof (crlf_bound _ _ Hf) as Hb.
  exists (firstn i s), (skipn (i + 2) s). split; [split|split; [exact Hs|]].
  - rewrite firstn_length. replace (Nat.min i (length s)) with i by lia. exact Hf.
  - apply (find_pat_split CRLF). exact Hf.
  - destruct (skipn (i + 2) s) as [|x t] eqn:Er.
    + (* nothing after the last-chunk line: the trailer scan meets EOF at once *)
      right. cbn in Hk. unfold parse_trailers in Hk. cbn in Hk.
      unfold hdr_find in Hk. cbn in Hk. unfold cap_over in Hk.
      destruct (max_buffer_headers c <=? N.of_nat 0) eqn:E0; cbn in Hk; [discriminate|]. injection Hk as <- _. reflexivity.
    + apply (trailers_shape c _ _ _ Hk). discriminate.
Qed.

Lemma beq_crlf_split s : beq (firstn 2 s) CRLF = true -> s = CRLF ++ skipn 2 s.
Proof. intros H. apply beq_true in H. rewrite <- H. symmetry. apply firstn_skipn. Qed.

Definition sound_at (a : astate) (D : bytes) (after : bytes) : Prop :=
  match a with
  | AStart s => rfc_chunked s D after \/ after = []
  | AData n s => 0 < n -> exists data s', s = data ++ CRLF ++ s' /\ blen data = n /\
                            exists D', D = data ++ D' /\ (rfc_chunked s' D' after \/ after = [])
  | ATerm s => exists s', s = CRLF ++ s' /\ (rfc_chunked s' D after \/ after = [])
  | ADead _ => True
  end.

Theorem decodes_sound c : forall a D T, decodes c a D T -> forall after tr, T = DStop after tr -> sound_at a D after.
Proof.
  induction 1; intros after tr0 HT; cbn [sound_at]; try discriminate HT; auto.
  - (* AStart, chunk *)
    destruct (zsize_chunk_shape _ _ _ _ H) as (line & Hfl & Hsl & Hn).
    destruct (IHdecodes _ _ HT Hn) as (data & s' & -> & Hb & D' & -> & Hr).
    destruct Hr as [Hr|Hr]; [left|right; exact Hr]. eapply rc_chunk; eassumption.
  - (* AStart, last *)
    injection HT as <- <-. destruct (zsize_last_shape _ _ _ _ H) as (line & rest & Hfl & Hsl & Ht).
    destruct Ht as [Ht|Ht]; [left|right; exact Ht]. eapply rc_last; eassumption.
  - (* AData, complete chunk *)
    intros Hl. destruct (IHdecodes _ _ HT) as (s' & Hs' & Hr).
    exists (takeN l s), s'. split; [rewrite <- Hs'; symmetry; apply takeN_dropN|]. split; [rewrite blen_takeN; lia|].
    exists D. auto.
  - (* ATerm, chunk *)
    exists (skipn 2 s). split; [apply beq_crlf_split; exact H|].
    destruct (zsize_chunk_shape _ _ _ _ H0) as (line & Hfl & Hsl & Hn).
    destruct (IHdecodes _ _ HT Hn) as (data & s' & -> & Hb & D' & -> & Hr).
    destruct Hr as [Hr|Hr]; [left|right; exact Hr]. eapply rc_chunk; eassumption.
  - (* ATerm, last *)
    injection HT as <- <-. exists (skipn 2 s). split; [apply beq_crlf_split; exact H|].
    destruct (zsize_last_shape _ _ _ _ H0) as (line & rest & Hfl & Hsl & Ht).
    destruct Ht as [Ht|Ht]; [left|right; exact Ht]. eapply rc_last; eassumption.
Qed.

(* The body a chunked request delivers, and the offset where the message ends, are those of the RFC
   grammar - or the stream ended inside the trailer section and nothing follows at all. *)
Theorem chunked_body_is_rfc : forall c s D after tr,
    decodes c (AStart s) D (DStop after tr) -> rfc_chunked s D after \/ after = [].
Proof. intros c s D after tr H. exact (decodes_sound c _ _ _ H after tr eq_refl). Qed.

(* the RFC reading itself is unambiguous about where a message ends *)
Lemma rfc_chunked_length : forall s D after, rfc_chunked s D after -> (length after <= length s)%nat.
Proof.
  induction 1 as [s line rest after [_ Hs] _ Ht|s line n data s' D after [_ Hs] _ _ _ _ IH].
  - subst s. rewrite !app_length. destruct Ht as [->|(_ & block & _ & ->)]; rewrite !app_length; lia.
  - subst s. rewrite !app_length. lia.
Qed.
