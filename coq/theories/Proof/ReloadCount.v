(* C10 - num_workers is the configured number after every reload, whatever TTIN / TTOU did to it before.
   Only Arbiter.reload (Model/Reload.v [reload]) writes num, cfgw, cfgid, ncfg; every other transition keeps them. *)
From Coq Require Import List ZArith Bool Lia.
From GV Require Import Gen.GenArbiter Model.Reload.
Import ListNotations.
Local Open Scope Z_scope.

(* at least one reload has happened <-> cfgid > 0 (cfgid is the index of the Config object in force; 0 = the one loaded at start) *)
Definition CInv (s : st) : Prop :=
  1 <= ncfg s /\ 0 <= cfgid s < ncfg s /\ (0 < cfgid s -> num s = cfgw s).

(* the stronger form for a pool nobody resized *)
Definition CInv0 (s : st) : Prop := num s = cfgw s.

Definition same_cf (s s' : st) : Prop :=
  num s' = num s /\ cfgw s' = cfgw s /\ cfgid s' = cfgid s /\ ncfg s' = ncfg s.

Lemma same_cf_refl : forall s, same_cf s s.
Proof. unfold same_cf; auto. Qed.

Lemma same_cf_trans : forall a b c, same_cf a b -> same_cf b c -> same_cf a c.
Proof. unfold same_cf. intros a b c [A1 [A2 [A3 A4]]] [B1 [B2 [B3 B4]]]. repeat split; congruence. Qed.

Lemma kill_worker_cf : forall s p sg, same_cf s (kill_worker s p sg).
Proof. intros. unfold kill_worker. destruct (kill_in (kids s) p sg); unfold same_cf; simpl; auto. Qed.

Lemma begin_spawn_cf : forall s k, same_cf s (begin_spawn s k).
Proof. intros. unfold begin_spawn, same_cf. simpl. auto. Qed.

Lemma manage_kill_next_cf : forall s v, same_cf s (manage_kill_next s v).
Proof. intros. unfold manage_kill_next, to_loop, same_cf. destruct v; simpl; auto. Qed.

Lemma after_register_cf : forall s k, same_cf s (after_register s k).
Proof.
  intros. unfold after_register. destruct k as [n|n].
  - unfold same_cf; simpl; auto.
  - destruct n; [unfold same_cf; simpl; auto | apply begin_spawn_cf].
Qed.

(* one step of the master: either nothing of the four changes, or a reload was dispatched *)
Definition reloaded (s s' : st) : Prop :=
  num s' = cfgw s' /\ cfgid s' = ncfg s /\ ncfg s' = ncfg s + 1.

Lemma dispatch_cf : forall s sg, same_cf s (dispatch s sg) \/ reloaded s (dispatch s sg).
Proof.
  intros. unfold dispatch. destruct (sg =? SIGHUP).
  - right. unfold reloaded. destruct (Z.to_nat (cfgw (reload s))); unfold begin_spawn; simpl; auto.
  - left. unfold to_loop, same_cf; simpl; auto.
Qed.

Lemma master_cf : forall s, same_cf s (master s) \/ reloaded s (master s).
Proof.
  intros s. unfold master. destruct (cur s) as [| | | |age k|p age k|n| |v].
  - destruct (sigq s) as [|sg q].
    + left. unfold same_cf; simpl; auto.
    + destruct (dispatch_cf (set_sigq s q) sg) as [H|H]; [left|right].
      * eapply same_cf_trans; [|exact H]. unfold same_cf; simpl; auto.
      * unfold reloaded in *. simpl in H. exact H.
  - left. unfold same_cf; simpl; auto.
  - left. destruct (wlen s <? num s); unfold same_cf; simpl; auto.
  - left. destruct (num s - wlen s <=? 0); [unfold same_cf; simpl; auto | apply begin_spawn_cf].
  - left. unfold same_cf; simpl; auto.
  - left. eapply same_cf_trans; [|apply after_register_cf]. unfold same_cf; simpl; auto.
  - left. destruct n; [unfold same_cf; simpl; auto | apply begin_spawn_cf].
  - left. apply manage_kill_next_cf.
  - left. destruct v as [|p v].
    + unfold to_loop, same_cf; simpl; auto.
    + eapply same_cf_trans; [apply kill_worker_cf | apply manage_kill_next_cf].
Qed.

Lemma reap_cf : forall fuel s, same_cf s (reap fuel s).
Proof.
  induction fuel as [|f IH]; intros s; simpl; [apply same_cf_refl|].
  destruct (first_zombie (kids s)) as [[z rest]|]; [|apply same_cf_refl].
  eapply same_cf_trans; [|apply IH]. unfold same_cf; simpl; auto.
Qed.

Lemma step_cf : forall s l, same_cf s (step s l) \/ reloaded s (step s l).
Proof.
  intros s l. destruct l as [| |p status|p| |w a]; simpl.
  - apply master_cf.
  - left. apply reap_cf.
  - left. unfold same_cf; simpl; auto.
  - left. unfold same_cf; simpl; auto.
  - left. destruct (Z.of_nat (length (sigq s)) <? sig_queue_max); unfold same_cf; simpl; auto.
  - left. destruct (0 <=? w); unfold same_cf; simpl; auto.
Qed.

Lemma step_cinv : forall s l, CInv s -> CInv (step s l).
Proof.
  intros s l [N [C H]]. destruct (step_cf s l) as [[A1 [A2 [A3 A4]]]|[R1 [R2 R3]]]; unfold CInv.
  - rewrite A1, A2, A3, A4. auto.
  - rewrite R2, R3. split; [lia|]. split; [lia|]. intros _. exact R1.
Qed.

Lemma step_cinv0 : forall s l, CInv0 s -> CInv0 (step s l).
Proof.
  intros s l H. unfold CInv0 in *. destruct (step_cf s l) as [[A1 [A2 [A3 A4]]]|[R1 [R2 R3]]]; congruence.
Qed.

Lemma run_cinv : forall ls s, CInv s -> CInv (run s ls).
Proof. induction ls as [|l t IH]; simpl; intros s H; auto. apply IH. apply step_cinv. exact H. Qed.

Lemma run_cinv0 : forall ls s, CInv0 s -> CInv0 (run s ls).
Proof. induction ls as [|l t IH]; simpl; intros s H; auto. apply IH. apply step_cinv0. exact H. Qed.

(* for ANY schedule (deaths included): once a reload has happened, num_workers is cfg.workers of the configuration in force *)
Theorem count_after_reload : forall n k a ls,
  let s := run (init_resized n k a) ls in 0 < cfgid s -> num s = cfgw s.
Proof.
  intros n k a ls s. assert (H : CInv s).
  { apply run_cinv. unfold CInv, init_resized. simpl. repeat split; lia. }
  destruct H as [_ [_ H]]. exact H.
Qed.

Theorem count_unresized : forall n a ls, num (run (init n a) ls) = cfgw (run (init n a) ls).
Proof. intros. apply run_cinv0. reflexivity. Qed.

(* a reload is what makes cfgid positive: the dispatch of SIGHUP installs Config object number ncfg >= 1 *)
Lemma reload_marks : forall s q, CInv s -> cur s = PSigq -> sigq s = SIGHUP :: q -> 0 < cfgid (master s).
Proof.
  intros s q [N _] C Q. unfold master. rewrite C, Q. unfold dispatch. rewrite Z.eqb_refl.
  destruct (Z.to_nat (cfgw (reload (set_sigq s q)))); unfold begin_spawn; simpl; lia.
Qed.
