(* C10 - num_workers is the configured number after every reload, whatever TTIN / TTOU did to it before.
   Apart from the dispatch of TTIN / TTOU (num + 1 / num - 1), only Arbiter.reload (Model/Reload.v [reload]) writes num, cfgw,
   cfgid, ncfg; every other transition keeps them. *)
From Coq Require Import List ZArith Bool Lia.
From GV Require Import Gen.GenArbiter Model.Reload.
Import ListNotations.
Local Open Scope Z_scope.

(* at least one reload has happened <-> cfgid > 0 (cfgid is the index of the Config object in force; 0 = the one loaded at start) *)
Definition quiet_q (s : st) : Prop := forall sg, In sg (sigq s) -> sg <> SIGTTIN /\ sg <> SIGTTOU.

Definition CInv (s : st) : Prop :=
  quiet_q s /\ 1 <= ncfg s /\ 0 <= cfgid s < ncfg s /\ (0 < cfgid s -> num s = cfgw s).

(* the stronger form for a pool nobody resized *)
Definition CInv0 (s : st) : Prop := quiet_q s /\ num s = cfgw s.

(* no TTIN / TTOU arrives during the schedule (before it: init_resized) *)
Fixpoint no_resize (ls : list label) : bool :=
  match ls with
  | [] => true
  | Ttin :: _ | Ttou :: _ => false
  | _ :: t => no_resize t
  end.

Definition same_cf (s s' : st) : Prop :=
  num s' = num s /\ cfgw s' = cfgw s /\ cfgid s' = cfgid s /\ ncfg s' = ncfg s.

Lemma same_cf_refl : forall s, same_cf s s.
Proof. unfold same_cf; auto. Qed.

Lemma same_cf_trans : forall a b c, same_cf a b -> same_cf b c -> same_cf a c.
Proof. unfold same_cf. intros a b c [A1 [A2 [A3 A4]]] [B1 [B2 [B3 B4]]]. repeat split; congruence. Qed.

Lemma kill_worker_cf : forall s p sg, same_cf s (kill_worker s p sg).
Proof. intros. unfold kill_worker. destruct (kill_in (kids s) p sg); unfold same_cf; simpl; auto. Qed.

Lemma begin_spawn_cf : forall s k, same_cf s (begin_spawn s k).
Proof. intros. unfold begin_spawn, same_cf. simpl. auto. Qed.

Lemma manage_kill_next_cf : forall s v, same_cf s (manage_kill_next s v).
Proof. intros. unfold manage_kill_next, to_loop, same_cf. destruct v; simpl; auto. Qed.

Lemma after_register_cf : forall s k, same_cf s (after_register s k).
Proof.
  intros. unfold after_register. destruct k as [n|n].
  - unfold same_cf; simpl; auto.
  - destruct n; [unfold same_cf; simpl; auto | apply begin_spawn_cf].
Qed.

(* one step of the master: either nothing of the four changes, or a reload was dispatched *)
Definition reloaded (s s' : st) : Prop :=
  num s' = cfgw s' /\ cfgid s' = ncfg s /\ ncfg s' = ncfg s + 1.

Lemma dispatch_cf : forall s sg, sg <> SIGTTIN -> sg <> SIGTTOU -> same_cf s (dispatch s sg) \/ reloaded s (dispatch s sg).
Proof.
  intros s sg N1 N2. unfold dispatch. destruct (sg =? SIGHUP).
  - right. unfold reloaded. destruct (Z.to_nat (cfgw (reload s))); unfold begin_spawn; simpl; auto.
  - apply Z.eqb_neq in N1. apply Z.eqb_neq in N2. rewrite N1, N2. left. unfold to_loop, same_cf; simpl; auto.
Qed.

Definition same_q (s s' : st) : Prop := forall sg, In sg (sigq s') -> In sg (sigq s).

Lemma master_cf : forall s, quiet_q s -> same_cf s (master s) \/ reloaded s (master s).
Proof.
  intros s Hq. unfold master. destruct (cur s) as [| | | |age k|p age k|n| |v].
  - destruct (sigq s) as [|sg q] eqn:Q.
    + left. unfold same_cf; simpl; auto.
    + destruct (Hq sg) as [N1 N2]; [rewrite Q; left; reflexivity|].
      destruct (dispatch_cf (set_sigq s q) sg N1 N2) as [H|H]; [left|right].
      * eapply same_cf_trans; [|exact H]. unfold same_cf; simpl; auto.
      * unfold reloaded in *. simpl in H. exact H.
  - left. unfold same_cf; simpl; auto.
  - left. destruct (wlen s <? num s); unfold same_cf; simpl; auto.
  - left. destruct (num s - wlen s <=? 0); [unfold same_cf; simpl; auto | apply begin_spawn_cf].
  - left. unfold same_cf; simpl; auto.
  - left. eapply same_cf_trans; [|apply after_register_cf]. unfold same_cf; simpl; auto.
  - left. destruct n; [unfold same_cf; simpl; auto | apply begin_spawn_cf].
  - left. apply manage_kill_next_cf.
  - left. destruct v as [|p v].
    + unfold to_loop, same_cf; simpl; auto.
    + eapply same_cf_trans; [apply kill_worker_cf | apply manage_kill_next_cf].
Qed.

Lemma reap_cf : forall fuel s, same_cf s (reap fuel s).
Proof.
  induction fuel as [|f IH]; intros s; simpl; [apply same_cf_refl|].
  destruct (first_zombie (kids s)) as [[z rest]|]; [|apply same_cf_refl].
  eapply same_cf_trans; [|apply IH]. unfold same_cf; simpl; auto.
Qed.

(* ---- the queue: the master only ever pops it ------------------------------------------------------------------------------ *)
Lemma kill_worker_q : forall s p sg, sigq (kill_worker s p sg) = sigq s.
Proof. intros. unfold kill_worker. destruct (kill_in (kids s) p sg); reflexivity. Qed.
Lemma begin_spawn_q : forall s k, sigq (begin_spawn s k) = sigq s.
Proof. reflexivity. Qed.
Lemma manage_kill_next_q : forall s v, sigq (manage_kill_next s v) = sigq s.
Proof. intros. unfold manage_kill_next, to_loop. destruct v; reflexivity. Qed.
Lemma after_register_q : forall s k, sigq (after_register s k) = sigq s.
Proof. intros. unfold after_register. destruct k as [n|n]; [reflexivity|]. destruct n; reflexivity. Qed.

Lemma dispatch_q : forall s sg, sigq (dispatch s sg) = sigq s.
Proof.
  intros. unfold dispatch. destruct (sg =? SIGHUP).
  - destruct (Z.to_nat (cfgw (reload s))); reflexivity.
  - destruct (sg =? SIGTTIN); [reflexivity|]. destruct (sg =? SIGTTOU); [|reflexivity].
    destruct (num s <=? 1); reflexivity.
Qed.

Lemma master_q : forall s, same_q s (master s).
Proof.
  intros s sg. unfold master. destruct (cur s) as [| | | |age k|p age k|n| |v].
  - destruct (sigq s) as [|x q] eqn:Q.
    + simpl. rewrite Q. auto.
    + rewrite dispatch_q. simpl. intros H. right. exact H.
  - simpl. auto.
  - destruct (wlen s <? num s); simpl; auto.
  - destruct (num s - wlen s <=? 0); [simpl; auto | rewrite begin_spawn_q; auto].
  - simpl. auto.
  - rewrite after_register_q. simpl. auto.
  - destruct n; [simpl; auto | rewrite begin_spawn_q; auto].
  - rewrite manage_kill_next_q. auto.
  - destruct v as [|p v].
    + simpl. auto.
    + rewrite manage_kill_next_q, kill_worker_q. auto.
Qed.

Lemma reap_q : forall fuel s, sigq (reap fuel s) = sigq s.
Proof.
  induction fuel as [|f IH]; intros s; simpl; [reflexivity|].
  destruct (first_zombie (kids s)) as [[z rest]|]; [|reflexivity]. rewrite IH. reflexivity.
Qed.

Lemma queue_quiet : forall s sg, sg <> SIGTTIN -> sg <> SIGTTOU -> quiet_q s -> quiet_q (queue_sig s sg).
Proof.
  intros s sg N1 N2 H. unfold queue_sig. destruct (Z.of_nat (length (sigq s)) <? sig_queue_max); auto.
  intros x Hx. simpl in Hx. apply in_app_or in Hx. destruct Hx as [Hx|[Hx|[]]]; [apply H; auto|]. subst x. auto.
Qed.

Definition resizes (l : label) : bool := match l with Ttin | Ttou => true | _ => false end.

Lemma step_quiet : forall s l, resizes l = false -> quiet_q s -> quiet_q (step s l).
Proof.
  intros s l R H. destruct l as [| |p status|p| |w a| |]; simpl; try discriminate.
  - intros sg Hsg. apply H. apply (master_q s sg Hsg).
  - unfold chld. intros sg Hsg. rewrite reap_q in Hsg. auto.
  - exact H.
  - exact H.
  - apply queue_quiet; auto; discriminate.
  - destruct (0 <=? w); exact H.
Qed.

Lemma step_cf : forall s l, resizes l = false -> quiet_q s -> same_cf s (step s l) \/ reloaded s (step s l).
Proof.
  intros s l R Hq. destruct l as [| |p status|p| |w a| |]; simpl; try discriminate.
  - apply master_cf; auto.
  - left. apply reap_cf.
  - left. unfold same_cf; simpl; auto.
  - left. unfold same_cf; simpl; auto.
  - left. unfold queue_sig. destruct (Z.of_nat (length (sigq s)) <? sig_queue_max); unfold same_cf; simpl; auto.
  - left. destruct (0 <=? w); unfold same_cf; simpl; auto.
Qed.

Lemma step_cinv : forall s l, resizes l = false -> CInv s -> CInv (step s l).
Proof.
  intros s l R [Q [N [C H]]]. pose proof (step_quiet s l R Q) as Q'.
  destruct (step_cf s l R Q) as [[A1 [A2 [A3 A4]]]|[R1 [R2 R3]]]; unfold CInv; (split; [exact Q'|]).
  - rewrite A1, A2, A3, A4. auto.
  - rewrite R2, R3. split; [lia|]. split; [lia|]. intros _. exact R1.
Qed.

Lemma step_cinv0 : forall s l, resizes l = false -> CInv0 s -> CInv0 (step s l).
Proof.
  intros s l R [Q H]. split; [apply step_quiet; auto|].
  destruct (step_cf s l R Q) as [[A1 [A2 [A3 A4]]]|[R1 [R2 R3]]]; congruence.
Qed.

Lemma no_resize_cons : forall l t, no_resize (l :: t) = true -> resizes l = false /\ no_resize t = true.
Proof. intros l t H. destruct l; simpl in *; try discriminate; auto. Qed.

Lemma run_cinv : forall ls s, no_resize ls = true -> CInv s -> CInv (run s ls).
Proof.
  induction ls as [|l t IH]; simpl; intros s N H; auto.
  destruct (no_resize_cons l t N) as [R N']. apply IH; auto. apply step_cinv; auto.
Qed.

Lemma run_cinv0 : forall ls s, no_resize ls = true -> CInv0 s -> CInv0 (run s ls).
Proof.
  induction ls as [|l t IH]; simpl; intros s N H; auto.
  destruct (no_resize_cons l t N) as [R N']. apply IH; auto. apply step_cinv0; auto.
Qed.

(* for ANY schedule without further TTIN / TTOU (deaths included), from a pool that TTIN / TTOU had resized: once a reload has
   happened, num_workers is cfg.workers of the configuration in force *)
Theorem count_after_reload : forall n k a ls, no_resize ls = true ->
  let s := run (init_resized n k a) ls in 0 < cfgid s -> num s = cfgw s.
Proof.
  intros n k a ls N s. assert (H : CInv s).
  { apply run_cinv; auto. unfold CInv, init_resized, quiet_q. simpl. repeat split; try lia; contradiction. }
  destruct H as [_ [_ [_ H]]]. exact H.
Qed.

Theorem count_unresized : forall n a ls, no_resize ls = true -> num (run (init n a) ls) = cfgw (run (init n a) ls).
Proof. intros n a ls N. apply run_cinv0; auto. split; [intros sg []|reflexivity]. Qed.

(* what the dispatch of each of the three signals does to the count, in any state *)
Theorem dispatch_counts : forall s,
  num (dispatch s SIGHUP) = disk_w s /\ cfgw (dispatch s SIGHUP) = disk_w s /\
  num (dispatch s SIGTTIN) = num s + 1 /\
  num (dispatch s SIGTTOU) = (if num s <=? 1 then num s else num s - 1) /\
  cfgw (dispatch s SIGTTIN) = cfgw s /\ cfgw (dispatch s SIGTTOU) = cfgw s.
Proof.
  intros s. unfold dispatch. cbn [Z.eqb SIGHUP SIGTTIN SIGTTOU Pos.eqb].
  repeat split.
  - destruct (Z.to_nat (cfgw (reload s))); reflexivity.
  - destruct (Z.to_nat (cfgw (reload s))); reflexivity.
  - destruct (num s <=? 1); reflexivity.
  - destruct (num s <=? 1); reflexivity.
Qed.

(* a reload is what makes cfgid positive: the dispatch of SIGHUP installs Config object number ncfg >= 1 *)
Lemma reload_marks : forall s q, CInv s -> cur s = PSigq -> sigq s = SIGHUP :: q -> 0 < cfgid (master s).
Proof.
  intros s q [_ [N _]] C Q. unfold master. rewrite C, Q. unfold dispatch. rewrite Z.eqb_refl.
  destruct (Z.to_nat (cfgw (reload (set_sigq s q)))); unfold begin_spawn; simpl; lia.
Qed.
