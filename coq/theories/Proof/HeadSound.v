(* C01 (a) for the request head, at stream level: whatever head the parser accepts - from any segmentation
   of the stream - is a strict RFC 9112 head of that stream: request line up to the first CRLF, field
   lines up to the first empty line, each strictly well formed, framing as the declarative rules say, and
   the body starts exactly after the empty line. *)
From Coq Require Import List NArith ZArith Bool Lia Arith.
From GV Require Import Base.Bytes Base.Scan Base.PyStr Gen.GenParser Model.Parser Spec.Rfc9112
     Proof.TakeDrop Proof.ParserHead Proof.ChunkedSteps Proof.ChunkedGrammar Proof.Framing Proof.HeadGrammar.
Import ListNotations.
Local Open Scope N_scope.

Definition safe_cfg (c : cfg) : Prop :=
  casefold_http_method c = false /\ permit_obsolete_folding c = false /\ strip_header_spaces c = false
  /\ proxy_protocol c = false.

Definition strict_head (c : cfg) (s : bytes) (r : request) (after : bytes) : Prop :=
  exists line,
    find_pat CRLF s = Some (length line) /\
    strict_request_line line (r_method r) (r_uri r) (r_version r) /\
    rfc_framing (r_headers r) (r_version r) = Some (r_framing r) /\
    ( (s = line ++ CRLF ++ CRLF ++ after /\ r_headers r = [])
      \/ exists block, s = line ++ CRLF ++ block ++ CRLFCRLF ++ after
                       /\ find_pat CRLFCRLF (block ++ CRLFCRLF ++ after) = Some (length block)
                       /\ forallb strict_field_line (split_crlf block) = true
                       (* the header list IS the list of these field lines (minus what header_map withholds) *)
                       /\ r_headers r = filter (kept c false) (map field_of_line (split_crlf block)) ).

Lemma read_line_whole lim s l rb p : read_line lim s [] = inl (l, rb, p) ->
  exists i, find_pat CRLF s = Some i /\ l = firstn i s /\ rb ++ concat p = skipn (i + 2) s.
Proof.
  intros H. pose proof (read_line_cut lim s []) as Hc. rewrite H in Hc. cbn [canon3] in Hc.
  rewrite (scan_canon (find_pat CRLF) (rl_over lim) 2 2 (rl_post lim) (find_pat_stable CRLF) crlf_late crlf_bound (rl_over_mono lim) (rl_early lim)) in Hc.
  cbn [concat] in Hc. rewrite app_nil_r in Hc.
  destruct (abs_cut _ _ 2 _ s) as [i pre r| |] eqn:Ec; cbn [rl_of_cut] in Hc; try discriminate.
  apply abs_cut_found in Ec as (Hf & -> & ->). injection Hc as -> ->.
  exists i. rewrite firstn_firstn. replace (Nat.min i (i + 2)) with i by lia. auto.
Qed.

Lemma header_stage_whole c rb p hs https p' : header_stage c rb p = inl (hs, https, p') ->
  let t := rb ++ concat p in
  (t = CRLF ++ u_abs p' /\ hs = []) \/
  (exists j, prefixb CRLF t = false /\ find_pat CRLFCRLF t = Some j /\ u_abs p' = skipn (j + 4) t
             /\ exists h, parse_headers c false (is_ssl c) (firstn j t) = inl (hs, h)).
Proof.
  intros H t. pose proof (header_stage_cut c rb p) as Hc. rewrite H in Hc. cbn [canonH] in Hc.
  rewrite (scan_canon hdr_find (cap_over (max_buffer_headers c)) 4 2 (hdr_post (max_buffer_headers c))
             hdr_find_stable hdr_find_late hdr_find_bound (cap_over_mono _) (hdr_early _ (max_buffer_headers_ge4 c))) in Hc.
  fold t in Hc.
  destruct (abs_cut _ _ 2 _ t) as [i pre r| |] eqn:Ec; cbn [hs_of_cut] in Hc; try discriminate.
  apply abs_cut_found in Ec as (Hf & -> & ->).
  destruct (hdr_found_shape _ _ Hf) as [[Hd ->]|(Hd & Hp & Hb)].
  - rewrite prefixb_firstn in Hc by (cbn; lia). rewrite Hd in Hc. injection Hc as <- _ Ha. left.
    split; [|reflexivity]. assert (Ha' : u_abs p' = skipn 2 t) by exact Ha. rewrite Ha'.
    apply prefixb_spec in Hd as [u Hu]. rewrite Hu. reflexivity.
  - rewrite prefixb_firstn in Hc by (cbn; lia). rewrite Hd in Hc. rewrite firstn_firstn in Hc.
    replace (Nat.min i (i + 2)) with i in Hc by lia.
    destruct (parse_headers c false (is_ssl c) (firstn i t)) as [[hs' h']|e] eqn:Ep; [|discriminate].
    injection Hc as <- _ Ha. right. exists i. split; [exact Hd|]. split; [exact Hp|]. split; [|eauto].
    assert (Ha' : u_abs p' = skipn 2 (skipn (i + 2) t)) by exact Ha. rewrite Ha'.
    rewrite skipn_skipn. f_equal. lia.
Qed.

Theorem accepted_head_is_strict : forall c x n s r p',
    safe_cfg c -> parse_request c x n (whole s) = inl (r, p') -> strict_head c s r (u_abs p').
Proof.
  intros c x n s r p' (Hcf & Hfold & Hstrip & Hpp) H.
  rewrite parse_request_from in H. destruct s as [|b s0]; [discriminate|]. cbn [whole] in H.
  set (s := b :: s0) in *. unfold parse_from in H.
  destruct (read_line (eff_line c) s []) as [[[l1 r1] p1]|e] eqn:E1; [|discriminate].
  destruct (read_line_whole _ _ _ _ _ E1) as (i & Hf & -> & Hr1).
  unfold proxy_stage in H. rewrite Hpp in H. cbn [andb] in H.
  destruct (parse_request_line c x (firstn i s)) as [[[m uri] ver]|e] eqn:E2; [|discriminate].
  destruct (header_stage c r1 p1) as [[[hs https] p4]|e] eqn:E3; [|discriminate].
  destruct (set_body_reader hs ver) as [[fr mc]|e] eqn:E4; [|discriminate].
  injection H as <- <-. cbn [r_method r_uri r_version r_headers r_framing].
  pose proof (crlf_bound _ _ Hf) as Hb.
  assert (Hs : s = firstn i s ++ CRLF ++ skipn (i + 2) s) by (apply (find_pat_split CRLF); exact Hf).
  exists (firstn i s). split; [rewrite firstn_length; replace (Nat.min i (length s)) with i by lia; exact Hf|].
  split; [eapply request_line_strict; eassumption|]. split; [eapply framing_sound; exact E4|].
  pose proof (header_stage_whole _ _ _ _ _ _ E3) as Hh. cbv zeta in Hh. rewrite Hr1 in Hh.
  destruct Hh as [[Ht ->]|(j & Hd & Hp & Ha & h & Eph)].
  - left. split; [|reflexivity]. rewrite Hs at 1. rewrite Ht. reflexivity.
  - right. exists (firstn j (skipn (i + 2) s)).
    pose proof (find_pat_bound _ _ _ Hp) as Hbj. cbn [length CRLFCRLF] in Hbj.
    assert (Hsplit : skipn (i + 2) s = firstn j (skipn (i + 2) s) ++ CRLFCRLF ++ u_abs p4).
    { rewrite Ha. apply (find_pat_split CRLFCRLF). exact Hp. }
    split; [rewrite Hs at 1; rewrite Hsplit at 1; reflexivity|]. split.
    + rewrite <- Hsplit. rewrite firstn_length. replace (Nat.min j (length (skipn (i + 2) s))) with j by lia. exact Hp.
    + split; [unfold parse_headers in Eph; eapply accepted_field_lines_strict; eassumption|].
      eapply parse_headers_are_the_lines; eassumption.
Qed.

(* ... and therefore from every segmentation *)
Corollary accepted_head_is_strict_any_segmentation : forall c x n p r p',
    NE p -> safe_cfg c -> parse_request c x n p = inl (r, p') -> strict_head c (u_abs p) r (u_abs p').
Proof.
  intros c x n p r p' Hne Hsafe H. pose proof (parse_request_indep c x n p Hne) as Hi. rewrite H in Hi. cbn [canon_req] in Hi.
  destruct (parse_request c x n (whole (u_abs p))) as [[r2 q]|e] eqn:E; cbn [canon_req] in Hi; [|discriminate].
  injection Hi as -> ->. eapply accepted_head_is_strict; eassumption.
Qed.

(* ---- the same with the PROXY protocol switched on: the first request of a connection may be preceded by one PROXY line ---- *)
Definition safe_cfg_px (c : cfg) : Prop :=
  casefold_http_method c = false /\ permit_obsolete_folding c = false /\ strip_header_spaces c = false.

Lemma read_line_any lim d p l rb p' : read_line lim d p = inl (l, rb, p') ->
  exists i, find_pat CRLF (d ++ concat p) = Some i /\ l = firstn i (d ++ concat p) /\ rb ++ concat p' = skipn (i + 2) (d ++ concat p).
Proof.
  intros H. pose proof (read_line_cut lim d p) as Hc. rewrite H in Hc. cbn [canon3] in Hc.
  rewrite (scan_canon (find_pat CRLF) (rl_over lim) 2 2 (rl_post lim) (find_pat_stable CRLF) crlf_late crlf_bound (rl_over_mono lim) (rl_early lim)) in Hc.
  destruct (abs_cut _ _ 2 _ (d ++ concat p)) as [i pre r| |] eqn:Ec; cbn [rl_of_cut] in Hc; try discriminate.
  apply abs_cut_found in Ec as (Hf & -> & ->). injection Hc as -> ->.
  exists i. rewrite firstn_firstn. replace (Nat.min i (i + 2)) with i by lia. auto.
Qed.

(* from the request line on: what the three remaining stages accept is a strict head of the text they were given *)
Lemma head_from_line : forall c x s i r1 p1 m uri ver hs https p4 fr mc pinfo,
    safe_cfg_px c -> s <> [] ->
    find_pat CRLF s = Some i -> r1 ++ concat p1 = skipn (i + 2) s ->
    parse_request_line c x (firstn i s) = inl (m, uri, ver) ->
    header_stage c r1 p1 = inl (hs, https, p4) -> set_body_reader hs ver = inl (fr, mc) ->
    strict_head c s {| r_method := m; r_uri := uri; r_version := ver; r_headers := hs; r_https := https;
                       r_proxy := pinfo; r_framing := fr; r_must_close := mc |} (u_abs p4).
Proof.
  intros c x s i r1 p1 m uri ver hs https p4 fr mc pinfo (Hcf & Hfold & Hstrip) Hne Hf Hr1 E2 E3 E4.
  cbn [r_method r_uri r_version r_headers r_framing].
  pose proof (crlf_bound _ _ Hf) as Hb.
  assert (Hs : s = firstn i s ++ CRLF ++ skipn (i + 2) s) by (apply (find_pat_split CRLF); exact Hf).
  exists (firstn i s). split; [rewrite firstn_length; replace (Nat.min i (length s)) with i by lia; exact Hf|].
  split; [eapply request_line_strict; eassumption|]. split; [eapply framing_sound; exact E4|].
  pose proof (header_stage_whole _ _ _ _ _ _ E3) as Hh. cbv zeta in Hh. rewrite Hr1 in Hh.
  destruct Hh as [[Ht ->]|(j & Hd & Hp & Ha & h & Eph)].
  - left. split; [|reflexivity]. rewrite Hs at 1. rewrite Ht. reflexivity.
  - right. exists (firstn j (skipn (i + 2) s)).
    pose proof (find_pat_bound _ _ _ Hp) as Hbj. cbn [length CRLFCRLF] in Hbj.
    assert (Hsplit : skipn (i + 2) s = firstn j (skipn (i + 2) s) ++ CRLFCRLF ++ u_abs p4).
    { rewrite Ha. apply (find_pat_split CRLFCRLF). exact Hp. }
    split; [rewrite Hs at 1; rewrite Hsplit at 1; reflexivity|]. split.
    + rewrite <- Hsplit. rewrite firstn_length. replace (Nat.min j (length (skipn (i + 2) s))) with j by lia. exact Hp.
    + split; [unfold parse_headers in Eph; eapply accepted_field_lines_strict; eassumption|].
      eapply parse_headers_are_the_lines; eassumption.
Qed.

(* an accepted request with the PROXY protocol on: either no PROXY line was taken and the head is a strict head of the
   stream, or the stream is one PROXY line (first request only, allowed peer only, well-formed addresses and ports) + CRLF +
   a stream of which the head is a strict head - and the declared addresses are exactly those of that line *)
Theorem accepted_head_is_strict_px : forall c x n s r p',
    safe_cfg_px c -> parse_request c x n (whole s) = inl (r, p') ->
    (r_proxy r = None /\ strict_head c s r (u_abs p'))
    \/ (exists pline s' info,
           proxy_protocol c = true /\ n = 1 /\ proxy_trusted c = true /\
           s = pline ++ CRLF ++ s' /\ find_pat CRLF s = Some (length pline) /\ prefixb s_PROXY pline = true /\
           parse_proxy_protocol x pline = inl info /\ r_proxy r = Some info /\ strict_head c s' r (u_abs p')).
Proof.
  intros c x n s r p' Hsafe H.
  rewrite parse_request_from in H. destruct s as [|b s0]; [discriminate|]. cbn [whole] in H.
  set (s := b :: s0) in *. unfold parse_from in H.
  destruct (read_line (eff_line c) s []) as [[[l1 r1] p1]|e] eqn:E1; [|discriminate].
  destruct (read_line_any _ _ _ _ _ _ E1) as (i & Hf & -> & Hr1). cbn [concat] in Hf, Hr1. rewrite app_nil_r in Hf, Hr1.
  rewrite app_nil_r in H.
  unfold proxy_stage in H.
  destruct (proxy_protocol c && (n =? 1) && prefixb s_PROXY (firstn i s)) eqn:Epx.
  - (* a PROXY line was taken *)
    apply andb_prop in Epx as [Epx Hpre]. apply andb_prop in Epx as [Hon Hn1]. apply N.eqb_eq in Hn1.
    destruct (negb (proxy_trusted c)) eqn:Etr; [discriminate|]. apply negb_false_iff in Etr.
    destruct (parse_proxy_protocol x (firstn i s)) as [info|e] eqn:Epp; [|discriminate].
    destruct (read_line (eff_line c) r1 p1) as [[[l2 r2] p2]|e] eqn:E1'; [|discriminate].
    destruct (read_line_any _ _ _ _ _ _ E1') as (i2 & Hf2 & -> & Hr2). rewrite Hr1 in Hf2, Hr2, H.
    destruct (parse_request_line c x (firstn i2 (skipn (i + 2) s))) as [[[m uri] ver]|e] eqn:E2; [|discriminate].
    destruct (header_stage c r2 p2) as [[[hs https] p4]|e] eqn:E3; [|discriminate].
    destruct (set_body_reader hs ver) as [[fr mc]|e] eqn:E4; [|discriminate].
    injection H as <- <-. right.
    pose proof (crlf_bound _ _ Hf) as Hb.
    exists (firstn i s), (skipn (i + 2) s), info. cbn [r_proxy].
    rewrite firstn_length. replace (Nat.min i (length s)) with i by lia.
    repeat split; try assumption; [apply (find_pat_split CRLF); exact Hf|].
    eapply head_from_line; try eassumption.
    intros Hnil. rewrite Hnil in Hf2. cbn in Hf2. discriminate.
  - destruct (parse_request_line c x (firstn i s)) as [[[m uri] ver]|e] eqn:E2; [|discriminate].
    destruct (header_stage c r1 p1) as [[[hs https] p4]|e] eqn:E3; [|discriminate].
    destruct (set_body_reader hs ver) as [[fr mc]|e] eqn:E4; [|discriminate].
    injection H as <- <-. left. split; [reflexivity|].
    eapply head_from_line; try eassumption. discriminate.
Qed.

Corollary accepted_head_is_strict_px_any_segmentation : forall c x n p r p',
    NE p -> safe_cfg_px c -> parse_request c x n p = inl (r, p') ->
    (r_proxy r = None /\ strict_head c (u_abs p) r (u_abs p'))
    \/ (exists pline s' info,
           proxy_protocol c = true /\ n = 1 /\ proxy_trusted c = true /\
           u_abs p = pline ++ CRLF ++ s' /\ find_pat CRLF (u_abs p) = Some (length pline) /\ prefixb s_PROXY pline = true /\
           parse_proxy_protocol x pline = inl info /\ r_proxy r = Some info /\ strict_head c s' r (u_abs p')).
Proof.
  intros c x n p r p' Hne Hsafe H. pose proof (parse_request_indep c x n p Hne) as Hi. rewrite H in Hi. cbn [canon_req] in Hi.
  destruct (parse_request c x n (whole (u_abs p))) as [[r2 q]|e] eqn:E; cbn [canon_req] in Hi; [|discriminate].
  injection Hi as -> ->. eapply accepted_head_is_strict_px; eassumption.
Qed.
