(* C03 convergence: once events stop (only the fair environment acts: told workers exit, SIGCHLD is
   delivered, healthy workers notify) the master reaches, within two iterations of its main loop, a state
   in which WORKERS is exactly the set of live worker processes and their number is num_workers. *)
From Coq Require Import List ZArith Bool Lia.
From GV Require Import Gen.GenArbiter Model.Arbiter Proof.ArbiterBase Proof.ArbiterInv Proof.ArbiterC03.
Import ListNotations.
Local Open Scope Z_scope.

(* ---- table facts (finite, by computation over the regenerated constants) --------------------------- *)
Lemma exit0_is_not_boot_failure :
  (Z.shiftr 0 8 =? worker_boot_error) = false /\ (Z.shiftr 0 8 =? app_load_error) = false.
Proof. vm_compute. auto. Qed.
Lemma select_within_a_second : 0 <= select_ticks <= tps.
Proof. vm_compute. split; discriminate. Qed.
Lemma sigterm_is_fatal_not_kill : fatal SIGTERM = true /\ (SIGTERM =? SIGKILL) = false.
Proof. vm_compute. auto. Qed.
Lemma tps_pos : 0 < tps. Proof. vm_compute. auto. Qed.

(* ---- settle ------------------------------------------------------------------------------------------ *)
Lemma settle_S : forall k s, settle (S k) s = settle k (settle_step s).
Proof. reflexivity. Qed.
Lemma settle_O : forall s, settle O s = s.
Proof. reflexivity. Qed.

Lemma settle_add : forall a b s, settle (a + b) s = settle b (settle a s).
Proof. induction a; simpl; intros; auto. Qed.

Lemma inv_settle_step : forall s, Inv s -> Inv (settle_step s).
Proof. intros. unfold settle_step. apply inv_master. apply inv_run. auto. Qed.
Lemma inv_settle : forall n s, Inv s -> Inv (settle n s).
Proof. induction n; simpl; intros; auto. apply IHn. apply inv_settle_step. auto. Qed.

(* at a pc where the fair environment does nothing, a settle step is a master step *)
Lemma settle_step_plain : forall s, exit_point (cur s) = false -> notify_point (cur s) = false -> settle_step s = master s.
Proof. intros. unfold settle_step, fair_env. rewrite H, H0. reflexivity. Qed.

(* ---- quiet states -------------------------------------------------------------------------------------- *)
Definition healthy (c : child) : bool := is_running c && negb (told c).

Record quiet (s : st) : Prop := {
  q_pair : pids (workers s) = kpids (kids s);               (* WORKERS and the process table agree: no phantom entry *)
  q_nomaster : forall c, In c (kids s) -> c_master c = false;  (* no USR2 upgrade in progress *)
  q_reexec : reexec s = 0;
  q_mpid : master_pid s = 0;
  q_queue : sigq s = [];
  q_noboot : forall c, In c (kids s) -> is_zombie c = true -> boot_code c = false
}.
Definition calm (s : st) : Prop := quiet s /\ forall c, In c (kids s) -> healthy c = true.

(* the part of the state that the quiet phase never changes *)
Definition frame (s s' : st) : Prop :=
  num s' = num s /\ timeout s' = timeout s /\ master_pid s' = master_pid s /\ reexec s' = reexec s /\
  sigq s' = sigq s /\ nap s' = nap s.
Lemma frame_refl : forall s, frame s s. Proof. unfold frame; auto 10. Qed.
Lemma frame_trans : forall a b c, frame a b -> frame b c -> frame a c.
Proof. unfold frame. intros. intuition congruence. Qed.

Definition ucount (s : st) : Z := Z.of_nat (length (filter healthy (kids s))).

(* ---- reaping on paired tables --------------------------------------------------------------------------- *)
Fixpoint keep (W : list wk) (K : list child) : list wk :=
  match W, K with
  | w :: W', c :: K' => if is_running c then w :: keep W' K' else keep W' K'
  | _, _ => []
  end.

Lemma keep_pids : forall W K, pids W = kpids K -> pids (keep W K) = kpids (filter is_running K).
Proof.
  induction W; destruct K; simpl; intros; try discriminate; auto.
  inversion H. destruct (is_running c); simpl; auto. f_equal; auto.
Qed.

Lemma keep_app : forall W1 K1 W2 K2, length W1 = length K1 -> keep (W1 ++ W2) (K1 ++ K2) = keep W1 K1 ++ keep W2 K2.
Proof.
  induction W1; destruct K1; simpl; intros; try discriminate; auto.
  inversion H. destruct (is_running c); simpl; auto. f_equal; auto.
Qed.

Lemma keep_all_running : forall W K, length W = length K -> forallb is_running K = true -> keep W K = W.
Proof.
  induction W; destruct K; simpl; intros; try discriminate; auto.
  apply andb_true_iff in H0. destruct H0 as [H1 H2]. rewrite H1. f_equal. apply IHW; auto.
Qed.

Lemma filter_all : forall (A : Type) (f : A -> bool) l, forallb f l = true -> filter f l = l.
Proof.
  induction l; simpl; intros; auto. apply andb_true_iff in H. destruct H as [H1 H2]. rewrite H1. f_equal; auto.
Qed.

Lemma remove_wk_unique : forall W1 w W2, ~ In (w_pid w) (pids W1) -> ~ In (w_pid w) (pids W2) ->
  remove_wk (w_pid w) (W1 ++ w :: W2) = W1 ++ W2.
Proof.
  intros. unfold remove_wk. rewrite filter_app. simpl. rewrite Z.eqb_refl. simpl.
  f_equal; apply filter_all; apply forallb_forall; intros x Hx; apply negb_true_iff; apply Z.eqb_neq; intro E.
  - apply H. rewrite <- E. apply in_map. auto.
  - apply H0. rewrite <- E. apply in_map. auto.
Qed.

Lemma reap_fields : forall f s s' r, reap f s = (s', r) ->
  cur s' = cur s /\ num s' = num s /\ timeout s' = timeout s /\ master_pid s' = master_pid s /\ sigq s' = sigq s /\
  nap s' = nap s /\ mono s' = mono s /\ wage s' = wage s /\ next_pid s' = next_pid s.
Proof.
  induction f; simpl; intros. inversion H; subst; auto 10.
  destruct (first_zombie (kids s)) as [[z rest]|]. 2: (inversion H; subst; auto 10).
  destruct (reexec s =? c_pid z). apply IHf in H. simpl in H. auto.
  destruct ((Z.shiftr (status_of z) 8 =? worker_boot_error) && raises _). inversion H; subst; simpl; auto 10.
  destruct ((Z.shiftr (status_of z) 8 =? app_load_error) && raises _). inversion H; subst; simpl; auto 10.
  apply IHf in H. simpl in H. auto.
Qed.

Lemma reap_quiet : forall f s, (length (kids s) < f)%nat ->
  reexec s = 0 -> pids (workers s) = kpids (kids s) -> incr (kpids (kids s)) ->
  (forall c, In c (kids s) -> 0 < c_pid c) ->
  (forall c, In c (kids s) -> is_zombie c = true -> boot_code c = false) ->
  exists s', reap f s = (s', None) /\ kids s' = filter is_running (kids s) /\
             workers s' = keep (workers s) (kids s) /\ reexec s' = 0.
Proof.
  induction f; intros s Hf Hr Hp Hi Hpos Hb. lia.
  simpl. destruct (first_zombie (kids s)) as [[z rest]|] eqn:F.
  2: { exists s. apply first_zombie_none in F. repeat split; auto.
       - symmetry. apply filter_all. auto.
       - symmetry. apply keep_all_running; auto.
         unfold pids, kpids in Hp. rewrite <- (map_length w_pid), Hp, map_length. auto. }
  pose proof (first_zombie_length _ _ _ F) as HL0.
  apply first_zombie_some in F. destruct F as [Zz [K1 [K2 [EK [-> R1]]]]].
  rewrite EK in Hp. unfold kpids in Hp. rewrite map_app in Hp. simpl in Hp.
  apply map_eq_app in Hp. destruct Hp as [W1 [Wr [EW [HW1 HWr]]]].
  apply map_eq_cons in HWr. destruct HWr as [w [W2 [-> [Hw HW2]]]].
  assert (Hz : In z (kids s)). { rewrite EK. apply in_app_iff. simpl. auto. }
  assert (Hne : (reexec s =? c_pid z) = false). { apply Z.eqb_neq. specialize (Hpos z Hz). lia. }
  rewrite Hne.
  pose proof (Hb z Hz Zz) as Hbz. unfold boot_code in Hbz. apply orb_false_iff in Hbz. destruct Hbz as [Hb1 Hb2].
  rewrite Hb1, Hb2.
  (* the zombie's pid occurs exactly once in WORKERS *)
  rewrite EK in Hi. unfold kpids in Hi. rewrite map_app in Hi. simpl in Hi.
  apply incr_app in Hi. destruct Hi as [Hi1 [[Hi2 Hi3] Hi4]].
  assert (R : remove_wk (c_pid z) (workers s) = W1 ++ W2).
  { rewrite EW. rewrite <- Hw. apply remove_wk_unique.
    - rewrite Hw. unfold pids. rewrite HW1. intro Hin. specialize (Hi4 _ (c_pid z) Hin (or_introl eq_refl)). lia.
    - rewrite Hw. unfold pids. rewrite HW2. intro Hin. rewrite Forall_forall in Hi2. apply Hi2 in Hin. lia. }
  cbn [workers set_kids]. rewrite R.
  destruct (IHf (set_workers (set_kids s (K1 ++ K2)) (W1 ++ W2))) as [s' [E1 [E2 [E3 E4]]]]; cbn [kids workers reexec set_workers set_kids]; auto.
  - rewrite EK in Hf. rewrite app_length in *. simpl in Hf. lia.
  - unfold pids, kpids. rewrite !map_app. rewrite HW1, HW2. auto.
  - unfold kpids. rewrite map_app. apply incr_app. repeat split; auto. intros a b Ha Hb2x. apply Hi4; simpl; auto.
  - intros c Hc. apply Hpos. rewrite EK. apply in_app_iff in Hc. apply in_app_iff. simpl. tauto.
  - intros c Hc Zc. apply Hb; auto. rewrite EK. apply in_app_iff in Hc. apply in_app_iff. simpl. tauto.
  - exists s'. cbn [kids workers set_workers set_kids] in *. repeat split; auto.
    + rewrite E2, EK. rewrite !filter_app. simpl. replace (is_running z) with false. auto. unfold is_running. rewrite Zz. auto.
    + rewrite E3, EK, EW. assert (length W1 = length K1). { rewrite <- (map_length w_pid), HW1, map_length. auto. }
      rewrite !keep_app; auto. simpl. replace (is_running z) with false. auto. unfold is_running. rewrite Zz. auto.
Qed.

(* ---- step 1: the top of the loop (told workers exit, the handler reaps) ---------------------------------- *)
Definition exit_map (c : child) : child := if told c then mkChild (c_pid c) (Zombie 0) (c_sigs c) (c_master c) else c.

Lemma exit_told_filter : forall K, filter is_running (map exit_map K) = filter healthy K.
Proof.
  induction K; simpl; auto. unfold exit_map at 1, healthy at 1. destruct (told a) eqn:T.
  - simpl. rewrite andb_false_r. auto.
  - simpl. rewrite andb_true_r. destruct (is_running a); rewrite IHK; auto. unfold exit_map. rewrite T. auto.
Qed.

Lemma wlen_of_pair : forall W K, pids W = kpids K -> length W = length K.
Proof. intros. unfold pids, kpids in H. rewrite <- (map_length w_pid), H, map_length. auto. Qed.

Lemma top_env : forall s, Inv s -> quiet s -> cur s = PSigq ->
  calm (run s (fair_env s)) /\ cur (run s (fair_env s)) = PSigq /\ frame s (run s (fair_env s)) /\
  wlen (run s (fair_env s)) = ucount s.
Proof.
  intros s HI HQ PC. unfold fair_env. rewrite PC. simpl exit_point. cbv iota.
  destruct (existsb told (kids s) || existsb is_zombie (kids s)) eqn:E.
  - (* ExitTold; Chld *)
    simpl run. unfold chld. cbn [cur exit_told set_kids]. rewrite PC. simpl master_gone. cbv iota.
    fold exit_map.
    destruct (reap_quiet (S (length (kids (exit_told s)))) (exit_told s)) as [s' [R [E2 [E3 E4]]]]; auto.
    + simpl. apply (q_reexec _ HQ).
    + simpl. unfold kpids. rewrite map_map. rewrite (q_pair _ HQ). unfold kpids. apply map_ext. intros c. destruct (told c); auto.
    + apply (i_kids _ _ (inv_exit_told _ HI)).
    + intros c Hc. pose proof (i_kfresh _ _ (inv_exit_told _ HI)) as Hk. rewrite Forall_forall in Hk.
      specialize (Hk (c_pid c) (in_map _ _ _ Hc)). lia.
    + simpl. intros c Hc Zc. apply in_map_iff in Hc. destruct Hc as [c0 [<- Hc0]]. destruct (told c0) eqn:T.
      * unfold boot_code. cbn [status_of c_st]. destruct exit0_is_not_boot_failure as [-> ->]. auto.
      * apply (q_noboot _ HQ); auto.
    + rewrite R. cbv iota beta.
      destruct (reap_fields _ _ _ _ R) as [F1 [F2 [F3 [F4 [F5 [F6 _]]]]]]. simpl in *.
      fold exit_map in E2, E3. rewrite exit_told_filter in E2.
      assert (HP : pids (workers s') = kpids (kids s')).
      { rewrite E3, E2. rewrite <- exit_told_filter. apply keep_pids. unfold kpids. rewrite map_map.
        rewrite (q_pair _ HQ). unfold kpids. apply map_ext. intros c. unfold exit_map. destruct (told c); auto. }
      repeat split; simpl; auto.
      * rewrite E2. intros c Hc. apply filter_In in Hc. apply (q_nomaster _ HQ). tauto.
      * rewrite F4. apply (q_mpid _ HQ).
      * rewrite F5. apply (q_queue _ HQ).
      * rewrite E2. intros c Hc Zc. apply filter_In in Hc. destruct Hc as [_ Hc]. unfold healthy in Hc.
        unfold is_running in Hc. rewrite Zc in Hc. simpl in Hc. discriminate.
      * rewrite E2. intros c Hc. apply filter_In in Hc. tauto.
      * rewrite F1. auto.
      * rewrite E4. symmetry. apply (q_reexec _ HQ).
      * unfold wlen, ucount. simpl. rewrite (wlen_of_pair _ _ HP). rewrite E2. auto.
  - (* nothing to do *)
    simpl run. apply orb_false_iff in E. destruct E as [E1 E2].
    assert (Hh : forall c, In c (kids s) -> healthy c = true).
    { intros c Hc. unfold healthy.
      assert (is_zombie c = false). { destruct (is_zombie c) eqn:Z; auto. rewrite <- E2. symmetry. apply existsb_exists. eauto. }
      assert (told c = false). { destruct (told c) eqn:Z; auto. rewrite <- E1. symmetry. apply existsb_exists. eauto. }
      unfold is_running. rewrite H, H0. auto. }
    split; [split; [exact HQ | exact Hh] | split; [exact PC | split; [apply frame_refl | ]]].
    unfold wlen, ucount. rewrite (wlen_of_pair _ _ (q_pair _ HQ)). rewrite filter_all; auto.
    apply forallb_forall. auto.
Qed.

(* ---- calm is about the two tables only -------------------------------------------------------------------- *)
Lemma calm_ext : forall s s', kids s' = kids s -> pids (workers s') = pids (workers s) -> reexec s' = reexec s ->
  master_pid s' = master_pid s -> sigq s' = sigq s -> calm s -> calm s'.
Proof.
  intros s s' E1 E2 E3 E4 E5 [[Q1 Q2 Q3 Q4 Q5 Q6] H]. split.
  - constructor; rewrite ?E1, ?E2, ?E3, ?E4, ?E5; auto.
  - rewrite E1. auto.
Qed.

Lemma calm_quiet : forall s, calm s -> quiet s. Proof. intros s [H _]. auto. Qed.

Lemma calm_ucount : forall s, calm s -> ucount s = wlen s.
Proof.
  intros s [Q H]. unfold ucount, wlen. rewrite (wlen_of_pair _ _ (q_pair _ Q)). rewrite filter_all; auto.
  apply forallb_forall. auto.
Qed.

(* ---- steps 2-4: select, notifications, the timeout scan finds nothing --------------------------------------- *)
Definition fresh (s : st) : Prop := forall w, In w (workers s) -> mono s - w_hb w <= timeout s * tps.

Lemma murder_pass : forall todo s, cur s = PMurderCheck todo -> fresh s ->
  exists k, settle (S k) s = set_pc s PManageLen.
Proof.
  induction todo; intros s PC HF.
  - exists O. rewrite settle_S, settle_O. rewrite settle_step_plain; rewrite ?PC; auto. unfold master. rewrite PC. auto.
  - assert (E : master s = murder_next s todo).
    { unfold master. rewrite PC. destruct (find_wk a (workers s)) eqn:Fw; auto.
      apply find_wk_in in Fw. destruct Fw as [Hw _]. apply HF in Hw. apply Z.leb_le in Hw. rewrite Hw. auto. }
    destruct todo as [|b todo].
    + exists O. rewrite settle_S, settle_O. rewrite settle_step_plain; rewrite ?PC; auto.
    + destruct (IHtodo (set_pc s (PMurderCheck (b :: todo)))) as [k Hk]; auto.
      exists (S k). rewrite settle_S.
      rewrite settle_step_plain; rewrite ?PC; auto. rewrite E. unfold murder_next. rewrite Hk. reflexivity.
Qed.

Lemma live_pid_calm : forall s w, calm s -> In w (workers s) -> live_pid (kids s) (w_pid w) = true.
Proof.
  intros s w [Q H] Hw. unfold live_pid. apply existsb_exists.
  assert (Hin : In (w_pid w) (kpids (kids s))). { rewrite <- (q_pair _ Q). apply in_map. auto. }
  apply in_map_iff in Hin. destruct Hin as [c [E Hc]]. exists c. split; auto.
  rewrite E, Z.eqb_refl. specialize (H c Hc). unfold healthy in H. apply andb_true_iff in H. destruct H as [H _].
  rewrite H, (q_nomaster _ Q c Hc). auto.
Qed.

Lemma close_manage : forall s s3 k, settle k s = set_pc s3 PManageLen -> calm s3 -> wlen s3 = ucount s -> frame s s3 ->
  exists k s4, settle k s = s4 /\ cur s4 = PManageLen /\ calm s4 /\ wlen s4 = ucount s /\ frame s s4.
Proof.
  intros s s3 k H1 H2 H3 H4. exists k, (set_pc s3 PManageLen). split; auto. split; [reflexivity|].
  split; [apply (calm_ext s3); auto|]. split; auto.
Qed.

Lemma top_to_manage : forall s, Inv s -> quiet s -> cur s = PSigq -> 1 <= timeout s \/ timeout s = 0 ->
  exists k s4, settle k s = s4 /\ cur s4 = PManageLen /\ calm s4 /\ wlen s4 = ucount s /\ frame s s4.
Proof.
  intros s HI HQ PC HT.
  destruct (top_env s HI HQ PC) as [HC1 [PC1 [F1 W1]]].
  set (s1 := run s (fair_env s)) in *.
  (* step 1: to select() *)
  assert (E1 : settle_step s = set_pc s1 PSelect).
  { unfold settle_step. fold s1. unfold master. rewrite PC1. destruct F1 as [_ [_ [_ [_ [F5 _]]]]].
    rewrite F5, (q_queue _ HQ). auto. }
  (* step 2: every worker notifies, then select() returns *)
  set (s2 := notify_all (set_pc s1 PSelect)).
  assert (E2 : settle_step (set_pc s1 PSelect) = master s2). { reflexivity. }
  assert (PC2 : cur s2 = PSelect). { reflexivity. }
  assert (HC2 : calm s2).
  { apply (calm_ext s1); auto. unfold s2, notify_all. cbn [cur set_pc workers set_workers].
    unfold pids. rewrite map_map. apply map_ext. intros w. destruct (live_pid (kids (set_pc s1 PSelect)) (w_pid w)); auto. }
  assert (HB2 : forall w, In w (workers s2) -> w_hb w = mono s2).
  { intros w Hw. unfold s2, notify_all in Hw. cbn [cur set_pc workers set_workers] in Hw.
    apply in_map_iff in Hw. destruct Hw as [w0 [<- Hw0]].
    cbn [kids set_pc]. rewrite (live_pid_calm s1 w0 HC1 Hw0). reflexivity. }
  set (s3 := if woken s2 then set_woken s2 false else advance s2 select_ticks).
  assert (HB3 : forall w, In w (workers s3) -> mono s3 - w_hb w <= tps).
  { intros w Hw. pose proof select_within_a_second as Hs. unfold s3 in *. destruct (woken s2); simpl in *.
    - rewrite (HB2 w Hw). lia.
    - rewrite (HB2 w Hw). lia. }
  assert (HC3 : calm s3). { apply (calm_ext s2); auto; unfold s3; destruct (woken s2); auto. }
  assert (FR : frame s s3).
  { eapply frame_trans; eauto. unfold s3. destruct (woken s2); unfold s2, notify_all, frame; simpl; auto 10. }
  assert (W3 : wlen s3 = ucount s).
  { rewrite <- W1. unfold wlen, s3. destruct (woken s2); simpl; unfold s2, notify_all; cbn [cur set_pc workers set_workers];
      rewrite map_length; auto. }
  assert (T3 : timeout s3 = timeout s). { destruct FR as [_ [H _]]. auto. }
  assert (M : master s2 = if timeout s3 =? 0 then set_pc s3 PManageLen else set_pc s3 PMurderSnap).
  { unfold master. rewrite PC2. reflexivity. }
  destruct (timeout s3 =? 0) eqn:ET.
  - apply (close_manage s s3 2%nat); auto. rewrite settle_S, E1, settle_S, E2, M, settle_O. auto.
  - (* the scan *)
    rewrite Z.eqb_neq in ET. assert (1 <= timeout s3) by lia.
    assert (HF : fresh (set_pc s3 (PMurderCheck (pids (workers s3))))).
    { intros w Hw. simpl in *. specialize (HB3 w Hw). pose proof tps_pos. nia. }
    destruct (workers s3) eqn:EW.
    + apply (close_manage s s3 3%nat); auto. rewrite settle_S, E1, settle_S, E2, M, settle_S, settle_O.
      rewrite settle_step_plain; auto. unfold master. cbn [cur set_pc workers]. rewrite EW. reflexivity.
    + destruct (murder_pass (pids (workers s3)) (set_pc s3 (PMurderCheck (pids (workers s3))))) as [k Hk]; auto.
      apply (close_manage s s3 (S (S (S (S k))))); auto.
      rewrite settle_S, E1, settle_S, E2, M, settle_S. rewrite settle_step_plain; auto.
      assert (M2 : master (set_pc s3 PMurderSnap) = set_pc s3 (PMurderCheck (pids (workers s3)))).
      { unfold master. cbn [cur set_pc workers]. rewrite EW. reflexivity. }
      rewrite M2, Hk. reflexivity.
Qed.

(* ---- step 5a: spawning the missing workers ------------------------------------------------------------------ *)
Definition spawned (s : st) : st :=
  advance
    (set_workers
       (set_fork (set_wage s (wage s + 1)) (kids s ++ [mkChild (next_pid s) Running [] false]) (next_pid s + 1) (forks s + 1))
       (workers s ++ [mkWk (next_pid s) (wage s + 1) false (mono s)]))
    (nap s).

Lemma spawn_triple : forall s n,
  master (master (master (begin_spawn s (KSpawn n)))) =
  match n with O => set_pc (spawned s) PManageSort | S n' => begin_spawn (spawned s) (KSpawn n') end.
Proof. intros. destruct n; vm_compute; reflexivity. Qed.

Lemma calm_spawned : forall s, calm s -> calm (spawned s) /\ wlen (spawned s) = wlen s + 1 /\ frame s (spawned s).
Proof.
  intros s [[Q1 Q2 Q3 Q4 Q5 Q6] H]. split; [|split].
  - split.
    + constructor; simpl; auto.
      * unfold pids, kpids in *. rewrite !map_app. simpl. rewrite Q1. auto.
      * intros c Hc. apply in_app_iff in Hc. destruct Hc as [Hc|[<-|[]]]; auto.
      * intros c Hc Zc. apply in_app_iff in Hc. destruct Hc as [Hc|[<-|[]]]; auto; discriminate.
    + simpl. intros c Hc. apply in_app_iff in Hc. destruct Hc as [Hc|[<-|[]]]; auto.
  - unfold wlen. simpl. rewrite app_length. simpl. lia.
  - unfold frame. simpl. auto 10.
Qed.

Lemma settle3_spawn : forall s n, settle 3 (begin_spawn s (KSpawn n)) =
  match n with O => set_pc (spawned s) PManageSort | S n' => begin_spawn (spawned s) (KSpawn n') end.
Proof. intros. destruct n; vm_compute; reflexivity. Qed.

Lemma spawn_loop : forall n s, calm s ->
  exists k s', settle k (begin_spawn s (KSpawn n)) = s' /\ cur s' = PManageSort /\ calm s' /\
               wlen s' = wlen s + Z.of_nat n + 1 /\ frame s s'.
Proof.
  induction n; intros s HC; destruct (calm_spawned s HC) as [H1 [H2 H3]].
  - exists 3%nat, (set_pc (spawned s) PManageSort). rewrite settle3_spawn.
    split; auto. split; [reflexivity|]. split; [apply (calm_ext (spawned s)); auto|]. split; auto.
    change (wlen (set_pc (spawned s) PManageSort)) with (wlen (spawned s)). rewrite H2. simpl. lia.
  - destruct (IHn (spawned s) H1) as [k [s' [E [PC [HC' [W F]]]]]].
    exists (3 + k)%nat, s'. rewrite settle_add. rewrite settle3_spawn.
    split; auto. split; auto. split; auto. split. rewrite W, H2. lia. apply (frame_trans s (spawned s) s'); auto.
Qed.

(* ---- step 5b: retiring the surplus --------------------------------------------------------------------------- *)
Definition tellc (sg : Z) (c : child) : child := mkChild (c_pid c) Running (sg :: c_sigs c) (c_master c).

Lemma kill_in_app : forall D c R sg, ~ In (c_pid c) (kpids D) -> c_st c = Running -> (sg =? SIGKILL) = false ->
  kill_in (D ++ c :: R) (c_pid c) sg = Some (D ++ tellc sg c :: R, true).
Proof.
  induction D; simpl; intros c R sg Hn Hr Hk.
  - rewrite Z.eqb_refl, Hr, Hk. reflexivity.
  - destruct (c_pid a =? c_pid c) eqn:E.
    + exfalso. apply Hn. left. apply Z.eqb_eq. auto.
    + rewrite IHD; auto.
Qed.

Lemma kpids_tell : forall sg l, kpids (map (tellc sg) l) = kpids l.
Proof. intros. unfold kpids. rewrite map_map. apply map_ext. auto. Qed.

Lemma cur_to_loop : forall s, master_pid s = 0 -> cur (to_loop s) = PSigq.
Proof. intros. unfold to_loop. destruct (hctx s); simpl; rewrite H; reflexivity. Qed.

Lemma to_loop_fields : forall s, kids (to_loop s) = kids s /\ workers (to_loop s) = workers s /\ frame s (to_loop s).
Proof. intros. unfold to_loop, frame. destruct (hctx s); simpl; auto 10. Qed.

Lemma kill_loop : forall Rv D Rk s, kids s = D ++ Rv ++ Rk -> NoDup (kpids (kids s)) ->
  (forall c, In c Rv -> c_st c = Running) -> master_pid s = 0 ->
  exists k s', settle k (manage_kill_next s (kpids Rv)) = s' /\ cur s' = PSigq /\
               kids s' = D ++ map (tellc SIGTERM) Rv ++ Rk /\ workers s' = workers s /\ frame s s'.
Proof.
  induction Rv as [|c Rv IH]; intros D Rk s EK ND HR HM.
  - exists O, (to_loop s). rewrite settle_O. destruct (to_loop_fields s) as [A [B C]].
    split; [reflexivity|]. split; [apply cur_to_loop; auto|]. split; [rewrite A; exact EK|]. split; auto.
  - simpl kpids. unfold manage_kill_next at 1.
    set (s0 := set_pc s (PManageKill (c_pid c :: kpids Rv))).
    assert (E0 : settle_step s0 = manage_kill_next (kill_worker s0 (c_pid c) SIGTERM) (kpids Rv)).
    { rewrite settle_step_plain; auto. }
    assert (Hn : ~ In (c_pid c) (kpids D)).
    { rewrite EK in ND. unfold kpids in ND. rewrite map_app in ND. simpl in ND. apply NoDup_remove_2 in ND.
      intro Hin. apply ND. apply in_app_iff. auto. }
    assert (K : kill_in (kids s0) (c_pid c) SIGTERM = Some (D ++ tellc SIGTERM c :: Rv ++ Rk, true)).
    { simpl. rewrite EK. simpl. apply kill_in_app; auto; try apply sigterm_is_fatal_not_kill. apply HR. left; auto. }
    set (s1 := kill_worker s0 (c_pid c) SIGTERM).
    assert (K1 : kids s1 = (D ++ [tellc SIGTERM c]) ++ Rv ++ Rk).
    { unfold s1, kill_worker. rewrite K. simpl. rewrite <- app_assoc. reflexivity. }
    assert (W1 : workers s1 = workers s). { unfold s1, kill_worker. rewrite K. reflexivity. }
    assert (F1 : frame s s1). { unfold s1, kill_worker. rewrite K. unfold frame. simpl. auto 10. }
    destruct (IH (D ++ [tellc SIGTERM c]) Rk s1) as [k [s' [E [PC [EK' [EW F]]]]]]; auto.
    + rewrite K1. rewrite EK in ND. unfold kpids in *. rewrite !map_app in *. simpl in *. rewrite <- app_assoc. simpl. exact ND.
    + intros x Hx. apply HR. right; auto.
    + destruct F1 as [_ [_ [F1 _]]]. rewrite F1. auto.
    + exists (S k), s'. rewrite settle_S. fold s0. rewrite E0. fold s1. split; auto. split; auto.
      split. rewrite EK'. rewrite <- app_assoc. reflexivity.
      split. congruence. apply (frame_trans s s1 s'); auto.
Qed.

(* ---- the end state --------------------------------------------------------------------------------------------- *)
Definition live_workers (s : st) : list Z :=
  kpids (filter (fun c => is_running c && negb (c_master c)) (kids s)).

(* exactly the requested number of live workers, every one of them tracked, nothing unreaped, nothing queued *)
Definition converged (s : st) : Prop :=
  cur s = PSigq /\ sigq s = [] /\ pids (workers s) = live_workers s /\ wlen s = num s /\
  (forall c, In c (kids s) -> healthy c = true).      (* every child runs and none is on its way out *)

Lemma calm_converged : forall s, calm s -> cur s = PSigq -> wlen s = num s -> converged s.
Proof.
  intros s [Q H] PC W. unfold converged. repeat split; auto. apply (q_queue _ Q).
  - unfold live_workers. rewrite filter_all. apply (q_pair _ Q). apply forallb_forall. intros c Hc.
    specialize (H c Hc). unfold healthy in H. apply andb_true_iff in H. destruct H as [H _].
    rewrite H, (q_nomaster _ Q c Hc). auto.
Qed.

Lemma firstn_map : forall (A B : Type) (f : A -> B) n l, firstn n (map f l) = map f (firstn n l).
Proof. induction n; destruct l; simpl; auto. f_equal; auto. Qed.

Lemma healthy_tell : forall c, healthy (tellc SIGTERM c) = false.
Proof.
  intros. unfold healthy, told, tellc, is_running, is_zombie. cbn [c_st c_sigs existsb negb andb].
  destruct sigterm_is_fatal_not_kill as [-> _]. reflexivity.
Qed.

Lemma filter_healthy_tell : forall l, filter healthy (map (tellc SIGTERM) l) = [].
Proof. induction l; [reflexivity|]. cbn [map filter]. rewrite healthy_tell. exact IHl. Qed.

Lemma manage_from_calm : forall s, Inv s -> calm s -> cur s = PManageLen ->
  exists k s', settle k s = s' /\ quiet s' /\ cur s' = PSigq /\ ucount s' = num s' /\ num s' = num s /\
               (wlen s <= num s -> converged s').
Proof.
  intros s HI HC PC. pose proof (calm_quiet _ HC) as HQ.
  assert (E1 : settle_step s = master s). { apply settle_step_plain; rewrite PC; auto. }
  destruct (wlen s <? num s) eqn:L.
  - (* spawn num - len workers *)
    rewrite Z.ltb_lt in L.
    assert (M1 : master s = set_pc s PSpawnCount). { unfold master. rewrite PC. apply Z.ltb_lt in L. rewrite L. auto. }
    assert (M2 : settle_step (set_pc s PSpawnCount) = begin_spawn s (KSpawn (Z.to_nat (num s - wlen s) - 1))).
    { rewrite settle_step_plain; auto. unfold master. cbn [cur set_pc num].
      change (wlen (set_pc s PSpawnCount)) with (wlen s).
      assert (E : (num s - wlen s <=? 0) = false) by (apply Z.leb_gt; lia). rewrite E. reflexivity. }
    destruct (spawn_loop (Z.to_nat (num s - wlen s) - 1) s HC) as [k [s' [E [PC' [HC' [W F]]]]]].
    assert (Wn : wlen s' = num s'). { destruct F as [F _]. rewrite W, F. lia. }
    assert (M3 : settle_step s' = to_loop s').
    { rewrite settle_step_plain; rewrite ?PC'; auto. unfold master. rewrite PC'.
      replace (Z.to_nat (wlen s' - num s')) with O by lia. reflexivity. }
    destruct (to_loop_fields s') as [A [B C]].
    assert (HCL : calm (to_loop s')).
    { apply (calm_ext s'); auto; try apply C. rewrite B. auto. }
    exists (S (S (k + 1))), (to_loop s').
    rewrite settle_S, E1, M1, settle_S, M2, settle_add, E, settle_S, settle_O, M3.
    assert (Wl : wlen (to_loop s') = wlen s'). { unfold wlen. rewrite B. auto. }
    assert (Nl : num (to_loop s') = num s'). { apply C. }
    assert (PCl : cur (to_loop s') = PSigq). { apply cur_to_loop. destruct F as [_ [_ [F _]]]. rewrite F. apply (q_mpid _ HQ). }
    split; auto. split. apply calm_quiet; auto. split; auto.
    split. rewrite (calm_ucount _ HCL). lia.
    split. rewrite Nl. apply F.
    intros _. apply calm_converged; auto. lia.
  - (* retire len - num workers, oldest first *)
    rewrite Z.ltb_ge in L.
    assert (M1 : master s = set_pc s PManageSort). { unfold master. rewrite PC. apply Z.ltb_ge in L. rewrite L. auto. }
    set (j := Z.to_nat (wlen s - num s)).
    assert (Hages : incr (map w_age (workers s))).
    { pose proof (i_ages _ _ HI) as Ha. rewrite PC in Ha. simpl in Ha. rewrite app_nil_r in Ha. auto. }
    assert (M2 : settle_step (set_pc s PManageSort) = manage_kill_next (set_pc s PManageSort) (kpids (firstn j (kids s)))).
    { rewrite settle_step_plain; auto. unfold master. cbn [cur set_pc]. unfold wlen. cbn [workers num set_pc].
      rewrite sort_by_age_id; auto. fold (wlen s). fold j.
      unfold pids. rewrite <- firstn_map. fold (pids (workers s)). rewrite (q_pair _ HQ). unfold kpids. rewrite firstn_map. reflexivity. }
    destruct (kill_loop (firstn j (kids s)) [] (skipn j (kids s)) (set_pc s PManageSort)) as [k [s' [E [PC' [EK [EW F]]]]]].
    + simpl. symmetry. apply firstn_skipn.
    + simpl. apply incr_NoDup. apply (i_kids _ _ HI).
    + intros c Hc. apply firstn_in in Hc. destruct HC as [_ HC]. specialize (HC c Hc). unfold healthy in HC.
      apply andb_true_iff in HC. destruct HC as [HC _]. unfold is_running, is_zombie in HC. destruct (c_st c); auto. discriminate.
    + simpl. apply (q_mpid _ HQ).
    + simpl in EK, EW.
      assert (HQ' : quiet s').
      { destruct F as [F1 [F2 [F3 [F4 [F5 F6]]]]]. simpl in *. constructor.
        - rewrite EW, EK. unfold kpids. rewrite map_app. fold (kpids (map (tellc SIGTERM) (firstn j (kids s)))).
          rewrite kpids_tell. unfold kpids. rewrite <- map_app, firstn_skipn. apply (q_pair _ HQ).
        - rewrite EK. intros c Hc. apply in_app_iff in Hc. destruct Hc as [Hc|Hc].
          + apply in_map_iff in Hc. destruct Hc as [c0 [<- Hc0]]. simpl. apply (q_nomaster _ HQ). eapply firstn_in; eauto.
          + apply (q_nomaster _ HQ). eapply skipn_in; eauto.
        - rewrite F4. apply (q_reexec _ HQ).
        - rewrite F3. apply (q_mpid _ HQ).
        - rewrite F5. apply (q_queue _ HQ).
        - rewrite EK. intros c Hc Zc. apply in_app_iff in Hc. destruct Hc as [Hc|Hc].
          + apply in_map_iff in Hc. destruct Hc as [c0 [<- Hc0]]. discriminate.
          + destruct HC as [_ HC]. specialize (HC c (skipn_in _ _ _ _ Hc)). unfold healthy, is_running in HC. rewrite Zc in HC. discriminate. }
      assert (HU : ucount s' = num s').
      { unfold ucount. rewrite EK, filter_app.
        rewrite filter_healthy_tell. simpl. rewrite filter_all.
        2: { apply forallb_forall. intros c Hc. destruct HC as [_ HC]. apply HC. eapply skipn_in; eauto. }
        rewrite skipn_length. destruct F as [F1 _]. simpl in F1. rewrite F1.
        unfold wlen in *. rewrite <- (wlen_of_pair _ _ (q_pair _ HQ)). unfold j, wlen.
        pose proof (i_nonneg _ _ HI) as Hnn. lia. }
      exists (S (S k)), s'. rewrite settle_S, E1, M1, settle_S, M2, E.
      split; auto. split; auto. split; auto. split; auto. split. apply F.
      intros Hle. assert (wlen s = num s) by lia.
      assert (j = O) by (unfold j; lia). rewrite H0 in EK. simpl in EK.
      apply calm_converged; auto.
      * split; auto. rewrite EK. apply HC.
      * unfold wlen. rewrite EW. destruct F as [F1 _]. simpl in F1. rewrite F1. auto.
Qed.

(* ---- convergence ------------------------------------------------------------------------------------------------- *)
Lemma loop_iteration : forall s, Inv s -> quiet s -> cur s = PSigq ->
  exists k s', settle k s = s' /\ Inv s' /\ quiet s' /\ cur s' = PSigq /\ ucount s' = num s' /\ num s' = num s /\
               (ucount s = num s -> converged s').
Proof.
  intros s HI HQ PC.
  assert (HT : 1 <= timeout s \/ timeout s = 0). { pose proof (i_nonneg _ _ HI). lia. }
  destruct (top_to_manage s HI HQ PC HT) as [k1 [s4 [E1 [PC4 [HC4 [W4 F4]]]]]].
  assert (HI4 : Inv s4). { rewrite <- E1. apply inv_settle. auto. }
  destruct (manage_from_calm s4 HI4 HC4 PC4) as [k2 [s5 [E2 [HQ5 [PC5 [U5 [N5 C5]]]]]]].
  exists (k1 + k2)%nat, s5. rewrite settle_add, E1, E2.
  assert (HI5 : Inv s5). { rewrite <- E2. apply inv_settle. auto. }
  destruct F4 as [F4 _].
  split; auto. split; auto. split; auto. split; auto. split; auto. split. congruence.
  intros HU. apply C5. rewrite W4, HU, F4. lia.
Qed.

(* Once events stop, from the top of the main loop with an empty signal queue, when WORKERS and the process table
   agree (no entry for a pid that is not a child: this excludes exactly the fork/SIGCHLD race D17) and no USR2
   upgrade is in progress: the master converges, within two iterations of its loop. *)
Theorem converges_quiet : forall s, Inv s -> quiet s -> cur s = PSigq -> exists n, converged (settle n s).
Proof.
  intros s HI HQ PC.
  destruct (loop_iteration s HI HQ PC) as [k1 [s1 [E1 [HI1 [HQ1 [PC1 [U1 [N1 _]]]]]]]].
  destruct (loop_iteration s1 HI1 HQ1 PC1) as [k2 [s2 [E2 [_ [_ [_ [_ [_ C2]]]]]]]].
  exists (k1 + k2)%nat. rewrite settle_add, E1, E2. auto.
Qed.

(* a converged state stays converged under the fair environment *)
Theorem converged_stable : forall s, Inv s -> quiet s -> converged s ->
  exists k s', settle k s = s' /\ converged s' /\ quiet s' /\ Inv s'.
Proof.
  intros s HI HQ HC. destruct HC as [PC [Q [P [W H]]]].
  destruct (loop_iteration s HI HQ PC) as [k [s' [E [HI' [HQ' [PC' [U' [N' C']]]]]]]].
  exists k, s'. repeat split; auto; try apply HQ'; try apply HI'.
  all: try (apply C'; unfold ucount; rewrite filter_all; [rewrite <- (wlen_of_pair _ _ (q_pair _ HQ)); exact W | apply forallb_forall; auto]).
Qed.

(* ---- the statement with the natural hypotheses ------------------------------------------------------------------- *)
Lemma incr_ext : forall l1 l2, incr l1 -> incr l2 -> (forall x, In x l1 <-> In x l2) -> l1 = l2.
Proof.
  induction l1 as [|a l1 IH]; destruct l2 as [|b l2]; intros H1 H2 HE; auto.
  - exfalso. apply (proj2 (HE b)). left; auto.
  - exfalso. apply (proj1 (HE a)). left; auto.
  - destruct H1 as [A1 A2]. destruct H2 as [B1 B2]. rewrite Forall_forall in A1, B1.
    assert (a = b).
    { destruct (proj1 (HE a) (or_introl eq_refl)) as [E|E]; auto.
      destruct (proj2 (HE b) (or_introl eq_refl)) as [E2|E2]; auto.
      apply B1 in E. apply A1 in E2. lia. }
    subst b. f_equal. apply IH; auto. intros x. split; intros Hx.
    + destruct (proj1 (HE x) (or_intror Hx)) as [E|E]; auto. subst x. apply A1 in Hx. lia.
    + destruct (proj2 (HE x) (or_intror Hx)) as [E|E]; auto. subst x. apply B1 in Hx. lia.
Qed.

Definition at_rest (s : st) : Prop := cur s = PSigq /\ sigq s = [] /\ master_pid s = 0.
Definition no_upgrade (s : st) : Prop := reexec s = 0 /\ forall c, In c (kids s) -> c_master c = false.
(* every entry of WORKERS is a child of the master (running or not yet reaped): no phantom entry *)
Definition tracked (s : st) : Prop := forall w, In w (workers s) -> In (w_pid w) (kpids (kids s)).
Definition no_boot_failure_pending (s : st) : Prop :=
  forall c, In c (kids s) -> is_zombie c = true -> boot_code c = false.

Lemma quiet_of_tracked : forall s, Inv s -> at_rest s -> no_upgrade s -> tracked s -> no_boot_failure_pending s -> quiet s.
Proof.
  intros s HI [PC [Q M]] [R NM] T NB. constructor; auto.
  unfold Inv in HI. rewrite PC in HI.
  apply incr_ext.
  - pose proof (i_pids _ _ HI) as H. simpl in H. rewrite app_nil_r in H. auto.
  - apply (i_kids _ _ HI).
  - intros x. split; intros Hx.
    + apply in_map_iff in Hx. destruct Hx as [w [<- Hw]]. apply T. auto.
    + apply in_map_iff in Hx. destruct Hx as [c [<- Hc]]. pose proof (i_track _ _ HI eq_refl c Hc) as H.
      rewrite (NM c Hc) in H. simpl in H. rewrite app_nil_r in H. auto.
Qed.

Theorem converges : forall s,
  reachable s -> at_rest s -> no_upgrade s -> tracked s -> no_boot_failure_pending s ->
  exists n, converged (settle n s).
Proof.
  intros s R A U T B. pose proof (inv_reachable _ R) as HI.
  apply converges_quiet; auto. apply quiet_of_tracked; auto. apply A.
Qed.
