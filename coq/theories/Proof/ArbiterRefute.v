(* The fork/SIGCHLD race (timeout = 0) as a theorem about the faithful model, and the boot failure reaped while halt()
   runs: impossible on a tree whose reap_workers tests `not self._stopping` (reap_guards_halting = true), a crash of the
   master on a tree without that test (both readings; the constant generated from the tree selects). *)
From Coq Require Import List ZArith Bool Lia.
From GV Require Import Gen.GenArbiter Model.Arbiter Proof.ArbiterBase Proof.ArbiterInv Proof.ArbiterC03 Proof.ArbiterConv.
Import ListNotations.
Local Open Scope Z_scope.

(* D17: two workers wanted, timeout 0.  The first child dies and is reaped between fork() returning and
   WORKERS[pid] = worker; the dead pid 100 is then registered. *)
Definition d17_schedule : list label :=
  [Master; Master; Master;            (* len test, spawn count, fork -> pid 100 returned, not yet registered *)
   Exit 100 0; Chld;                   (* the child exits at once; the handler reaps it: WORKERS.pop(100) finds nothing *)
   Master; Master;                     (* WORKERS[100] = worker; nap *)
   Master; Master; Master;             (* second worker: fork, register, nap *)
   Master].                            (* sort: nothing to retire -> top of the loop *)
Definition d17_state : st := run (init 2 0 30 0 0) d17_schedule.

Definition phantom (s : st) : Prop :=
  timeout s = 0 /\ num s = 2 /\ pids (workers s) = [100; 101] /\ kids s = [mkChild 101 Running [] false] /\
  sigq s = [] /\ master_pid s = 0 /\
  (cur s = PSigq \/ cur s = PSelect \/ cur s = PManageLen \/ cur s = PManageSort).

Lemma phantom_d17 : phantom d17_state.
Proof. vm_compute. repeat split; auto. Qed.

Lemma phantom_step : forall s, phantom s -> phantom (settle_step s).
Proof.
  intros s [T [N [P [K [Q [M PC]]]]]].
  assert (L : wlen s = 2). { unfold wlen. unfold pids in P. rewrite <- (map_length w_pid), P. reflexivity. }
  destruct PC as [PC|[PC|[PC|PC]]].
  - (* top: nothing to reap, nothing queued *)
    assert (E : settle_step s = set_pc s PSelect).
    { unfold settle_step, fair_env. rewrite PC, K. cbn. unfold master. rewrite PC, Q. reflexivity. }
    rewrite E. unfold phantom. simpl. auto 10.
  - (* select: notifications, no timeout scan *)
    assert (E : settle_step s = master (notify_all s)). { unfold settle_step, fair_env. rewrite PC. reflexivity. }
    assert (NA : notify_all s = set_workers s (map (fun w => if live_pid (kids s) (w_pid w)
                     then mkWk (w_pid w) (w_age w) (w_aborted w) (mono s) else w) (workers s))).
    { unfold notify_all. cbn [cur set_workers]. rewrite PC. reflexivity. }
    set (x := notify_all s) in *.
    assert (X : cur x = PSelect /\ timeout x = 0 /\ num x = 2 /\ kids x = kids s /\ sigq x = [] /\ master_pid x = 0 /\
                pids (workers x) = [100; 101]).
    { rewrite NA. simpl. repeat split; auto. rewrite <- P. unfold pids. rewrite map_map. apply map_ext.
      intros w. destruct (live_pid (kids s) (w_pid w)); auto. }
    destruct X as [X1 [X2 [X3 [X4 [X5 [X6 X7]]]]]].
    assert (E2 : master x = set_pc (if woken x then set_woken x false else advance x select_ticks) PManageLen).
    { unfold master. rewrite X1. destruct (woken x); simpl; rewrite X2; reflexivity. }
    rewrite E, E2. unfold phantom. destruct (woken x); simpl; rewrite ?X2, ?X3, ?X4, ?X5, ?X6, ?X7, ?K; auto 10.
  - assert (E : settle_step s = set_pc s PManageSort).
    { rewrite settle_step_plain; rewrite ?PC; auto. unfold master. rewrite PC, L, N. reflexivity. }
    rewrite E. unfold phantom. simpl. auto 10.
  - assert (E : settle_step s = to_loop s).
    { rewrite settle_step_plain; rewrite ?PC; auto. unfold master. rewrite PC, L, N. reflexivity. }
    rewrite E. destruct (to_loop_fields s) as [A [B [F1 [F2 [F3 [F4 [F5 F6]]]]]]].
    unfold phantom. rewrite A, B, F1, F2, F3, F5. repeat split; auto. left. apply cur_to_loop. auto.
Qed.

Lemma phantom_settle : forall n s, phantom s -> phantom (settle n s).
Proof. induction n; simpl; intros; auto. apply IHn. apply phantom_step. auto. Qed.

Lemma phantom_not_converged : forall s, phantom s -> ~ converged s.
Proof.
  intros s [T [N [P [K [Q [M PC]]]]]] [_ [_ [C _]]]. unfold live_workers in C. rewrite P, K in C. discriminate.
Qed.

(* with timeout = 0 the pool never converges although events have stopped: the dead pid stays in WORKERS,
   is counted as a worker, and only one of the two requested workers is alive *)
Lemma d17_fields :
  kids d17_state = [mkChild 101 Running [] false] /\
  workers d17_state = [mkWk 100 1 false 0; mkWk 101 2 false 0] /\
  cur d17_state = PSigq /\ sigq d17_state = [] /\ master_pid d17_state = 0 /\ reexec d17_state = 0 /\
  timeout d17_state = 0.
Proof. vm_compute. repeat split; reflexivity. Qed.

Theorem converges_refuted :
  reachable d17_state /\ at_rest d17_state /\ no_upgrade d17_state /\ no_boot_failure_pending d17_state /\
  timeout d17_state = 0 /\ ~ tracked d17_state /\
  forall n, ~ converged (settle n d17_state).
Proof.
  destruct d17_fields as [K [W [PC [Q [M [R T]]]]]].
  split. { exists 2, 0, 30, 0, 0, d17_schedule. split; [unfold valid_cfg; lia | reflexivity]. }
  split. { unfold at_rest. auto. }
  split. { split; auto. intros c Hc. rewrite K in Hc. destruct Hc as [<-|[]]. reflexivity. }
  split. { intros c Hc Zc. rewrite K in Hc. destruct Hc as [<-|[]]. discriminate. }
  split. { exact T. }
  split. { intro Tr. specialize (Tr (mkWk 100 1 false 0)). rewrite W, K in Tr.
           destruct (Tr (or_introl eq_refl)) as [E|[]]. discriminate. }
  intros n. apply phantom_not_converged. apply phantom_settle. apply phantom_d17.
Qed.

(* since the heartbeat file is stamped at creation, a positive timeout removes the phantom entry: the timeout scan
   sends SIGABRT to the dead pid, gets ESRCH and pops it *)
Theorem phantom_is_murdered : forall s p todo w,
  cur s = PMurderCheck (p :: todo) -> find_wk p (workers s) = Some w -> w_aborted w = false ->
  ~ In p (kpids (kids s)) -> timeout s * tps < mono s - w_hb w ->
  ~ In p (pids (workers (master (master s)))).
Proof.
  intros s p todo w PC F A NK T.
  assert (E : master s = set_pc (set_workers s (set_aborted p (workers s))) (PMurderKill p SIGABRT todo)).
  { unfold master. rewrite PC, F. apply Z.leb_gt in T. rewrite T, A. reflexivity. }
  rewrite E. unfold master. cbn [cur set_pc]. unfold kill_worker. cbn [kids set_pc set_workers].
  pose proof (proj2 (kill_in_none (kids s) p SIGABRT) NK) as NK2. rewrite NK2. unfold murder_next.
  intro Hin. assert (In p (pids (remove_wk p (set_aborted p (workers s))))).
  { destruct todo; exact Hin. }
  apply in_pids_remove in H. tauto.
Qed.

(* D22: two workers fail to boot at the same moment.  The handler raises HaltServer for the first and stops
   reaping; the second is reaped by the next SIGCHLD while halt() -> stop() runs.  Without the guard the exception
   leaves run(); with it the second failure is an ordinary death and the master exits with the status of the first. *)
Definition d22_schedule : list label :=
  [Master; Master; Master; Master; Master; Master; Master; Master; Master;   (* both workers spawned *)
   Exit 100 768; Exit 101 768; Chld;      (* both exit with status 3; HaltServer for 100 -> halt(3) begins *)
   Master;                                 (* stop(): kill_workers snapshot *)
   Chld].                                  (* the second zombie is reaped inside halt() *)

Lemma d22_outcome :
  let s := run (init 2 30 30 0 0) d22_schedule in
  (forks s = 2) /\
  (if reap_guards_halting
   then kids s = [] /\ cur (run s (repeat Master 4)) = PExited worker_boot_error
   else cur s = PCrashed).
Proof. vm_compute. repeat split. Qed.

(* ... and that is the only way to get there: a HaltServer raised by the handler inside the final stop() *)
Definition reaps_boot_failure (s : st) : Prop := exists s1 code, reap (S (length (kids s))) s = (s1, Some code).

Lemma nc_to_loop : forall s, cur (to_loop s) <> PCrashed.
Proof. intros. unfold to_loop. destruct (hctx s); simpl; destruct (_ =? 0); discriminate. Qed.
Lemma nc_begin_spawn : forall s k, cur (begin_spawn s k) <> PCrashed.
Proof. intros. unfold begin_spawn. simpl. discriminate. Qed.
Lemma nc_enter_stop : forall s g a, cur (enter_stop s g a) <> PCrashed.
Proof. intros. unfold enter_stop. simpl. discriminate. Qed.
Lemma nc_finish_stop : forall s a, cur (finish_stop s a) <> PCrashed.
Proof. intros. destruct a; simpl; discriminate. Qed.
Lemma nc_murder_next : forall s t, cur (murder_next s t) <> PCrashed.
Proof. intros. unfold murder_next. destruct t; simpl; discriminate. Qed.
Lemma nc_manage_kill_next : forall s v, cur (manage_kill_next s v) <> PCrashed.
Proof. intros. unfold manage_kill_next. destruct v. apply nc_to_loop. simpl; discriminate. Qed.
Lemma nc_killall_next : forall s l sg k, cur (killall_next s l sg k) <> PCrashed.
Proof.
  intros. unfold killall_next. destruct l. 2: (simpl; discriminate).
  destruct k. apply nc_to_loop. simpl; discriminate. apply nc_finish_stop.
Qed.
Lemma nc_after_register : forall s k, cur (after_register s k) <> PCrashed.
Proof. intros. destruct k as [n|[|n]]; simpl; try discriminate. Qed.
Lemma nc_dispatch : forall s sg, cur (dispatch s sg) <> PCrashed.
Proof.
  intros. unfold dispatch.
  destruct (sg =? SIGHUP). { destruct (Z.to_nat _). simpl; discriminate. apply nc_begin_spawn. }
  destruct (sg =? SIGTERM). apply nc_enter_stop.
  destruct ((sg =? SIGINT) || (sg =? SIGQUIT)). apply nc_enter_stop.
  destruct (sg =? SIGTTIN). simpl; discriminate.
  destruct (sg =? SIGTTOU). { destruct (_ <=? 1). apply nc_to_loop. simpl; discriminate. }
  destruct (sg =? SIGUSR1). simpl; discriminate.
  destruct (sg =? SIGUSR2). { destruct (_ || _). apply nc_to_loop. simpl; discriminate. }
  apply nc_to_loop.
Qed.

Lemma master_never_crashes : forall s, cur s <> PCrashed -> cur (master s) <> PCrashed.
Proof.
  intros s NC. unfold master. destruct (cur s) eqn:PC; try (simpl; discriminate); try (rewrite PC; discriminate).
  - destruct (sigq s). simpl; discriminate. apply nc_dispatch.
  - destruct (timeout _ =? 0); simpl; discriminate.
  - apply nc_murder_next.
  - destruct todo. simpl; discriminate. destruct (find_wk z (workers s)). 2: apply nc_murder_next.
    destruct (_ <=? _). apply nc_murder_next. destruct (w_aborted w); simpl; discriminate.
  - apply nc_murder_next.
  - destruct (_ <? _); simpl; discriminate.
  - destruct (_ <=? 0). simpl; discriminate. apply nc_begin_spawn.
  - apply nc_after_register.
  - destruct n. simpl; discriminate. apply nc_begin_spawn.
  - apply nc_manage_kill_next.
  - destruct victims. apply nc_to_loop. apply nc_manage_kill_next.
  - apply nc_killall_next.
  - destruct pids; apply nc_killall_next.
  - destruct (_ && _); simpl; discriminate.
  - apply nc_to_loop.
  - contradiction.
Qed.

Theorem crash_only_by_halt_reentry : forall s l, cur s <> PCrashed -> cur (step s l) = PCrashed ->
  l = Chld /\ in_final_stop (cur s) = true /\ reaps_boot_failure s /\ reap_guards_halting = false.
Proof.
  intros s l NC C. destruct l; unfold step in C.
  - exfalso. eapply master_never_crashes; eauto.
  - split; auto. unfold chld in C. destruct (master_gone (cur s)) eqn:G. contradiction.
    destruct (reap (S (length (kids s))) s) as [s1 [code|]] eqn:R.
    + destruct (reap_forks_cur _ _ _ _ R) as [_ E]. rewrite E in C. destruct (in_final_stop (cur s)) eqn:F.
      * split; auto. split. { exists s1, code. auto. }
        exact (raises_in_stop s (reap_some_raises _ _ _ _ R) (final_in_stop _ F)).
      * exfalso. eapply nc_enter_stop; eauto.
    + destruct (reap_forks_cur _ _ _ _ R) as [_ E]. simpl in C. rewrite E in C. contradiction.
  - simpl in C. contradiction.
  - destruct (master_gone (cur s)); try contradiction.
    destruct (zmem sg queued_signals && (Z.of_nat (length (sigq s)) <? sig_queue_max)); simpl in C; contradiction.
  - destruct (0 <=? dt); simpl in C; contradiction.
  - exfalso. unfold notify in C. destruct (find_kid p (kids s)); try contradiction.
    destruct (is_running c && negb (c_master c)); try contradiction. cbn [cur set_workers] in C.
    destruct (cur s) eqn:PC; cbn [cur set_workers] in C; try (rewrite PC in C); try discriminate; try contradiction.
    destruct (p0 =? p); cbn [cur set_pc set_workers] in C; try (rewrite PC in C); discriminate.
  - destruct ((0 <=? w) && (0 <=? t)); simpl in C; contradiction.
  - simpl in C. contradiction.
  - simpl in C. contradiction.
  - exfalso. unfold notify_all in C. cbn [cur set_workers] in C.
    destruct (cur s) eqn:PC; cbn [cur set_workers] in C; try (rewrite PC in C); try discriminate; try contradiction.
    destruct (live_pid _ p); cbn [cur set_pc set_workers] in C; try (rewrite PC in C); discriminate.
  - exfalso. unfold notify_at in C. destruct (find_kid p (kids s)); try contradiction.
    destruct (_ && _); try contradiction. cbn [cur set_workers] in C.
    destruct (cur s) eqn:PC; cbn [cur set_workers] in C; try (rewrite PC in C); try discriminate; try contradiction.
    destruct (p0 =? p); cbn [cur set_pc set_workers] in C; try (rewrite PC in C); discriminate.
Qed.

(* with the guard no exception ever leaves run(): for every schedule *)
Theorem never_crashes : reap_guards_halting = true -> forall ls s, cur s <> PCrashed -> cur (run s ls) <> PCrashed.
Proof.
  intros G. induction ls as [|l t IH]; simpl; intros s NC; auto.
  apply IH. intro C. destruct (crash_only_by_halt_reentry s l NC C) as [_ [_ [_ N]]]. congruence.
Qed.

(* the statement of Props/C03.v: the reading that describes the tree under test *)
Theorem halt_reentry :
  if reap_guards_halting
  then forall ls s, cur s <> PCrashed -> cur (run s ls) <> PCrashed
  else cur (run (init 2 30 30 0 0) d22_schedule) = PCrashed /\ forks (run (init 2 30 30 0 0) d22_schedule) = 2.
Proof.
  pose proof never_crashes as A. pose proof d22_outcome as B. cbv zeta in B.
  destruct reap_guards_halting; [exact (A eq_refl)|]. destruct B as [B1 B2]. split; assumption.
Qed.
