(* C04 - the shutdown terminates: a measure that every master step decreases and no environment step increases *)
From Coq Require Import List ZArith Bool Lia.
From GV Require Import Gen.GenArbiter Gen.GenShutdown Model.Shutdown Proof.ShutdownBase Proof.ShutdownMaster.
Import ListNotations.
Local Open Scope Z_scope.

Section Term.
Variable c : cfg.
Hypothesis Hg : 0 <= grace c.
Hypothesis Hn : 0 < stop_nap_ticks.

(* master steps still needed by a wait loop that has d ticks to go *)
Definition W (d : Z) : Z := if d <=? 0 then 0 else 2 * ((d - 1) / stop_nap_ticks + 1).

Lemma W_nonneg : forall d, 0 <= W d.
Proof.
  intros d. unfold W. destruct (d <=? 0) eqn:E; [lia|]. apply Z.leb_gt in E.
  assert (0 <= (d - 1) / stop_nap_ticks) by (apply Z.div_pos; lia). lia.
Qed.

Lemma W_mono : forall d1 d2, d1 <= d2 -> W d1 <= W d2.
Proof.
  intros d1 d2 H. unfold W. destruct (d1 <=? 0) eqn:E1; destruct (d2 <=? 0) eqn:E2;
    try apply Z.leb_le in E1; try apply Z.leb_gt in E1; try apply Z.leb_le in E2; try apply Z.leb_gt in E2; try lia.
  - assert (0 <= (d2 - 1) / stop_nap_ticks) by (apply Z.div_pos; lia). lia.
  - assert ((d1 - 1) / stop_nap_ticks <= (d2 - 1) / stop_nap_ticks) by (apply Z.div_le_mono; lia). lia.
Qed.

Lemma W_step : forall d, 0 < d -> W (d - stop_nap_ticks) + 2 <= W d.
Proof.
  intros d H. unfold W. destruct (d <=? 0) eqn:E1; [apply Z.leb_le in E1; lia|].
  destruct (d - stop_nap_ticks <=? 0) eqn:E2.
  - assert (0 <= (d - 1) / stop_nap_ticks) by (apply Z.div_pos; lia). lia.
  - apply Z.leb_gt in E2.
    replace (d - stop_nap_ticks - 1) with ((d - 1) + (-1) * stop_nap_ticks) by lia.
    rewrite Z.div_add by lia. lia.
Qed.

Local Opaque W.

Definition F (n : Z) : Z := 2 * n + 5 + W (grace c).
Definition ac (a : after) (n : Z) : Z := match a with AExit _ => 0 | AHalt => F n end.
Definition kc (k : kcont) (n wall : Z) : Z :=
  match k with
  | KWait limit a => W (limit - wall) + 3 + n + ac a n
  | KDone a => ac a n
  end.

Definition mu (p : pc) (n wall : Z) : Z :=
  match p with
  | PDispatch _ => 1 + (2 + n + (W (grace c) + 3 + n + F n))
  | PSnap _ k => 2 + n + kc k n wall
  | PKill todo _ k => 1 + Z.of_nat (length todo) + kc k n wall
  | PWait limit a => W (limit - wall) + 3 + n + ac a n
  | PNap limit a => W (limit - wall - stop_nap_ticks) + 4 + n + ac a n
  | PExited _ | PCrashed => 0
  end.

Definition nws (s : st) : Z := Z.of_nat (length (ws s)).
Definition mu_st (s : st) : Z := mu (cur s) (nws s) (wall s).

Definition stop_signal (sg : Z) : bool := (sg =? SIGTERM) || (sg =? SIGINT) || (sg =? SIGQUIT).
Definition pc_live (p : pc) : Prop := match p with PDispatch sg => stop_signal sg = true | _ => True end.
Ltac sm := cbn [mu kc ac master_gone in_final_stop after_final kcont_after pc_live] in *.

Lemma ac_nonneg : forall a n, 0 <= n -> 0 <= ac a n.
Proof. intros. destruct a; sm; [|lia]. unfold F. pose proof (W_nonneg (grace c)). lia. Qed.

Lemma ac_mono : forall a n1 n2, n1 <= n2 -> ac a n1 <= ac a n2.
Proof. intros. destruct a; sm; [|lia]. unfold F. lia. Qed.

Lemma kc_mono : forall k n1 n2 w1 w2, n1 <= n2 -> w2 <= w1 -> kc k n1 w1 <= kc k n2 w2.
Proof.
  intros. destruct k; sm.
  - pose proof (ac_mono a _ _ H). pose proof (W_mono (limit - w1) (limit - w2)). lia.
  - apply ac_mono; auto.
Qed.

Lemma mu_mono : forall p n1 n2 w1 w2, n1 <= n2 -> w2 <= w1 -> mu p n1 w1 <= mu p n2 w2.
Proof.
  intros. destruct p; sm; try lia.
  - unfold F. lia.
  - pose proof (kc_mono k _ _ _ _ H H0). lia.
  - pose proof (kc_mono k _ _ _ _ H H0). lia.
  - pose proof (ac_mono a _ _ H). pose proof (W_mono (limit - w1) (limit - w2)). lia.
  - pose proof (ac_mono a _ _ H). pose proof (W_mono (limit - w1 - stop_nap_ticks) (limit - w2 - stop_nap_ticks)). lia.
Qed.

Lemma mu_pos : forall p n w, 0 <= n -> master_gone p = false -> 1 <= mu p n w.
Proof.
  intros p n w H G. pose proof (W_nonneg (grace c)).
  destruct p; sm; try discriminate.
  - unfold F. lia.
  - destruct k; sm; [pose proof (W_nonneg (limit - w)); pose proof (ac_nonneg a n H)|pose proof (ac_nonneg a n H)]; lia.
  - destruct k; sm; [pose proof (W_nonneg (limit - w)); pose proof (ac_nonneg a n H)|pose proof (ac_nonneg a n H)]; lia.
  - pose proof (W_nonneg (limit - w)); pose proof (ac_nonneg a n H). lia.
  - pose proof (W_nonneg (limit - w - stop_nap_ticks)); pose proof (ac_nonneg a n H). lia.
Qed.

Ltac sm2 := unfold nws in *; cbn [mu kc ac cur ws wall lst kids reexec mpid sockfs pidfs closed slack wlim olim set_pc set_lim set_close set_pidfs set_ws set_kids set_wall set_reexec set_tick master_gone in_final_stop after_final kcont_after pc_live fst snd] in *.

Ltac ln := unfold mu_st, nws, F in *; cbn [length] in *; lia.

Lemma nws_nonneg : forall s, 0 <= nws s.
Proof. intros. unfold nws. lia. Qed.

(* entering the final stop() costs at most F *)
Lemma enter_stop_mu : forall s g status, mu_st (enter_stop c s g (AExit status)) = F (nws s).
Proof.
  intros. unfold mu_st, enter_stop, close_listeners, nws. sm2.
  replace (wall s + grace c - wall s) with (grace c) by lia. unfold F. lia.
Qed.

Lemma enter_stop_mu_halt : forall s g, mu_st (enter_stop c s g AHalt) = 2 + nws s + (W (grace c) + 3 + nws s + F (nws s)).
Proof.
  intros. unfold mu_st, enter_stop, close_listeners, nws. sm2.
  replace (wall s + grace c - wall s) with (grace c) by lia. reflexivity.
Qed.

Lemma kill_worker_nws : forall s p sg, nws (kill_worker s p sg) <= nws s /\ wall (kill_worker s p sg) = wall s.
Proof.
  intros. unfold kill_worker, nws. destruct (kill_in (kids s) p sg); sm2; split; auto; try lia.
  pose proof (remove_z_length p (ws s)). lia.
Qed.

(* the continuation of a kill pass *)
Lemma kill_next_mu : forall s l sg k,
  mu_st (kill_next c s l sg k) <= (match l with [] => 0 | _ => 1 + Z.of_nat (length l) end) + kc k (nws s) (wall s).
Proof.
  intros s l sg k. unfold kill_next. destruct l.
  - destruct k.
    + unfold mu_st. sm2. lia.
    + destruct a; unfold finish_stop.
      * rewrite enter_stop_mu. sm2. lia.
      * unfold mu_st. destruct (pidconf c); sm2; lia.
  - unfold mu_st. sm2. lia.
Qed.

Lemma master_decreases : forall s, master_gone (cur s) = false -> pc_live (cur s) ->
  mu_st (master c s) + 1 <= mu_st s /\ pc_live (cur (master c s)).
Proof.
  intros s G L. unfold master. unfold mu_st at 2. destruct (cur s) eqn:E; sm2; try discriminate.
  - (* PDispatch *)
    unfold stop_signal in L. destruct (sg =? SIGTERM) eqn:T.
    + rewrite enter_stop_mu. split; [|exact I]. pose proof (W_nonneg (grace c)). pose proof (nws_nonneg s). unfold F. ln.
    + cbn [orb] in L. rewrite L. rewrite enter_stop_mu_halt. split; [ln|exact I].
  - (* PSnap *)
    pose proof (kill_next_mu s (ws s) sg k). split.
    + unfold nws in *. destruct (ws s) eqn:Ws; cbn [length] in *; lia.
    + unfold kill_next, finish_stop. destruct (ws s); [destruct k; sm2; auto; destruct a; sm2; auto; destruct (pidconf c); sm2; auto|sm2; auto].
  - (* PKill *)
    destruct todo as [|p l].
    + pose proof (kill_next_mu s [] sg k). sm2. split; [ln|].
      unfold kill_next, finish_stop. destruct k; sm2; auto; destruct a; sm2; auto; destruct (pidconf c); sm2; auto.
    + pose proof (kill_next_mu (kill_worker s p sg) l sg k) as H.
      destruct (kill_worker_nws s p sg) as [H1 H2].
      pose proof (kc_mono k _ _ _ _ H1 (Z.eq_le_incl _ _ H2)) as H3. rewrite H2 in H3 at 1.
      split.
      * rewrite H2 in H. cbn [length]. destruct l; cbn [length] in *; ln.
      * unfold kill_next, finish_stop. destruct l; [destruct k; sm2; auto; destruct a; sm2; auto; destruct (pidconf c); sm2; auto|sm2; auto].
  - (* PWait *)
    destruct (negb (Nat.eqb (length (ws s)) 0) && (wall s <? limit)) eqn:Cd; unfold mu_st; sm2; fold (nws s); split; auto.
    + apply andb_true_iff in Cd. destruct Cd as [_ Cd]. apply Z.ltb_lt in Cd.
      pose proof (W_step (limit - wall s)). replace (limit - wall s - stop_nap_ticks) with (limit - wall s - stop_nap_ticks) in * by ln. ln.
    + pose proof (W_nonneg (limit - wall s)). ln.
  - (* PNap *)
    unfold mu_st; sm2; fold (nws s). split; auto.
    replace (limit - (wall s + stop_nap_ticks)) with (limit - wall s - stop_nap_ticks) by ln. ln.
Qed.

Lemma reap_nws : forall fuel s s' r, reap fuel s = (s', r) -> nws s' <= nws s /\ wall s' = wall s /\ cur s' = cur s.
Proof.
  induction fuel; intros s s' r H; cbn [reap] in H; [inversion H; subst; repeat split; lia|].
  destruct (first_zombie (kids s)) as [[z rest]|]; [|inversion H; subst; repeat split; lia].
  cbn [reexec set_kids] in H. destruct (reexec s =? k_pid z).
  - apply IHfuel in H. unfold nws in *. cbn [ws wall cur set_reexec set_kids] in H. exact H.
  - destruct ((Z.shiftr (k_status z) 8 =? worker_boot_error) && raises _); [inversion H; subst; unfold nws; cbn [ws wall cur set_kids]; repeat split; lia|].
    destruct ((Z.shiftr (k_status z) 8 =? app_load_error) && raises _); [inversion H; subst; unfold nws; cbn [ws wall cur set_kids]; repeat split; lia|].
    apply IHfuel in H. unfold nws in *. cbn [ws wall cur set_ws set_kids] in H. destruct H as [A [B C]]. repeat split; auto.
    pose proof (remove_z_length (k_pid z) (ws s)). lia.
Qed.

Lemma halt_cost : forall p n w, 0 <= n -> master_gone p = false -> in_final_stop p = false -> pc_live p -> F n <= mu p n w.
Proof.
  intros p n w Hn0 G Fin L. pose proof (W_nonneg (grace c)).
  destruct p; sm2; try discriminate.
  - unfold F. ln.
  - destruct k; sm2; destruct a; try discriminate; sm2; [pose proof (W_nonneg (limit - w))|]; unfold F; ln.
  - destruct k; sm2; destruct a; try discriminate; sm2; [pose proof (W_nonneg (limit - w))|]; unfold F; ln.
  - destruct a; try discriminate. sm2. pose proof (W_nonneg (limit - w)). unfold F. ln.
  - destruct a; try discriminate. sm2. pose proof (W_nonneg (limit - w - stop_nap_ticks)). unfold F. ln.
Qed.

Lemma chld_no_increase : forall s, pc_live (cur s) -> mu_st (chld c s) <= mu_st s /\ pc_live (cur (chld c s)).
Proof.
  intros s L. unfold chld. destruct (master_gone (cur s)) eqn:G; [split; auto; ln|].
  destruct (reap (S (length (kids s))) s) as [s1 r] eqn:R.
  destruct (reap_nws _ _ _ _ R) as [A [B C]].
  assert (M1 : mu_st s1 <= mu_st s).
  { unfold mu_st. rewrite C. apply mu_mono; auto. ln. }
  destruct r as [code|]; [|split; auto; rewrite C; auto].
  destruct (in_final_stop (cur s1)) eqn:Fin.
  - split; [|exact I]. unfold mu_st at 1. sm2. pose proof (mu_pos (cur s) (nws s) (wall s) (nws_nonneg s) G). unfold mu_st. ln.
  - split; [|exact I]. rewrite enter_stop_mu. rewrite C in Fin.
    pose proof (halt_cost (cur s) (nws s1) (wall s1) (nws_nonneg s1) G Fin L).
    unfold mu_st in M1. rewrite C in M1. ln.
Qed.

Lemma step_measure : forall s l, pc_live (cur s) ->
  pc_live (cur (step c s l)) /\
  (if is_master l && negb (master_gone (cur s)) then mu_st (step c s l) + 1 <= mu_st s else mu_st (step c s l) <= mu_st s).
Proof.
  intros s l L. destruct l; cbn [step is_master andb].
  - destruct (master_gone (cur s)) eqn:G; cbn [negb].
    + assert (Q : master c s = s) by (unfold master; destruct (cur s); cbn [master_gone] in G; try discriminate; reflexivity).
      rewrite Q. split; auto. lia.
    + destruct (master_decreases s G L). split; auto.
  - destruct (chld_no_increase s L). split; auto.
  - unfold mu_st, nws. cbn [cur ws wall set_kids]. split; auto. lia.
  - destruct (0 <=? dt) eqn:D; [|split; auto; lia]. apply Z.leb_le in D.
    unfold mu_st, nws. cbn [cur ws wall set_tick]. split; auto. apply mu_mono; lia.
Qed.

Lemma gone_stays : forall ls s, master_gone (cur s) = true -> master_gone (cur (run c s ls)) = true.
Proof.
  induction ls as [|l t IH]; simpl; intros s G; auto. apply IH.
  destruct l; simpl; auto.
  - assert (Q : master c s = s) by (unfold master; destruct (cur s); simpl in G; try discriminate; reflexivity).
    rewrite Q. auto.
  - unfold chld. rewrite G. auto.
  - destruct (0 <=? dt); auto.
Qed.

Lemma run_measure : forall ls s, pc_live (cur s) ->
  master_gone (cur (run c s ls)) = true \/ mu_st (run c s ls) + Z.of_nat (count_master ls) <= mu_st s.
Proof.
  induction ls as [|l t IH]; intros s L; [right; unfold count_master; simpl; lia|].
  destruct (master_gone (cur s)) eqn:G.
  - left. apply (gone_stays (l :: t) s G).
  - destruct (step_measure s l L) as [L1 M]. change (run c s (l :: t)) with (run c (step c s l) t).
    destruct (IH _ L1) as [H|H]; auto. right.
    rewrite G in M. unfold count_master in *. destruct l; cbn [is_master andb negb filter length] in *; lia.
Qed.

(* every schedule that gives the master enough steps ends the master *)
Theorem shutdown_terminates : forall s0 sg ls,
  cur s0 = PDispatch sg -> stop_signal sg = true ->
  mu_st s0 <= Z.of_nat (count_master ls) ->
  master_gone (cur (run c s0 ls)) = true.
Proof.
  intros s0 sg ls E S H.
  assert (L : pc_live (cur s0)) by (rewrite E; exact S).
  destruct (run_measure ls s0 L) as [G|M]; auto.
  destruct (master_gone (cur (run c s0 ls))) eqn:G; auto.
  pose proof (mu_pos (cur (run c s0 ls)) (nws (run c s0 ls)) (wall (run c s0 ls)) (nws_nonneg _) G). unfold mu_st in *. ln.
Qed.

End Term.
