(* C14 - the statements of the property, derived from the invariants *)
From Coq Require Import List ZArith Bool Lia.
From GV Require Import Gen.GenUpgrade Model.Upgrade Proof.UpgradeInv Proof.UpgradePid.
Import ListNotations.
Local Open Scope Z_scope.
Local Opaque reload_names_dot2.

Definition some_alive (s : st) : Prop := m_alive (ma s) = true \/ m_alive (mb s) = true.

Lemma run_sock : forall c es s, WF s -> SockInv c s -> SockInv c (run c s es) /\ WF (run c s es).
Proof.
  induction es; simpl; intros s W S; auto. apply IHes.
  - apply step_wf; auto.
  - apply step_sock; auto.
Qed.

Lemma init_sock : forall c, SockInv c (init c).
Proof. intros c Hu _. simpl. exact Hu. Qed.

(* whichever master exits first - and whatever else happens - the socket file is there while a master lives *)
Theorem socket_survives : forall c es, unixb c = true ->
  some_alive (run c (init c) es) -> sockf (run c (init c) es) = true.
Proof.
  intros c es Hu Al. destruct (run_sock c es (init c) (init_wf c) (init_sock c)) as [S _]. apply S; auto.
Qed.

Theorem first_exit_keeps_socket : forall c es x, unixb c = true ->
  let s := run c (init c) es in
  m_alive (get s x) = true -> m_alive (get s (other x)) = true ->
  sockf (step c s (Stop x)) = true /\ m_alive (get (step c s (Stop x)) (other x)) = true.
Proof.
  intros c es x Hu s Ax Ao.
  assert (Q : m_alive (get (step c s (Stop x)) (other x)) = true).
  { unfold step. rewrite Ax. unfold do_exit.
    destruct (pidconf c).
    - destruct (pf_unlink_masters (if unlink_flag c (get s x) && unixb c then set_sock s false else s) (get s x)) as [EA [EB _]].
      destruct (unlink_flag c (get s x) && unixb c); destruct x; simpl in *; congruence.
    - destruct (unlink_flag c (get s x) && unixb c); destruct x; simpl in *; congruence. }
  split; auto.
  replace (step c s (Stop x)) with (run c (init c) (es ++ [Stop x])) in * by (unfold s, run; rewrite fold_left_app; reflexivity).
  apply socket_survives; auto. unfold some_alive. destruct x; simpl in Q; auto.
Qed.

(* the last master to exit unlinks the socket file - if it knows that it is alone *)
Theorem last_exit_unlinks : forall c s x, WF s -> unixb c = true -> shared c = false ->
  m_alive (get s x) = true -> m_reexec (get s x) = 0 -> m_mpid (get s x) = 0 ->
  let s' := step c s (Stop x) in
  sockf s' = false /\ m_alive (ma s') = false /\ m_alive (mb s') = false.
Proof.
  intros c s x W Hu Hs Al R M s'. pose proof (alone s x W Al R M) as Ao.
  unfold s', step. rewrite Al. unfold do_exit, unlink_flag. rewrite R, M, Hs, Hu. simpl.
  destruct (pidconf c).
  - destruct (pf_unlink_masters (set_sock s false) (get s x)) as [EA [EB _]].
    rewrite put_sock, pf_unlink_sock. destruct x; simpl in *; rewrite ?EA, ?EB; auto.
  - destruct x; simpl in *; auto.
Qed.

(* ... and it gets to know: with the other master gone, SIGCHLD and one turn of the main loop clear both references *)
Theorem alone_is_noticed : forall c s x, WF s -> (pidconf c = true -> PF s) ->
  m_alive (get s x) = true -> m_alive (get s (other x)) = false ->
  let s' := run c s [NoticeChild x; NoticeParent x] in
  m_alive (get s' x) = true /\ m_reexec (get s' x) = 0 /\ m_mpid (get s' x) = 0.
Proof.
  intros c s x W P Al Ao s'.
  assert (Dead : forall p, p <> m_pid (get s x) -> alive_pid s p = false).
  { intros p Hp. unfold alive_pid. destruct x; simpl in *; rewrite Al, Ao; simpl.
    - rewrite orb_false_r. apply Z.eqb_neq. auto.
    - apply Z.eqb_neq. auto. }
  destruct W as [Wa Wb Wne [A1 [A2 A3]] [B1 [B2 B3]] Wp].
  assert (Pos : 0 < m_pid (get s x)) by (destruct x; simpl in *; auto).
  assert (Rx : m_reexec (get s x) <> 0 -> m_reexec (get s x) = m_pid (get s (other x))) by (destruct x; simpl in *; auto).
  assert (Mx : m_mpid (get s x) <> 0 -> m_mpid (get s x) = m_pid (get s (other x)) /\ m_reexec (get s x) = 0) by (destruct x; simpl in *; auto).
  assert (Ne : m_pid (get s (other x)) <> m_pid (get s x)) by (destruct x; simpl in *; auto).
  (* NoticeChild *)
  set (s1 := step c s (NoticeChild x)).
  assert (S1 : m_alive (get s1 x) = true /\ m_reexec (get s1 x) = 0 /\ m_mpid (get s1 x) = m_mpid (get s x) /\
               m_pid (get s1 x) = m_pid (get s x) /\ get s1 (other x) = get s (other x) /\
               (forall n, fs_get s1 n = fs_get s n) /\ m_pname (get s1 x) = m_pname (get s x) /\ m_pown (get s1 x) = m_pown (get s x)
               /\ next_pid s1 = next_pid s).
  { unfold s1, step. rewrite Al. simpl.
    destruct (m_reexec (get s x) =? 0) eqn:E.
    - apply Z.eqb_eq in E. simpl. repeat split; auto.
    - apply Z.eqb_neq in E. simpl. rewrite (Dead (m_reexec (get s x))) by (rewrite (Rx E); auto). simpl.
      rewrite get_put_same, get_put_other. simpl. repeat split; auto. intros n. apply fs_get_putm. apply next_pid_put. }
  destruct S1 as [Al1 [R1 [M1 [P1 [O1 [F1 [N1 [Ow1 Np1]]]]]]]].
  assert (Es : s' = step c s1 (NoticeParent x)) by reflexivity. rewrite Es. clearbody s1. cbn [step]. rewrite Al1.
  destruct (m_mpid (get s1 x) =? 0) eqn:E.
  - apply Z.eqb_eq in E. simpl. auto.
  - apply Z.eqb_neq in E. simpl.
    assert (D1 : alive_pid s1 (m_mpid (get s1 x)) = false).
    { unfold alive_pid. rewrite M1 in *. destruct (Mx E) as [Q _]. rewrite Q.
      destruct x; simpl in *; rewrite ?O1, Ao, ?Al1; simpl; rewrite ?orb_false_r; apply Z.eqb_neq; congruence. }
    rewrite D1. simpl.
    destruct (pidconf c) eqn:Pc.
    + (* the rename cannot fail: only this master is alive *)
      assert (PF1 : holds s1 (get s1 x)).
      { pose proof (pf_get s x (P eq_refl)) as Hx. intros _. destruct (Hx Al) as [H1 [H2 [H3 H4]]].
        rewrite N1, P1, Ow1. repeat split; auto; try (rewrite F1; auto; fail);
          try (intros n Hn; rewrite F1 in Hn; auto; fail); try (intros Q; rewrite M1; auto). }
      destruct (pf_unlink_masters s1 (get s1 x)) as [U1 [U2 U3]].
      assert (Only : forall q, alive_pid (pf_unlink s1 (get s1 x)) q = true -> q = m_pid (get s1 x)).
      { intros q Hq. rewrite (alive_pid_ext s1 _) in Hq by auto. unfold alive_pid in Hq.
        destruct x; simpl in *; rewrite ?O1, Ao, ?Al1 in Hq; simpl in Hq; rewrite ?orb_false_r in Hq; apply Z.eqb_eq in Hq; auto. }
      destruct (create_succeeds _ _ PMain Only (unlink_self s1 (get s1 x) PF1 Al1)) as [s2 Cr].
      rewrite Cr. rewrite get_put_same. simpl. auto.
    + rewrite get_put_same. simpl. auto.
Qed.

(* a further USR2 while an upgrade is pending changes nothing *)
Theorem second_usr2_ignored : forall c s x,
  m_reexec (get s x) <> 0 \/ m_mpid (get s x) <> 0 -> step c s (USR2 x) = s.
Proof.
  intros c s x H. unfold step. destruct (negb (m_alive (get s x))); auto.
  destruct H as [H|H]; apply Z.eqb_neq in H; rewrite H; simpl; auto.
  destruct (negb (m_reexec (get s x) =? 0)); auto.
Qed.

(* a master that is alone does start a new one (the two slots never get in the way) *)
Theorem usr2_accepted : forall c s x, WF s ->
  m_alive (get s x) = true -> m_reexec (get s x) = 0 -> m_mpid (get s x) = 0 ->
  let s' := step c s (USR2 x) in
  execs s' = execs s + 1 /\ m_reexec (get s' x) = next_pid s /\ m_pid (get s' (other x)) = next_pid s /\
  m_mpid (get s' (other x)) = m_pid (get s x).
Proof.
  intros c s x W Al R M s'. pose proof (alone s x W Al R M) as Ao.
  unfold s', step. rewrite Al, R, M, Ao. simpl. unfold start_child. cbv zeta.
  destruct (pidconf c).
  - match goal with |- context [pf_create ?a ?b ?n] => destruct (pf_create a b n) as [s2|] eqn:Cr end.
    + destruct (pf_create_masters _ _ _ _ Cr) as [EA [EB EN]].
      assert (EE : execs s2 = execs s + 1).
      { unfold pf_create in Cr. repeat match type of Cr with context [match ?t with _ => _ end] => destruct t end;
          inversion Cr; subst; destruct x; reflexivity. }
      destruct x; simpl in *; rewrite ?EA, ?EB; simpl; auto.
    + destruct x; simpl; auto.
  - destruct x; simpl; auto.
Qed.

(* ---- pid files --------------------------------------------------------------------------------------------------- *)
Lemma reach : forall c es, pidconf c = true -> PF (run c (init c) es) /\ WF (run c (init c) es).
Proof. intros. apply run_pf; auto. apply init_wf. apply init_pf; auto. Qed.

(* every live master holds the pid file it names *)
Theorem pidfile_held : forall c es x, pidconf c = true ->
  let s := run c (init c) es in
  m_alive (get s x) = true -> fs_get s (m_pname (get s x)) = Some (m_pid (get s x)).
Proof.
  intros c es x Pc s Al. destruct (reach c es Pc) as [P _]. destruct (pf_get _ x P Al) as [H _]. exact H.
Qed.

(* who is the child: the one whose master_pid is set; the other one then has it as reexec_pid and no parent *)
Lemma child_parent : forall s x, WF s ->
  m_alive (get s x) = true -> m_alive (get s (other x)) = true -> m_mpid (get s x) <> 0 ->
  m_mpid (get s x) = m_pid (get s (other x)) /\ m_reexec (get s (other x)) = m_pid (get s x) /\ m_mpid (get s (other x)) = 0.
Proof.
  intros s x [Wa Wb Wne [A1 [A2 A3]] [B1 [B2 B3]] Wp] Al Ao Mp.
  destruct x; simpl in *.
  - destruct (A3 Al Mp) as [Q R]. destruct (Wp Al Ao) as [[P1 P2]|[P1 P2]].
    + pose proof (B1 Ao). lia.
    + split; auto. split; auto. destruct (Z.eq_dec (m_mpid (mb s)) 0); auto.
      destruct (B3 Ao n) as [_ R']. pose proof (A1 Al). lia.
  - destruct (B3 Al Mp) as [Q R]. destruct (Wp Ao Al) as [[P1 P2]|[P1 P2]].
    + split; auto. split; auto. destruct (Z.eq_dec (m_mpid (ma s)) 0); auto.
      destruct (A3 Ao n) as [_ R']. pose proof (B1 Al). lia.
    + pose proof (A1 Ao). lia.
Qed.

(* while both live, the re-executed master holds '<pidfile>.2' and the old one the configured name *)
Theorem pidfile_names : forall c es x, pidconf c = true ->
  let s := run c (init c) es in
  m_alive (get s x) = true -> m_alive (get s (other x)) = true -> m_mpid (get s x) <> 0 ->
  m_pname (get s x) = PDot2 /\ m_pname (get s (other x)) = PMain /\
  fsP2 s = Some (m_pid (get s x)) /\ fsP s = Some (m_pid (get s (other x))).
Proof.
  intros c es x Pc s Al Ao Mp. destruct (reach c es Pc) as [P W]. fold s in P, W.
  destruct (child_parent s x W Al Ao Mp) as [C1 [C2 C3]].
  destruct (pf_get _ x P Al) as [Hx1 [Hx2 [Hx3 Hx4]]].
  destruct (pf_get _ (other x) P Ao) as [Ho1 [Ho2 [Ho3 Ho4]]].
  assert (No : m_pname (get s (other x)) = PMain).
  { destruct (m_pname (get s (other x))) eqn:E; auto. exfalso. apply Ho4; auto. }
  assert (Nx : m_pname (get s x) = PDot2).
  { destruct (m_pname (get s x)) eqn:E; auto. exfalso. rewrite No in Ho1. rewrite Ho1 in Hx1.
    destruct W as [_ _ Wne _ _ _]. destruct x; simpl in *; congruence. }
  rewrite Nx in Hx1. rewrite No in Ho1. simpl in *. auto.
Qed.

Lemma create_frame : forall s me n s', pf_create s me n = Some s' -> forall n', n' <> n -> fs_get s' n' = fs_get s n'.
Proof.
  intros s me n s' Cr n' Ne. unfold pf_create in Cr.
  destruct (fs_get s n) as [q|]; [destruct (alive_pid s q); [destruct (q =? me); inversion Cr; subst; auto|inversion Cr; subst]|inversion Cr; subst];
    apply fs_get_put_other; auto.
Qed.

(* once the old master is gone, one turn of the main loop moves the pid to the configured name *)
Theorem promotion_moves_pidfile : forall c s x, pidconf c = true -> WF s -> PF s ->
  m_alive (get s x) = true -> m_alive (get s (other x)) = false -> m_mpid (get s x) <> 0 -> m_pname (get s x) = PDot2 ->
  let s' := step c s (NoticeParent x) in
  m_alive (get s' x) = true /\ m_mpid (get s' x) = 0 /\ m_pname (get s' x) = PMain /\
  fsP s' = Some (m_pid (get s x)) /\ fsP2 s' = None.
Proof.
  intros c s x Pc W P Al Ao Mp Nx s'.
  pose proof (pf_get _ x P) as Hx. destruct (Hx Al) as [Hx1 [Hx2 [Hx3 Hx4]]].
  assert (Lk : m_mpid (get s x) = m_pid (get s (other x))).
  { destruct W as [_ _ _ [A1 [A2 A3]] [B1 [B2 B3]] _]. destruct x; simpl in *; [apply A3|apply B3]; auto. }
  assert (Ne : m_pid (get s (other x)) <> m_pid (get s x)) by (destruct W as [_ _ Wne _ _ _]; destruct x; simpl in *; auto).
  assert (D : alive_pid s (m_mpid (get s x)) = false).
  { rewrite Lk. unfold alive_pid. destruct x; simpl in *; rewrite Al, Ao; simpl; rewrite ?orb_false_r; apply Z.eqb_neq; auto. }
  unfold s', step. rewrite Al. assert (E : (m_mpid (get s x) =? 0) = false) by (apply Z.eqb_neq; auto). rewrite E, D. simpl. rewrite Pc.
  destruct (pf_unlink_masters s (get s x)) as [U1 [U2 U3]].
  assert (Only : forall q, alive_pid (pf_unlink s (get s x)) q = true -> q = m_pid (get s x)).
  { intros q Hq. rewrite (alive_pid_ext s _) in Hq by auto. unfold alive_pid in Hq.
    destruct x; simpl in *; rewrite Al, Ao in Hq; simpl in Hq; rewrite ?orb_false_r in Hq; apply Z.eqb_eq in Hq; auto. }
  destruct (create_succeeds _ _ PMain Only (unlink_self s (get s x) Hx Al)) as [s2 Cr]. rewrite Cr.
  destruct (create_self _ _ _ _ Cr (unlink_self s (get s x) Hx Al)) as [C1 [C2 C3]].
  rewrite get_put_same. simpl. repeat split; auto.
  - replace (fsP (put s2 x _)) with (fs_get s2 PMain) by (destruct x; reflexivity). auto.
  - replace (fsP2 (put s2 x _)) with (fs_get s2 PDot2) by (destruct x; reflexivity).
    rewrite (create_frame _ _ _ _ Cr PDot2) by discriminate.
    unfold pf_unlink. rewrite Hx2, Hx1, Z.eqb_refl. rewrite Nx. apply fs_get_put_same.
Qed.

Lemma get_put_other2 : forall s x m, get (put s (other x) m) x = get s x.
Proof. intros. destruct x; reflexivity. Qed.

(* ---- rollback: stopping the new master gives the old one back its single-master state ---------------------------------- *)
Theorem rollback_restores : forall c s x, WF s -> (pidconf c = true -> PF s) ->
  m_alive (get s x) = true -> m_alive (get s (other x)) = true -> m_reexec (get s x) = m_pid (get s (other x)) ->
  let s' := run c s [Stop (other x); NoticeChild x] in
  get s' x = set_m_reexec (get s x) 0 /\ m_alive (get s' (other x)) = false /\ sockf s' = sockf s /\
  (pidconf c = true -> fsP s' = fsP s /\ fsP2 s' = None).
Proof.
  intros c s x W P Al Ao Rx s'.
  pose proof W as [Wa Wb Wne [A1 [A2 A3]] [B1 [B2 B3]] Wp].
  assert (Po : 0 < m_pid (get s (other x))) by (destruct x; simpl in *; auto).
  (* the other master is the child: its master_pid is set *)
  assert (Mo : m_mpid (get s (other x)) = m_pid (get s x)).
  { destruct x; simpl in *; destruct (Wp ltac:(auto) ltac:(auto)) as [[P1 P2]|[P1 P2]]; auto.
    - destruct (Z.eq_dec (m_mpid (ma s)) 0) as [Q|Q]; [pose proof (B1 Ao); lia|]. destruct (A3 Al Q). lia.
    - destruct (Z.eq_dec (m_mpid (mb s)) 0) as [Q|Q]; [pose proof (A1 Ao); lia|]. destruct (B3 Al Q). lia. }
  assert (Px : 0 < m_pid (get s x)) by (destruct x; simpl in *; auto).
  assert (Fl : unlink_flag c (get s (other x)) = false).
  { unfold unlink_flag. assert (E : (m_mpid (get s (other x)) =? 0) = false) by (apply Z.eqb_neq; lia). rewrite E.
    rewrite andb_false_r. reflexivity. }
  set (s1 := step c s (Stop (other x))).
  assert (S1 : get s1 x = get s x /\ m_alive (get s1 (other x)) = false /\ m_pid (get s1 (other x)) = m_pid (get s (other x)) /\
               sockf s1 = sockf s /\ (pidconf c = true -> fsP s1 = fsP s /\ fsP2 s1 = None)).
  { unfold s1, step. rewrite Ao. unfold do_exit. rewrite Fl. simpl.
    destruct (pidconf c) eqn:Pc.
    - destruct (pf_unlink_masters s (get s (other x))) as [U1 [U2 U3]].
      assert (Gx : get (pf_unlink s (get s (other x))) x = get s x) by (destruct x; simpl; auto).
      rewrite get_put_other2, get_put_same. simpl. rewrite put_sock, pf_unlink_sock.
      split; [auto|]. split; [auto|]. split; [auto|]. split; [auto|]. intros _.
      (* the child holds '.2' *)
      pose proof (P eq_refl) as PFs.
      assert (Mp : m_mpid (get s (other x)) <> 0) by lia.
      assert (Nn : m_pname (get s (other x)) = PDot2 /\ fs_get s PDot2 = Some (m_pid (get s (other x)))).
      { pose proof (pf_get _ (other x) PFs Ao) as [Ho1 [Ho2 [Ho3 Ho4]]].
        pose proof (pf_get _ x PFs Al) as [Hx1 [Hx2 [Hx3 Hx4]]].
        assert (Mx : m_mpid (get s x) = 0).
        { destruct (Z.eq_dec (m_mpid (get s x)) 0); auto. exfalso.
          destruct x; simpl in *; [destruct (A3 Al n)|destruct (B3 Al n)]; lia. }
        assert (Nx : m_pname (get s x) = PMain).
        { destruct (m_pname (get s x)) eqn:E; auto. exfalso. apply Hx4; auto. }
        destruct (m_pname (get s (other x))) eqn:E; [|auto].
        exfalso. rewrite Nx in Hx1. rewrite Hx1 in Ho1. inversion Ho1. destruct x; simpl in *; congruence. }
      destruct Nn as [Nn Fn].
      pose proof (pf_get _ (other x) PFs Ao) as [Ho1 [Ho2 _]].
      replace (fsP (put _ (other x) _)) with (fs_get (pf_unlink s (get s (other x))) PMain) by (destruct x; reflexivity).
      replace (fsP2 (put _ (other x) _)) with (fs_get (pf_unlink s (get s (other x))) PDot2) by (destruct x; reflexivity).
      unfold pf_unlink. rewrite Ho2, Ho1, Z.eqb_refl, Nn. split; [apply fs_get_put_other; discriminate|apply fs_get_put_same].
    - rewrite get_put_other2, get_put_same. simpl. rewrite put_sock. split; [auto|]. split; [auto|]. split; [auto|]. split; [auto|]. intros Q; discriminate. }
  destruct S1 as [Gx [Do [Pd [Sk Fs]]]].
  assert (Es : s' = step c s1 (NoticeChild x)) by reflexivity. rewrite Es. clearbody s1. cbn [step].
  rewrite Gx, Al. assert (E : (m_reexec (get s x) =? 0) = false) by (apply Z.eqb_neq; lia). rewrite E. simpl.
  assert (D : alive_pid s1 (m_reexec (get s x)) = false).
  { rewrite Rx. unfold alive_pid. destruct x; simpl in *; rewrite Gx, Al, Do; simpl; rewrite ?orb_false_r; apply Z.eqb_neq; lia. }
  rewrite D. simpl. rewrite get_put_same, get_put_other, put_sock.
  split; [auto|]. split; [auto|]. split; [auto|]. intros Pc. destruct (Fs Pc) as [F1 F2]. split; [rewrite <- F1|rewrite <- F2]; destruct x; reflexivity.
Qed.

(* ---- the same when the new master stops BY ITSELF, with any exit status (its workers cannot boot: 3 / 4): the old master goes
        on, single again - the exit status of the re-executed master is of no consequence for its parent ------------------- *)
Theorem failed_upgrade_restores : forall c s x code, WF s -> (pidconf c = true -> PF s) ->
  m_alive (get s x) = true -> m_alive (get s (other x)) = true -> m_reexec (get s x) = m_pid (get s (other x)) ->
  let s' := run c s [Halt (other x) code; NoticeChild x] in
  get s' x = set_m_reexec (get s x) 0 /\ m_alive (get s' (other x)) = false /\ sockf s' = sockf s /\
  (pidconf c = true -> fsP s' = fsP s /\ fsP2 s' = None).
Proof.
  intros c s x code W P Al Ao Rx s'.
  pose proof W as [Wa Wb Wne [A1 [A2 A3]] [B1 [B2 B3]] Wp].
  assert (Po : 0 < m_pid (get s (other x))) by (destruct x; simpl in *; auto).
  (* the other master is the child: its master_pid is set *)
  assert (Mo : m_mpid (get s (other x)) = m_pid (get s x)).
  { destruct x; simpl in *; destruct (Wp ltac:(auto) ltac:(auto)) as [[P1 P2]|[P1 P2]]; auto.
    - destruct (Z.eq_dec (m_mpid (ma s)) 0) as [Q|Q]; [pose proof (B1 Ao); lia|]. destruct (A3 Al Q). lia.
    - destruct (Z.eq_dec (m_mpid (mb s)) 0) as [Q|Q]; [pose proof (A1 Ao); lia|]. destruct (B3 Al Q). lia. }
  assert (Px : 0 < m_pid (get s x)) by (destruct x; simpl in *; auto).
  assert (Fl : unlink_flag c (get s (other x)) = false).
  { unfold unlink_flag. assert (E : (m_mpid (get s (other x)) =? 0) = false) by (apply Z.eqb_neq; lia). rewrite E.
    rewrite andb_false_r. reflexivity. }
  set (s1 := step c s (Halt (other x) code)).
  assert (S1 : get s1 x = get s x /\ m_alive (get s1 (other x)) = false /\ m_pid (get s1 (other x)) = m_pid (get s (other x)) /\
               sockf s1 = sockf s /\ (pidconf c = true -> fsP s1 = fsP s /\ fsP2 s1 = None)).
  { unfold s1, step. rewrite Ao. unfold do_exit. rewrite Fl. simpl.
    destruct (pidconf c) eqn:Pc.
    - destruct (pf_unlink_masters s (get s (other x))) as [U1 [U2 U3]].
      assert (Gx : get (pf_unlink s (get s (other x))) x = get s x) by (destruct x; simpl; auto).
      rewrite get_put_other2, get_put_same. simpl. rewrite put_sock, pf_unlink_sock.
      split; [auto|]. split; [auto|]. split; [auto|]. split; [auto|]. intros _.
      (* the child holds '.2' *)
      pose proof (P eq_refl) as PFs.
      assert (Mp : m_mpid (get s (other x)) <> 0) by lia.
      assert (Nn : m_pname (get s (other x)) = PDot2 /\ fs_get s PDot2 = Some (m_pid (get s (other x)))).
      { pose proof (pf_get _ (other x) PFs Ao) as [Ho1 [Ho2 [Ho3 Ho4]]].
        pose proof (pf_get _ x PFs Al) as [Hx1 [Hx2 [Hx3 Hx4]]].
        assert (Mx : m_mpid (get s x) = 0).
        { destruct (Z.eq_dec (m_mpid (get s x)) 0); auto. exfalso.
          destruct x; simpl in *; [destruct (A3 Al n)|destruct (B3 Al n)]; lia. }
        assert (Nx : m_pname (get s x) = PMain).
        { destruct (m_pname (get s x)) eqn:E; auto. exfalso. apply Hx4; auto. }
        destruct (m_pname (get s (other x))) eqn:E; [|auto].
        exfalso. rewrite Nx in Hx1. rewrite Hx1 in Ho1. inversion Ho1. destruct x; simpl in *; congruence. }
      destruct Nn as [Nn Fn].
      pose proof (pf_get _ (other x) PFs Ao) as [Ho1 [Ho2 _]].
      replace (fsP (put _ (other x) _)) with (fs_get (pf_unlink s (get s (other x))) PMain) by (destruct x; reflexivity).
      replace (fsP2 (put _ (other x) _)) with (fs_get (pf_unlink s (get s (other x))) PDot2) by (destruct x; reflexivity).
      unfold pf_unlink. rewrite Ho2, Ho1, Z.eqb_refl, Nn. split; [apply fs_get_put_other; discriminate|apply fs_get_put_same].
    - rewrite get_put_other2, get_put_same. simpl. rewrite put_sock. split; [auto|]. split; [auto|]. split; [auto|]. split; [auto|]. intros Q; discriminate. }
  destruct S1 as [Gx [Do [Pd [Sk Fs]]]].
  assert (Es : s' = step c s1 (NoticeChild x)) by reflexivity. rewrite Es. clearbody s1. cbn [step].
  rewrite Gx, Al. assert (E : (m_reexec (get s x) =? 0) = false) by (apply Z.eqb_neq; lia). rewrite E. simpl.
  assert (D : alive_pid s1 (m_reexec (get s x)) = false).
  { rewrite Rx. unfold alive_pid. destruct x; simpl in *; rewrite Gx, Al, Do; simpl; rewrite ?orb_false_r; apply Z.eqb_neq; lia. }
  rewrite D. simpl. rewrite get_put_same, get_put_other, put_sock.
  split; [auto|]. split; [auto|]. split; [auto|]. intros Pc. destruct (Fs Pc) as [F1 F2]. split; [rewrite <- F1|rewrite <- F2]; destruct x; reflexivity.
Qed.
