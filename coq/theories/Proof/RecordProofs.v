(* C19, worker side: which access records a request produces, and what they say. *)
From Coq Require Import List NArith ZArith Bool Lia.
From GV Require Import Base.Enc Base.Dec Gen.GenErrors Model.Handle Proof.HandleProofs Proof.ConnProofs.
Import ListNotations.
Local Open Scope N_scope.

(* the part of handle_request that runs the application, if it is reached *)
Definition request_outcome (w : wkind) (c : cfg) (st : wst) (h : head) (a : app) (fs : list fault)
  : option (bool * option exn * resp * list fault * list ev) :=
  let '(x0, fs0, _) := send_100 (h_expect h) fs in
  match x0, h_create_exn h with
  | None, None => Some (serve c h (resp_init (snd (count_request w c st))) a fs0)
  | _, _ => None
  end.

Lemma sumN_zero (f : ev -> N) (g : ev -> bool) l : forallb g l = true -> (forall e, g e = true -> f e = 0) -> sumN f l = 0.
Proof.
  intros H K. induction l as [|e t IH]; [reflexivity|]. cbn [forallb] in H. apply andb_prop in H as [H1 H2].
  cbn [sumN fold_right]. fold (sumN f t). rewrite (K _ H1), (IH H2). reflexivity.
Qed.

Lemma attempted_delivered l : forallb ev_ok l = true -> sumN attempted l = sumN delivered l.
Proof.
  induction l as [|e t IH]; [reflexivity|]. cbn [forallb sumN fold_right]. intros H. apply andb_prop in H as [H1 H2].
  fold (sumN attempted t). fold (sumN delivered t). rewrite (IH H2). f_equal.
  destruct e; cbn in *; try reflexivity; destruct f; try reflexivity; discriminate.
Qed.

Lemma Forall_trivial_code st (g : ev -> bool) l : forallb g l = true -> (forall e, g e = true -> hdr_code_ok st e) -> Forall (hdr_code_ok st) l.
Proof. intros H K. induction l as [|e t IH]; [constructor|]. cbn in H. apply andb_prop in H as [H1 H2]. constructor; [apply K; exact H1|apply IH; exact H2]. Qed.

(* the events of a request whose application call was entered: the prefix and the ladder's shutdown/close *)
Lemma handle_request_completed w c st h a fs hr st1 fs1 evs logged x r fsb body :
  request_outcome w c st h a fs = Some (logged, x, r, fsb, body) ->
  handle_request w c st h a fs = (hr, st1, fs1, evs) ->
  exists e0 lad, forallb is_100 e0 = true /\ forallb is_shutclose lad = true
    /\ evs = e0 ++ EvApp :: body ++ (if logged then [EvAccess (r_status r) (r_sent r)] else []) ++ lad.
Proof.
  unfold request_outcome. intros Ho H. unfold handle_request in H.
  destruct (send_100 (h_expect h) fs) as [[x0 fs0] ev0] eqn:E0.
  destruct (send_100_post _ _ _ _ _ E0) as [A0 _].
  destruct x0 as [e|]; [discriminate|]. destruct (h_create_exn h) as [e|]; [discriminate|]. injection Ho as Es.
  destruct (count_request w c st) as [s1 b]. cbn [snd] in Es. rewrite Es in H. cbn zeta in H.
  exists ev0.
  assert (Lad : forall e, (let '(hr, fs2, e2) := hr_ladder w r e fsb in
                (hr, s1, fs2, (ev0 ++ EvApp :: body ++ (if logged then [EvAccess (r_status r) (r_sent r)] else [])) ++ e2)) = (hr, st1, fs1, evs) ->
      exists lad, forallb is_100 ev0 = true /\ forallb is_shutclose lad = true /\
        evs = ev0 ++ EvApp :: body ++ (if logged then [EvAccess (r_status r) (r_sent r)] else []) ++ lad).
  { intros e. destruct (hr_ladder w r e fsb) as [[hr2 fs2] e2] eqn:EL. intros G. injection G as <- <- <- <-.
    exists e2. split; [exact A0|]. split.
    - destruct (hr_ladder_inv _ _ _ _ _ _ _ EL) as [(_ & -> & _)|(_ & _ & _ & _ & K)]; [reflexivity|exact K].
    - rewrite <- app_assoc. cbn [List.app]. f_equal. f_equal. rewrite <- app_assoc. reflexivity. }
  destruct x as [e|]; [apply (Lad e); exact H|].
  destruct (hr_after w h r) as [hr'|]; [|apply (Lad exn_generic); exact H].
  injection H as <- <- <- <-. exists []. split; [exact A0|]. split; [reflexivity|]. rewrite app_nil_r. reflexivity.
Qed.

(* When the application call completes (no exception up to and including resp.close()), the request produces
   exactly one access record; it carries the status given to start_response - the one in the response head that
   went out - and resp.sent, which equals the number of body bytes handed to the socket with success, whichever
   way they were produced (write(), iterable, chunked or not, file wrapper through sendfile or through reads). *)
Theorem one_truthful_record w c st h a fs hr st1 fs1 evs r fsb body :
  request_outcome w c st h a fs = Some (true, None, r, fsb, body) ->
  handle_request w c st h a fs = (hr, st1, fs1, evs) ->
  count is_access evs = 1%nat
  /\ In (EvAccess (r_status r) (r_sent r)) evs
  /\ r_sent r = sumN delivered evs
  /\ Forall (hdr_code_ok (r_status r)) evs
  /\ forallb ev_ok body = true.
Proof.
  intros Ho H. destruct (handle_request_completed _ _ _ _ _ _ _ _ _ _ _ _ _ _ _ Ho H) as (e0 & lad & A0 & Al & ->).
  unfold request_outcome in Ho. destruct (send_100 (h_expect h) fs) as [[x0 fs0] ev0].
  destruct x0; [discriminate|]. destruct (h_create_exn h); [discriminate|]. injection Ho as Es.
  destruct (serve_post (fun _ => True) I I _ _ _ _ _ _ _ _ _ _ (proj2 (Forall_forall _ _) (fun _ _ => I)) Es) as [Ab _].
  destruct (serve_acct _ _ _ _ _ _ _ _ _ _ Es) as (Ac & _ & _).
  pose proof (ac_ok _ _ _ _ Ac eq_refl) as Hok.
  split; [|split; [|split; [|split]]].
  - rewrite count_app. change (EvApp :: ?l) with ([EvApp] ++ l). rewrite !count_app.
    rewrite (count_none is_access is_100 e0 A0), (count_none is_access is_body body Ab), (count_none is_access is_shutclose lad Al);
      [reflexivity| | |]; intros []; cbn; congruence.
  - apply in_or_app. right. right. apply in_or_app. right. left. reflexivity.
  - rewrite sumN_app. change (EvApp :: ?l) with ([EvApp] ++ l). rewrite !sumN_app.
    rewrite (sumN_zero delivered is_100 e0 A0), (sumN_zero delivered is_shutclose lad Al) by (intros [] ; cbn; congruence).
    rewrite <- (attempted_delivered body Hok). rewrite (ac_sent _ _ _ _ Ac). cbn. lia.
  - apply Forall_app. split; [eapply Forall_trivial_code; [exact A0|intros []; cbn; try congruence; intros; exact I]|].
    constructor; [exact I|]. apply Forall_app. split; [apply (ac_codes _ _ _ _ Ac)|].
    apply Forall_app. split; [repeat constructor|].
    eapply Forall_trivial_code; [exact Al|intros []; cbn; try congruence; intros; exact I].
  - exact Hok.
Qed.

(* in general resp.sent counts a piece before it is written: when a socket operation fails, the record
   over-reports by exactly the pieces whose write failed *)
Theorem sent_is_attempted w c st h a fs logged x r fsb body :
  request_outcome w c st h a fs = Some (logged, x, r, fsb, body) -> r_sent r = sumN attempted body.
Proof.
  unfold request_outcome. destruct (send_100 (h_expect h) fs) as [[x0 fs0] ev0].
  destruct x0; [discriminate|]. destruct (h_create_exn h); [discriminate|]. intros Ho. injection Ho as Es.
  destruct (serve_acct _ _ _ _ _ _ _ _ _ _ Es) as (Ac & _ & _). rewrite (ac_sent _ _ _ _ Ac). cbn. lia.
Qed.

(* a request never produces more than one record inside handle_request ... *)
Theorem request_records_at_most_one w c st h a fs hr st1 fs1 evs :
  handle_request w c st h a fs = (hr, st1, fs1, evs) -> (count is_access evs <= 1)%nat.
Proof. intros H. apply (handle_request_facts _ _ _ _ _ _ _ _ _ _ H). Qed.

(* ---- a request the server rejects itself: at most one record follows ---- *)
Section Racc.
  Variable w : wkind.
  Variable c : cfg.

  Lemma tail_racc p e2 : is_reject p = true -> tail_shape e2 -> racc_ok None (p :: e2) = true.
  Proof. intros Hp T. cbn [racc_ok]. rewrite Hp. apply racc_tail. exact T. Qed.

  Lemma head_racc st h a fs hr st1 fs1 e1 e2 :
    handle_request w c st h a fs = (hr, st1, fs1, e1) -> tail_shape e2 -> racc_ok None (EvHead :: e1 ++ e2) = true.
  Proof.
    intros H T. destruct (handle_request_facts _ _ _ _ _ _ _ _ _ _ H) as (Hhr & _).
    change (EvHead :: e1 ++ e2) with (([EvHead] ++ e1) ++ e2).
    rewrite racc_noreject; [|cbn [List.app forallb is_reject negb andb]; apply is_hr_noreject; exact Hhr].
    rewrite <- (app_nil_r e2). rewrite racc_noreject; [reflexivity|]. apply is_tail_noreject. apply tail_shape_is_tail. exact T.
  Qed.

  Lemma conn_loop_racc : forall ps st apps fs x st1 fs1 evs,
    conn_loop w c st ps apps fs = (x, st1, fs1, evs) -> racc_ok None evs = true.
  Proof.
    induction ps as [|p ps IH]; intros st apps fs x st1 fs1 evs; cbn [conn_loop].
    - destruct (top_ladder w false exn_nomoredata fs) as [[x2 fs2] e2] eqn:ET. intros H. injection H as <- <- <- <-.
      apply tail_racc; [reflexivity|apply (top_ladder_inv _ _ _ _ _ _ _ ET)].
    - unfold one_request. destruct p as [h|e|].
      + destruct (next_app apps) as [a apps'].
        destruct (handle_request w c st h a fs) as [[[hr st'] fs'] ev'] eqn:E.
        assert (DoneRet : racc_ok None (EvHead :: ev') = true).
        { rewrite <- (app_nil_r ev'). eapply head_racc; [exact E|apply tail_shape_nil]. }
        assert (ContCase : forall k, (k = [] \/ k = [EvKeep]) -> forall x st1 fs1 evs,
            (let '(x, st2, fs2, e2) := conn_loop w c st' ps apps' fs' in (x, st2, fs2, (EvHead :: ev' ++ k) ++ e2)) = (x, st1, fs1, evs) ->
            racc_ok None evs = true).
        { intros k Hk x' st1' fs1' evs'. destruct (conn_loop w c st' ps apps' fs') as [[[x2 st2] fs2] e2] eqn:E2.
          intros H. injection H as <- <- <- <-.
          destruct (handle_request_facts _ _ _ _ _ _ _ _ _ _ E) as (Hhr & _).
          change (EvHead :: (ev' ++ k) ++ e2) with (([EvHead] ++ ev' ++ k) ++ e2). rewrite racc_noreject.
          - eapply IH. exact E2.
          - cbn [List.app forallb is_reject negb andb]. rewrite forallb_app, (is_hr_noreject _ Hhr). destruct Hk as [->| ->]; reflexivity. }
        destruct hr as [ka|e].
        * destruct w.
          -- intros H. injection H as <- <- <- <-. exact DoneRet.
          -- destruct (ka && w_alive st').
             ++ apply (ContCase [EvKeep]). right. reflexivity.
             ++ intros H. injection H as <- <- <- <-. exact DoneRet.
          -- destruct (c_keepalive c).
             ++ intros H. apply (ContCase [] (or_introl eq_refl) x st1 fs1 evs). rewrite app_nil_r. exact H.
             ++ intros H. injection H as <- <- <- <-. exact DoneRet.
        * destruct (top_ladder w true e fs') as [[x2 fs2] e2] eqn:ET. intros H. injection H as <- <- <- <-.
          eapply head_racc; [exact E|apply (top_ladder_inv _ _ _ _ _ _ _ ET)].
      + destruct (top_ladder w false e fs) as [[x2 fs2] e2] eqn:ET. intros H. injection H as <- <- <- <-.
        apply tail_racc; [reflexivity|apply (top_ladder_inv _ _ _ _ _ _ _ ET)].
      + assert (G : forall fsx x st1 fs1 evs,
              match (let '(x, fs1, e1) := top_ladder w false exn_generic fsx in Done x st fs1 (EvNone :: e1)) with
              | Done x st1 fs1 e1 => (x, st1, fs1, e1)
              | Cont st1 apps1 fs1 e1 => let '(x, st2, fs2, e2) := conn_loop w c st1 ps apps1 fs1 in (x, st2, fs2, e1 ++ e2)
              end = (x, st1, fs1, evs) -> racc_ok None evs = true).
        { intros fsx x' st1' fs1' evs'. destruct (top_ladder w false exn_generic fsx) as [[x2 fs2] e2] eqn:ET.
          intros H. injection H as <- <- <- <-. apply tail_racc; [reflexivity|apply (top_ladder_inv _ _ _ _ _ _ _ ET)]. }
        assert (G0 : forall x st1 fs1 evs, (@None exn, st, fs, [EvNone]) = (x, st1, fs1, evs) -> racc_ok None evs = true).
        { intros x' st1' fs1' evs' H. injection H as <- <- <- <-. reflexivity. }
        destruct w; [apply G|apply G0|]. destruct (c_keepalive c); [apply G0|apply G].
  Qed.
End Racc.

Theorem connection_racc w c st ps apps fs : racc_ok None (o_trace (connection w c st ps apps fs)) = true.
Proof.
  destruct (connection_unfold w c st ps apps fs) as (w' & st0 & ps1 & x & st1 & fs1 & evs & E & -> & _ & HC).
  pose proof (conn_loop_racc _ _ _ _ _ _ _ _ _ _ E) as R.
  assert (F : forall x st', racc_ok None (o_trace (finish x st' fs1 evs)) = true).
  { intros x' st'. unfold finish, final_close. cbn [o_trace]. destruct (pop fs1) as [f t]. apply racc_close. exact R. }
  destruct HC as [(_ & _ & ->)|(_ & _ & [[_ ->]|[_ ->]])]; try apply F. exact R.
Qed.
