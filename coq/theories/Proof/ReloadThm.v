(* C10 - the statements of the property, derived from the invariants *)
From Coq Require Import List ZArith Bool Lia.
From GV Require Import Gen.GenArbiter Model.Reload Proof.ReloadBase Proof.ReloadInv Proof.ReloadCount.
Import ListNotations.
Local Open Scope Z_scope.

(* ---- listeners ---------------------------------------------------------------------------------------------------- *)
Fixpoint addr_ok (a : Z) (ls : list label) : bool :=
  match ls with
  | [] => true
  | Edit _ a' :: t => (a' =? a) && addr_ok a t
  | _ :: t => addr_ok a t
  end.

Definition LInv (a : Z) (l0 c0 : list Z) (s : st) : Prop :=
  addr s = a /\ disk_addr s = a /\ lsn s = l0 /\ closed s = c0 /\ (forall w, In w (workers s) -> w_lsn w = l0).

Lemma reap_linv : forall a l0 c0 fuel s, LInv a l0 c0 s -> LInv a l0 c0 (reap fuel s).
Proof.
  induction fuel; simpl; intros s L; auto.
  destruct (first_zombie (kids s)) as [[z rest]|]; auto. apply IHfuel.
  destruct L as [L1 [L2 [L3 [L4 L5]]]]. unfold LInv. simpl. repeat split; auto.
  intros w Hw. apply remove_wk_In in Hw. apply L5. tauto.
Qed.

Lemma kill_worker_linv : forall a l0 c0 s p sg, LInv a l0 c0 s -> LInv a l0 c0 (kill_worker s p sg).
Proof.
  intros a l0 c0 s p sg [L1 [L2 [L3 [L4 L5]]]]. unfold kill_worker. destruct (kill_in (kids s) p sg); unfold LInv; simpl; repeat split; auto.
  intros w Hw. apply remove_wk_In in Hw. apply L5. tauto.
Qed.

Lemma linv_pc : forall a l0 c0 s p, LInv a l0 c0 s -> LInv a l0 c0 (set_pc s p).
Proof. intros a l0 c0 s p [L1 [L2 [L3 [L4 L5]]]]. unfold LInv. simpl. repeat split; auto. Qed.

Lemma master_linv : forall a l0 c0 s, LInv a l0 c0 s -> LInv a l0 c0 (master s).
Proof.
  intros a l0 c0 s L. pose proof L as [L1 [L2 [L3 [L4 L5]]]]. unfold master. destruct (cur s) eqn:E.
  - destruct (sigq s) as [|sg q]; [apply linv_pc; auto|].
    unfold dispatch. destruct (sg =? SIGHUP).
    + (* reload with an unchanged address keeps the listener objects *)
      assert (R : LInv a l0 c0 (reload (set_sigq s q))).
      { unfold reload, LInv. simpl. rewrite L1, L2, Z.eqb_refl. simpl. repeat split; auto. }
      destruct (Z.to_nat (cfgw (reload (set_sigq s q)))); [apply linv_pc; auto|].
      unfold begin_spawn. apply linv_pc. destruct R as [R1 [R2 [R3 [R4 R5]]]]. unfold LInv. simpl. repeat split; auto.
    + assert (Q : LInv a l0 c0 (set_sigq s q)) by (unfold LInv; simpl; repeat split; auto).
      assert (N : forall x, LInv a l0 c0 (set_num (set_sigq s q) x)) by (intros x; unfold LInv; simpl; repeat split; auto).
      destruct (sg =? SIGTTIN); [apply linv_pc; apply N|].
      destruct (sg =? SIGTTOU); [|unfold to_loop; apply linv_pc; exact Q].
      destruct (num (set_sigq s q) <=? 1); [unfold to_loop; apply linv_pc; exact Q | apply linv_pc; apply N].
  - apply linv_pc; auto.
  - destruct (wlen s <? num s); apply linv_pc; auto.
  - destruct (num s - wlen s <=? 0); [apply linv_pc; auto|]. unfold begin_spawn. apply linv_pc. unfold LInv. simpl. repeat split; auto.
  - apply linv_pc. unfold LInv. simpl. repeat split; auto.
  - (* a new worker gets the master's LISTENERS *)
    assert (R : LInv a l0 c0 (set_workers s (workers s ++ [mkWk p age (cfgid s) (lsn s)]))).
    { unfold LInv. simpl. repeat split; auto. intros w Hw. apply in_app_or in Hw. destruct Hw as [Hw|[Hw|[]]]; auto. subst w. simpl. auto. }
    unfold after_register. destruct k as [n|n]; [apply linv_pc; auto|]. destruct n; [apply linv_pc; auto|].
    unfold begin_spawn. apply linv_pc. destruct R as [R1 [R2 [R3 [R4 R5]]]]. unfold LInv. simpl. repeat split; auto.
  - destruct n; [apply linv_pc; auto|]. unfold begin_spawn. apply linv_pc. unfold LInv. simpl. repeat split; auto.
  - unfold manage_kill_next. destruct (pids _); [unfold to_loop|]; apply linv_pc; auto.
  - destruct victims as [|p v]; [unfold to_loop; apply linv_pc; auto|].
    unfold manage_kill_next. destruct v; [unfold to_loop|]; apply linv_pc; apply kill_worker_linv; auto.
Qed.

Lemma run_linv : forall a l0 c0 ls s, addr_ok a ls = true -> LInv a l0 c0 s -> LInv a l0 c0 (run s ls).
Proof.
  induction ls as [|l t IH]; simpl; intros s A L; auto.
  assert (Same : forall s', addr s' = addr s -> disk_addr s' = disk_addr s -> lsn s' = lsn s -> closed s' = closed s ->
                 workers s' = workers s -> LInv a l0 c0 s').
  { intros s' E1 E2 E3 E4 E5. destruct L as [L1 [L2 [L3 [L4 L5]]]]. unfold LInv. rewrite E1, E2, E3, E4, E5. auto. }
  destruct l; simpl in *.
  - apply IH; auto. apply master_linv; auto.
  - apply IH; auto. unfold chld. apply reap_linv; auto.
  - apply IH; auto.
  - apply IH; auto.
  - apply IH; auto. unfold queue_sig. destruct (Z.of_nat (length (sigq s)) <? sig_queue_max); auto.
  - apply andb_true_iff in A. destruct A as [A1 A2]. apply Z.eqb_eq in A1. subst a0. apply IH; auto.
    destruct (0 <=? w); auto. destruct L as [L1 [L2 [L3 [L4 L5]]]]. unfold LInv. simpl. repeat split; auto.
  - apply IH; auto. unfold queue_sig. destruct (Z.of_nat (length (sigq s)) <? sig_queue_max); auto.
  - apply IH; auto. unfold queue_sig. destruct (Z.of_nat (length (sigq s)) <? sig_queue_max); auto.
Qed.

(* as long as the configured bind address does not change, LISTENERS are the very objects the master started with,
   none of them is ever closed, and every worker of every generation was forked with exactly these objects *)
Theorem reload_keeps_listeners_resized : forall n cw a ls, addr_ok a ls = true ->
  let s := run (init_resized n cw a) ls in
  lsn s = [0] /\ closed s = [] /\ (forall w, In w (workers s) -> w_lsn w = [0]).
Proof.
  intros n cw a ls A s.
  assert (L0 : LInv a [0] [] (init_resized n cw a)).
  { unfold LInv, init_resized. simpl. repeat split; auto. intros w Hw. destruct (boot_workers_spec _ _ _ Hw) as [k [_ E]]. subst w. reflexivity. }
  destruct (run_linv a [0] [] ls _ A L0) as [_ [_ [L3 [L4 L5]]]]. auto.
Qed.

Theorem reload_keeps_listeners : forall n a ls, addr_ok a ls = true ->
  let s := run (init n a) ls in
  lsn s = [0] /\ closed s = [] /\ (forall w, In w (workers s) -> w_lsn w = [0]).
Proof. intros n a ls. rewrite init_is_resized. apply reload_keeps_listeners_resized. Qed.

Lemma told_only_no_resize : forall ls, told_only ls = true -> no_resize ls = true.
Proof. induction ls as [|l t IH]; simpl; auto. destruct l; auto; discriminate. Qed.

(* ---- the pool ---------------------------------------------------------------------------------------------------------- *)
Lemma unretired_is_new : forall s, GInv s -> (cur s = PSigq \/ cur s = PSelect) ->
  forall w, In w (workers s) -> (retired s w = false <-> isnew (hup_age s) w = true).
Proof.
  intros s G C w Hw. pose proof G as [So A H K KB WB NF NC CF PC WP]. unfold pc_inv in PC.
  assert (Old : forall w, In w (workers s) -> isold (hup_age s) w = true -> retired s w = true).
  { destruct C as [C|C]; rewrite C in PC; tauto. }
  split.
  - intros R. destruct (isnew (hup_age s) w) eqn:E; auto. exfalso.
    assert (isold (hup_age s) w = true) by (unfold isold, isnew in *; rewrite E; reflexivity).
    rewrite (Old w Hw H0) in R. discriminate.
  - intros N. apply fit_not_retired. apply NF; auto.
Qed.

(* whenever the master is back at the top of its loop: every worker that has not been retired (told to stop, dead, or
   gone) was forked after the last reload began, with the configuration and the listeners of that reload, and there are
   exactly num_workers of them - which, once a reload has happened, is cfg.workers, WHATEVER TTIN / TTOU had made of the
   pool before (init_resized n k: n workers running, k configured) *)
Theorem reload_replaces_pool_resized : forall n k a ls, 0 <= k -> told_only ls = true ->
  let s := run (init_resized n k a) ls in
  cur s = PSigq \/ cur s = PSelect ->
  (forall w, In w (workers s) -> retired s w = false -> hup_age s < w_age w /\ w_cfg w = cfgid s /\ w_lsn w = lsn s) /\
  Z.of_nat (length (filter (fun w => negb (retired s w)) (workers s))) = num s /\ (0 < cfgid s -> num s = cfgw s).
Proof.
  intros n k a ls Hk T s C.
  assert (G : GInv s) by (apply run_ginv; auto; apply init_resized_ginv; auto).
  pose proof G as [So A H K KB WB NF NC CF PC WP].
  split; [|split].
  - intros w Hw R. apply (unretired_is_new s G C w Hw) in R.
    destruct (NC w Hw R). repeat split; auto. unfold isnew in R. apply Z.ltb_lt in R. auto.
  - assert (E : filter (fun w => negb (retired s w)) (workers s) = filter (isnew (hup_age s)) (workers s)).
    { apply filter_ext_in. intros w Hw. pose proof (unretired_is_new s G C w Hw) as [U1 U2].
      destruct (retired s w) eqn:R; destruct (isnew (hup_age s) w) eqn:N; simpl; auto.
      - specialize (U2 eq_refl). discriminate.
      - specialize (U1 eq_refl). discriminate. }
    rewrite E. unfold pc_inv in PC. fold (cnew s). destruct C as [C|C]; rewrite C in PC; tauto.
  - apply count_after_reload. apply told_only_no_resize. exact T.
Qed.

Theorem reload_replaces_pool : forall n a ls, told_only ls = true ->
  let s := run (init n a) ls in
  cur s = PSigq \/ cur s = PSelect ->
  (forall w, In w (workers s) -> retired s w = false -> hup_age s < w_age w /\ w_cfg w = cfgid s /\ w_lsn w = lsn s) /\
  Z.of_nat (length (filter (fun w => negb (retired s w)) (workers s))) = num s /\ num s = cfgw s.
Proof.
  intros n a ls T s C. pose proof (count_unresized n a ls (told_only_no_resize ls T)) as CU. fold s in CU.
  assert (R : let s' := run (init_resized n (Z.of_nat n) a) ls in
              cur s' = PSigq \/ cur s' = PSelect -> _) by (apply (reload_replaces_pool_resized n (Z.of_nat n) a ls); [lia|exact T]).
  rewrite <- init_is_resized in R. fold s in R. destruct (R C) as [R1 [R2 _]]. auto.
Qed.

(* "after convergence": once the retired workers have left WORKERS, the pool IS the new generation *)
Corollary converged_pool_resized : forall n k a ls, 0 <= k -> told_only ls = true ->
  let s := run (init_resized n k a) ls in
  cur s = PSigq \/ cur s = PSelect -> 0 < cfgid s ->
  (forall w, In w (workers s) -> retired s w = false) ->
  wlen s = cfgw s /\ (forall w, In w (workers s) -> hup_age s < w_age w /\ w_cfg w = cfgid s /\ w_lsn w = lsn s).
Proof.
  intros n k a ls Hk T s C Rl Conv. destruct (reload_replaces_pool_resized n k a ls Hk T C) as [R1 [R2 R3]]. fold s in R1, R2, R3.
  split.
  - rewrite <- (R3 Rl), <- R2. unfold wlen. f_equal. f_equal. symmetry. apply filter_all_true'.
    intros w Hw. rewrite (Conv w Hw). reflexivity.
  - intros w Hw. apply R1; auto.
Qed.

Corollary converged_pool : forall n a ls, told_only ls = true ->
  let s := run (init n a) ls in
  cur s = PSigq \/ cur s = PSelect ->
  (forall w, In w (workers s) -> retired s w = false) ->
  wlen s = cfgw s /\ (forall w, In w (workers s) -> hup_age s < w_age w /\ w_cfg w = cfgid s /\ w_lsn w = lsn s).
Proof.
  intros n a ls T s C Conv. destruct (reload_replaces_pool n a ls T C) as [R1 [R2 R3]]. fold s in R1, R2, R3.
  split.
  - rewrite <- R3, <- R2. unfold wlen. f_equal. f_equal. symmetry. apply filter_all_true'.
    intros w Hw. rewrite (Conv w Hw). reflexivity.
  - intros w Hw. apply R1; auto.
Qed.

(* the told workers do leave: they exit (ExitTold) and SIGCHLD is handled *)
Lemma hup_age_is_wage_at_reload : forall s q, sigq s = SIGHUP :: q -> cur s = PSigq -> hup_age (master s) = wage s.
Proof.
  intros s q Q C. unfold master. rewrite C, Q. unfold dispatch. rewrite Z.eqb_refl.
  destruct (Z.to_nat (cfgw (reload (set_sigq s q)))); reflexivity.
Qed.
