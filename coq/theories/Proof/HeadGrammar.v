(* C01, request head: whatever the parser accepts has the strict RFC 9112 shape -
   request-line = token SP target SP "HTTP/" DIGIT "." DIGIT, field-line = token ":" OWS value OWS with
   no NUL/CR/LF in the value, no obsolete folding, no whitespace before the colon. *)
From Coq Require Import List NArith ZArith Bool Lia Arith.
From GV Require Import Base.Bytes Base.Scan Base.PyStr Gen.GenParser Model.Parser.
Import ListNotations.
Local Open Scope N_scope.

(* ---- table facts over the regenerated character classes (finite, enumerated completely) ------- *)
Definition is_rfc_tchar (c : N) : bool :=
  mem c [33; 35; 36; 37; 38; 39; 42; 43; 45; 46; 94; 95; 96; 124; 126] || is_digit c
  || ((65 <=? c) && (c <=? 90)) || ((97 <=? c) && (c <=? 122)).
Lemma token_chars_are_tchar : forallb is_rfc_tchar token_chars = true.
Proof. vm_compute. reflexivity. Qed.
Lemma tchars_are_token_chars : forallb (fun c => implb (is_rfc_tchar c) (mem c token_chars)) (map N.of_nat (seq 0 256)) = true.
Proof. vm_compute. reflexivity. Qed.
Lemma value_badchars_cover : mem 0 value_badchars = true /\ mem 10 value_badchars = true /\ mem 13 value_badchars = true.
Proof. vm_compute. auto. Qed.
Lemma target_badchars_cover : forallb (fun c => mem c target_badchars) (127 :: map N.of_nat (seq 0 33)) = true.
Proof. vm_compute. reflexivity. Qed.
Lemma version_digits_are_digits : forallb is_digit version_digits = true.
Proof. vm_compute. reflexivity. Qed.
Lemma ws_not_token : mem 32 token_chars = false /\ mem 9 token_chars = false /\ mem 58 token_chars = false.
Proof. vm_compute. auto. Qed.

Lemma mem_forallb f l c : forallb f l = true -> mem c l = true -> f c = true.
Proof.
  induction l as [|x t IH]; cbn; [discriminate|]. intros H Hm. apply andb_prop in H as [Hx Ht].
  apply orb_prop in Hm as [Hm|Hm]; [apply N.eqb_eq in Hm; subst; exact Hx|apply IH; assumption].
Qed.
Lemma token_char_is_tchar c : mem c token_chars = true -> is_rfc_tchar c = true.
Proof. apply mem_forallb. exact token_chars_are_tchar. Qed.

Lemma mem_app c a b : mem c (a ++ b) = mem c a || mem c b.
Proof. unfold mem. apply existsb_app. Qed.
Lemma mem_rev c l : mem c (rev l) = mem c l.
Proof. induction l as [|x t IH]; [reflexivity|]. cbn [rev]. rewrite mem_app, IH. cbn. rewrite orb_false_r. apply orb_comm. Qed.

(* ---- bytes.split(b" ", 2) -------------------------------------------------------------------- *)
Lemma splitn_aux_0 c cur l : splitn_aux c 0 cur l = [rev cur ++ l].
Proof. destruct l; reflexivity. Qed.

Lemma splitn_aux_3 c : forall l cur a b d,
    splitn_aux c 2 cur l = [a; b; d] -> mem c cur = false ->
    rev cur ++ l = a ++ c :: b ++ c :: d /\ mem c a = false /\ mem c b = false.
Proof.
  assert (H1 : forall l cur b d, splitn_aux c 1 cur l = [b; d] -> mem c cur = false ->
                                 rev cur ++ l = b ++ c :: d /\ mem c b = false).
  { induction l as [|x t IH]; intros cur b d H Hc; cbn [splitn_aux] in H; [discriminate|].
    destruct (x =? c) eqn:E.
    - rewrite splitn_aux_0 in H. assert (Hb : rev cur = b) by congruence. assert (Hd : rev [] ++ t = d) by congruence. subst b d.
      apply N.eqb_eq in E. subst x. cbn [rev app]. split; [reflexivity|].
      rewrite mem_rev. exact Hc.
    - apply IH in H; [|cbn; rewrite N.eqb_sym, E; exact Hc]. cbn [rev] in H. rewrite <- app_assoc in H. exact H. }
  induction l as [|x t IH]; intros cur a b d H Hc; cbn [splitn_aux] in H; [discriminate|].
  destruct (x =? c) eqn:E.
  - destruct (splitn_aux c 1 [] t) as [|b' [|d' [|? ?]]] eqn:E2; try discriminate.
    assert (Ha : rev cur = a) by congruence. assert (Hb' : b' = b) by congruence. assert (Hd' : d' = d) by congruence. subst a b' d'.
    apply H1 in E2; [|reflexivity]. destruct E2 as [E2 Hb]. cbn [rev app] in E2. apply N.eqb_eq in E. subst x.
    rewrite E2. split; [reflexivity|]. split; [rewrite mem_rev; exact Hc|exact Hb].
  - apply IH in H; [|cbn; rewrite N.eqb_sym, E; exact Hc]. cbn [rev] in H. rewrite <- app_assoc in H. exact H.
Qed.
Lemma splitn_3 c l a b d : splitn c 2 l = [a; b; d] -> l = a ++ c :: b ++ c :: d /\ mem c a = false /\ mem c b = false.
Proof. intros H. apply splitn_aux_3 in H; [exact H|reflexivity]. Qed.

(* ---- request line ----------------------------------------------------------------------------- *)
Lemma parse_version_shape v a b : parse_version v = Some (a, b) ->
  exists da db, v = s_HTTP_slash ++ [da; 46; db] /\ is_digit da = true /\ is_digit db = true /\ a = da - 48 /\ b = db - 48.
Proof.
  unfold parse_version. destruct (prefixb s_HTTP_slash v) eqn:Ep; [|discriminate].
  apply prefixb_spec in Ep as [t ->]. change (skipn 5 (s_HTTP_slash ++ t)) with t.
  destruct t as [|da [|d [|db [|? ?]]]]; try discriminate.
  destruct ((d =? 46) && mem da version_digits && mem db version_digits) eqn:E; [|discriminate].
  intros [= <- <-]. apply andb_prop in E as [E E3]. apply andb_prop in E as [E1 E2]. apply N.eqb_eq in E1. subst d.
  exists da, db. repeat split; auto; eapply mem_forallb; try exact version_digits_are_digits; assumption.
Qed.

Definition strict_request_line (line m uri : bytes) (ver : N * N) : Prop :=
  exists da db, line = m ++ 32 :: uri ++ 32 :: s_HTTP_slash ++ [da; 46; db]
    /\ m <> [] /\ forallb is_rfc_tchar m = true
    /\ uri <> [] /\ existsb (fun ch => mem ch target_badchars) uri = false
    /\ is_digit da = true /\ is_digit db = true /\ ver = (da - 48, db - 48).

Lemma is_token_tchars s : is_token s = true -> s <> [] /\ forallb is_rfc_tchar s = true.
Proof.
  unfold is_token. destruct s as [|x t]; [discriminate|]. intros H. split; [discriminate|].
  apply forallb_forall. intros c Hc. rewrite forallb_forall in H. apply token_char_is_tchar. apply H. exact Hc.
Qed.

Theorem request_line_strict : forall c x line m uri ver,
    casefold_http_method c = false ->
    parse_request_line c x line = inl (m, uri, ver) -> strict_request_line line m uri ver.
Proof.
  intros c x line m uri ver Hcf H. unfold parse_request_line in H.
  destruct (splitn 32 2 line) as [|m0 [|u0 [|v0 [|? ?]]]] eqn:Es; try discriminate.
  apply splitn_3 in Es as (-> & _ & _).
  destruct (negb (permit_unconventional_http_method c) && _); [discriminate|].
  destruct (negb (is_token m0)) eqn:Et; [discriminate|]. apply negb_false_iff in Et. rewrite Hcf in H.
  destruct u0 as [|u1 u0]; [discriminate|].
  destruct (existsb (fun ch => mem ch target_badchars) (u1 :: u0)) eqn:Eb; [discriminate|].
  destruct (negb (uri_ok x (u1 :: u0))); [discriminate|].
  destruct (parse_version v0) as [[a b]|] eqn:Ev; [|discriminate].
  destruct (negb (a =? 1) && negb (permit_unconventional_http_version c)); [discriminate|].
  injection H as <- <- <-. apply parse_version_shape in Ev as (da & db & -> & Hda & Hdb & -> & ->).
  destruct (is_token_tchars _ Et) as [Hne Htc].
  exists da, db. repeat split; auto. discriminate.
Qed.

(* ---- field lines --------------------------------------------------------------------------------- *)
Definition strict_field_line (l : bytes) : bool :=
  match find_char 58 l with
  | Some (S i) => is_token (firstn (S i) l)
                  && negb (existsb (fun ch => mem ch value_badchars) (strip is_ows (skipn (S (S i)) l)))
                  && negb (starts_ws l)
  | _ => false
  end.

Lemma span_ws_nil rest rest' : span_ws rest = ([], rest') -> rest' = rest /\ match rest with l :: _ => starts_ws l = false | [] => True end.
Proof.
  destruct rest as [|l t]; cbn [span_ws]; [intros [= <-]; auto|].
  destruct (starts_ws l) eqn:E; [destruct (span_ws t); discriminate|]. intros [= <-]. auto.
Qed.

Lemma token_not_ws name : is_token name = true -> starts_ws name = false.
Proof.
  unfold is_token, starts_ws. destruct name as [|x t]; [discriminate|]. cbn [forallb]. intros H. apply andb_prop in H as [Hx _].
  unfold is_ows. destruct ws_not_token as (H32 & H9 & _).
  destruct (x =? 32) eqn:E1; [apply N.eqb_eq in E1; subst; congruence|].
  destruct (x =? 9) eqn:E2; [apply N.eqb_eq in E2; subst; congruence|]. reflexivity.
Qed.

Lemma starts_ws_firstn l i : starts_ws (firstn (S i) l) = starts_ws l.
Proof. destruct l; reflexivity. Qed.

Theorem accepted_field_lines_strict : forall c ft fuel lines n seen https acc hs h,
    permit_obsolete_folding c = false -> strip_header_spaces c = false ->
    parse_headers_loop c ft fuel lines n seen https acc = inl (hs, h) ->
    forallb strict_field_line lines = true.
Proof.
  intros c ft. induction fuel as [|fuel IH]; intros lines n seen https acc hs h Hfold Hstrip H; [discriminate|].
  cbn [parse_headers_loop] in H. destruct lines as [|curr rest]; [reflexivity|].
  destruct (eff_fields c <=? n); [discriminate|].
  destruct (find_char 58 curr) as [[|i]|] eqn:Ef; [discriminate| |discriminate].
  rewrite Hstrip in H. destruct (negb (is_token (firstn (S i) curr))) eqn:Et; [discriminate|]. apply negb_false_iff in Et.
  destruct (span_ws rest) as [conts rest'] eqn:Esp. rewrite Hfold in H. cbn [negb] in H. rewrite andb_true_r in H.
  destruct conts as [|c0 conts]; [|discriminate]. cbn [andb] in H.
  apply span_ws_nil in Esp as [-> Hrest].
  cbn [map join_sp flat_map] in H. rewrite app_nil_r in H.
  destruct (existsb _ (strip is_ows (skipn (S (S i)) curr))) eqn:Eb; [discriminate|].
  assert (Hline : strict_field_line curr = true).
  { unfold strict_field_line. rewrite Ef, Et, Eb. cbn [andb negb].
    rewrite <- (starts_ws_firstn curr i). rewrite (token_not_ws _ Et). reflexivity. }
  cbn [forallb]. rewrite Hline. cbn [andb].
  destruct ((0 <? eff_field_size c) && _); [discriminate|].
  match type of H with context [match ?sr with inl _ => _ | inr _ => _ end] => destruct sr as [[seen' https']|e] end; [|discriminate].
  destruct (mem 95 _).
  - destruct (bmem _ _ || bmem _ _); [eapply IH; eassumption|].
    destruct (header_map c =? 2); [eapply IH; eassumption|].
    destruct (header_map c =? 0); [eapply IH; eassumption|discriminate].
  - eapply IH; eassumption.
Qed.

(* the classes of the property, each on its own: a block containing such a line is never accepted *)
Corollary bad_field_line_rejected : forall c ft https data l,
    permit_obsolete_folding c = false -> strip_header_spaces c = false ->
    In l (split_crlf data) -> strict_field_line l = false ->
    exists e, parse_headers c ft https data = inr e.
Proof.
  intros c ft https data l Hf Hs Hin Hbad. unfold parse_headers.
  destruct (parse_headers_loop c ft _ (split_crlf data) 0 false https []) as [[hs h]|e] eqn:E; [|eauto].
  pose proof (accepted_field_lines_strict _ _ _ _ _ _ _ _ _ _ Hf Hs E) as Hall.
  rewrite forallb_forall in Hall. rewrite (Hall _ Hin) in Hbad. discriminate.
Qed.

(* what strict_field_line excludes, spelled out *)
Lemma obs_fold_not_strict l : starts_ws l = true -> strict_field_line l = false.
Proof. intros H. unfold strict_field_line. destruct (find_char 58 l) as [[|i]|]; try reflexivity. rewrite H. cbn. apply andb_false_r. Qed.
Lemma no_colon_not_strict l : find_char 58 l = None -> strict_field_line l = false.
Proof. intros H. unfold strict_field_line. rewrite H. reflexivity. Qed.
Lemma empty_name_not_strict l : find_char 58 l = Some 0%nat -> strict_field_line l = false.
Proof. intros H. unfold strict_field_line. rewrite H. reflexivity. Qed.
Lemma nontoken_name_not_strict l i : find_char 58 l = Some (S i) -> is_token (firstn (S i) l) = false -> strict_field_line l = false.
Proof. intros H Ht. unfold strict_field_line. rewrite H, Ht. reflexivity. Qed.
Lemma ws_before_colon_not_token name : name <> [] -> is_ows (last name 0) = true -> is_token name = false.
Proof.
  intros Hne Hl. unfold is_token. destruct name as [|x t]; [congruence|].
  apply not_true_iff_false. intros H. rewrite forallb_forall in H.
  assert (Hin : In (last (x :: t) 0) (x :: t)) by (apply (@exists_last _ (x :: t)) in Hne as (l' & a & E); rewrite E, last_last; apply in_or_app; right; left; reflexivity).
  specialize (H _ Hin). destruct ws_not_token as (H32 & H9 & _). unfold is_ows in Hl.
  apply orb_prop in Hl as [Hl|Hl]; apply N.eqb_eq in Hl; rewrite Hl in H; congruence.
Qed.
Lemma bad_value_not_strict l i : find_char 58 l = Some (S i) ->
  existsb (fun ch => mem ch value_badchars) (strip is_ows (skipn (S (S i)) l)) = true -> strict_field_line l = false.
Proof. intros H Hb. unfold strict_field_line. rewrite H, Hb. cbn. rewrite andb_false_r. reflexivity. Qed.

(* the fuel of parse_headers is always sufficient: EOutOfFuel is never its answer *)
Lemma span_ws_length : forall rest conts rest', span_ws rest = (conts, rest') -> (length rest' <= length rest)%nat.
Proof.
  induction rest as [|l t IH]; intros conts rest' H; cbn [span_ws] in H; [injection H as <- <-; cbn; lia|].
  destruct (starts_ws l).
  - destruct (span_ws t) as [a b] eqn:E. injection H as <- <-. specialize (IH _ _ eq_refl). cbn. lia.
  - injection H as <- <-. lia.
Qed.
Theorem parse_headers_loop_fuel : forall c ft fuel lines n seen https acc,
    (length lines < fuel)%nat -> parse_headers_loop c ft fuel lines n seen https acc <> inr EOutOfFuel.
Proof.
  intros c ft. induction fuel as [|fuel IH]; intros lines n seen https acc Hf; [lia|].
  cbn [parse_headers_loop]. destruct lines as [|curr rest]; [discriminate|].
  destruct (eff_fields c <=? n); [discriminate|].
  destruct (find_char 58 curr) as [[|i]|]; [discriminate| |discriminate].
  destruct (negb (is_token _)); [discriminate|].
  destruct (span_ws rest) as [conts rest'] eqn:Esp. pose proof (span_ws_length _ _ _ Esp) as Hl. cbn [length] in Hf.
  destruct (_ && negb (permit_obsolete_folding c)); [discriminate|].
  destruct (_ && ((0 <? eff_field_size c) && _)); [discriminate|].
  destruct (existsb _ _); [discriminate|].
  destruct ((0 <? eff_field_size c) && _); [discriminate|].
  match goal with |- context [match ?sr with inl _ => _ | inr _ => _ end] => destruct sr as [[seen' https']|e] eqn:Esr end.
  - destruct (mem 95 _); [destruct (bmem _ _ || bmem _ _); [apply IH; lia|]; destruct (header_map c =? 2); [apply IH; lia|];
                          destruct (header_map c =? 0); [apply IH; lia|discriminate]|apply IH; lia].
  - destruct (if negb ft && fwd_trusted c then assoc _ _ else None); [|discriminate Esr].
    destruct seen; [destruct (Bool.eqb _ _); [discriminate Esr|injection Esr as <-; discriminate]|discriminate Esr].
Qed.
Corollary parse_headers_never_out_of_fuel c ft https data : parse_headers c ft https data <> inr EOutOfFuel.
Proof. unfold parse_headers. apply parse_headers_loop_fuel. lia. Qed.

(* ---- the header list IS the list of field lines received (minus what the underscore policy withholds) --- *)
Definition field_of_line (l : bytes) : header :=
  match find_char 58 l with
  | Some i => (upper_ascii (firstn i l), strip is_ows (skipn (S i) l))
  | None => ([], [])
  end.
Definition kept (c : cfg) (ft : bool) (h : header) : bool :=
  let fwd := if negb ft && fwd_trusted c then forwarder_headers c else [] in
  negb (mem 95 (fst h)) || (bmem (fst h) fwd || bmem [42] fwd) || (header_map c =? 2).

Theorem accepted_headers_are_the_lines : forall c ft fuel lines n seen https acc hs h,
    permit_obsolete_folding c = false -> strip_header_spaces c = false ->
    parse_headers_loop c ft fuel lines n seen https acc = inl (hs, h) ->
    hs = rev acc ++ filter (kept c ft) (map field_of_line lines).
Proof.
  intros c ft. induction fuel as [|fuel IH]; intros lines n seen https acc hs h Hfold Hstrip H; [discriminate|].
  cbn [parse_headers_loop] in H. destruct lines as [|curr rest]; [injection H as <- _; cbn; rewrite app_nil_r; reflexivity|].
  destruct (eff_fields c <=? n); [discriminate|].
  destruct (find_char 58 curr) as [[|i]|] eqn:Ef; [discriminate| |discriminate].
  rewrite Hstrip in H. destruct (negb (is_token (firstn (S i) curr))); [discriminate|].
  destruct (span_ws rest) as [conts rest'] eqn:Esp. rewrite Hfold in H. cbn [negb] in H. rewrite andb_true_r in H.
  destruct conts as [|c0 conts]; [|discriminate]. cbn [andb] in H.
  apply span_ws_nil in Esp as [-> _].
  cbn [map join_sp flat_map] in H. rewrite app_nil_r in H.
  destruct (existsb _ (strip is_ows (skipn (S (S i)) curr))); [discriminate|].
  destruct ((0 <? eff_field_size c) && _); [discriminate|].
  match type of H with context [match ?sr with inl _ => _ | inr _ => _ end] => destruct sr as [[seen' https']|e] end; [|discriminate].
  set (name := upper_ascii (firstn (S i) curr)) in *. set (value := strip is_ows (skipn (S (S i)) curr)) in *.
  set (fwd := if negb ft && fwd_trusted c then forwarder_headers c else []) in *.
  assert (Hfl : field_of_line curr = (name, value)) by (unfold field_of_line; rewrite Ef; reflexivity).
  assert (Hk : kept c ft (name, value) = (negb (mem 95 name) || (bmem name fwd || bmem [42] fwd) || (header_map c =? 2))) by reflexivity.
  cbn [map filter]. rewrite Hfl, Hk.
  destruct (mem 95 name) eqn:Eu; cbn [negb orb].
  - destruct (bmem name fwd || bmem [42] fwd) eqn:Efw; cbn [orb].
    + rewrite (IH _ _ _ _ _ _ _ Hfold Hstrip H). cbn [rev]. rewrite <- app_assoc. reflexivity.
    + destruct (header_map c =? 2) eqn:E2'.
      * rewrite (IH _ _ _ _ _ _ _ Hfold Hstrip H). cbn [rev]. rewrite <- app_assoc. reflexivity.
      * destruct (header_map c =? 0); [|discriminate]. exact (IH _ _ _ _ _ _ _ Hfold Hstrip H).
  - rewrite (IH _ _ _ _ _ _ _ Hfold Hstrip H). cbn [rev]. rewrite <- app_assoc. reflexivity.
Qed.

Corollary parse_headers_are_the_lines : forall c ft https data hs h,
    permit_obsolete_folding c = false -> strip_header_spaces c = false ->
    parse_headers c ft https data = inl (hs, h) ->
    hs = filter (kept c ft) (map field_of_line (split_crlf data)).
Proof. intros c ft https data hs h Hf Hs H. unfold parse_headers in H. apply (accepted_headers_are_the_lines _ _ _ _ _ _ _ _ _ _ Hf Hs H). Qed.
