From Coq Require Import List NArith ZArith Bool Lia.
From GV Require Import Base.Enc Base.Dec Model.Pidfile.
Import ListNotations.

(* ---- association-list facts ---- *)
Lemma lookup_remove p q l : lookup p (remove q l) = if (p =? q)%N then None else lookup p l.
Proof.
  induction l as [|[r c] t IH]; cbn [remove lookup].
  - destruct (p =? q)%N; reflexivity.
  - destruct (q =? r)%N eqn:Eqr.
    + apply N.eqb_eq in Eqr. subst r. rewrite IH. destruct (p =? q)%N; reflexivity.
    + cbn [lookup]. rewrite IH. destruct (p =? r)%N eqn:Epr; [|reflexivity].
      apply N.eqb_eq in Epr. subst r. destruct (p =? q)%N eqn:Epq; [|reflexivity].
      apply N.eqb_eq in Epq. subst q. rewrite N.eqb_refl in Eqr. discriminate.
Qed.
Lemma lookup_store p q c l : lookup p (store q c l) = if (p =? q)%N then Some c else lookup p l.
Proof. unfold store. cbn [lookup]. destruct (p =? q)%N eqn:E; [reflexivity|]. rewrite lookup_remove, E. reflexivity. Qed.

Lemma pid_text_parses pid : (0 <= pid)%Z -> py_int (pid_text pid) = Some pid.
Proof.
  intros H. unfold pid_text. replace (pid <? 0)%Z with false by (symmetry; apply Z.ltb_ge; exact H).
  cbn [app]. rewrite py_int_dec_nl. f_equal. rewrite Z2N.id; lia.
Qed.

(* ---- validate: what "stale" means ---- *)
Lemma validate_none_iff s p :
  validate_path s p = None <->
  (lookup p (fs s) = None \/ exists c, lookup p (fs s) = Some c /\
      (py_int c = None \/ exists w, py_int c = Some w /\ kill0 s w = PDead)).
Proof.
  unfold validate_path. destruct (lookup p (fs s)) as [c|]; [|split; auto].
  destruct (py_int c) as [w|] eqn:Ep.
  - destruct (kill0 s w) eqn:K; split; intros H.
    + discriminate.
    + destruct H as [H|(c' & Hc & [H|(w' & Hw & Hk)])]; [discriminate| |]; injection Hc as <-; congruence.
    + discriminate.
    + destruct H as [H|(c' & Hc & [H|(w' & Hw & Hk)])]; [discriminate| |]; injection Hc as <-; congruence.
    + right. exists c. split; [reflexivity|]. right. exists w. auto.
    + reflexivity.
  - split; auto. intros _. right. exists c. auto.
Qed.

(* ---- (1) a live foreign pid makes create refuse and change nothing ---- *)
Theorem create_refuses_live : forall s i x pid crash c w,
    nth_error (insts s) i = Some x -> lookup (fname x) (fs s) = Some c -> py_int c = Some w ->
    w <> 0%Z -> w <> ospid x -> kill0 s w <> PDead -> crashed crash 0 = false ->
    step s (Create i pid crash) = (s, RRuntimeError, []).
Proof.
  intros s i x pid crash c w Hi Hl Hp H0 Hme Hk Hc. cbn [step]. rewrite Hi. unfold create_at, validate_path.
  rewrite Hc, Hl, Hp.
  assert (Ev : match kill0 s w with PDead => None | _ => Some w end = Some w) by (destruct (kill0 s w); congruence).
  rewrite Ev. replace (w =? 0)%Z with false by (symmetry; apply Z.eqb_neq; exact H0). cbn [negb].
  replace (w =? ospid x)%Z with false by (symmetry; apply Z.eqb_neq; exact Hme). reflexivity.
Qed.

(* ---- (2) a stale / absent / garbage file is taken over: afterwards the file holds our pid ---- *)
Theorem create_takes_stale : forall s i x pid,
    nth_error (insts s) i = Some x -> dir_exists (fname x) = true ->
    validate_path s (fname x) = None ->
    exists s' ev, step s (Create i pid None) = (s', RNone, ev)
                  /\ lookup (fname x) (fs s') = Some (pid_text pid)
                  /\ ((0 <= pid)%Z -> py_int (pid_text pid) = Some pid).
Proof.
  intros s i x pid Hi Hd Hv. cbn [step]. rewrite Hi. unfold create_at. cbn [crashed]. rewrite Hv. cbn [negb].
  rewrite Hd. cbn [negb].
  eexists _, _. split; [reflexivity|]. cbn [fs upd_fs upd_insts]. split.
  - rewrite lookup_store, N.eqb_refl. reflexivity.
  - apply pid_text_parses.
Qed.

(* ---- (3) the pid-file name space only ever holds complete contents ---- *)
Definition written_by (o : op) (p : path) (c : bytes) : Prop :=
  (exists pid, c = pid_text pid) \/ o = Foreign p c.

Lemma unlink_at_lookup s x s' ev p c :
  unlink_at s x = (s', ev) -> lookup p (fs s') = Some c -> lookup p (fs s) = Some c.
Proof.
  unfold unlink_at. destruct (lookup (fname x) (fs s)) as [c0|]; [|intros [= <- <-]; auto].
  destruct (match c0 with [] => Some 0%Z | _ :: _ => py_int c0 end) as [a|]; [|intros [= <- <-]; auto].
  destruct (ipid x) as [b|]; [|intros [= <- <-]; auto].
  destruct (a =? b)%Z; intros [= <- <-]; auto. cbn [fs upd_fs]. rewrite lookup_remove.
  destruct (p =? fname x)%N; [discriminate|auto].
Qed.
Lemma unlink_at_same s x s' ev : unlink_at s x = (s', ev) ->
  temps s' = temps s /\ live s' = live s /\ eperm s' = eperm s /\ insts s' = insts s.
Proof.
  unfold unlink_at. destruct (lookup (fname x) (fs s)) as [c0|]; [|intros [= <- <-]; auto].
  destruct (match c0 with [] => Some 0%Z | _ :: _ => py_int c0 end) as [a|]; [|intros [= <- <-]; auto].
  destruct (ipid x) as [b|]; [|intros [= <- <-]; auto].
  destruct (a =? b)%Z; intros [= <- <-]; auto.
Qed.

Lemma create_at_lookup s i x fd pid crash s' r ev p c :
  create_at s i x fd pid crash = (s', r, ev) -> lookup p (fs s') = Some c ->
  lookup p (fs s) = Some c \/ c = pid_text pid.
Proof.
  unfold create_at.
  destruct (crashed crash 0); [intros [= <- <- <-]; auto|].
  destruct (negb _).
  - destruct (validate_path s (fname x)) as [o|]; [destruct (o =? ospid x)%Z|]; intros [= <- <- <-]; auto.
  - destruct (negb (dir_exists (fname x))); [intros [= <- <- <-]; auto|].
    repeat match goal with |- context [if ?b then _ else _] => destruct b end;
      intros [= <- <- <-]; cbn [fs upd_fs upd_insts upd_temps]; auto;
      rewrite lookup_store; destruct (p =? fname x)%N; auto; intros [= <-]; auto.
Qed.

Lemma step_lookup s o s' r ev p c :
  step s o = (s', r, ev) -> lookup p (fs s') = Some c ->
  lookup p (fs s) = Some c \/ written_by o p c.
Proof.
  destruct o as [i pid crash|i|i q crash early|i|q c0|q|pid|pid other]; cbn [step].
  - destruct (nth_error (insts s) i) as [x|]; [|intros [= <- <- <-]; auto].
    intros H Hl. destruct (create_at_lookup _ _ _ _ _ _ _ _ _ _ _ H Hl); [auto|]. right. left. eauto.
  - destruct (nth_error (insts s) i) as [x|]; intros [= <- <- <-]; auto.
  - destruct (nth_error (insts s) i) as [x|]; [|intros [= <- <- <-]; auto].
    destruct early; [intros [= <- <- <-]; cbn [fs upd_insts]; auto|].
    destruct (unlink_at s x) as [s1 ev1] eqn:Eu.
    destruct (ipid x) as [pid|].
    + destruct (create_at _ i _ _ pid crash) as [[s3 r3] ev2] eqn:Ec. intros [= <- <- <-] Hl.
      destruct (create_at_lookup _ _ _ _ _ _ _ _ _ _ _ Ec Hl) as [H|H].
      * cbn [fs upd_insts] in H. left. eapply unlink_at_lookup; eassumption.
      * right. left. eauto.
    + intros [= <- <- <-] Hl. cbn [fs upd_insts] in Hl. left. eapply unlink_at_lookup; eassumption.
  - destruct (nth_error (insts s) i) as [x|]; [|intros [= <- <- <-]; auto].
    destruct (unlink_at s x) as [s1 ev1] eqn:Eu. intros [= <- <- <-] Hl. left. eapply unlink_at_lookup; eassumption.
  - intros [= <- <- <-]. cbn [fs upd_fs]. rewrite lookup_store. destruct (p =? q)%N eqn:E; auto.
    intros [= <-]. apply N.eqb_eq in E. subst q. right. right. reflexivity.
  - intros [= <- <- <-]. cbn [fs upd_fs]. rewrite lookup_remove. destruct (p =? q)%N; [discriminate|auto].
  - intros [= <- <- <-]. cbn [fs]. auto.
  - destruct other; intros [= <- <- <-]; cbn [fs]; auto.
Qed.

Theorem never_partial : forall ops s p c,
    lookup p (fs (fst (fst (run s ops)))) = Some c ->
    lookup p (fs s) = Some c \/ (exists pid, c = pid_text pid) \/ In (Foreign p c) ops.
Proof.
  induction ops as [|o t IH]; intros s p c H; cbn [run] in H.
  - auto.
  - destruct (step s o) as [[s1 r] ev] eqn:Es. destruct (run s1 t) as [[s2 rs] evs] eqn:Er. cbn [fst] in H.
    specialize (IH s1 p c). rewrite Er in IH. cbn [fst] in IH. destruct (IH H) as [H1|[H1|H1]].
    + destruct (step_lookup _ _ _ _ _ _ _ Es H1) as [H2|[H2|H2]]; auto.
      right. right. left. exact H2.
    + auto.
    + right. right. right. exact H1.
Qed.

(* ---- (4) an instance unlinks only a file that still carries its own pid, and never installs over
        a file that names a live process ---- *)
Definition own_content (who : option Z) (before : bytes) : Prop :=
  exists a, who = Some a /\ match before with [] => Some 0%Z | _ => py_int before end = Some a.

Lemma unlink_at_events s x s' ev : unlink_at s x = (s', ev) ->
  forall e, In e ev -> exists c, e = EUnlink (ipid x) (fname x) c /\ lookup (fname x) (fs s) = Some c /\ own_content (ipid x) c.
Proof.
  unfold unlink_at. destruct (lookup (fname x) (fs s)) as [c0|] eqn:El; [|intros [= <- <-] e []].
  destruct (match c0 with [] => Some 0%Z | _ :: _ => py_int c0 end) as [a|] eqn:Ea; [|intros [= <- <-] e []].
  destruct (ipid x) as [b|] eqn:Eb; [|intros [= <- <-] e []].
  destruct (a =? b)%Z eqn:Eab; intros [= <- <-] e []; [|contradiction].
  subst e. exists c0. split; [reflexivity|]. split; [reflexivity|]. exists b. split; [reflexivity|].
  apply Z.eqb_eq in Eab. subst. exact Ea.
Qed.

Definition stale_or_absent (s : st) (before : option bytes) : Prop :=
  match before with
  | None => True
  | Some c => forall w, py_int c = Some w -> w = 0%Z \/ kill0 s w = PDead
  end.

Lemma create_at_events s i x fd pid crash s' r ev :
  create_at s i x fd pid crash = (s', r, ev) ->
  forall e, In e ev -> e = EInstall (Some pid) (fname x) (lookup (fname x) (fs s)) (pid_text pid)
                       /\ stale_or_absent s (lookup (fname x) (fs s)).
Proof.
  unfold create_at.
  destruct (crashed crash 0); [intros [= <- <- <-] e []|].
  destruct (validate_path s (fname x)) as [o|] eqn:Ev.
  - destruct (o =? 0)%Z eqn:Eo; cbn [negb].
    + apply Z.eqb_eq in Eo. subst o.
      destruct (negb (dir_exists (fname x))); [intros [= <- <- <-] e []|].
      assert (Hst : stale_or_absent s (lookup (fname x) (fs s))).
      { unfold stale_or_absent, validate_path in *. destruct (lookup (fname x) (fs s)) as [c|]; [|exact I].
        intros w Hw. rewrite Hw in Ev. destruct (kill0 s w); [left; congruence|left; congruence|right; reflexivity]. }
      repeat match goal with |- context [if ?b then _ else _] => destruct b end;
        intros [= <- <- <-] e Hin; cbn [In] in Hin; try contradiction; destruct Hin as [<-|[]]; cbn [fs upd_insts]; auto.
    + destruct (o =? ospid x)%Z; intros [= <- <- <-] e [].
  - cbn [negb].
    destruct (negb (dir_exists (fname x))); [intros [= <- <- <-] e []|].
    assert (Hst : stale_or_absent s (lookup (fname x) (fs s))).
    { apply validate_none_iff in Ev. unfold stale_or_absent. destruct Ev as [->|(c & -> & [Hn|(w & Hw & Hk)])]; [exact I| |].
      - intros w Hw. congruence.
      - intros w' Hw'. right. congruence. }
    repeat match goal with |- context [if ?b then _ else _] => destruct b end;
      intros [= <- <- <-] e Hin; cbn [In] in Hin; try contradiction; destruct Hin as [<-|[]]; cbn [fs upd_insts]; auto.
Qed.

Definition event_ok (s : st) (e : event) : Prop :=
  match e with
  | EUnlink who p before => own_content who before
  | EInstall who p before after => (exists pid, who = Some pid /\ after = pid_text pid) /\ stale_or_absent s before
  end.

Lemma kill0_same s s' : live s' = live s -> eperm s' = eperm s -> forall w, kill0 s' w = kill0 s w.
Proof. intros Hl He w. unfold kill0. rewrite Hl, He. reflexivity. Qed.

Theorem step_events_ok : forall s o s' r ev, step s o = (s', r, ev) -> forall e, In e ev -> event_ok s e.
Proof.
  intros s o s' r ev H e Hin.
  destruct o as [i pid crash|i|i q crash early|i|q c0|q|pid|pid other]; cbn [step] in H.
  - destruct (nth_error (insts s) i) as [x|]; [|injection H as <- <- <-; destruct Hin].
    destruct (create_at_events _ _ _ _ _ _ _ _ _ H e Hin) as [-> Hst]. cbn. split; [eauto|exact Hst].
  - destruct (nth_error (insts s) i) as [x|]; injection H as <- <- <-; destruct Hin.
  - destruct (nth_error (insts s) i) as [x|]; [|injection H as <- <- <-; destruct Hin].
    destruct early; [injection H as <- <- <-; destruct Hin|].
    destruct (unlink_at s x) as [s1 ev1] eqn:Eu.
    destruct (unlink_at_same _ _ _ _ Eu) as (_ & Hl & He & _).
    destruct (ipid x) as [pid|] eqn:Ep.
    + destruct (create_at _ i _ _ pid crash) as [[s3 r3] ev2] eqn:Ec. injection H as <- <- <-.
      apply in_app_or in Hin as [Hin|Hin].
      * destruct (unlink_at_events _ _ _ _ Eu e Hin) as (c & -> & _ & Hown). exact Hown.
      * destruct (create_at_events _ _ _ _ _ _ _ _ _ Ec e Hin) as [-> Hst]. cbn. split; [eauto|].
        unfold stale_or_absent in *. cbn [fname fs upd_insts] in *.
        destruct (lookup q (fs s1)); auto. intros w Hw. destruct (Hst w Hw) as [H0|Hk]; auto.
        right. rewrite <- Hk. symmetry. apply kill0_same; assumption.
    + injection H as <- <- <-. destruct (unlink_at_events _ _ _ _ Eu e Hin) as (c & -> & _ & Hown). exact Hown.
  - destruct (nth_error (insts s) i) as [x|]; [|injection H as <- <- <-; destruct Hin].
    destruct (unlink_at s x) as [s1 ev1] eqn:Eu. injection H as <- <- <-.
    destruct (unlink_at_events _ _ _ _ Eu e Hin) as (c & -> & _ & Hown). exact Hown.
  - injection H as <- <- <-. destruct Hin.
  - injection H as <- <- <-. destruct Hin.
  - injection H as <- <- <-. destruct Hin.
  - destruct other; injection H as <- <- <-; destruct Hin.
Qed.

(* lifted to every history: each event of a run satisfies event_ok in the state it happened in *)
Fixpoint run_events_ok (s : st) (ops : list op) : Prop :=
  match ops with
  | [] => True
  | o :: t => (forall e, In e (snd (step s o)) -> event_ok s e) /\ run_events_ok (fst (fst (step s o))) t
  end.
Theorem removes_only_own : forall ops s, run_events_ok s ops.
Proof.
  induction ops as [|o t IH]; intros s; cbn [run_events_ok]; [exact I|].
  destruct (step s o) as [[s1 r] ev] eqn:Es. cbn [fst snd]. split; [|apply IH].
  intros e Hin. eapply step_events_ok; eassumption.
Qed.

(* a pid file can leave the name space only through a foreign removal or an own-content unlink *)
Lemma unlink_at_disappear s x s1 ev1 p c :
  unlink_at s x = (s1, ev1) -> lookup p (fs s) = Some c ->
  lookup p (fs s1) = Some c \/ exists who, In (EUnlink who p c) ev1 /\ own_content who c.
Proof.
  intros Eu Hb. unfold unlink_at in Eu. destruct (lookup (fname x) (fs s)) as [c1|] eqn:El; [|injection Eu as <- <-; auto].
  destruct (match c1 with [] => Some 0%Z | _ :: _ => py_int c1 end) as [a|] eqn:Ea; [|injection Eu as <- <-; auto].
  destruct (ipid x) as [b|] eqn:Eb; [|injection Eu as <- <-; auto].
  destruct (a =? b)%Z eqn:Eab; injection Eu as <- <-; auto. cbn [fs upd_fs]. rewrite lookup_remove.
  destruct (p =? fname x)%N eqn:Ep; auto. apply N.eqb_eq in Ep. subst p. right. exists (Some b).
  assert (c1 = c) by congruence. subst c1. split; [left; reflexivity|]. exists b. split; [reflexivity|].
  apply Z.eqb_eq in Eab. subst. exact Ea.
Qed.
Lemma create_at_keeps s i x fd pid crash s' r ev p c :
  create_at s i x fd pid crash = (s', r, ev) -> lookup p (fs s) = Some c -> lookup p (fs s') <> None.
Proof.
  intros H Hb. unfold create_at in H.
  destruct (crashed crash 0); [injection H as <- <- <-; cbn; congruence|].
  destruct (negb _); [destruct (validate_path s (fname x)) as [o|]; [destruct (o =? ospid x)%Z|]; injection H as <- <- <-; congruence|].
  destruct (negb (dir_exists (fname x))); [injection H as <- <- <-; cbn; congruence|].
  repeat match goal with H : context [if ?b then _ else _] |- _ => destruct b end;
    injection H as <- <- <-; cbn [fs upd_fs upd_insts upd_temps]; try congruence;
    rewrite lookup_store; destruct (p =? fname x)%N; congruence.
Qed.

Theorem disappearance_is_own_unlink : forall s o s' r ev p c,
    step s o = (s', r, ev) -> lookup p (fs s) = Some c -> lookup p (fs s') = None ->
    o = ForeignRm p \/ exists who, In (EUnlink who p c) ev /\ own_content who c.
Proof.
  intros s o s' r ev p c H Hb Ha.
  destruct o as [i pid crash|i|i q crash early|i|q c0|q|pid|pid other]; cbn [step] in H.
  - destruct (nth_error (insts s) i) as [x|]; [|injection H as <- <- <-; congruence].
    exfalso. eapply create_at_keeps; eassumption.
  - destruct (nth_error (insts s) i) as [x|]; injection H as <- <- <-; congruence.
  - destruct (nth_error (insts s) i) as [x|]; [|injection H as <- <- <-; congruence].
    destruct early; [injection H as <- <- <-; cbn [fs upd_insts] in Ha; congruence|].
    destruct (unlink_at s x) as [s1 ev1] eqn:Eu.
    pose proof (unlink_at_disappear _ _ _ _ _ _ Eu Hb) as Hs1.
    destruct (ipid x) as [pid|].
    + destruct (create_at _ i _ _ pid crash) as [[s3 r3] ev2] eqn:Ec. injection H as <- <- <-.
      destruct Hs1 as [Hs1|(who & Hin & Hown)].
      * exfalso. eapply (create_at_keeps _ _ _ _ _ _ _ _ _ p c Ec); [cbn [fs upd_insts]; exact Hs1|exact Ha].
      * right. exists who. split; [apply in_or_app; left; exact Hin|exact Hown].
    + injection H as <- <- <-. cbn [fs upd_insts] in Ha. destruct Hs1 as [Hs1|Hs1]; [congruence|right; exact Hs1].
  - destruct (nth_error (insts s) i) as [x|]; [|injection H as <- <- <-; congruence].
    destruct (unlink_at s x) as [s1 ev1] eqn:Eu. injection H as <- <- <-.
    destruct (unlink_at_disappear _ _ _ _ _ _ Eu Hb) as [Hs1|Hs1]; [congruence|right; exact Hs1].
  - injection H as <- <- <-. cbn [fs upd_fs] in Ha. rewrite lookup_store in Ha. destruct (p =? q)%N; congruence.
  - injection H as <- <- <-. cbn [fs upd_fs] in Ha. rewrite lookup_remove in Ha. destruct (p =? q)%N eqn:E; [|congruence].
    apply N.eqb_eq in E. subst. left. reflexivity.
  - injection H as <- <- <-. cbn [fs] in Ha. congruence.
  - destruct other; injection H as <- <- <-; cbn [fs] in Ha; congruence.
Qed.
