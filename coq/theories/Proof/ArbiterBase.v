(* Basic lemmas about the data structures of Model/Arbiter.v (worker table, process table, sorting). *)
From Coq Require Import List ZArith Bool Lia.
From GV Require Import Gen.GenArbiter Model.Arbiter.
Import ListNotations.
Local Open Scope Z_scope.

(* strictly increasing lists *)
Fixpoint incr (l : list Z) : Prop :=
  match l with
  | [] => True
  | x :: t => Forall (fun y => x < y) t /\ incr t
  end.

Lemma incr_app : forall l1 l2, incr (l1 ++ l2) <-> incr l1 /\ incr l2 /\ (forall a b, In a l1 -> In b l2 -> a < b).
Proof.
  induction l1; simpl; intros.
  - split; [intros; repeat split; auto; intros; contradiction | tauto].
  - rewrite Forall_app, IHl1. repeat rewrite Forall_forall. split.
    + intros [[H1 H2] [H3 [H4 H5]]]. repeat split; auto.
      intros x b [->|Hx] Hb; auto.
    + intros [[H1 H2] [H3 H4]]. repeat split; auto.
  Qed.

Lemma incr_filter : forall (f : Z -> bool) l, incr l -> incr (filter f l).
Proof.
  induction l; simpl; intros; auto. destruct H. destruct (f a); simpl; auto.
  split; auto. rewrite Forall_forall in *. intros x Hx. apply filter_In in Hx. apply H. tauto.
Qed.

Lemma incr_NoDup : forall l, incr l -> NoDup l.
Proof.
  induction l; simpl; intros; constructor.
  - destruct H. rewrite Forall_forall in H. intro Hin. apply H in Hin. lia.
  - apply IHl. tauto.
Qed.

Lemma incr_snoc : forall l x, incr l -> (forall a, In a l -> a < x) -> incr (l ++ [x]).
Proof.
  intros. apply incr_app. repeat split; simpl; auto. intros a b Ha [<-|[]]. auto.
Qed.

(* ---- worker table ---- *)
Lemma pids_remove : forall p l, pids (remove_wk p l) = filter (fun q => negb (q =? p)) (pids l).
Proof. induction l; simpl; auto. destruct (w_pid a =? p); simpl; auto. f_equal; auto. Qed.

Lemma ages_remove_sub : forall p l x, In x (map w_age (remove_wk p l)) -> In x (map w_age l).
Proof.
  intros. apply in_map_iff in H. destruct H as [w [<- Hw]]. apply filter_In in Hw. apply in_map. tauto.
Qed.

Lemma in_remove_wk : forall p l w, In w (remove_wk p l) <-> In w l /\ w_pid w <> p.
Proof.
  intros. unfold remove_wk. rewrite filter_In. rewrite negb_true_iff, Z.eqb_neq. tauto.
Qed.

Lemma in_pids_remove : forall p l q, In q (pids (remove_wk p l)) <-> In q (pids l) /\ q <> p.
Proof.
  intros. rewrite pids_remove, filter_In, negb_true_iff, Z.eqb_neq. tauto.
Qed.

(* a sublist-like relation good enough for the invariants: same elements in the same order, some dropped *)
Lemma incr_map_remove : forall (f : wk -> Z) p l, incr (map f l) -> incr (map f (remove_wk p l)).
Proof.
  induction l; simpl; intros; auto. destruct H.
  destruct (negb (w_pid a =? p)); simpl; auto. split; auto.
  rewrite Forall_forall in *. intros x Hx. apply H. apply in_map_iff in Hx. destruct Hx as [w [<- Hw]].
  apply in_map. apply in_remove_wk in Hw. tauto.
Qed.

Lemma pids_set_aborted : forall p l, pids (set_aborted p l) = pids l.
Proof. induction l; simpl; auto. destruct (w_pid a =? p); simpl; f_equal; auto. Qed.
Lemma ages_set_aborted : forall p l, map w_age (set_aborted p l) = map w_age l.
Proof. induction l; simpl; auto. destruct (w_pid a =? p); simpl; f_equal; auto. Qed.
Lemma pids_set_hb : forall p t l, pids (set_hb p t l) = pids l.
Proof. induction l; simpl; auto. destruct (w_pid a =? p); simpl; f_equal; auto. Qed.
Lemma ages_set_hb : forall p t l, map w_age (set_hb p t l) = map w_age l.
Proof. induction l; simpl; auto. destruct (w_pid a =? p); simpl; f_equal; auto. Qed.
Lemma length_set_hb : forall p t l, length (set_hb p t l) = length l.
Proof. intros. unfold set_hb. apply map_length. Qed.
Lemma length_set_aborted : forall p l, length (set_aborted p l) = length l.
Proof. intros. unfold set_aborted. apply map_length. Qed.

Lemma find_wk_in : forall p l w, find_wk p l = Some w -> In w l /\ w_pid w = p.
Proof.
  unfold find_wk. intros. apply find_some in H. rewrite Z.eqb_eq in H. auto.
Qed.
Lemma find_wk_none : forall p l, find_wk p l = None -> ~ In p (pids l).
Proof.
  unfold find_wk. intros p l H Hin. apply in_map_iff in Hin. destruct Hin as [w [Hp Hw]].
  eapply find_none in H; eauto. simpl in H. rewrite Z.eqb_neq in H. auto.
Qed.

(* ---- process table ---- *)
Definition kpids (l : list child) : list Z := map c_pid l.

Lemma kill_in_none : forall l p sg, kill_in l p sg = None <-> ~ In p (kpids l).
Proof.
  induction l; simpl; intros.
  - tauto.
  - destruct (c_pid a =? p) eqn:E.
    + rewrite Z.eqb_eq in E. destruct (c_st a); split; try discriminate; intros; exfalso; auto.
    + rewrite Z.eqb_neq in E. destruct (kill_in l p sg) as [[t d]|] eqn:K.
      * split; [discriminate|]. intros H. exfalso. apply H. right.
        destruct (IHl p sg) as [_ H2]. destruct (in_dec Z.eq_dec p (kpids l)); auto.
        rewrite K in H2. specialize (H2 n). discriminate.
      * split; auto. intros _ [H|H]; auto. apply (proj1 (IHl p sg)) in K. auto.
Qed.

Lemma kill_in_pids : forall l p sg l' d, kill_in l p sg = Some (l', d) -> kpids l' = kpids l.
Proof.
  induction l; simpl; intros; try discriminate.
  destruct (c_pid a =? p).
  - destruct (c_st a); inversion H; subst; simpl; auto.
  - destruct (kill_in l p sg) as [[t d']|] eqn:K; try discriminate. inversion H; subst. simpl. f_equal. eauto.
Qed.

(* every child of the new table comes from a child of the old one with the same pid and kind; running stays
   running only if it was running *)
Lemma kill_in_child : forall l p sg l' d c', kill_in l p sg = Some (l', d) -> In c' l' ->
  exists c, In c l /\ c_pid c = c_pid c' /\ c_master c = c_master c' /\ (is_running c' = true -> is_running c = true)
            /\ (is_zombie c = true -> c' = c).
Proof.
  induction l; simpl; intros p sg l' d c' H Hin; try discriminate.
  destruct (c_pid a =? p) eqn:E.
  - destruct (c_st a) eqn:S.
    + inversion H; subst; clear H. destruct Hin as [<-|Hin].
      * exists a. simpl. repeat split; auto.
        -- intros _. unfold is_running, is_zombie. rewrite S. auto.
        -- unfold is_zombie. rewrite S. discriminate.
      * exists c'. repeat split; auto.
    + inversion H; subst; clear H. exists c'. repeat split; auto.
  - destruct (kill_in l p sg) as [[t d']|] eqn:K; try discriminate. inversion H; subst; clear H.
    destruct Hin as [Heq|Hin].
    + subst c'. exists a. repeat split; auto.
    + destruct (IHl _ _ _ _ _ K Hin) as [c [H1 H2]]. exists c. split; auto.
Qed.

Lemma first_zombie_some : forall l z rest, first_zombie l = Some (z, rest) ->
  is_zombie z = true /\ exists l1 l2, l = l1 ++ z :: l2 /\ rest = l1 ++ l2 /\ forallb is_running l1 = true.
Proof.
  induction l; simpl; intros; try discriminate.
  destruct (is_zombie a) eqn:Z.
  - inversion H; subst. split; auto. exists [], rest. auto.
  - destruct (first_zombie l) as [[z' t']|] eqn:F; try discriminate. inversion H; subst.
    destruct (IHl _ _ eq_refl) as [Hz [l1 [l2 [-> [-> Hr]]]]]. split; auto.
    exists (a :: l1), l2. simpl. repeat split; auto. unfold is_running. rewrite Z. simpl. auto.
Qed.

Lemma first_zombie_none : forall l, first_zombie l = None -> forallb is_running l = true.
Proof.
  induction l; simpl; intros; auto.
  destruct (is_zombie a) eqn:Z; try discriminate.
  destruct (first_zombie l) as [[z' t']|] eqn:F; try discriminate.
  unfold is_running. rewrite Z. simpl. auto.
Qed.

Lemma exit_child_pids : forall p st l, kpids (exit_child p st l) = kpids l.
Proof.
  induction l; simpl; auto. destruct ((c_pid a =? p) && is_running a); simpl; f_equal; auto.
Qed.

Lemma exit_child_in : forall p st l c', In c' (exit_child p st l) ->
  exists c, In c l /\ c_pid c = c_pid c' /\ c_master c = c_master c' /\ (is_running c' = true -> c' = c).
Proof.
  unfold exit_child. intros. apply in_map_iff in H. destruct H as [c [H1 H2]]. exists c. split; auto.
  destruct ((c_pid c =? p) && is_running c); subst; simpl; repeat split; auto. intros. discriminate.
Qed.

(* ---- sorting by age ---- *)
Lemma insert_by_age_perm : forall w l x, In x (insert_by_age w l) <-> x = w \/ In x l.
Proof.
  induction l; simpl; intros.
  - split; intros [H|H]; auto; contradiction.
  - destruct (w_age w <? w_age a); simpl.
    + split; intros [H|H]; auto.
    + rewrite IHl. split; intros [H|[H|H]]; auto.
Qed.

Lemma sort_by_age_in : forall l x, In x (sort_by_age l) <-> In x l.
Proof.
  induction l; simpl; intros; try tauto. rewrite insert_by_age_perm, IHl. split; intros [H|H]; auto.
Qed.

Fixpoint nondecr (l : list wk) : Prop :=
  match l with
  | [] => True
  | x :: t => Forall (fun y => w_age x <= w_age y) t /\ nondecr t
  end.

Lemma insert_by_age_sorted : forall w l, nondecr l -> nondecr (insert_by_age w l).
Proof.
  induction l; simpl; intros.
  - split; auto.
  - destruct H as [H1 H2]. destruct (w_age w <? w_age a) eqn:E.
    + simpl. rewrite Z.ltb_lt in E. repeat split; auto. constructor; try lia.
      rewrite Forall_forall in *. intros y Hy. apply H1 in Hy. lia.
    + simpl. rewrite Z.ltb_ge in E. split; auto.
      rewrite Forall_forall in *. intros y Hy. apply insert_by_age_perm in Hy. destruct Hy as [->|Hy]; auto.
Qed.

Lemma sort_by_age_sorted : forall l, nondecr (sort_by_age l).
Proof. induction l; simpl; auto. apply insert_by_age_sorted; auto. Qed.

Lemma insert_by_age_length : forall w l, length (insert_by_age w l) = S (length l).
Proof. induction l; simpl; auto. destruct (w_age w <? w_age a); simpl; auto. Qed.
Lemma sort_by_age_length : forall l, length (sort_by_age l) = length l.
Proof. induction l; simpl; auto. rewrite insert_by_age_length. auto. Qed.

(* on a table whose ages already increase (the arbiter's invariant) sorting changes nothing *)
Lemma insert_by_age_head : forall w l, Forall (fun y => w_age w < w_age y) l -> insert_by_age w l = w :: l.
Proof.
  destruct l; simpl; intros; auto. inversion H; subst. apply Z.ltb_lt in H2. rewrite H2. auto.
Qed.
Lemma sort_by_age_id : forall l, incr (map w_age l) -> sort_by_age l = l.
Proof.
  induction l; simpl; intros; auto. destruct H. rewrite IHl; auto. apply insert_by_age_head.
  rewrite Forall_forall in *. intros y Hy. apply H. apply in_map. auto.
Qed.

Lemma skipn_in : forall (A : Type) k (l : list A) x, In x (skipn k l) -> In x l.
Proof. induction k; destruct l; simpl; intros; auto. Qed.

(* the first k of a sorted list are minimal *)
Lemma firstn_sorted_minimal : forall l k a b, nondecr l -> In a (firstn k l) -> In b (skipn k l) -> w_age a <= w_age b.
Proof.
  induction l; intros k x b Hs Ha Hb.
  - destruct k; simpl in *; contradiction.
  - destruct k; simpl in *; try contradiction. destruct Hs as [H1 H2]. destruct Ha as [<-|Ha].
    + rewrite Forall_forall in H1. apply H1. eapply skipn_in; eauto.
    + eapply IHl; eauto.
Qed.
