(* The Body code over the ideal reader: fuel independence, and - when the reader ends cleanly - the
   semantics of a binary file over  Body.buf ++ remaining  (read, readline, readlines, iteration, drain). *)
From Coq Require Import List NArith ZArith Bool Lia Arith.
From GV Require Import Base.Bytes Base.Scan Base.PyStr Model.Parser Spec.IdealBody Proof.TakeDrop.
Import ListNotations.
Local Open Scope N_scope.

Lemma i_rd_eof n rem a tr : i_rd n (rem, TEof a tr) = (inl (takeN n rem), (dropN n rem, TEof a tr)).
Proof. reflexivity. Qed.

Lemma takeN_nil_iff n l : 0 < n -> takeN n l = [] -> l = [].
Proof.
  intros Hn H. apply (f_equal blen) in H. rewrite blen_takeN in H. change (blen []) with 0 in H.
  apply blen_zero. lia.
Qed.
Lemma length_dropN_lt n l : 0 < n -> l <> [] -> (length (dropN n l) < length l)%nat.
Proof.
  intros Hn Hl. pose proof (blen_dropN n l) as H. unfold blen in H.
  destruct l; [congruence|]. cbn [length] in *. lia.
Qed.

(* ---- fuel independence (any terminal) ---------------------------------------------------------- *)
Lemma i_fill_fuel : forall f1 f2 blk size buf rem t,
    0 < blk -> (length rem < f1)%nat -> (length rem < f2)%nat ->
    body_fill i_rd blk f1 size buf (rem, t) = body_fill i_rd blk f2 size buf (rem, t).
Proof.
  induction f1 as [|f1 IH]; intros f2 blk size buf rem t Hb H1 H2; [lia|].
  destruct f2 as [|f2]; [lia|]. cbn [body_fill].
  destruct (size <=? blen buf); [reflexivity|].
  unfold i_rd at 1 3. cbn [fst snd].
  assert (Hstep : forall d, d = takeN blk rem -> 
     match d with [] => ((buf, (dropN blk rem, t)), None)
               | _ => body_fill i_rd blk f1 size (buf ++ d) (dropN blk rem, t) end =
     match d with [] => ((buf, (dropN blk rem, t)), None)
               | _ => body_fill i_rd blk f2 size (buf ++ d) (dropN blk rem, t) end).
  { intros d Hd. destruct d as [|x d]; [reflexivity|].
    assert (Hne : rem <> []) by (intros ->; rewrite takeN_nil in Hd; discriminate).
    pose proof (length_dropN_lt blk rem Hb Hne). apply IH; [exact Hb|lia|lia]. }
  destruct t as [a tr|e].
  - apply Hstep. reflexivity.
  - destruct (blk <=? blen rem); [apply Hstep; reflexivity|reflexivity].
Qed.

(* ---- Body.read over a cleanly ending reader = file read ------------------------------------- *)
Lemma i_fill_eof : forall fuel blk size buf rem a tr,
    0 < blk -> (length rem < fuel)%nat ->
    exists buf' rem', body_fill i_rd blk fuel size buf (rem, TEof a tr) = ((buf', (rem', TEof a tr)), None)
                      /\ buf' ++ rem' = buf ++ rem /\ (size <= blen buf' \/ rem' = []).
Proof.
  induction fuel as [|fuel IH]; intros blk size buf rem a tr Hb Hf; [lia|]. cbn [body_fill].
  destruct (size <=? blen buf) eqn:Es.
  - apply N.leb_le in Es. exists buf, rem. auto.
  - rewrite i_rd_eof. destruct (takeN blk rem) as [|x d] eqn:Ed.
    + apply takeN_nil_iff in Ed; [|exact Hb]. subst rem. rewrite dropN_nil. exists buf, []. auto.
    + assert (Hne : rem <> []) by (intros ->; rewrite takeN_nil in Ed; discriminate).
      pose proof (length_dropN_lt blk rem Hb Hne) as Hl.
      destruct (IH blk size (buf ++ x :: d) (dropN blk rem) a tr Hb ltac:(lia)) as (buf' & rem' & H1 & H2 & H3).
      exists buf', rem'. split; [exact H1|]. split; [|exact H3].
      rewrite H2, <- app_assoc, <- Ed, takeN_dropN. reflexivity.
Qed.

Theorem i_read_is_file : forall blk size buf rem a tr,
    0 < blk ->
    exists buf' rem',
      body_read_blk i_rd i_fuel blk size (buf, (rem, TEof a tr)) = (inl (fst (file_read size (buf ++ rem))), (buf', (rem', TEof a tr)))
      /\ buf' ++ rem' = snd (file_read size (buf ++ rem)).
Proof.
  intros blk size buf rem a tr Hb. unfold body_read_blk, file_read. cbn [fst snd].
  set (n := getsize size).
  destruct (n =? 0) eqn:E0.
  - apply N.eqb_eq in E0. rewrite E0, takeN_0, dropN_0. exists buf, rem. auto.
  - apply N.eqb_neq in E0. destruct (n <? blen buf) eqn:El.
    + apply N.ltb_lt in El. exists (dropN n buf), rem. rewrite takeN_app_l, dropN_app_l by lia. auto.
    + apply N.ltb_ge in El.
      destruct (i_fill_eof (i_fuel (rem, TEof a tr)) blk n buf rem a tr Hb ltac:(unfold i_fuel; cbn; lia)) as (buf' & rem' & H1 & H2 & H3).
      cbn [fst snd] in *. rewrite H1. exists (dropN n buf'), rem'. rewrite <- H2. destruct H3 as [H3|H3].
      * rewrite takeN_app_l, dropN_app_l by exact H3. auto.
      * subst rem'. rewrite !app_nil_r. auto.
Qed.

(* ---- Body.readline over a cleanly ending reader = file readline ----------------------------- *)
Lemma find_char_app_some c : forall a b i, find_char c a = Some i -> find_char c (a ++ b) = Some i.
Proof.
  induction a as [|x a IH]; intros b i H; [discriminate H|]. cbn in *.
  destruct (x =? c); [exact H|]. destruct (find_char c a) as [j|]; [|discriminate H]. rewrite (IH b j eq_refl). exact H.
Qed.
Lemma find_char_app_none c : forall a b, find_char c a = None ->
  find_char c (a ++ b) = option_map (fun i => (length a + i)%nat) (find_char c b).
Proof.
  induction a as [|x a IH]; intros b H; cbn in *.
  - destruct (find_char c b); reflexivity.
  - destruct (x =? c); [discriminate H|]. destruct (find_char c a) as [j|] eqn:E; [discriminate H|].
    rewrite (IH b eq_refl). destruct (find_char c b); reflexivity.
Qed.
Lemma find_char_lt c : forall l i, find_char c l = Some i -> (i < length l)%nat.
Proof.
  induction l as [|x l IH]; intros i H; [discriminate H|]. cbn in *.
  destruct (x =? c); [injection H as <-; lia|]. destruct (find_char c l) as [j|]; [|discriminate H].
  injection H as <-. specialize (IH j eq_refl). lia.
Qed.
Lemma find_char_firstn_some c l n i : find_char c (firstn n l) = Some i -> find_char c l = Some i /\ (i < n)%nat.
Proof.
  intros H. split.
  - rewrite <- (firstn_skipn n l). apply find_char_app_some. exact H.
  - apply find_char_lt in H. rewrite firstn_length in H. lia.
Qed.
Lemma find_char_firstn c : forall l n i, find_char c l = Some i -> (i < n)%nat -> find_char c (firstn n l) = Some i.
Proof.
  induction l as [|x l IH]; intros n i H Hi; [discriminate H|].
  destruct n as [|n]; [lia|]. cbn in *. destruct (x =? c); [exact H|].
  destruct (find_char c l) as [j|] eqn:Ej; [|discriminate H]. injection H as <-.
  rewrite (IH n j eq_refl) by lia. reflexivity.
Qed.
Lemma find_char_firstn_none c l n : find_char c (firstn n l) = None -> forall i, find_char c l = Some i -> (n <= i)%nat.
Proof.
  intros H i Hi. destruct (le_lt_dec n i) as [|Hlt]; [assumption|exfalso].
  rewrite (find_char_firstn _ _ _ _ Hi Hlt) in H. discriminate.
Qed.

Definition frl (n : N) (f : bytes) : bytes := takeN (N.min n (line_len f)) f.
Definition frl_rest (n : N) (f : bytes) : bytes := dropN (N.min n (line_len f)) f.

Lemma line_len_le f : line_len f <= blen f.
Proof. unfold line_len. destruct (find_char 10 f) eqn:E; [apply find_char_lt in E; unfold blen; lia|lia]. Qed.

Lemma frl_split n data rem : find_char 10 data = None -> blen data < n ->
  frl n (data ++ rem) = data ++ frl (n - blen data) rem /\ frl_rest n (data ++ rem) = frl_rest (n - blen data) rem.
Proof.
  intros Hn Hl. unfold frl, frl_rest.
  assert (E : N.min n (line_len (data ++ rem)) = blen data + N.min (n - blen data) (line_len rem)).
  { unfold line_len. rewrite (find_char_app_none _ _ _ Hn).
    destruct (find_char 10 rem) as [j|]; cbn [option_map]; [|rewrite blen_app]; unfold blen in *; lia. }
  rewrite E. set (M := N.min (n - blen data) (line_len rem)).
  rewrite takeN_app_r, dropN_app_r by lia. replace (blen data + M - blen data) with M by lia. auto.
Qed.

Lemma takeN_firstn n l : N.of_nat n <= blen l -> takeN (N.of_nat n) l = firstn n l.
Proof. intros H. unfold takeN. replace (N.min (N.of_nat n) (blen l)) with (N.of_nat n) by lia. rewrite Nat2N.id. reflexivity. Qed.
Lemma dropN_skipn n l : N.of_nat n <= blen l -> dropN (N.of_nat n) l = skipn n l.
Proof. intros H. unfold dropN. replace (N.min (N.of_nat n) (blen l)) with (N.of_nat n) by lia. rewrite Nat2N.id. reflexivity. Qed.

Lemma i_readline_loop_eof : forall fuel blk size data acc rem a tr,
    0 < blk -> 0 < size -> (length rem < fuel)%nat ->
    exists buf' rem',
      readline_loop i_rd blk fuel size data acc (rem, TEof a tr)
      = ((acc ++ frl size (data ++ rem), (buf', (rem', TEof a tr))), None)
      /\ buf' ++ rem' = frl_rest size (data ++ rem).
Proof.
  induction fuel as [|fuel IH]; intros blk size data acc rem a tr Hb Hs Hf; [lia|].
  cbn [readline_loop]. unfold nl_cut.
  destruct (find_char 10 (takeN size data)) as [i|] eqn:Efc.
  - (* newline within the first [size] bytes of data *)
    unfold takeN in Efc. apply find_char_firstn_some in Efc as [Hd Hi].
    pose proof (find_char_lt _ _ _ Hd) as Hil.
    exists (skipn (S i) data), rem. unfold frl, frl_rest, line_len. rewrite (find_char_app_some _ _ rem _ Hd).
    replace (N.min size (N.of_nat (S i))) with (N.of_nat (S i)) by lia.
    rewrite takeN_app_l, dropN_app_l by (unfold blen; lia).
    rewrite takeN_firstn, dropN_skipn by (unfold blen; lia). auto.
  - destruct (size <=? blen data) eqn:Ele.
    + (* no newline among the first [size] bytes, enough data: cut at size *)
      apply N.leb_le in Ele. destruct (N.to_nat size) as [|i] eqn:Ei; [lia|].
      assert (Hsz : size = N.of_nat (S i)) by lia.
      exists (skipn (S i) data), rem.
      assert (Hll : size <= line_len (data ++ rem)).
      { unfold line_len. destruct (find_char 10 (data ++ rem)) as [j|] eqn:Ej; [|rewrite blen_app; lia].
        unfold takeN in Efc. replace (N.min size (blen data)) with size in Efc by lia. rewrite Ei in Efc.
        destruct (find_char 10 data) as [j'|] eqn:Ej'.
        - rewrite (find_char_app_some _ _ rem _ Ej') in Ej. injection Ej as <-.
          pose proof (find_char_firstn_none _ _ _ Efc _ Ej'). lia.
        - rewrite (find_char_app_none _ _ _ Ej') in Ej. destruct (find_char 10 rem); [|discriminate Ej].
          cbn in Ej. injection Ej as <-. unfold blen in Ele. lia. }
      unfold frl, frl_rest. replace (N.min size (line_len (data ++ rem))) with size by lia.
      rewrite takeN_app_l, dropN_app_l by lia. rewrite Hsz, takeN_firstn, dropN_skipn by (unfold blen in *; lia). auto.
    + (* data shorter than size, newline-free: take it all and read more *)
      apply N.leb_gt in Ele.
      assert (Hnone : find_char 10 data = None) by (rewrite takeN_all in Efc by lia; exact Efc).
      destruct (frl_split size data rem Hnone Ele) as [Hfrl Hrest]. rewrite Hfrl, Hrest.
      set (m := N.min blk (size - blen data)). assert (Hm : 0 < m) by (unfold m; lia).
      rewrite i_rd_eof. destruct (takeN m rem) as [|x d] eqn:Ed.
      * apply takeN_nil_iff in Ed; [|exact Hm]. subst rem. rewrite dropN_nil.
        exists [], []. unfold frl, frl_rest. rewrite takeN_nil, dropN_nil, app_nil_r. auto.
      * assert (Hne : rem <> []) by (intros ->; rewrite takeN_nil in Ed; discriminate).
        pose proof (length_dropN_lt m rem Hm Hne) as Hl.
        destruct (IH blk (size - blen data) (x :: d) (acc ++ data) (dropN m rem) a tr Hb ltac:(lia) ltac:(lia)) as (buf' & rem' & H1 & H2).
        exists buf', rem'. rewrite H1, <- Ed, takeN_dropN in *. rewrite <- app_assoc. auto.
Qed.

Theorem i_readline_is_file : forall blk size buf rem a tr,
    0 < blk ->
    exists buf' rem',
      body_readline_blk i_rd i_fuel blk size (buf, (rem, TEof a tr))
      = (inl (fst (file_readline size (buf ++ rem))), (buf', (rem', TEof a tr)))
      /\ buf' ++ rem' = snd (file_readline size (buf ++ rem)).
Proof.
  intros blk size buf rem a tr Hb. unfold body_readline_blk, file_readline. cbn [fst snd].
  set (n := getsize size).
  destruct (n =? 0) eqn:E0.
  - apply N.eqb_eq in E0. rewrite E0, N.min_0_l, takeN_0, dropN_0. exists buf, rem. auto.
  - apply N.eqb_neq in E0.
    destruct (i_readline_loop_eof (i_fuel (rem, TEof a tr)) blk n buf [] rem a tr Hb ltac:(lia) ltac:(unfold i_fuel; cbn; lia))
      as (buf' & rem' & H1 & H2).
    rewrite H1. exists buf', rem'. auto.
Qed.

(* ---- every call of the input API, and whole programs ------------------------------------------ *)
Lemma frl_nonempty f : f <> [] -> fst (file_readline None f) <> [].
Proof.
  intros Hf. unfold file_readline. cbn [fst getsize].
  assert (0 < line_len f).
  { unfold line_len. destruct (find_char 10 f); [lia|]. destruct f; [congruence|unfold blen; cbn; lia]. }
  intros E. apply (f_equal blen) in E. rewrite blen_takeN in E. change (blen []) with 0 in E.
  pose proof (line_len_le f). unfold maxsize in *. lia.
Qed.

Theorem i_do_call_is_file : forall cl buf rem a tr,
    blen (buf ++ rem) <= maxsize ->          (* no body has 2^63 bytes *)
    exists buf' rem',
      do_call i_rd i_fuel cl (buf, (rem, TEof a tr)) = (fst (file_call cl (buf ++ rem)), (buf', (rem', TEof a tr)))
      /\ buf' ++ rem' = snd (file_call cl (buf ++ rem)).
Proof.
  intros cl buf rem a tr Hsz. destruct cl as [s|s| |]; cbn [do_call file_call fst snd].
  - destruct (i_read_is_file 1024 s buf rem a tr ltac:(lia)) as (b' & r' & H1 & H2).
    unfold body_read. rewrite H1. exists b', r'. auto.
  - destruct (i_readline_is_file 1024 s buf rem a tr ltac:(lia)) as (b' & r' & H1 & H2).
    unfold body_readline. rewrite H1. exists b', r'. auto.
  - destruct (i_read_is_file 1024 None buf rem a tr ltac:(lia)) as (b' & r' & H1 & H2).
    unfold body_read. rewrite H1. exists b', r'. unfold file_read in *. cbn [fst snd getsize] in *.
    rewrite takeN_all, dropN_all in * by exact Hsz. auto.
  - destruct (i_readline_is_file 1024 None buf rem a tr ltac:(lia)) as (b' & r' & H1 & H2).
    unfold body_readline. rewrite H1.
    destruct (buf ++ rem) as [|x f] eqn:Ef.
    + unfold file_readline in *. cbn [fst snd] in *. rewrite takeN_nil, dropN_nil in *.
      exists b', r'. auto.
    + pose proof (frl_nonempty (x :: f) ltac:(discriminate)) as Hne.
      destruct (fst (file_readline None (x :: f))) as [|y l] eqn:El; [congruence|].
      exists b', r'. auto.
Qed.

Lemma file_call_shrinks cl f : blen (snd (file_call cl f)) <= blen f.
Proof.
  destruct cl as [s|s| |]; cbn [file_call snd]; unfold file_read, file_readline; cbn [snd];
    try (rewrite blen_dropN; lia); try (cbn; lia).
  destruct f; [cbn; lia|]. cbn [snd]. rewrite blen_dropN. lia.
Qed.

Theorem i_run_calls_is_file : forall prog buf rem a tr,
    blen (buf ++ rem) <= maxsize ->
    exists buf' rem',
      run_calls i_rd i_fuel prog (buf, (rem, TEof a tr)) = (fst (file_run prog (buf ++ rem)), (buf', (rem', TEof a tr)), None)
      /\ buf' ++ rem' = snd (file_run prog (buf ++ rem)).
Proof.
  induction prog as [|cl t IH]; intros buf rem a tr Hsz; cbn [run_calls file_run].
  - exists buf, rem. auto.
  - destruct (i_do_call_is_file cl buf rem a tr Hsz) as (b1 & r1 & H1 & H2). rewrite H1.
    destruct (file_call cl (buf ++ rem)) as [r f'] eqn:Ec. cbn [fst snd] in *.
    assert (Hsz' : blen (b1 ++ r1) <= maxsize).
    { rewrite H2. pose proof (file_call_shrinks cl (buf ++ rem)) as Hs. rewrite Ec in Hs. cbn [snd] in Hs. lia. }
    destruct (IH b1 r1 a tr Hsz') as (b2 & r2 & H3 & H4). rewrite H2 in *.
    destruct (file_run t f') as [o f''] eqn:Er. cbn [fst snd] in *.
    assert (Hnoexc : match r with RExc _ => False | _ => True end).
    { destruct cl as [s|s| |]; cbn [file_call] in Ec; try (injection Ec as <- _; exact I).
      destruct (buf ++ rem); injection Ec as <- _; exact I. }
    destruct r; try contradiction; rewrite H3; exists b2, r2; auto.
Qed.

(* ---- the drain of Parser.__next__ reads the file to its end ------------------------------------ *)
Theorem i_drain_eof : forall fuel buf rem a tr,
    (length (buf ++ rem) < fuel)%nat ->
    drain i_rd i_fuel fuel (buf, (rem, TEof a tr)) = (([], ([], TEof a tr)), None).
Proof.
  induction fuel as [|fuel IH]; intros buf rem a tr Hf; [lia|]. cbn [drain].
  destruct (i_read_is_file 1024 (Some 8192%Z) buf rem a tr ltac:(lia)) as (b' & r' & H1 & H2).
  unfold body_read. rewrite H1. unfold file_read in *. cbn [fst snd getsize] in *.
  change (if (8192 <? 0)%Z then maxsize else Z.to_N 8192) with 8192 in *.
  destruct (takeN 8192 (buf ++ rem)) as [|x d] eqn:Ed.
  - apply takeN_nil_iff in Ed; [|lia]. rewrite Ed, dropN_nil in H2.
    apply app_eq_nil in H2 as [-> ->]. reflexivity.
  - apply IH. rewrite H2.
    assert (Hne : buf ++ rem <> []) by (intros E; rewrite E, takeN_nil in Ed; discriminate).
    pose proof (length_dropN_lt 8192 (buf ++ rem) ltac:(lia) Hne). lia.
Qed.
