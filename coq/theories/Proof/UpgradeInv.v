(* C14 - invariants of Model/Upgrade.v over all histories *)
From Coq Require Import List ZArith Bool Lia.
From GV Require Import Gen.GenUpgrade Model.Upgrade.
Import ListNotations.
Local Open Scope Z_scope.
Local Opaque reload_names_dot2.

(* ---- who is whose parent ------------------------------------------------------------------------------------------ *)
Definition linked (m o : master) : Prop :=
  (m_alive m = true -> 0 < m_pid m) /\
  (m_alive m = true -> m_reexec m <> 0 -> m_reexec m = m_pid o) /\
  (m_alive m = true -> m_mpid m <> 0 -> m_mpid m = m_pid o /\ m_reexec m = 0).

Definition paired (a b : master) : Prop :=
  m_alive a = true -> m_alive b = true ->
  (m_reexec a = m_pid b /\ m_mpid b = m_pid a) \/ (m_reexec b = m_pid a /\ m_mpid a = m_pid b).

Record WF (s : st) : Prop := mkWF {
  wf_pa : 0 <= m_pid (ma s) < next_pid s;
  wf_pb : 0 <= m_pid (mb s) < next_pid s;
  wf_ne : m_pid (ma s) <> m_pid (mb s);
  wf_la : linked (ma s) (mb s);
  wf_lb : linked (mb s) (ma s);
  wf_pr : paired (ma s) (mb s)
}.

Ltac brk :=
  repeat match goal with
  | H : _ /\ _ |- _ => destruct H
  | H : context [if ?b then _ else _] |- _ => destruct b eqn:?
  | |- context [if ?b then _ else _] => destruct b eqn:?
  end.

Ltac zb :=
  repeat match goal with
  | H : (_ =? _) = true |- _ => apply Z.eqb_eq in H
  | H : (_ =? _) = false |- _ => apply Z.eqb_neq in H
  | H : negb _ = true |- _ => apply negb_true_iff in H
  | H : negb _ = false |- _ => apply negb_false_iff in H
  | H : _ && _ = true |- _ => apply andb_true_iff in H; destruct H
  | H : _ || _ = false |- _ => apply orb_false_iff in H; destruct H
  end.

Lemma init_wf : forall c, WF (init c).
Proof.
  intros c. constructor; simpl; try lia; unfold linked, paired; simpl; repeat split; intros; try lia; try discriminate; try congruence.
Qed.

(* frame: the helpers that only touch the pid files / the socket file keep both master records *)
Lemma fs_put_masters : forall s n v, ma (fs_put s n v) = ma s /\ mb (fs_put s n v) = mb s /\ next_pid (fs_put s n v) = next_pid s.
Proof. intros. destruct n; simpl; auto. Qed.

Lemma pf_unlink_masters : forall s m, ma (pf_unlink s m) = ma s /\ mb (pf_unlink s m) = mb s /\ next_pid (pf_unlink s m) = next_pid s.
Proof.
  intros. unfold pf_unlink. destruct (m_pown m); auto. destruct (fs_get s (m_pname m)); auto.
  destruct (z =? m_pid m); auto. apply fs_put_masters.
Qed.

Lemma pf_create_masters : forall s me n s', pf_create s me n = Some s' ->
  ma s' = ma s /\ mb s' = mb s /\ next_pid s' = next_pid s.
Proof.
  intros s me n s' H. unfold pf_create in H. destruct (fs_get s n).
  - destruct (alive_pid s z).
    + destruct (z =? me); inversion H; subst; auto.
    + inversion H; subst. apply fs_put_masters.
  - inversion H; subst. apply fs_put_masters.
Qed.

(* WF only looks at the two master records and next_pid *)
Lemma wf_ext : forall s s', ma s' = ma s -> mb s' = mb s -> next_pid s' = next_pid s -> WF s -> WF s'.
Proof. intros s s' A B N [H1 H2 H3 H4 H5 H6]. constructor; rewrite ?A, ?B, ?N; auto. Qed.

(* replacing the master of a slot by a dead one, or changing only fields WF does not read *)
Lemma wf_put_dead : forall s x status, WF s -> WF (put s x (set_m_dead (get s x) status)).
Proof.
  intros s x status [H1 H2 H3 [A1 [A2 A3]] [B1 [B2 B3]] H6].
  destruct x; constructor; simpl; auto; unfold linked, paired in *; simpl; repeat split; intros; try discriminate; auto;
    try (apply A2; auto); try (apply A3; auto); try (apply B2; auto); try (apply B3; auto).
Qed.

Definition same_links (m m' : master) : Prop :=
  m_pid m' = m_pid m /\ m_alive m' = m_alive m /\ m_reexec m' = m_reexec m /\ m_mpid m' = m_mpid m.

Lemma wf_put_same : forall s x m', WF s -> same_links (get s x) m' -> WF (put s x m').
Proof.
  intros s x m' [H1 H2 H3 [A1 [A2 A3]] [B1 [B2 B3]] H6] [P [Al [R M]]].
  destruct x; simpl in *; constructor; simpl; unfold linked, paired in *; rewrite ?P, ?Al, ?R, ?M; auto.
Qed.

Lemma alive_pid_false : forall s p, alive_pid s p = false ->
  (m_alive (ma s) = true -> m_pid (ma s) <> p) /\ (m_alive (mb s) = true -> m_pid (mb s) <> p).
Proof.
  intros s p H. unfold alive_pid in H. apply orb_false_iff in H. destruct H as [A B].
  split; intros Al; [rewrite Al in A|rewrite Al in B]; simpl in *; apply Z.eqb_neq; auto.
Qed.

Lemma do_exit_wf : forall c s x status, WF s -> WF (do_exit c s x status).
Proof.
  intros c s x status W. unfold do_exit.
  assert (W1 : WF (if unlink_flag c (get s x) && unixb c then set_sock s false else s)).
  { destruct (unlink_flag c (get s x) && unixb c); auto. apply (wf_ext s); auto. }
  remember (if unlink_flag c (get s x) && unixb c then set_sock s false else s) as s1.
  assert (G1 : get s1 x = get s x).
  { subst s1. destruct (unlink_flag c (get s x) && unixb c); destruct x; reflexivity. }
  assert (W2 : WF (if pidconf c then pf_unlink s1 (get s x) else s1)).
  { destruct (pidconf c); auto. destruct (pf_unlink_masters s1 (get s x)) as [A [B N]]. apply (wf_ext s1); auto. }
  remember (if pidconf c then pf_unlink s1 (get s x) else s1) as s2.
  assert (G2 : get s2 x = get s x).
  { subst s2. destruct (pidconf c); auto. destruct (pf_unlink_masters s1 (get s x)) as [A [B N]].
    destruct x; simpl in *; congruence. }
  rewrite <- G2. apply wf_put_dead. auto.
Qed.

Lemma wf_promote : forall s x n o, WF s ->
  m_alive (get s x) = true -> alive_pid s (m_mpid (get s x)) = false ->
  WF (put s x (set_m_pf (set_m_mpid (get s x) 0) n o)).
Proof.
  intros s x n o W Al Np. destruct (alive_pid_false _ _ Np) as [Na Nb].
  destruct W as [H1' H2' H3' [A1 [A2 A3]] [B1 [B2 B3]] H6].
  destruct x; simpl in *; constructor; simpl; auto; unfold linked, paired in *; simpl; repeat split; intros; auto; try lia;
    try (apply A2; auto); try (apply A3; auto); try (apply B2; auto); try (apply B3; auto).
  - destruct (H6 H H0) as [[P Q]|[P Q]]; [left; auto|exfalso; apply (Nb H0); auto].
  - destruct (H6 H H0) as [[P Q]|[P Q]]; [exfalso; apply (Na H); auto|right; auto].
Qed.

Lemma step_wf : forall c s e, WF s -> WF (step c s e).
Proof.
  intros c s e W. destruct e as [x|x|x|x|x|x|x code]; unfold step.
  - (* USR2 *)
    destruct (negb (m_alive (get s x))) eqn:Al; auto.
    destruct (negb (m_reexec (get s x) =? 0)) eqn:Rx; auto.
    destruct (negb (m_mpid (get s x) =? 0)) eqn:Mp; auto.
    destruct (m_alive (get s (other x))) eqn:Ao; auto.
    zb. unfold start_child. cbv zeta.
    destruct W as [H1 H2 H3 [A1 [A2 A3]] [B1 [B2 B3]] H6].
    destruct x; simpl in *;
      (destruct (pidconf c) eqn:Pc;
       [ match goal with |- context [pf_create ?a ?b ?n] => destruct (pf_create a b n) as [s2|] eqn:Cr end;
         [ destruct (pf_create_masters _ _ _ _ Cr) as [EA [EB EN]]; simpl in EA, EB, EN | ] | ];
       constructor; simpl; rewrite ?EA, ?EB, ?EN; unfold linked, paired in *; simpl;
       repeat split; intros; try discriminate; try lia; auto;
       try (left; split; auto; fail); try (right; split; auto; fail)).
  - (* Stop *)
    destruct (m_alive (get s x)); auto. apply do_exit_wf; auto.
  - (* NoticeChild *)
    destruct (m_alive (get s x) && negb (m_reexec (get s x) =? 0) && negb (alive_pid s (m_reexec (get s x)))) eqn:Cd; auto.
    zb. destruct (alive_pid_false _ _ H0) as [Na Nb].
    destruct W as [H1' H2' H3' [A1 [A2 A3]] [B1 [B2 B3]] H6].
    destruct x; simpl in *; constructor; simpl; auto; unfold linked, paired in *; simpl; repeat split; intros; auto; try lia;
      try (apply A2; auto); try (apply A3; auto); try (apply B2; auto); try (apply B3; auto).
    + exfalso. apply Nb; auto. symmetry. apply A2; auto.
    + exfalso. apply Na; auto. symmetry. apply B2; auto.
  - (* NoticeParent *)
    destruct (m_alive (get s x) && negb (m_mpid (get s x) =? 0) && negb (alive_pid s (m_mpid (get s x)))) eqn:Cd; auto.
    zb. destruct (alive_pid_false _ _ H0) as [Na Nb].
    assert (Wm : forall n o, WF (put s x (set_m_pf (set_m_mpid (get s x) 0) n o))).
    { intros n o. apply wf_promote; auto. }
    destruct (pidconf c).
    + destruct (pf_unlink_masters s (get s x)) as [U1 [U2 U3]].
      destruct (pf_create (pf_unlink s (get s x)) (m_pid (get s x)) PMain) as [s2|] eqn:Cr.
      * destruct (pf_create_masters _ _ _ _ Cr) as [EA [EB EN]].
        apply (wf_ext (put s x (set_m_pf (set_m_mpid (get s x) 0) PMain (pf_create_owns (pf_unlink s (get s x)) (m_pid (get s x)) PMain)))); auto;
          destruct x; simpl in *; congruence.
      * unfold crash. apply do_exit_wf.
        apply (wf_ext (put s x (set_m_pf (set_m_mpid (get s x) 0) PMain false))); auto; destruct x; simpl in *; congruence.
    + apply (wf_ext (put s x (set_m_pf (set_m_mpid (get s x) 0) (m_pname (get s x)) (m_pown (get s x))))); auto;
        destruct x; simpl; auto; destruct (ma s); destruct (mb s); reflexivity.
  - (* HUP *)
    destruct (negb (m_alive (get s x))) eqn:Al; auto.
    assert (Wm : forall n o, WF (put s x (set_m_pf (set_m_workers (get s x) (cworkers c)) n o))).
    { intros n o. apply wf_put_same; auto. unfold same_links. simpl. auto. }
    cbv zeta. remember (if reload_names_dot2 && negb (m_mpid (get s x) =? 0) then PDot2 else PMain) as tgt.
    destruct (pidconf c).
    + destruct (pf_unlink_masters s (get s x)) as [U1 [U2 U3]].
      destruct (pf_create (pf_unlink s (get s x)) (m_pid (get s x)) tgt) as [s2|] eqn:Cr.
      * destruct (pf_create_masters _ _ _ _ Cr) as [EA [EB EN]].
        apply (wf_ext (put s x (set_m_pf (set_m_workers (get s x) (cworkers c)) tgt (pf_create_owns (pf_unlink s (get s x)) (m_pid (get s x)) tgt)))); auto;
          destruct x; simpl in *; congruence.
      * unfold crash. apply do_exit_wf.
        apply (wf_ext (put s x (set_m_pf (set_m_workers (get s x) (cworkers c)) tgt false))); auto; destruct x; simpl in *; congruence.
    + apply wf_put_same; auto. unfold same_links. simpl. auto.
  - (* WINCH *)
    destruct (m_alive (get s x) && daemon c); auto.
    apply wf_put_same; auto. unfold same_links. simpl. auto.
  - (* Halt *)
    destruct (m_alive (get s x)); auto. apply do_exit_wf; auto.
Qed.

Lemma run_wf : forall c es s, WF s -> WF (run c s es).
Proof. induction es; simpl; intros; auto. apply IHes. apply step_wf. auto. Qed.

(* ================================================================================================ *)
(* two slots are enough; the socket file                                                            *)
(* ================================================================================================ *)

(* a master that believes it has neither a child master nor a parent master is alone *)
Lemma alone : forall s x, WF s ->
  m_alive (get s x) = true -> m_reexec (get s x) = 0 -> m_mpid (get s x) = 0 -> m_alive (get s (other x)) = false.
Proof.
  intros s x [H1 H2 H3 [A1 [A2 A3]] [B1 [B2 B3]] H6] Al R M.
  destruct (m_alive (get s (other x))) eqn:Ao; auto. exfalso.
  destruct x; simpl in *; unfold paired in H6; destruct (H6 ltac:(auto) ltac:(auto)) as [[P Q]|[P Q]];
    pose proof (A1 ltac:(auto)); pose proof (B1 ltac:(auto)); lia.
Qed.

Definition SockInv (c : cfg) (s : st) : Prop :=
  unixb c = true -> (m_alive (ma s) = true \/ m_alive (mb s) = true) -> sockf s = true.

Lemma pf_unlink_sock : forall s m, sockf (pf_unlink s m) = sockf s.
Proof.
  intros. unfold pf_unlink. destruct (m_pown m); auto. destruct (fs_get s (m_pname m)); auto.
  destruct (z =? m_pid m); auto. destruct (m_pname m); reflexivity.
Qed.

Lemma pf_create_sock : forall s me n s', pf_create s me n = Some s' -> sockf s' = sockf s.
Proof.
  intros s me n s' H. unfold pf_create in H. destruct (fs_get s n).
  - destruct (alive_pid s z); [destruct (z =? me); inversion H; subst; auto|inversion H; subst; destruct n; reflexivity].
  - inversion H; subst; destruct n; reflexivity.
Qed.

Lemma put_sock : forall s x m, sockf (put s x m) = sockf s.
Proof. intros. destruct x; reflexivity. Qed.

(* an exit either keeps the socket file or is the exit of a master that is alone *)
Lemma do_exit_sock : forall c s x status, WF s -> m_alive (get s x) = true -> SockInv c s -> SockInv c (do_exit c s x status).
Proof.
  intros c s x status W Al S Hu Hal. unfold do_exit in *.
  destruct (unlink_flag c (get s x) && unixb c) eqn:Fl.
  - (* it unlinks: then nobody else is alive, and it is dead now *)
    exfalso. apply andb_true_iff in Fl. destruct Fl as [Fl _]. unfold unlink_flag in Fl.
    apply andb_true_iff in Fl. destruct Fl as [Fl _]. apply andb_true_iff in Fl. destruct Fl as [R M].
    apply Z.eqb_eq in R. apply Z.eqb_eq in M. pose proof (alone s x W Al R M) as Ao.
    destruct (pidconf c); [destruct (pf_unlink_masters (set_sock s false) (get s x)) as [EA [EB _]]|];
      destruct x; simpl in *; rewrite ?EA, ?EB in Hal; simpl in Hal; destruct Hal as [Q|Q]; try discriminate; congruence.
  - assert (Sk : sockf (if pidconf c then pf_unlink s (get s x) else s) = sockf s).
    { destruct (pidconf c); auto. apply pf_unlink_sock. }
    rewrite put_sock. rewrite Sk. apply S; auto.
    destruct (pidconf c); [destruct (pf_unlink_masters s (get s x)) as [EA [EB _]]|];
      destruct x; simpl in *; rewrite ?EA, ?EB in Hal; simpl in Hal; destruct Hal as [Q|Q]; try discriminate; auto.
Qed.

Lemma step_sock : forall c s e, WF s -> SockInv c s -> SockInv c (step c s e).
Proof.
  intros c s e W S. destruct e as [x|x|x|x|x|x|x code]; unfold step.
  - (* USR2: a new master appears only when the file is there *)
    destruct (negb (m_alive (get s x))) eqn:Al; auto.
    destruct (negb (m_reexec (get s x) =? 0)) eqn:Rx; auto.
    destruct (negb (m_mpid (get s x) =? 0)) eqn:Mp; auto.
    destruct (m_alive (get s (other x))) eqn:Ao; auto.
    apply negb_false_iff in Al.
    intros Hu _. assert (Sk : sockf s = true) by (apply S; auto; destruct x; simpl in Al; auto).
    unfold start_child. cbv zeta.
    destruct (pidconf c).
    + match goal with |- context [pf_create ?a ?b ?n] => destruct (pf_create a b n) as [s2|] eqn:Cr end.
      * rewrite put_sock. rewrite (pf_create_sock _ _ _ _ Cr). destruct x; simpl; auto.
      * destruct x; simpl; auto.
    + destruct x; simpl; auto.
  - destruct (m_alive (get s x)) eqn:Al; auto. apply do_exit_sock; auto.
  - destruct (m_alive (get s x) && negb (m_reexec (get s x) =? 0) && negb (alive_pid s (m_reexec (get s x)))); auto.
    intros Hu Hal. rewrite put_sock. apply S; auto. destruct x; simpl in *; auto.
  - destruct (m_alive (get s x) && negb (m_mpid (get s x) =? 0) && negb (alive_pid s (m_mpid (get s x)))) eqn:Cd; auto.
    apply andb_true_iff in Cd. destruct Cd as [Cd Np]. apply andb_true_iff in Cd. destruct Cd as [Al _].
    apply negb_true_iff in Np.
    destruct (pidconf c).
    + destruct (pf_unlink_masters s (get s x)) as [U1 [U2 U3]].
      destruct (pf_create (pf_unlink s (get s x)) (m_pid (get s x)) PMain) as [s2|] eqn:Cr.
      * intros Hu Hal. rewrite put_sock. rewrite (pf_create_sock _ _ _ _ Cr). rewrite pf_unlink_sock. apply S; auto.
        destruct x; simpl in Al; auto.
      * unfold crash. apply do_exit_sock.
        -- apply (wf_ext (put s x (set_m_pf (set_m_mpid (get s x) 0) PMain false))).
           ++ destruct x; simpl in *; congruence.
           ++ destruct x; simpl in *; congruence.
           ++ destruct x; simpl in *; congruence.
           ++ apply wf_promote; auto.
        -- destruct x; simpl in *; auto.
        -- intros Hu Hal. rewrite put_sock. rewrite pf_unlink_sock. apply S; auto. destruct x; simpl in Al; auto.
    + intros Hu Hal. rewrite put_sock. apply S; auto. destruct x; simpl in *; auto.
  - destruct (negb (m_alive (get s x))) eqn:Al; auto. apply negb_false_iff in Al.
    cbv zeta. remember (if reload_names_dot2 && negb (m_mpid (get s x) =? 0) then PDot2 else PMain) as tgt.
    destruct (pidconf c).
    + destruct (pf_unlink_masters s (get s x)) as [U1 [U2 U3]].
      destruct (pf_create (pf_unlink s (get s x)) (m_pid (get s x)) tgt) as [s2|] eqn:Cr.
      * intros Hu Hal. rewrite put_sock. rewrite (pf_create_sock _ _ _ _ Cr). rewrite pf_unlink_sock. apply S; auto.
        destruct x; simpl in Al; auto.
      * unfold crash. apply do_exit_sock.
        -- apply (wf_ext (put s x (set_m_pf (set_m_workers (get s x) (cworkers c)) tgt false))).
           ++ destruct x; simpl in *; congruence.
           ++ destruct x; simpl in *; congruence.
           ++ destruct x; simpl in *; congruence.
           ++ apply wf_put_same; auto. unfold same_links. simpl. auto.
        -- destruct x; simpl in *; auto.
        -- intros Hu Hal. rewrite put_sock. rewrite pf_unlink_sock. apply S; auto. destruct x; simpl in Al; auto.
    + intros Hu Hal. rewrite put_sock. apply S; auto. destruct x; simpl in *; auto.
  - destruct (m_alive (get s x) && daemon c) eqn:Cd; auto.
    intros Hu Hal. rewrite put_sock. apply S; auto. destruct x; simpl in *; auto.
  - (* Halt *)
    destruct (m_alive (get s x)) eqn:Al; auto. apply do_exit_sock; auto.
Qed.
