(* C01 (a) at the level of a whole connection: the sequence of messages the parser hands over - each with the
   body the application can read and the place where the next one starts - is a chain of strict readings of the
   stream: every head is a strict RFC 9112 head of what follows the previous message, every body is what the strict
   framing rules assign, and nothing is parsed behind a message that must end the connection.  For every
   segmentation of the stream, any number of pipelined messages. *)
From Coq Require Import List NArith ZArith Bool Lia Arith.
From GV Require Import Base.Bytes Base.Scan Base.PyStr Gen.GenParser Model.Parser Spec.IdealBody Spec.Rfc9112
     Proof.TakeDrop Proof.BodyIdeal Proof.BodySim Proof.LengthReader Proof.ParserHead Proof.ChunkedSteps
     Proof.ChunkedDecode Proof.ChunkedGrammar Proof.ParserRun Proof.ChunkedReader Proof.BodyFileThm
     Proof.HeadGrammar Proof.HeadSound Proof.EndToEnd Proof.RunFuel.
Import ListNotations.
Local Open Scope N_scope.

(* ---- the messages a connection yields when every body is read to its end (model side) ------------------------- *)
Fixpoint accepted (c : cfg) (x : ext) (fuel : nat) (n : N) (p : unreader) : list (request * bytes * bytes) :=
  match fuel with
  | O => []
  | S fuel' =>
      match parse_request c x n p with
      | inr _ => []
      | inl (r, p1) =>
          match do_call (reader_read c) remaining_upper (Read None) (init_conn r p1) with
          | (RBytes D, b) =>
              match drain (reader_read c) remaining_upper (S (length (fst b) + remaining_upper (snd b))) b with
              | (b', None) =>
                  let q := c_unreader (snd b') in
                  (r, D, u_abs q) :: (if should_close r then [] else accepted c x fuel' (n + 1) q)
              | (_, Some _) => []
              end
          | _ => []                 (* the body ends in an exception: not a complete message *)
          end
      end
  end.

(* ---- the strict reading (declarative side) ------------------------------------------------------------------------ *)
Definition body_of (c : cfg) (r : request) (sh : bytes) (D after : bytes) : Prop :=
  match r_framing r with
  | FLength len => D = takeN len sh /\ after = dropN len sh
  | FChunked => exists tr, decodes c (AStart sh) D (DStop after tr)
  end.

Inductive chain (c : cfg) : bytes -> list (request * bytes * bytes) -> Prop :=
| ch_nil s : chain c s []
| ch_cons s r sh D after rest :
    strict_head c s r sh ->                      (* the head is a strict head of s; sh is what follows it *)
    body_of c r sh D after ->                    (* D is the body the framing rules assign, after is what follows the message *)
    (should_close r = true -> rest = []) ->      (* nothing is read behind a message that ends the connection *)
    chain c after rest ->
    chain c s ((r, D, after) :: rest).

(* chunked bodies: the body is never longer than the stream it is decoded from *)
Definition abytes (a : astate) : bytes := match a with AStart s | AData _ s | ATerm s | ADead s => s end.
Lemma first_line_len s line rest : first_line s line rest -> (length rest <= length s)%nat.
Proof. intros [_ ->]. rewrite !app_length. lia. Qed.
Lemma decodes_len c : forall a D T, decodes c a D T -> (length D <= length (abytes a))%nat.
Proof.
  induction 1; cbn [abytes length] in *; try lia.
  - destruct (zsize_chunk_shape _ _ _ _ H) as (line & Hfl & _). apply first_line_len in Hfl. lia.
  - rewrite app_length. pose proof (takeN_dropN l s) as Hs. apply (f_equal (@length N)) in Hs. rewrite app_length in Hs. lia.
  - destruct (zsize_chunk_shape _ _ _ _ H0) as (line & Hfl & _). apply first_line_len in Hfl.
    rewrite skipn_length in Hfl. lia.
Qed.

(* reading everything from a stream that ends in an error raises that error (never a clean, shorter body) *)
Lemma i_fill_terr : forall fuel blk size buf rem e,
    0 < blk -> (length rem < fuel)%nat -> blen (buf ++ rem) < size ->
    exists bb ss, body_fill i_rd blk fuel size buf (rem, TErr e) = ((bb, ss), Some e).
Proof.
  induction fuel as [|fuel IH]; intros blk size buf rem e Hb Hf Hs; [lia|]. cbn [body_fill].
  rewrite blen_app in Hs.
  replace (size <=? blen buf) with false by (symmetry; apply N.leb_gt; lia).
  unfold i_rd. cbn [fst snd]. destruct (blk <=? blen rem) eqn:El; [|eauto].
  apply N.leb_le in El.
  destruct (takeN blk rem) as [|y d] eqn:Et.
  - exfalso. apply (f_equal blen) in Et. rewrite blen_takeN in Et. change (blen []) with 0 in Et. lia.
  - rewrite <- Et. apply IH; [exact Hb| |].
    + assert (rem <> []) by (intros ->; rewrite takeN_nil in Et; discriminate).
      pose proof (length_dropN_lt blk rem Hb H). lia.
    + rewrite <- app_assoc, takeN_dropN, blen_app. lia.
Qed.
Lemma i_read_all_terr rem e : blen rem < maxsize ->
    exists x, body_read i_rd i_fuel None ([], (rem, TErr e)) = (inr e, x).
Proof.
  intros Hs. unfold body_read, body_read_blk. cbn [fst snd getsize].
  replace (maxsize =? 0) with false by reflexivity.
  replace (maxsize <? blen []) with false by reflexivity.
  destruct (i_fill_terr (i_fuel (rem, TErr e)) 1024 maxsize [] rem e ltac:(lia) ltac:(unfold i_fuel; cbn; lia) ltac:(cbn [app]; exact Hs))
    as (bb & ss & ->). eauto.
Qed.

(* ---- one message ------------------------------------------------------------------------------------------------------ *)
Lemma one_message c x n p r p1 D b : NE p -> safe_cfg c -> blen (u_abs p) < maxsize ->
    parse_request c x n p = inl (r, p1) ->
    do_call (reader_read c) remaining_upper (Read None) (init_conn r p1) = (RBytes D, b) ->
    exists after, strict_head c (u_abs p) r (u_abs p1) /\ body_of c r (u_abs p1) D after /\
                  (length after <= length (u_abs p1))%nat /\
                  exists k', drain (reader_read c) remaining_upper (S (length (fst b) + remaining_upper (snd b))) b = (([], k'), None)
                             /\ u_abs (c_unreader k') = after /\ NE (c_unreader k').
Proof.
  intros Hne Hsafe Hsz Hp Hcall.
  pose proof (parse_request_NE _ _ _ _ _ _ Hne Hp) as N1.
  destruct (accepted_request_end_to_end c x n p r p1 Hne Hsafe Hp) as (Hhead & Hinv & Hden).
  pose proof (strict_head_consumes _ _ _ _ Hhead) as Hcons.
  assert (Hsz1 : blen (u_abs p1) < maxsize) by (unfold blen in *; lia).
  set (k := snd (init_conn r p1)) in *.
  assert (Hb0 : init_conn r p1 = ([], k)) by reflexivity. rewrite Hb0 in Hcall.
  pose proof (do_call_sim conn (reader_read c) remaining_upper (alpha_c c) (inv_c c) (sim_c c) (fuel_ok_c c) (Read None) [] k Hinv) as Hs.
  rewrite Hcall in Hs. destruct b as [b1 s1]. cbn [call_rel] in Hs. destruct Hs as [J1 Hs].
  (* what the stream behind the head denotes *)
  assert (Hcase : exists rem after tr, alpha_c c k = (rem, TEof after tr) /\ body_of c r (u_abs p1) rem after
                                     /\ (length after <= length (u_abs p1))%nat /\ blen rem < maxsize).
  { unfold body_denotes in Hden. unfold body_of. destruct (r_framing r) as [|len] eqn:Ef.
    - unfold k in *. rewrite (init_conn_chunked _ _ Ef) in *.
      destruct (gen_run_total c GStart p1 N1 I) as (D0 & T & HF).
      destruct (gen_run_sound c _ GStart p1 D0 T N1 I HF) as [Hd _]. cbn [abs_g] in Hd.
      pose proof (decodes_len c _ _ _ Hd) as Hlen. cbn [abytes] in Hlen.
      specialize (Hden D0 (dconv T) Hd). destruct T as [q tr'|e]; cbn [dconv] in *.
      + destruct Hden as [Ha Hr]. exists D0, (u_abs q), (match tr' with Some t => t | None => [] end).
        split; [exact Ha|]. split; [eauto|]. split.
        * destruct Hr as [Hr|Hr]; [exact (rfc_chunked_length _ _ _ Hr)|rewrite Hr; cbn; lia].
        * unfold blen in *. lia.
      + (* the body ends in an error: reading it all raises - contradiction with RBytes *)
        exfalso. rewrite Hden in Hs.
        assert (Hlt : blen D0 < maxsize) by (unfold blen in *; lia).
        destruct (i_read_all_terr D0 e Hlt) as [xx Hx]. cbn [do_call] in Hs. rewrite Hx in Hs. discriminate.
    - unfold k in *. rewrite (init_conn_length _ _ _ Ef) in *.
      exists (takeN len (u_abs p1)), (dropN len (u_abs p1)), []. split; [exact Hden|]. split; [auto|]. split.
      + pose proof (blen_dropN len (u_abs p1)) as H. unfold blen in H. lia.
      + pose proof (blen_takeN len (u_abs p1)) as H. lia. }
  destruct Hcase as (rem & after & tr & Ha & Hbody & Hlen & Hrem).
  rewrite Ha in Hs.
  destruct (i_do_call_is_file (Read None) [] rem after tr ltac:(cbn [app]; lia)) as (b2 & r2 & H1 & H2). cbn [app] in *.
  rewrite H1 in Hs. cbn [file_call fst snd] in Hs, H2. unfold file_read in Hs, H2. cbn [fst snd getsize] in Hs, H2.
  rewrite (takeN_all maxsize rem) in Hs by lia. rewrite (dropN_all maxsize rem) in H2 by lia.
  injection Hs as -> -> Hal.
  exists after. split; [exact Hhead|]. split; [exact Hbody|]. split; [exact Hlen|].
  cbn [fst snd].
  destruct (drain_completes c s1 r2 after tr b1 J1 (eq_sym Hal)) as (k' & Hd & Hu & _ & Hn). eauto.
Qed.

(* ---- the whole connection --------------------------------------------------------------------------------------------- *)
Theorem accepted_is_a_strict_chain : forall c x, safe_cfg c -> forall fuel n p,
    NE p -> blen (u_abs p) < maxsize -> chain c (u_abs p) (accepted c x fuel n p).
Proof.
  intros c x Hsafe. induction fuel as [|fuel IH]; intros n p Hne Hsz; cbn [accepted]; [constructor|].
  destruct (parse_request c x n p) as [[r p1]|e] eqn:Hp; [|constructor].
  destruct (do_call (reader_read c) remaining_upper (Read None) (init_conn r p1)) as [[D|l| |e] b] eqn:Hcall; try constructor.
  destruct (one_message c x n p r p1 D b Hne Hsafe Hsz Hp Hcall) as (after & Hhead & Hbody & Hlen & k' & Hd & Hu & Hn).
  rewrite Hd. cbn [snd]. rewrite Hu.
  eapply ch_cons; [exact Hhead|exact Hbody| |].
  - intros Hc. rewrite Hc. reflexivity.
  - destruct (should_close r); [constructor|]. rewrite <- Hu. apply IH; [exact Hn|].
    pose proof (strict_head_consumes _ _ _ _ Hhead) as Hcons. rewrite Hu. unfold blen in *. lia.
Qed.

(* the chunked bodies of a chain are RFC 9112 7.1 decodings (or the stream ended inside the trailer section) *)
Corollary chain_chunked_bodies_are_rfc c r sh D after : r_framing r = FChunked ->
    body_of c r sh D after -> rfc_chunked sh D after \/ after = [].
Proof. unfold body_of. intros -> [tr H]. eapply chunked_body_is_rfc. exact H. Qed.

(* [accepted] is the connection the parser really runs: the same requests, in the same order, as [run] emits when the
   application reads every body to its end (the observation of run is the encoding of exactly these triples) *)
Lemma accepted_fuel_irrelevant : forall c x, safe_cfg c -> forall f1 f2 n p,
    NE p -> blen (u_abs p) < maxsize -> (length (u_abs p) < f1)%nat -> (length (u_abs p) < f2)%nat ->
    accepted c x f1 n p = accepted c x f2 n p.
Proof.
  intros c x Hsafe. induction f1 as [|f1 IH]; intros f2 n p Hne Hsz H1 H2; [lia|]. destruct f2 as [|f2]; [lia|].
  cbn [accepted]. destruct (parse_request c x n p) as [[r p1]|e] eqn:Hp; [|reflexivity].
  destruct (do_call (reader_read c) remaining_upper (Read None) (init_conn r p1)) as [[D|l| |e] b] eqn:Hcall; try reflexivity.
  destruct (one_message c x n p r p1 D b Hne Hsafe Hsz Hp Hcall) as (after & Hhead & _ & Hlen & k' & Hd & Hu & Hn).
  rewrite Hd. cbn [snd]. f_equal. destruct (should_close r); [reflexivity|].
  pose proof (strict_head_consumes _ _ _ _ Hhead) as Hcons.
  apply IH; [exact Hn|rewrite Hu; unfold blen in *; lia|rewrite Hu; lia|rewrite Hu; lia].
Qed.

(* ---- [accepted] and [run]: the same connection -------------------------------------------------------------------------
   [trace_all] is run_conn with the read-everything program for each request, kept structured: the messages (with their
   trailers) and the terminal event.  Its rendering IS run's observation, and its messages ARE [accepted]: so the chain
   theorem speaks about exactly what the correspondence check compares with the real parser. *)
Fixpoint trace_all (c : cfg) (x : ext) (fuel : nat) (n : N) (p : unreader)
  : list (request * bytes * list header * bytes) * list Z :=
  match fuel with
  | O => ([], [(-99)%Z])
  | S fuel' =>
      match parse_request c x n p with
      | inr e => ([], [200%Z; perr_code e])
      | inl (r, p1) =>
          match do_call (reader_read c) remaining_upper (Read None) (init_conn r p1) with
          | (RBytes D, b) =>
              match drain (reader_read c) remaining_upper (S (length (fst b) + remaining_upper (snd b))) b with
              | (b', None) =>
                  let q := c_unreader (snd b') in
                  let m := (r, D, c_trailers (snd b'), u_abs q) in
                  if should_close r then ([m], [201%Z])
                  else let '(ms, t) := trace_all c x fuel' (n + 1) q in (m :: ms, t)
              | (_, Some e) => ([], enc_request r ++ enc_callres (RBytes D) ++ [200%Z; perr_code e])
              end
          | (res, _) => ([], enc_request r ++ enc_callres res ++
                              match res with RExc e => [200%Z; perr_code e] | _ => [] end)
          end
      end
  end.

Fixpoint render (ms : list (request * bytes * list header * bytes)) (t : list Z) : list Z :=
  match ms with
  | [] => t
  | (r, D, tr, after) :: rest =>
      enc_request r ++ enc_callres (RBytes D) ++ enc_list enc_header tr ++
      (if should_close r then [] else [Z.of_nat (length after)]) ++ render rest t
  end.

Lemma accepted_of_trace c x : forall fuel n p,
    accepted c x fuel n p = map (fun m => match m with (r, D, _, after) => (r, D, after) end) (fst (trace_all c x fuel n p)).
Proof.
  induction fuel as [|fuel IH]; intros n p; cbn [accepted trace_all]; [reflexivity|].
  destruct (parse_request c x n p) as [[r p1]|e]; [|reflexivity].
  destruct (do_call (reader_read c) remaining_upper (Read None) (init_conn r p1)) as [[D|l| |e] b]; try reflexivity.
  destruct (drain _ _ _ b) as [b' [e|]]; [reflexivity|].
  destruct (should_close r); [reflexivity|].
  rewrite IH. destruct (trace_all c x fuel (n + 1) (c_unreader (snd b'))) as [ms t]. reflexivity.
Qed.

Theorem run_is_the_rendered_trace c x : forall fuel n p,
    run_conn c x fuel n (repeat [Read None] fuel) p = let '(ms, t) := trace_all c x fuel n p in render ms t.
Proof.
  induction fuel as [|fuel IH]; intros n p; cbn [run_conn trace_all repeat]; [reflexivity|].
  destruct (parse_request c x n p) as [[r p1]|e]; [|reflexivity].
  cbn [hd tl run_calls].
  destruct (do_call (reader_read c) remaining_upper (Read None) (init_conn r p1)) as [res b] eqn:Hc.
  assert (Hres : (exists D, res = RBytes D) \/ (exists e0, res = RExc e0)).
  { cbn [do_call] in Hc. destruct (body_read _ _ None (init_conn r p1)) as [[d|e0] bb]; injection Hc as <- _; eauto. }
  destruct Hres as [[D ->]|[e0 ->]].
  - cbn [enc_callres]. destruct (drain _ _ _ b) as [b' [e1|]] eqn:Hd.
    + cbn [render]. rewrite <- !app_assoc. reflexivity.
    + destruct (should_close r) eqn:Esc.
      * cbn [render]. rewrite Esc. cbn [app]. rewrite <- !app_assoc. reflexivity.
      * specialize (IH (n + 1) (c_unreader (snd b'))).
        destruct (trace_all c x fuel (n + 1) (c_unreader (snd b'))) as [ms t]. cbn [render]. rewrite Esc.
        rewrite IH. rewrite <- !app_assoc. reflexivity.
  - cbn [render app]. rewrite <- ?app_assoc. reflexivity.
Qed.
