(* C11 proofs: no false kill (scan level and for every schedule of Model/Arbiter.v), escalation ABRT -> KILL,
   the deadline for a hung worker, the heartbeat gaps of the worker classes. *)
From Coq Require Import List ZArith Bool Lia.
From GV Require Import Gen.GenArbiter Model.Arbiter Model.Heartbeat Proof.ArbiterBase Proof.ArbiterInv Proof.ArbiterC03.
Import ListNotations.
Local Open Scope Z_scope.

(* ---- the master's timeout scan takes exactly murder_decision ----------------------------------------- *)
Lemma murder_check_is_decision : forall s p todo w,
  cur s = PMurderCheck (p :: todo) -> find_wk p (workers s) = Some w ->
  master s =
  match murder_decision (mono s) (w_hb w) (timeout s * tps) (w_aborted w) with
  | Nothing => murder_next s todo
  | SigKill => set_pc s (PMurderKill p SIGKILL todo)
  | SigAbrt => set_pc (set_workers s (set_aborted p (workers s))) (PMurderKill p SIGABRT todo)
  end.
Proof.
  intros s p todo w PC F. unfold master. rewrite PC, F. unfold murder_decision.
  destruct (mono s - w_hb w <=? timeout s * tps); auto. destruct (w_aborted w); auto.
Qed.

Lemma murder_check_closed_file : forall s p todo,
  cur s = PMurderCheck (p :: todo) -> find_wk p (workers s) = None -> master s = murder_next s todo.
Proof. intros s p todo PC F. unfold master. rewrite PC, F. reflexivity. Qed.

(* ---- no false kill, for every schedule ------------------------------------------------------------------ *)
(* [fresh_at p s]: the heartbeat of worker p (if it is in WORKERS) is not older than the timeout *)
Definition fresh_at (p : Z) (s : st) : Prop :=
  forall w, find_wk p (workers s) = Some w -> mono s - w_hb w <= timeout s * tps.
Definition murdering (p : Z) (c : pc) : Prop := match c with PMurderKill q _ _ => q = p | _ => False end.
Definition not_aborted (p : Z) (s : st) : Prop := forall w, find_wk p (workers s) = Some w -> w_aborted w = false.

Lemma find_wk_remove : forall p q l w, find_wk p (remove_wk q l) = Some w -> find_wk p l = Some w.
Proof.
  unfold find_wk, remove_wk. induction l; simpl; intros; try discriminate.
  destruct (w_pid a =? q) eqn:E; simpl in H.
  - destruct (w_pid a =? p) eqn:E2; auto.
    (* a is dropped and p = q: then p is not in the result at all *)
    exfalso. apply Z.eqb_eq in E. apply Z.eqb_eq in E2. apply find_some in H. destruct H as [H1 H2].
    apply filter_In in H1. destruct H1 as [_ H1]. apply Z.eqb_eq in H2. rewrite H2, <- E2, E, Z.eqb_refl in H1. discriminate.
  - destruct (w_pid a =? p); auto.
Qed.

Lemma find_wk_app : forall p l x w, find_wk p (l ++ [x]) = Some w -> find_wk p l = Some w \/ (find_wk p l = None /\ w = x).
Proof.
  unfold find_wk. induction l; simpl; intros.
  - destruct (w_pid x =? p); inversion H; auto.
  - destruct (w_pid a =? p); auto.
Qed.

Lemma find_wk_map : forall p (f : wk -> wk) l w, (forall x, w_pid (f x) = w_pid x) ->
  find_wk p (map f l) = Some w -> exists w0, find_wk p l = Some w0 /\ w = f w0.
Proof.
  unfold find_wk. induction l; simpl; intros; try discriminate.
  rewrite H in H0. destruct (w_pid a =? p). inversion H0. eauto. auto.
Qed.

(* the aborted flag of p changes only in a timeout scan that found p stale *)
Lemma not_aborted_kill_worker : forall p s q sg, not_aborted p s -> not_aborted p (kill_worker s q sg).
Proof.
  intros p s q sg H. unfold kill_worker. destruct (kill_in (kids s) q sg) as [[k d]|].
  - destruct d; simpl; auto.
  - intros w Hw. simpl in Hw. apply find_wk_remove in Hw. auto.
Qed.

Lemma reap_workers_sub : forall f s s' r p w, reap f s = (s', r) -> find_wk p (workers s') = Some w -> find_wk p (workers s) = Some w.
Proof.
  induction f; simpl; intros. inversion H; subst; auto.
  destruct (first_zombie (kids s)) as [[z rest]|]. 2: (inversion H; subst; auto).
  destruct (reexec s =? c_pid z). eapply IHf in H; eauto.
  destruct ((Z.shiftr (status_of z) 8 =? worker_boot_error) && raises _). inversion H; subst; auto.
  destruct ((Z.shiftr (status_of z) 8 =? app_load_error) && raises _). inversion H; subst; auto.
  eapply IHf in H; eauto. simpl in H. eapply find_wk_remove; eauto.
Qed.

(* one step: if p is fresh before the step, the master does not start to signal p for inactivity, and p's
   aborted flag stays clear *)
Definition quietp (p : Z) (s : st) : Prop := ~ murdering p (cur s) /\ not_aborted p s.

Lemma quietp_set_pc : forall p s c, not_aborted p s -> ~ murdering p c -> quietp p (set_pc s c).
Proof. intros. split; auto. Qed.

Lemma na_to_loop : forall p s, not_aborted p s -> quietp p (to_loop s).
Proof.
  intros. unfold to_loop. split.
  - destruct (hctx s); simpl; destruct (_ =? 0); simpl; auto.
  - destruct (hctx s); simpl; auto.
Qed.
Lemma na_begin_spawn : forall p s k, not_aborted p s -> quietp p (begin_spawn s k).
Proof. intros. unfold begin_spawn. split; simpl; auto. Qed.
Lemma na_enter_stop : forall p s g a, not_aborted p s -> quietp p (enter_stop s g a).
Proof. intros. unfold enter_stop. split; simpl; auto. destruct (lopen s); simpl; auto. Qed.
Lemma na_finish_stop : forall p s a, not_aborted p s -> quietp p (finish_stop s a).
Proof. intros. destruct a. split; simpl; auto. unfold finish_stop. apply na_enter_stop; auto. Qed.
Lemma na_murder_next : forall p s t, not_aborted p s -> quietp p (murder_next s t).
Proof. intros. unfold murder_next. destruct t; split; simpl; auto. Qed.
Lemma na_manage_kill_next : forall p s v, not_aborted p s -> quietp p (manage_kill_next s v).
Proof. intros. unfold manage_kill_next. destruct v. apply na_to_loop; auto. split; simpl; auto. Qed.
Lemma na_killall_next : forall p s l sg k, not_aborted p s -> quietp p (killall_next s l sg k).
Proof.
  intros. unfold killall_next. destruct l. 2: (split; simpl; auto).
  destruct k. apply na_to_loop; auto. split; simpl; auto. apply na_finish_stop; auto.
Qed.
Lemma na_after_register : forall p s k, not_aborted p s -> quietp p (after_register s k).
Proof. intros. destruct k as [n|[|n]]; simpl; try (split; simpl; auto; fail); try (apply na_begin_spawn; auto). Qed.
Lemma na_dispatch : forall p s sg, not_aborted p s -> quietp p (dispatch s sg).
Proof.
  intros p s sg H. unfold dispatch.
  assert (H0 : not_aborted p (set_hctx s true)) by auto.
  destruct (sg =? SIGHUP). { destruct (Z.to_nat _). split; simpl; auto. apply na_begin_spawn. auto. }
  destruct (sg =? SIGTERM). apply na_enter_stop; auto.
  destruct ((sg =? SIGINT) || (sg =? SIGQUIT)). apply na_enter_stop; auto.
  destruct (sg =? SIGTTIN). split; simpl; auto.
  destruct (sg =? SIGTTOU). { destruct (_ <=? 1). apply na_to_loop; auto. split; simpl; auto. }
  destruct (sg =? SIGUSR1). split; simpl; auto.
  destruct (sg =? SIGUSR2). { destruct (_ || _). apply na_to_loop; auto. split; simpl; auto. }
  apply na_to_loop; auto.
Qed.

Lemma quietp_master : forall p s, quietp p s -> fresh_at p s -> quietp p (master s).
Proof.
  intros p s [NM NA] FR. unfold master. destruct (cur s) eqn:PC.
  - destruct (sigq s). split; simpl; auto. apply na_dispatch. auto.
  - cbv zeta. destruct (woken s); simpl; destruct (_ =? 0); split; simpl; auto.
  - apply na_murder_next; auto.
  - destruct todo as [|q todo]. split; simpl; auto.
    destruct (find_wk q (workers s)) eqn:F. 2: (apply na_murder_next; auto).
    destruct (mono s - w_hb w <=? timeout s * tps) eqn:L. apply na_murder_next; auto.
    (* q is stale: then q is not p *)
    assert (q <> p).
    { intro E. subst q. apply FR in F. apply Z.leb_gt in L. lia. }
    destruct (w_aborted w).
    + split; simpl; auto.
    + split; simpl; auto. intros w' Hw'. apply find_wk_map in Hw'.
      * destruct Hw' as [w0 [F0 ->]]. destruct (w_pid w0 =? q) eqn:E; auto.
        apply find_wk_in in F0. destruct F0 as [_ F0]. apply Z.eqb_eq in E. congruence.
      * intros x. destruct (w_pid x =? q); auto.
  - simpl in NM. apply na_murder_next. apply not_aborted_kill_worker. auto.
  - destruct (_ <? _); split; simpl; auto.
  - destruct (_ <=? 0). split; simpl; auto. apply na_begin_spawn; auto.
  - unfold do_fork. split; simpl; auto.
  - apply na_after_register. intros w Hw. simpl in Hw. apply find_wk_app in Hw. destruct Hw as [Hw|[_ ->]]; auto.
  - destruct n. split; simpl; auto. apply na_begin_spawn. auto.
  - apply na_manage_kill_next; auto.
  - destruct victims. apply na_to_loop; auto. apply na_manage_kill_next. apply not_aborted_kill_worker; auto.
  - apply na_killall_next; auto.
  - destruct pids. apply na_killall_next; auto. apply na_killall_next. apply not_aborted_kill_worker; auto.
  - destruct (_ && _); split; simpl; auto.
  - split; simpl; auto.
  - unfold do_fork. split; simpl; auto.
  - apply na_to_loop. auto.
  - split; simpl; auto. destruct (_ && _); simpl; auto.
  - split; auto. rewrite PC. auto.
  - split; auto. rewrite PC. auto.
Qed.

Lemma quietp_step : forall p s l, quietp p s -> fresh_at p s -> quietp p (step s l).
Proof.
  intros p s l Q FR. destruct l; unfold step.
  - apply quietp_master; auto.
  - destruct Q as [NM NA]. unfold chld. destruct (master_gone (cur s)). split; auto.
    destruct (reap (S (length (kids s))) s) as [s1 r] eqn:R.
    assert (NA1 : not_aborted p s1). { intros w Hw. eapply NA. eapply reap_workers_sub; eauto. }
    destruct (reap_forks_cur _ _ _ _ R) as [_ C1].
    destruct r.
    + destruct (in_final_stop (cur s1)). split; simpl; auto. apply na_enter_stop; auto.
    + split; simpl; auto. rewrite C1. auto.
  - destruct Q. split; auto.
  - destruct Q. destruct (master_gone (cur s)). split; auto. destruct (_ && _); split; simpl; auto.
  - destruct Q. destruct (0 <=? dt); split; simpl; auto.
  - destruct Q as [NM NA]. unfold notify. destruct (find_kid p0 (kids s)). 2: (split; auto).
    destruct (is_running c && negb (c_master c)). 2: (split; auto).
    assert (NA1 : not_aborted p (set_workers s (set_hb p0 (mono s) (workers s)))).
    { intros w Hw. simpl in Hw. apply find_wk_map in Hw. destruct Hw as [w0 [F0 ->]]. destruct (w_pid w0 =? p0); simpl; auto.
      intros x. destruct (w_pid x =? p0); auto. }
    cbn [cur set_workers]. destruct (cur s) eqn:PC; try (split; [simpl; rewrite PC; auto | auto]).
    destruct (p1 =? p0); split; simpl; auto; rewrite PC; auto.
  - destruct Q. destruct (_ && _); split; simpl; auto.
  - destruct Q. split; simpl; auto.
  - destruct Q. split; simpl; auto.
  - destruct Q as [NM NA].
    pose (f := fun w : wk => if live_pid (kids s) (w_pid w) then mkWk (w_pid w) (w_age w) (w_aborted w) (mono s) else w).
    assert (NA1 : not_aborted p (set_workers s (map f (workers s)))).
    { intros w Hw. simpl in Hw. apply find_wk_map in Hw. destruct Hw as [w0 [F0 ->]]. unfold f. destruct (live_pid _ _); simpl; auto.
      intros x. unfold f. destruct (live_pid _ _); auto. }
    unfold notify_all. fold f. cbn [cur set_workers kids mono].
    destruct (cur s) eqn:PC; try (split; [simpl; rewrite PC; auto | auto]).
    destruct (live_pid _ p0); split; simpl; auto; rewrite PC; auto.
  - destruct Q as [NM NA]. unfold notify_at. destruct (find_kid p0 (kids s)). 2: (split; auto).
    destruct (_ && _). 2: (split; auto).
    assert (NA1 : not_aborted p (set_workers s (set_hb p0 t (workers s)))).
    { intros w Hw. simpl in Hw. apply find_wk_map in Hw. destruct Hw as [w0 [F0 ->]]. destruct (w_pid w0 =? p0); simpl; auto.
      intros x. destruct (w_pid x =? p0); auto. }
    cbn [cur set_workers]. destruct (cur s) eqn:PC; try (split; [simpl; rewrite PC; auto | auto]).
    destruct (p1 =? p0); split; simpl; auto; rewrite PC; auto.
Qed.

(* A worker whose heartbeat is never older than the timeout - at any instant of any schedule - is never
   signalled for inactivity: the master never reaches "kill p" inside murder_workers, and p is never marked
   aborted. *)
Theorem no_false_kill : forall ls s p,
  quietp p s ->
  (forall k, fresh_at p (run s (firstn k ls))) ->
  forall k, quietp p (run s (firstn k ls)).
Proof.
  intros ls s p Q FR k. revert ls s Q FR. induction k; intros ls s Q FR.
  - simpl. auto.
  - destruct ls as [|l ls]. simpl; auto.
    simpl. apply IHk.
    + apply quietp_step; auto. apply (FR O).
    + intros j. apply (FR (S j)).
Qed.

(* ---- escalation: SIGABRT first, SIGKILL the next time ------------------------------------------------- *)
Lemma kill_in_running : forall l p sg c, find_kid p l = Some c -> is_running c = true ->
  exists l', kill_in l p sg = Some (l', true) /\
    (sg = SIGKILL -> exists c', find_kid p l' = Some c' /\ c_st c' = Zombie SIGKILL).
Proof.
  unfold find_kid. induction l; simpl; intros; try discriminate.
  destruct (c_pid a =? p) eqn:E.
  - inversion H; subst. unfold is_running, is_zombie in H0. destruct (c_st c) eqn:S; try discriminate.
    eexists. split. reflexivity. intros ->. rewrite Z.eqb_refl. simpl. rewrite E. eexists. split; reflexivity.
  - destruct (IHl _ sg _ H H0) as [l' [K1 K2]]. rewrite K1. eexists. split. reflexivity.
    intros Hs. destruct (K2 Hs) as [c' [F1 F2]]. simpl. rewrite E. eauto.
Qed.

Theorem hang_escalates : forall s p todo w c,
  cur s = PMurderCheck (p :: todo) -> find_wk p (workers s) = Some w ->
  timeout s * tps < mono s - w_hb w ->
  find_kid p (kids s) = Some c -> is_running c = true ->
  let s2 := master (master s) in
  if w_aborted w
  then (* second time: SIGKILL, the process is gone at once *)
       sent s2 = (p, SIGKILL) :: sent s /\
       exists c', find_kid p (kids s2) = Some c' /\ c_st c' = Zombie SIGKILL
  else (* first time: SIGABRT, and the worker is marked *)
       sent s2 = (p, SIGABRT) :: sent s /\
       exists w', find_wk p (workers s2) = Some w' /\ w_aborted w' = true.
Proof.
  intros s p todo w c PC F ST FK RU. cbv zeta.
  rewrite (murder_check_is_decision s p todo w PC F). unfold murder_decision.
  apply Z.leb_gt in ST. rewrite ST. destruct (w_aborted w).
  - unfold master. cbn [cur set_pc]. unfold kill_worker. cbn [kids set_pc].
    destruct (kill_in_running _ _ SIGKILL _ FK RU) as [l' [K1 K2]]. rewrite K1.
    destruct (K2 eq_refl) as [c' [F1 F2]].
    unfold murder_next. destruct todo; simpl; split; eauto.
  - unfold master. cbn [cur set_pc]. unfold kill_worker. cbn [kids set_pc set_workers].
    destruct (kill_in_running _ _ SIGABRT _ FK RU) as [l' [K1 _]]. rewrite K1.
    assert (exists w', find_wk p (set_aborted p (workers s)) = Some w' /\ w_aborted w' = true).
    { clear - F. unfold find_wk, set_aborted in *. induction (workers s); simpl in *; try discriminate.
      destruct (w_pid a =? p) eqn:E; simpl; rewrite E; eauto. }
    unfold murder_next. destruct todo; simpl; split; auto.
Qed.

(* ---- the deadline for a hung worker, at the level of scans ---------------------------------------------- *)
(* scans happen at instants c 0 < c 1 < ... at most P apart (the master's loop period); the worker's last
   notify() was at h; it ignores SIGABRT.  Then one scan sends SIGABRT, the next one SIGKILL, and that happens
   no later than h + tmo + 2 P. *)
Theorem hang_is_killed_scan : forall (c : nat -> Z) h tmo P,
  (forall i, c i < c (S i) <= c i + P) -> c O <= h + tmo ->
  exists i,
    (forall j, (j < i)%nat -> murder_decision (c j) h tmo false = Nothing) /\
    murder_decision (c i) h tmo false = SigAbrt /\
    murder_decision (c (S i)) h tmo true = SigKill /\
    c (S i) <= h + tmo + 2 * P.
Proof.
  intros c h tmo P Hc H0.
  (* the first scan after h + tmo *)
  assert (Hgrow : forall i, c O + Z.of_nat i <= c i).
  { induction i. simpl. lia. specialize (Hc i). lia. }
  assert (Hex : exists n, h + tmo < c n).
  { exists (Z.to_nat (h + tmo - c O + 1)). specialize (Hgrow (Z.to_nat (h + tmo - c O + 1))). lia. }
  destruct Hex as [n Hn].
  assert (Hfirst : exists i, h + tmo < c i /\ forall j, (j < i)%nat -> c j <= h + tmo).
  { clear Hgrow. induction n.
    - lia.
    - destruct (Z_lt_le_dec (h + tmo) (c n)) as [L|L].
      + apply IHn. auto.
      + exists (S n). split; auto. intros j Hj.
        assert (Hmono : forall a b, (a <= b)%nat -> c a <= c b).
        { intros a b Hab. induction Hab. lia. specialize (Hc m). lia. }
        specialize (Hmono j n ltac:(lia)). lia. }
  destruct Hfirst as [i [Hi Hlt]].
  destruct i as [|i]. lia.
  exists (S i). unfold murder_decision.
  assert (c i <= h + tmo) by (apply Hlt; lia).
  pose proof (Hc i) as C1. pose proof (Hc (S i)) as C2.
  repeat split.
  - intros j Hj. specialize (Hlt j Hj). replace (c j - h <=? tmo) with true by (symmetry; apply Z.leb_le; lia). auto.
  - replace (c (S i) - h <=? tmo) with false by (symmetry; apply Z.leb_gt; lia). auto.
  - replace (c (S (S i)) - h <=? tmo) with false by (symmetry; apply Z.leb_gt; lia). auto.
  - lia.
Qed.

(* ---- the heartbeat gaps of the worker classes --------------------------------------------------------------- *)
Lemma max_gap_cons2 : forall a b r, max_gap (a :: b :: r) = Z.max (b - a) (max_gap (b :: r)).
Proof. reflexivity. Qed.

Lemma notify_times_head : forall c tmo t evs, exists r, notify_times c tmo t evs = t :: r.
Proof. intros. destruct evs as [|e r]; simpl; eauto. destruct c, e; eauto. Qed.

Lemma max_gap_nonneg : forall l, 0 <= max_gap l.
Proof. induction l; simpl; try lia. destruct l; lia. Qed.

(* every gap between two consecutive notify() calls is at most the longest iteration *)
Theorem max_gap_bound : forall c tmo g evs t,
  0 <= g -> (forall e, In e evs -> iter_len c tmo e <= g) ->
  max_gap (notify_times c tmo t evs) <= g.
Proof.
  intros c tmo g evs. induction evs as [|e r IH]; intros t Hg He.
  - simpl. lia.
  - assert (Hr : forall e0, In e0 r -> iter_len c tmo e0 <= g) by (intros; apply He; right; auto).
    assert (Hl : iter_len c tmo e <= g) by (apply He; left; auto).
    assert (G : forall t', t' - t <= g -> max_gap (t :: notify_times c tmo t' r) <= g).
    { intros t' Ht. destruct (notify_times_head c tmo t' r) as [r' E]. rewrite E, max_gap_cons2, <- E.
      specialize (IH t' Hg Hr). lia. }
    assert (G2 : forall t', t' - t <= g -> max_gap (t :: t :: notify_times c tmo t' r) <= g).
    { intros t' Ht. rewrite max_gap_cons2. specialize (G t' Ht). lia. }
    destruct c, e; cbn [notify_times iter_len] in *; try apply G; try apply G2; lia.
Qed.

(* what a scan sees: the last notify() at or before it; with nondecreasing notify times and all gaps <= g, a
   scan between the first notify and g after the last one finds the heartbeat at most g old *)
Fixpoint nondecreasing (l : list Z) : Prop :=
  match l with a :: ((b :: _) as r) => a <= b /\ nondecreasing r | _ => True end.

Lemma last_before_le : forall ns t d, d <= t -> nondecreasing (d :: ns) -> last_before ns t d <= t.
Proof.
  induction ns; simpl; intros; auto. destruct H0 as [H1 H2]. destruct (a <=? t) eqn:E; auto.
  apply IHns; auto. apply Z.leb_le; auto.
Qed.

Lemma last_cons_default : forall (ns : list Z) a d, last (a :: ns) d = last ns a.
Proof. induction ns; intros; auto. change (last (a0 :: a :: ns) d) with (last (a :: ns) d). rewrite !IHns. auto. Qed.

Lemma scan_sees_recent : forall ns g t d,
  0 <= g -> nondecreasing (d :: ns) -> max_gap (d :: ns) <= g -> d <= t -> t <= last ns d + g ->
  t - last_before ns t d <= g.
Proof.
  induction ns as [|a ns IH]; intros g t d Hg Hs Hm Hd Ht.
  - simpl in *. lia.
  - destruct Hs as [H1 H2]. rewrite max_gap_cons2 in Hm. cbn [last_before].
    destruct (a <=? t) eqn:E.
    + apply Z.leb_le in E. rewrite last_cons_default in Ht. apply IH; auto; lia.
    + apply Z.leb_gt in E. lia.
Qed.

Theorem no_false_kill_scan : forall ns g tmo t d aborted,
  0 <= g -> g <= tmo -> nondecreasing (d :: ns) -> max_gap (d :: ns) <= g -> d <= t -> t <= last ns d + g ->
  murder_decision t (last_before ns t d) tmo aborted = Nothing.
Proof.
  intros. unfold murder_decision. pose proof (scan_sees_recent ns g t d H H1 H2 H3 H4).
  replace (t - last_before ns t d <=? tmo) with true. auto. symmetry. apply Z.leb_le. lia.
Qed.

(* ---- the slack each class has (finite facts over the regenerated constants + arithmetic) ------------------ *)
Lemma period_values :
  gthread_period_ticks = ticks_per_second /\ gevent_period_ticks = ticks_per_second /\
  eventlet_period_ticks = ticks_per_second /\ worker_timeout_div = 2 /\ ticks_per_second = 256 /\
  select_ticks = ticks_per_second.
Proof. vm_compute. repeat split; reflexivity. Qed.

Theorem slack_budget_sync : forall tmo, 1 <= tmo -> slack_budget Sync tmo = tmo * (ticks_per_second / 2) /\ ticks_per_second / 2 <= slack_budget Sync tmo.
Proof.
  intros tmo H. destruct period_values as [_ [_ [_ [D [T _]]]]]. unfold slack_budget, period.
  replace (tmo =? 0) with false by (symmetry; apply Z.eqb_neq; lia). rewrite D, T.
  replace (tmo * 256) with (tmo * 128 * 2) by lia. rewrite Z.div_mul by lia. change (256 / 2) with 128. lia.
Qed.

Theorem slack_budget_others : forall c tmo, c <> Sync -> slack_budget c tmo = (tmo - 1) * ticks_per_second.
Proof.
  intros c tmo H. destruct period_values as [A [B [C [_ [T _]]]]]. unfold slack_budget, period.
  destruct c; try contradiction; rewrite ?A, ?B, ?C; lia.
Qed.

(* a worker all of whose iterations stay within the timeout is never signalled, whatever the scan instants:
   idle iterations need latency <= slack_budget, a sync worker's requests need duration + latency <= timeout *)
Theorem healthy_worker_never_killed : forall c tmo evs t0 t aborted,
  0 <= tmo ->
  (forall e, In e evs -> iter_len c tmo e <= tmo * ticks_per_second) ->
  nondecreasing (notify_times c tmo t0 evs) ->
  t0 <= t -> t <= last (notify_times c tmo t0 evs) t0 + tmo * ticks_per_second ->
  murder_decision t (last_before (tl (notify_times c tmo t0 evs)) t t0) (tmo * ticks_per_second) aborted = Nothing.
Proof.
  intros c tmo evs t0 t aborted Ht He Hs H0 H1.
  destruct (notify_times_head c tmo t0 evs) as [r E]. rewrite E in *. simpl tl.
  apply no_false_kill_scan with (g := tmo * ticks_per_second); auto; try lia.
  - pose proof period_values. lia.
  - rewrite <- E. apply max_gap_bound; auto. pose proof period_values. lia.
  - destruct r; simpl in *; auto.
Qed.

(* ---- D19: timeout = 1 with the fixed one-second loops ---------------------------------------------------------- *)
(* a gevent worker whose every iteration is 2 ticks (8 ms) late notifies at 0, 258, 516; a scan at 257 finds the
   heartbeat 257 > 256 ticks old and sends SIGABRT to a perfectly healthy idle worker *)
Theorem no_false_kill_refuted :
  let ns := notify_times Gevent 1 0 [Idle 2; Idle 2] in
  ns = [0; 258; 516] /\ slack_budget Gevent 1 = 0 /\
  murder_decision 257 (last_before (tl ns) 257 0) (1 * ticks_per_second) false = SigAbrt.
Proof. vm_compute. repeat split; reflexivity. Qed.

(* the same in the arbiter model: one gevent-like worker, timeout 1; the master's loop is one tick late *)
Definition d19_schedule : list label :=
  [Master; Master; Master; Master; Master;   (* spawn worker 100 (heartbeat stamped at 0), back to the top *)
   Master;                                    (* queue empty -> select *)
   Tick 1;                                    (* one tick of scheduling latency *)
   Master;                                    (* select(1.0) times out: mono = 257 *)
   Master;                                    (* murder_workers starts *)
   Master;                                    (* snapshot *)
   Master].                                   (* check worker 100: 257 - 0 > 256 -> SIGABRT *)
Theorem no_false_kill_refuted_arbiter :
  let s := run (init 1 1 30 0 0) d19_schedule in
  cur s = PMurderKill 100 SIGABRT [] /\ mono s = 257 /\
  (* the worker was due to notify at 258 (period 256 + 2 ticks of latency): it is not hung *)
  mono s < 0 + period Gevent 1 + 2.
Proof. vm_compute. repeat split; reflexivity. Qed.
