(* C04 - the worker side: a request that was started is not abandoned before the master's limit *)
From Coq Require Import List ZArith Bool Lia.
From GV Require Import Gen.GenArbiter Gen.GenShutdown Model.Shutdown.
Import ListNotations.
Local Open Scope Z_scope.

(* what the tables must say (checked by computation on the regenerated Gen/GenShutdown.v in Props/C04.v) *)
Definition tables_ok : Prop :=
  term_is_graceful = true /\ gthread_drain_graceful = true /\ gevent_drain_graceful = true /\ eventlet_drain_graceful = true.

Definition term_ok (g dl : Z) (ck : Z) (tm : option Z) : Prop :=
  match tm with Some t => t <= ck /\ dl <= t + g | None => False end.

Definition Safe (g dl : Z) (w : wst) : Prop :=
  (match w_conn w with
   | CHead | CApp | CResp | CDone => True
   | CIdle => w_cls w = Sync
   | CKeep => False
   | CLost => dl <= w_clk w
   end) /\
  (finished (w_conn w) = false -> 0 < w_need w) /\
  (match w_mode w with
   | Serving => (w_alive w = true /\ w_term w = None) \/ (w_alive w = false /\ term_ok g dl (w_clk w) (w_term w))
   | Draining t0 => dl <= t0 + g /\ t0 <= w_clk w
   | Leaving => w_cls w = GThread \/ finished (w_conn w) = true
   | Gone => finished (w_conn w) = true
   end).

Lemma drain_bound_g : tables_ok -> forall cl g, drain_bound cl g = g.
Proof. intros [_ [A [B C]]] cl g. unfold drain_bound. rewrite A, B, C. destruct cl; reflexivity. Qed.

Local Opaque term_is_graceful drain_bound.

Ltac brk :=
  repeat match goal with
  | H : _ /\ _ |- _ => destruct H
  | H : _ \/ _ |- _ => destruct H
  | H : term_ok _ _ _ (Some _) |- _ => unfold term_ok in H
  | H : term_ok _ _ _ None |- _ => unfold term_ok in H; contradiction
  end.
Ltac fin :=
  subst; simpl in *; brk; try discriminate; try contradiction;
  repeat split; intros; auto; try discriminate; try lia;
  try (left; split; auto; fail);
  try (right; split; auto; unfold term_ok; split; auto; lia).

Lemma safe_step : tables_ok -> forall g dl w e, 0 <= g ->
  Safe g dl w -> admissible g dl w [e] -> Safe g dl (wstep g w e).
Proof.
  intros T g dl w e Hg S [A _]. pose proof T as [Tg _]. pose proof (drain_bound_g T) as Db.
  destruct w as [cl al md cn nd ck tm kp]. unfold Safe in *. unfold wstep. simpl in *.
  destruct S as [S1 [S2 S3]].
  destruct md as [|t0| |]; [| | |simpl; auto].
  - (* Serving *)
    destruct e.
    + rewrite Tg. destruct tm; destruct cn; fin.
    + contradiction.
    + destruct cn; fin.
    + destruct (dt <? 0) eqn:D; [simpl; auto|]. apply Z.ltb_ge in D.
      destruct cn; try (destruct (nd <=? dt) eqn:N; [|apply Z.leb_gt in N]); destruct tm; fin.
    + destruct cn; destruct cl; fin.
    + destruct al; [simpl; auto|]. destruct cl; destruct cn; destruct tm; fin.
    + destruct cl; destruct cn; fin.
  - (* Draining *)
    destruct e.
    + rewrite Tg. destruct tm; destruct cn; fin.
    + contradiction.
    + destruct cn; fin.
    + destruct (dt <? 0) eqn:D; [simpl; auto|]. apply Z.ltb_ge in D.
      destruct cn; try (destruct (nd <=? dt) eqn:N; [|apply Z.leb_gt in N]); fin.
    + destruct cn; destruct cl; fin.
    + rewrite Db. destruct (ck <? t0 + g) eqn:L; [|apply Z.ltb_ge in L]; destruct cl; destruct cn; fin.
    + destruct cl; destruct cn; fin.
  - (* Leaving *)
    destruct e.
    + rewrite Tg. destruct tm; destruct cn; fin.
    + contradiction.
    + destruct cn; fin.
    + destruct (dt <? 0) eqn:D; [simpl; auto|]. apply Z.ltb_ge in D.
      destruct cn; try (destruct (nd <=? dt) eqn:N; [|apply Z.leb_gt in N]); fin.
    + destruct cn; destruct cl; fin.
    + destruct cl; destruct cn; fin.
    + destruct cl; destruct cn; fin.
Qed.

Lemma admissible_app : forall g dl es1 es2 w,
  admissible g dl w (es1 ++ es2) <-> admissible g dl w es1 /\ admissible g dl (wrun g w es1) es2.
Proof.
  induction es1 as [|e t IH]; simpl; intros es2 w; [tauto|].
  rewrite IH. tauto.
Qed.

Lemma safe_run : tables_ok -> forall g dl, 0 <= g -> forall es w,
  Safe g dl w -> admissible g dl w es -> Safe g dl (wrun g w es).
Proof.
  intros T g dl Hg. induction es as [|e t IH]; simpl; intros w S A; auto.
  destruct A as [A1 A2]. apply IH; auto. apply safe_step; auto. simpl. auto.
Qed.

Lemma init_safe : forall g dl cl ph need keep clk,
  started (w_init cl ph need keep clk) = true -> 0 < need -> Safe g dl (w_init cl ph need keep clk).
Proof.
  intros g dl cl ph need keep clk St N. unfold Safe, w_init, started in *. simpl in *.
  destruct ph; destruct cl; simpl in *; try discriminate; repeat split; auto.
Qed.

(* a started request is not abandoned before the master's limit *)
Theorem no_early_loss : tables_ok -> forall g dl cl ph need keep clk es, 0 <= g -> 0 < need ->
  started (w_init cl ph need keep clk) = true ->
  admissible g dl (w_init cl ph need keep clk) es ->
  let w' := wrun g (w_init cl ph need keep clk) es in
  w_conn w' = CLost -> dl <= w_clk w'.
Proof.
  intros T g dl cl ph need keep clk es Hg Hn St A w' L.
  pose proof (safe_run T g dl Hg es _ (init_safe g dl cl ph need keep clk St Hn) A) as [S1 _].
  fold w' in S1. rewrite L in S1. exact S1.
Qed.

(* ---- completion: the application's time is all it takes ---------------------------------------------------- *)
Definition active (p : cphase) : bool := match p with CApp | CResp => true | _ => false end.
Definition Track (K : Z) (w : wst) : Prop :=
  match w_conn w with
  | CApp | CResp => w_need w + w_clk w = K
  | CDone | CLost => True
  | _ => False
  end.

Lemma track_step : forall g K w e, Track K w -> Track K (wstep g w e).
Proof.
  intros g K w e Tr. destruct w as [cl al md cn nd ck tm kp]. unfold Track, wstep in *. simpl in *.
  destruct md as [|t0| |]; [| | |simpl; auto];
    (destruct e;
     [ destruct term_is_graceful; destruct cn; simpl; auto; contradiction
     | destruct cl; destruct cn; simpl; auto; contradiction
     | destruct cn; simpl; auto; contradiction
     | destruct (dt <? 0) eqn:D; [simpl; auto|]; destruct cn; try (destruct (nd <=? dt)); simpl; auto; try contradiction; lia
     | destruct cn; destruct cl; simpl; auto; contradiction
     | idtac
     | destruct cl; destruct cn; simpl; auto; contradiction ]).
  - destruct al; [simpl; auto|]. destruct cl; destruct cn; simpl; auto; contradiction.
  - destruct (finished cn) eqn:F; [simpl; auto|]. destruct (ck <? t0 + drain_bound cl g); [simpl; auto|].
    destruct cl; destruct cn; simpl; auto; contradiction.
  - destruct (finished cn); simpl; auto.
Qed.

Lemma track_run : forall g K es w, Track K w -> Track K (wrun g w es).
Proof. induction es; simpl; intros; auto. apply IHes. apply track_step. auto. Qed.

Theorem started_requests_complete : tables_ok -> forall g dl es w, 0 <= g ->
  Safe g dl w -> active (w_conn w) = true -> admissible g dl w es ->
  let w' := wrun g w es in
  w_need w + w_clk w <= w_clk w' ->       (* the application and the writes have had their time *)
  w_clk w' < dl ->                        (* and the master's limit has not been reached *)
  w_conn w' = CDone.
Proof.
  intros T g dl es w Hg S Ac A w' Hk Hd.
  pose proof (safe_run T g dl Hg es w S A) as [S1 [S2 _]]. fold w' in S1, S2.
  assert (Tr : Track (w_need w + w_clk w) w').
  { apply track_run. unfold Track. destruct (w_conn w); simpl in Ac; try discriminate; reflexivity. }
  unfold Track in Tr. destruct (w_conn w') eqn:E; try contradiction; auto.
  - assert (0 < w_need w') by (apply S2; reflexivity). lia.
  - assert (0 < w_need w') by (apply S2; reflexivity). lia.
  - lia.
Qed.

Lemma done_stable : forall g w e, w_conn w = CDone -> w_conn (wstep g w e) = CDone.
Proof.
  intros g w e D. destruct w as [cl al md cn nd ck tm kp]. simpl in D. subst cn. unfold wstep. simpl.
  destruct md; destruct e; simpl; try reflexivity;
    repeat (match goal with |- context [match ?x with _ => _ end] => destruct x end; simpl; try reflexivity).
Qed.

Lemma done_run : forall g es w, w_conn w = CDone -> w_conn (wrun g w es) = CDone.
Proof. induction es; simpl; intros; auto. apply IHes. apply done_stable. auto. Qed.

(* a half-received request: once the client has sent the rest, the same holds *)
Theorem head_requests_complete : tables_ok -> forall g dl es w, 0 <= g ->
  Safe g dl w -> (w_conn w = CHead \/ (w_conn w = CIdle /\ w_cls w = Sync)) -> w_mode w <> Gone ->
  admissible g dl w (WClient :: es) ->
  let w1 := wstep g w WClient in
  let w' := wrun g w1 es in
  w_conn w1 = CApp /\ (w_need w1 + w_clk w1 <= w_clk w' -> w_clk w' < dl -> w_conn w' = CDone).
Proof.
  intros T g dl es w Hg S Hc Hm A w1 w'.
  assert (C1 : w_conn w1 = CApp).
  { unfold w1. destruct w as [cl al md cn nd ck tm kp]. simpl in *. unfold wstep. simpl.
    destruct md; try congruence; destruct Hc as [Hc|[Hc Hs]]; subst; simpl; auto; destruct cl; reflexivity. }
  split; auto. intros Hk Hd.
  destruct A as [A1 A2].
  apply (started_requests_complete T g dl es w1); auto.
  - apply safe_step; auto. simpl. auto.
  - rewrite C1. reflexivity.
Qed.

(* ---- quick shutdown ------------------------------------------------------------------------------------------- *)
Theorem quit_ends_worker : forall g w, w_cls w <> GThread -> w_mode (wstep g w WQuit) = Gone.
Proof.
  intros g w H. destruct w as [cl al md cn nd ck tm kp]. simpl in *. unfold wstep. simpl.
  destruct md; destruct cl; simpl; auto; congruence.
Qed.

(* gthread: the worker outlives QUIT for as long as a request runs *)
Theorem quit_gthread_waits_refuted :
  exists w, w_cls w = GThread /\ w_mode (wrun 768 w [WQuit; WTick 256; WLoop; WTick 256; WLoop]) <> Gone.
Proof. exists (w_init GThread CApp 100000 512 0). split; [reflexivity|]. vm_compute. discriminate. Qed.

(* ---- a worker that is only ever sent TERM (reload: the master never follows up with KILL) ----------------------------- *)
(* sync and gthread never give up a request that was started: sync leaves its loop only between two requests, gthread's
   pool threads are joined when the process exits *)
Definition Kept (w : wst) : Prop :=
  (w_cls w = Sync \/ w_cls w = GThread) /\
  (match w_conn w with
   | CHead | CApp | CResp | CDone => True
   | CIdle => w_cls w = Sync
   | _ => False
   end) /\
  (match w_mode w with
   | Gone => w_conn w = CDone
   | Draining _ | Leaving => w_cls w = GThread
   | Serving => True
   end).

Definition gentle (e : wev) : bool := match e with WKill | WQuit => false | _ => true end.

Lemma kept_step : tables_ok -> forall g w e, Kept w -> gentle e = true -> Kept (wstep g w e).
Proof.
  intros T g w e K Ge. pose proof T as [Tg _].
  destruct w as [cl al md cn nd ck tm kp]. unfold Kept in *. unfold wstep. simpl in *.
  destruct K as [K1 [K2 K3]].
  destruct md as [|t0| |]; destruct e; try discriminate; destruct cl; destruct cn; destruct al; simpl in *;
    rewrite ?Tg; simpl;
    repeat (match goal with |- context [if ?x then _ else _] => destruct x end; simpl);
    repeat split; auto; try discriminate; try contradiction; try (destruct K1; discriminate).
Qed.

Lemma kept_run : tables_ok -> forall g es w, Kept w -> forallb gentle es = true -> Kept (wrun g w es).
Proof.
  intros T g. induction es as [|e t IH]; simpl; intros w K G; auto.
  apply andb_true_iff in G. destruct G as [G1 G2]. apply IH; auto. apply kept_step; auto.
Qed.

Theorem term_only_never_loses : tables_ok -> forall g cl ph need keep clk es,
  cl = Sync \/ cl = GThread -> started (w_init cl ph need keep clk) = true -> forallb gentle es = true ->
  w_conn (wrun g (w_init cl ph need keep clk) es) <> CLost.
Proof.
  intros T g cl ph need keep clk es Hc St G.
  assert (K : Kept (w_init cl ph need keep clk)).
  { unfold Kept, w_init, started in *. simpl in *. repeat split; auto.
    destruct ph; destruct cl; simpl in *; auto; try discriminate; destruct Hc; discriminate. }
  pose proof (kept_run T g es _ K G) as [_ [K2 _]]. intro Q. rewrite Q in K2. exact K2.
Qed.
