(* util.write_error produces a response that the strict reader Spec/ErrResp.v accepts, for every status
   100..999, every reason phrase without CR/LF and every message text. *)
From Coq Require Import List NArith Bool Lia.
From GV Require Import Base.Enc Base.Dec Gen.GenErrors Model.Handle Spec.ErrResp.
Import ListNotations.
Local Open Scope N_scope.

Definition nocrlf (l : list N) : bool := forallb (fun c => negb (c =? 13) && negb (c =? 10)) l.

Lemma split_crlf_app a r : nocrlf a = true -> split_crlf (a ++ 13 :: 10 :: r) = Some (a, r).
Proof.
  induction a as [|c t IH]; intros H.
  - reflexivity.
  - cbn in H. apply andb_prop in H as [H1 H2]. apply andb_prop in H1 as [Hc Hl].
    apply negb_true_iff in Hc, Hl. cbn [List.app split_crlf]. rewrite Hc, Hl, (IH H2). reflexivity.
Qed.

Lemma split_on_app c a r : forallb (fun x => negb (x =? c)) a = true -> split_on c (a ++ c :: r) = Some (a, r).
Proof.
  induction a as [|x t IH]; intros H.
  - cbn. rewrite N.eqb_refl. reflexivity.
  - cbn in H. apply andb_prop in H as [H1 H2]. apply negb_true_iff in H1. cbn [List.app split_on]. rewrite H1, (IH H2). reflexivity.
Qed.

Lemma list_eqb_refl l : list_eqb l l = true.
Proof. induction l as [|x t IH]; [reflexivity|]. cbn. rewrite N.eqb_refl, IH. reflexivity. Qed.

Lemma digits_nocrlf l : forallb is_digit l = true -> nocrlf l = true.
Proof. unfold nocrlf. induction l as [|c t IH]; [reflexivity|]. cbn. intros H. apply andb_prop in H as [H1 H2].
  rewrite (IH H2), andb_true_r. unfold is_digit in H1. apply andb_prop in H1 as [A B]. apply N.leb_le in A, B.
  apply andb_true_intro. split; apply negb_true_iff, N.eqb_neq; lia. Qed.

Lemma digits_nosp l : forallb is_digit l = true -> forallb (fun x => negb (x =? 32)) l = true.
Proof. induction l as [|c t IH]; [reflexivity|]. cbn. intros H. apply andb_prop in H as [H1 H2].
  rewrite (IH H2), andb_true_r. unfold is_digit in H1. apply andb_prop in H1 as [A B]. apply N.leb_le in A, B.
  apply negb_true_iff, N.eqb_neq. lia. Qed.

Lemma nocrlf_app a b : nocrlf (a ++ b) = nocrlf a && nocrlf b.
Proof. unfold nocrlf. apply forallb_app. Qed.

Lemma lstrip_ows_digits v : forallb is_digit v = true -> lstrip_ows v = v.
Proof. destruct v as [|c t]; [reflexivity|]. cbn. intros H. apply andb_prop in H as [H1 _].
  unfold is_digit in H1. apply andb_prop in H1 as [A B]. apply N.leb_le in A, B.
  unfold is_ows. assert (c =? 32 = false) as -> by (apply N.eqb_neq; lia). assert (c =? 9 = false) as -> by (apply N.eqb_neq; lia). reflexivity. Qed.

Lemma forallb_rev' {A} (f : A -> bool) l : forallb f (rev l) = forallb f l.
Proof. induction l as [|x t IH]; cbn; [reflexivity|]. rewrite forallb_app, IH. cbn. rewrite andb_true_r. apply andb_comm. Qed.

Lemma rstrip_ows_digits v : forallb is_digit v = true -> rstrip_ows v = v.
Proof. intros H. unfold rstrip_ows. rewrite lstrip_ows_digits by (rewrite forallb_rev'; exact H). apply rev_involutive. Qed.

Definition conn_line : list N := [67;111;110;110;101;99;116;105;111;110;58;32;99;108;111;115;101].
Definition ctype_line : list N := [67;111;110;116;101;110;116;45;84;121;112;101;58;32;116;101;120;116;47;104;116;109;108].
Definition clen_pre : list N := [67;111;110;116;101;110;116;45;76;101;110;103;116;104;58;32].

Definition error_fields (n : N) : list (list N * list N) :=
  [ (n_connection, v_close);
    ([99;111;110;116;101;110;116;45;116;121;112;101], [116;101;120;116;47;104;116;109;108]);
    (n_content_length, dec n) ].

Lemma error_head_shape status reason clen body :
  error_head status reason clen ++ body =
  (([72;84;84;80;47;49;46;49;32] ++ dec status ++ [32] ++ reason) ++ 13 :: 10 ::
   (conn_line ++ 13 :: 10 :: (ctype_line ++ 13 :: 10 :: ((clen_pre ++ dec clen) ++ 13 :: 10 :: ([] ++ 13 :: 10 :: body))))).
Proof. unfold error_head, CRLF, conn_line, ctype_line, clen_pre. rewrite <- !app_assoc. reflexivity. Qed.

Lemma parse_clen_field v : forallb is_digit v = true -> v <> [] ->
  parse_field (clen_pre ++ v) = Some (n_content_length, v).
Proof.
  intros Hd Hne. unfold parse_field, clen_pre.
  change ([67;111;110;116;101;110;116;45;76;101;110;103;116;104;58;32] ++ v)
    with ([67;111;110;116;101;110;116;45;76;101;110;103;116;104] ++ 58 :: (32 :: v)).
  rewrite split_on_app by reflexivity.
  cbn [forallb]. change (lstrip_ows (32 :: v)) with (lstrip_ows v).
  rewrite lstrip_ows_digits, rstrip_ows_digits by exact Hd. reflexivity.
Qed.

Lemma read_error_fields fuel n body : (4 <= fuel)%nat ->
  read_fields fuel (conn_line ++ 13 :: 10 :: (ctype_line ++ 13 :: 10 :: ((clen_pre ++ dec n) ++ 13 :: 10 :: ([] ++ 13 :: 10 :: body))))
  = Some (error_fields n, body).
Proof.
  intros Hf. destruct fuel as [|[|[|[|k]]]]; try lia.
  assert (Hd : forallb is_digit (dec n) = true) by apply dec_all_digits.
  assert (Hne : dec n <> []) by apply dec_aux_nonempty.
  cbn [read_fields]. rewrite split_crlf_app by reflexivity.
  change (parse_field conn_line) with (Some (n_connection, v_close)). cbn iota beta.
  unfold conn_line at 1. cbn iota.
  rewrite split_crlf_app by reflexivity.
  change (parse_field ctype_line) with (Some ([99;111;110;116;101;110;116;45;116;121;112;101], [116;101;120;116;47;104;116;109;108])).
  unfold ctype_line at 1. cbn iota.
  rewrite split_crlf_app by (rewrite nocrlf_app, (digits_nocrlf _ Hd); reflexivity).
  rewrite parse_clen_field by assumption.
  destruct (clen_pre ++ dec n) eqn:Ecl; [discriminate Ecl|].
  cbn [List.app split_crlf N.eqb Pos.eqb]. reflexivity.
Qed.

Lemma parse_error_status status reason : 100 <= status -> status <= 999 ->
  parse_status_line ([72;84;84;80;47;49;46;49;32] ++ dec status ++ [32] ++ reason) = Some (status, reason).
Proof.
  intros H1 H2. unfold parse_status_line, http1. cbn [List.app strip_prefix N.eqb Pos.eqb is_digit N.leb N.compare Pos.compare Pos.compare_cont andb].
  rewrite split_on_app by (apply digits_nosp, dec_all_digits).
  rewrite dec_roundtrip, list_eqb_refl.
  assert ((100 <=? status) && (status <=? 999) = true) as -> by (apply andb_true_intro; split; apply N.leb_le; assumption).
  reflexivity.
Qed.

Theorem error_head_decodes status reason body :
  100 <= status -> status <= 999 -> nocrlf reason = true ->
  decode (error_head status reason (len body) ++ body)
  = Some {| e_status := status; e_reason := reason; e_fields := error_fields (len body); e_body := body |}.
Proof.
  intros H1 H2 Hr. rewrite error_head_shape. unfold decode.
  rewrite split_crlf_app.
  2:{ rewrite !nocrlf_app, (digits_nocrlf _ (dec_all_digits status)), Hr. reflexivity. }
  rewrite parse_error_status by assumption.
  rewrite read_error_fields.
  2:{ rewrite app_length. cbn. lia. }
  unfold error_fields, values_of. cbn [filter fst snd map list_eqb n_content_length n_transfer_encoding n_connection N.eqb Pos.eqb andb].
  rewrite dec_roundtrip. unfold len. rewrite N.eqb_refl. reflexivity.
Qed.

Lemma error_fields_close n : says_close {| e_status := 0; e_reason := []; e_fields := error_fields n; e_body := [] |} = true.
Proof. reflexivity. Qed.

(* facts about the regenerated handle_error table *)
Lemma ecls_all : forall c : ecls, In c all_ecls.
Proof. intros c. destruct c; vm_compute; tauto. Qed.

Definition row_ok (c : ecls) : bool :=
  (400 <=? he_status c) && (he_status c <=? 599) && nocrlf (he_reason c) && he_conn_close c && he_clen_ok c.

Lemma table_rows_ok : forallb row_ok all_ecls = true.
Proof. vm_compute. reflexivity. Qed.

Lemma row_ok_all c : row_ok c = true.
Proof. pose proof table_rows_ok as H. rewrite forallb_forall in H. apply H. apply ecls_all. Qed.

Lemma some_inj {A} (a b : A) : Some a = Some b -> a = b.
Proof. intros H. injection H. auto. Qed.

(* every error page the model can emit is one complete 4xx/5xx response with Connection: close *)
Theorem error_page_wellformed c t page :
  error_page (he_status c) (he_reason c) t = Some page ->
  exists r, decode page = Some r /\ 400 <= e_status r /\ e_status r <= 599 /\ says_close r = true
            /\ e_status r = he_status c /\ e_body r = html_page (he_reason c) t.
Proof.
  unfold error_page. destruct (latin1_ok _); [|discriminate]. intros H. apply some_inj in H. subst page.
  pose proof (row_ok_all c) as R. unfold row_ok in R.
  apply andb_prop in R as [R _]. apply andb_prop in R as [R _]. apply andb_prop in R as [R R3]. apply andb_prop in R as [R1 R2].
  apply N.leb_le in R1, R2.
  eexists. split; [apply error_head_decodes; [lia|lia|exact R3]|]. cbn [e_status e_body]. repeat split; try assumption.
Qed.
