(* C10 - the generation invariant with TTIN / TTOU anywhere in the schedule.

   Proof/ReloadInv.v counts (at the top of the loop there are exactly num_workers unretired workers, all new) and for that
   excludes TTIN / TTOU.  With them the count is not an invariant of the loop (after TTIN the missing worker is only spawned
   once the told old ones have been reaped; after TTOU the youngest-but-oldest NEW workers are told), but the part of the
   property that matters is: whenever the master is back at the top of its loop, every worker that has not been retired (told
   to stop, dead, or gone) was forked after the last reload began, with the Config object and the listeners of that reload.
   That is proved here for every schedule of HUP, TTIN, TTOU, configuration edits, SIGCHLD deliveries and exits of told
   workers, from a pool of any size.  What num_workers is after each of the three signals: ReloadCount.dispatch_counts. *)
From Coq Require Import List ZArith Bool Lia.
From GV Require Import Gen.GenArbiter Model.Reload Proof.ReloadBase Proof.ReloadInv.
Import ListNotations.
Local Open Scope Z_scope.

(* every old worker still in WORKERS is retired; stated on the three components it depends on *)
Definition OR (ws : list wk) (ha : Z) (ks : list kid) : Prop :=
  forall w, In w ws -> isold ha w = true -> existsb (fitk (w_pid w)) ks = false.
Definition OldsRet (s : st) : Prop := OR (workers s) (hup_age s) (kids s).

(* every new worker is alive and has not been told to stop *)
Definition NewFit (s : st) : Prop := forall w, In w (workers s) -> isnew (hup_age s) w = true -> fit (kids s) (w_pid w).

(* every old worker that is not retired is among the victims still to be told *)
Definition Pending (ws : list wk) (ha : Z) (ks : list kid) (v : list Z) : Prop :=
  forall w, In w ws -> isold ha w = true -> existsb (fitk (w_pid w)) ks = true -> In (w_pid w) v.

Definition spc (s : st) : Prop :=
  match cur s with
  | PSigq | PSelect | PSpawnCount | PNap _ => OldsRet s
  | PManageLen | PManageSort => OldsRet s \/ (num s <= cnew s /\ NewFit s)
  | PManageKill v => Pending (workers s) (hup_age s) (kids s) v
  | PFork age (KReload n) =>
      age = wage s /\ num s <= cnew s + Z.of_nat n + 1 /\ (forall w, In w (workers s) -> w_age w < age) /\ hup_age s < age /\ NewFit s
  | PRegister p age (KReload n) =>
      age = wage s /\ num s <= cnew s + Z.of_nat n + 1 /\ (forall w, In w (workers s) -> w_age w < age) /\ hup_age s < age /\ NewFit s /\
      fit (kids s) p /\ p < next_pid s
  | PFork age (KSpawn _) =>
      OldsRet s /\ age = wage s /\ (forall w, In w (workers s) -> w_age w < age) /\ hup_age s < age
  | PRegister p age (KSpawn _) =>
      OldsRet s /\ age = wage s /\ (forall w, In w (workers s) -> w_age w < age) /\ hup_age s < age /\ p < next_pid s
  end.

Record SInv (s : st) : Prop := mkS {
  s_sorted : sorted (workers s);
  s_ages : forall w, In w (workers s) -> w_age w <= wage s;
  s_hup : hup_age s <= wage s;
  s_kpids : NoDup (map k_pid (kids s));
  s_kbound : forall k, In k (kids s) -> k_pid k < next_pid s;
  s_wbound : forall w, In w (workers s) -> w_pid w < next_pid s;
  s_new_cfg : forall w, In w (workers s) -> isnew (hup_age s) w = true -> w_cfg w = cfgid s /\ w_lsn w = lsn s;
  s_pc : spc s
}.

(* ---- small facts ------------------------------------------------------------------------------------------------------------ *)
Lemma OR_kids : forall ws ha ks ks',
  (forall p, existsb (fitk p) ks' = true -> existsb (fitk p) ks = true) -> OR ws ha ks -> OR ws ha ks'.
Proof.
  intros ws ha ks ks' U H w Hw Ho. specialize (H w Hw Ho).
  destruct (existsb (fitk (w_pid w)) ks') eqn:E; auto. rewrite (U _ E) in H. discriminate.
Qed.

Lemma OR_sub : forall ws ws' ha ks, (forall w, In w ws' -> In w ws) -> OR ws ha ks -> OR ws' ha ks.
Proof. intros ws ws' ha ks S H w Hw Ho. apply H; auto. Qed.

Lemma Pending_kids : forall ws ha ks ks' v,
  (forall p, existsb (fitk p) ks' = true -> existsb (fitk p) ks = true) -> Pending ws ha ks v -> Pending ws ha ks' v.
Proof. intros ws ha ks ks' v U H w Hw Ho F. apply H; auto. Qed.

Lemma Pending_sub : forall ws ws' ha ks v, (forall w, In w ws' -> In w ws) -> Pending ws ha ks v -> Pending ws' ha ks v.
Proof. intros ws ws' ha ks v S H w Hw Ho F. apply H; auto. Qed.

Lemma Pending_nil_OR : forall ws ha ks, Pending ws ha ks [] -> OR ws ha ks.
Proof.
  intros ws ha ks H w Hw Ho. destruct (existsb (fitk (w_pid w)) ks) eqn:E; auto. exfalso. apply (H w Hw Ho E).
Qed.

Lemma OR_Pending : forall ws ha ks v, OR ws ha ks -> Pending ws ha ks v.
Proof. intros ws ha ks v H w Hw Ho F. rewrite (H w Hw Ho) in F. discriminate. Qed.

Lemma oldsret_retired : forall s, OldsRet s -> forall w, In w (workers s) -> isold (hup_age s) w = true -> retired s w = true.
Proof. intros s H w Hw Ho. rewrite retired_unfit. rewrite (H w Hw Ho). reflexivity. Qed.

Lemma firstn_In_le : forall (A : Type) (l : list A) (k m : nat) x, (k <= m)%nat -> In x (firstn k l) -> In x (firstn m l).
Proof.
  intros A l. induction l as [|y t IH]; intros k m x L H.
  - rewrite firstn_nil in H. contradiction.
  - destruct k as [|k]; [simpl in H; contradiction|]. destruct m as [|m]; [lia|].
    simpl in *. destruct H as [H|H]; auto. right. apply (IH k m); auto. lia.
Qed.

(* when at least num of the workers are new, the wlen - num oldest contain every old one *)
Lemma olds_in_prefix : forall s, sorted (workers s) -> num s <= cnew s ->
  forall w, In w (workers s) -> isold (hup_age s) w = true ->
  In w (firstn (Z.to_nat (wlen s - num s)) (sort_by_age (workers s))).
Proof.
  intros s S C w Hw Ho. rewrite sort_sorted_id by auto.
  assert (Hin : In w (filter (isold (hup_age s)) (workers s))) by (apply filter_In; auto).
  unfold isold in Hin. rewrite <- (old_prefix (hup_age s) (workers s) S) in Hin.
  eapply firstn_In_le; [|exact Hin].
  unfold cnew, wlen in *. pose proof (filter_length_split _ (isnew (hup_age s)) (workers s)) as Q.
  unfold isnew in *. lia.
Qed.

Lemma isold_not_new : forall a w, isold a w = true -> isnew a w = false.
Proof. unfold isold, isnew. intros a w H. apply negb_true_iff in H. exact H. Qed.

Lemma new_or_old : forall a w, isnew a w = true \/ isold a w = true.
Proof. unfold isold, isnew. intros a w. destruct (a <? w_age w); auto. Qed.

(* ---- labels of the environment ------------------------------------------------------------------------------------------------ *)
(* spc only reads workers, kids, num, wage, hup_age, next_pid, cur *)
Lemma spc_kids : forall s ks,
  (forall p, fit (kids s) p -> fit ks p) ->
  (forall p, existsb (fitk p) ks = true -> existsb (fitk p) (kids s) = true) ->
  spc s -> spc (set_kids s ks).
Proof.
  intros s ks F U H. unfold spc in *. simpl.
  assert (O : OldsRet s -> OldsRet (set_kids s ks)) by (unfold OldsRet; simpl; apply OR_kids; auto).
  assert (N : NewFit s -> NewFit (set_kids s ks)) by (unfold NewFit; simpl; intros Hn w Hw Hi; apply F; auto).
  destruct (cur s) as [| | | |age k|p age k|n| |v]; auto.
  - destruct H as [H|[H1 H2]]; [left|right]; auto.
  - destruct k as [n|n].
    + destruct H as [H1 [H2 [H3 H4]]]. repeat split; auto.
    + destruct H as [H1 [H2 [H3 [H4 H5]]]]. unfold cnew in *. simpl. repeat split; auto.
  - destruct k as [n|n].
    + destruct H as [H1 [H2 [H3 [H4 H5]]]]. repeat split; auto.
    + destruct H as [H1 [H2 [H3 [H4 [H5 [H6 H7]]]]]]. unfold cnew in *. simpl. repeat split; auto.
  - destruct H as [H|[H1 H2]]; [left|right]; auto.
  - unfold Pending in *. simpl. eapply Pending_kids; eauto.
Qed.

Lemma sstep_exit_told : forall s p, SInv s -> SInv (step s (ExitTold p)).
Proof.
  intros s p [So A H K KB WB NC PC]. simpl. constructor; simpl; auto.
  - rewrite exit_told_pids. auto.
  - intros k Hk. unfold exit_told_kid in Hk. apply in_map_iff in Hk. destruct Hk as [c [E Hc]].
    destruct ((k_pid c =? p) && negb (k_zomb c) && told c); subst k; simpl; auto.
  - apply spc_kids; auto.
    + intros q Hq. apply fit_exit_told. auto.
    + intros q Hq. unfold exit_told_kid in Hq. eapply unfit_map; eauto. apply exit_told_shrinking.
Qed.

Lemma sinv_sigq : forall s q, SInv s -> SInv (set_sigq s q).
Proof. intros s q [So A H K KB WB NC PC]. constructor; simpl; auto. Qed.

Lemma sstep_queue : forall s sg, SInv s -> SInv (queue_sig s sg).
Proof. intros s sg G. unfold queue_sig. destruct (Z.of_nat (length (sigq s)) <? sig_queue_max); auto. apply sinv_sigq. auto. Qed.

Lemma sstep_edit : forall s w a, SInv s -> SInv (step s (Edit w a)).
Proof.
  intros s w a G. simpl. destruct (0 <=? w); auto.
  destruct G as [So A H K KB WB NC PC]. constructor; simpl; auto.
Qed.

(* ---- the SIGCHLD handler ---------------------------------------------------------------------------------------------------------- *)
Lemma sreap_one : forall s z rest, first_zombie (kids s) = Some (z, rest) -> SInv s ->
  SInv (set_workers (set_kids s rest) (remove_wk (k_pid z) (workers s))).
Proof.
  intros s z rest F [So A H K KB WB NC PC].
  destruct (first_zombie_spec _ _ _ F) as [Z [l1 [l2 [E1 E2]]]].
  rewrite E1 in K. destruct (NoDup_map_remove _ _ _ K) as [K1 K2]. rewrite <- E2 in K1, K2.
  assert (Sub : forall k, In k rest -> In k (kids s)).
  { intros k Hk. rewrite E1. subst rest. apply in_app_or in Hk. apply in_or_app. destruct Hk; [left|right; right]; auto. }
  assert (Fit : forall p, fit (kids s) p -> fit rest p).
  { intros p Hp. rewrite E1 in Hp. subst rest. eapply fit_remove_zombie; eauto. }
  assert (Unfit : forall p, existsb (fitk p) rest = true -> existsb (fitk p) (kids s) = true).
  { intros p Hp. rewrite E1. subst rest. apply unfit_sublist. auto. }
  assert (WSub : forall w, In w (remove_wk (k_pid z) (workers s)) -> In w (workers s)).
  { intros w Hw. apply remove_wk_In in Hw. tauto. }
  (* while the new generation is being built none of its members is reaped *)
  assert (Cn : NewFit s -> cnew (set_workers (set_kids s rest) (remove_wk (k_pid z) (workers s))) = cnew s).
  { intros NF. unfold cnew. simpl. f_equal. f_equal. apply filter_remove_new.
    intros w Hw Hn Q. apply K2. rewrite <- Q. apply fit_in_pids. apply Fit. apply NF; auto. }
  assert (NFk : NewFit s -> NewFit (set_workers (set_kids s rest) (remove_wk (k_pid z) (workers s)))).
  { intros NF. unfold NewFit in *. simpl. intros w Hw Hn. apply Fit. apply NF; auto. }
  assert (O : OldsRet s -> OldsRet (set_workers (set_kids s rest) (remove_wk (k_pid z) (workers s)))).
  { unfold OldsRet. simpl. intros O. eapply OR_sub; [exact WSub|]. eapply OR_kids; eauto. }
  constructor; simpl.
  - apply sorted_filter. auto.
  - intros w Hw. apply A. auto.
  - exact H.
  - exact K1.
  - intros k Hk. apply KB. auto.
  - intros w Hw. apply WB. auto.
  - intros w Hw Hn. apply NC; auto.
  - unfold spc in *. simpl. destruct (cur s) as [| | | |age k|p age k|n| |v]; auto.
    + destruct PC as [P|[P1 P2]]; [left; auto|right]. split; [rewrite (Cn P2); auto | apply NFk; auto].
    + destruct k as [n|n].
      * destruct PC as [P1 [P2 [P3 P4]]]. repeat split; auto.
      * destruct PC as [P1 [P2 [P3 [P4 P5]]]]. rewrite (Cn P5). repeat split; auto; try (apply NFk; auto).
    + destruct k as [n|n].
      * destruct PC as [P1 [P2 [P3 [P4 P5]]]]. repeat split; auto.
      * destruct PC as [P1 [P2 [P3 [P4 [P5 [P6 P7]]]]]]. rewrite (Cn P5). repeat split; auto; try (apply NFk; auto).
    + destruct PC as [P|[P1 P2]]; [left; auto|right]. split; [rewrite (Cn P2); auto | apply NFk; auto].
    + eapply Pending_sub; [exact WSub|]. eapply Pending_kids; eauto.
Qed.

Lemma sreap : forall fuel s, SInv s -> SInv (reap fuel s).
Proof.
  induction fuel; simpl; intros s G; auto.
  destruct (first_zombie (kids s)) as [[z rest]|] eqn:F; auto.
  apply IHfuel. apply sreap_one; auto.
Qed.

(* ---- the master's own steps --------------------------------------------------------------------------------------------------------- *)
Lemma sinv_pc : forall s p', SInv s -> spc (set_pc s p') -> SInv (set_pc s p').
Proof. intros s p' [So A H K KB WB NC PC] P. constructor; simpl; auto. Qed.

Lemma sinv_num : forall s x, SInv s -> cur s = PSigq -> SInv (set_num s x).
Proof. intros s x [So A H K KB WB NC PC] E. constructor; simpl; auto. unfold spc in *. simpl. rewrite E in *. exact PC. Qed.

(* begin_spawn from a state in which the olds are retired *)
Lemma sbegin_spawn_k : forall s n, SInv s -> OldsRet s -> SInv (begin_spawn s (KSpawn n)).
Proof.
  intros s n [So A H K KB WB NC PC] O. unfold begin_spawn. constructor; simpl; auto; try lia.
  - intros w Hw. pose proof (A w Hw). lia.
  - unfold spc. simpl. repeat split; auto; try lia. intros w Hw. pose proof (A w Hw). lia.
Qed.

Lemma sreload_step : forall s, SInv s -> cur s = PSigq -> SInv (dispatch s SIGHUP).
Proof.
  intros s [So A H K KB WB NC PC] E. unfold dispatch. rewrite Z.eqb_refl.
  assert (NoNew : filter (isnew (wage s)) (workers s) = []) by (apply no_new_after_hup; auto).
  assert (Vac : forall w, In w (workers s) -> isnew (wage s) w = true -> False).
  { intros w Hw Hn. assert (In w (filter (isnew (wage s)) (workers s))) by (apply filter_In; auto). rewrite NoNew in H0. auto. }
  unfold reload. simpl.
  destruct (Z.to_nat (disk_w s)) as [|n] eqn:N.
  - constructor; simpl; auto; try lia.
    + intros w Hw Hn. exfalso. eauto.
    + unfold spc. simpl. right. split.
      * unfold cnew. simpl. rewrite NoNew. simpl. lia.
      * intros w Hw Hn. simpl in *. exfalso. eauto.
  - unfold begin_spawn. simpl. constructor; simpl; auto; try lia.
    + intros w Hw. pose proof (A w Hw). lia.
    + intros w Hw Hn. exfalso. eauto.
    + unfold spc. simpl. unfold cnew. simpl. rewrite NoNew. simpl. repeat split; try lia.
      * intros w Hw. pose proof (A w Hw). lia.
      * intros w Hw Hn. simpl in *. exfalso. eauto.
Qed.

Lemma sfork_step : forall s age k, SInv s -> cur s = PFork age k ->
  SInv (set_pc (set_fork s (kids s ++ [mkKid (next_pid s) false 0 []]) (next_pid s + 1)) (PRegister (next_pid s) age k)).
Proof.
  intros s age k [So A H K KB WB NC PC] E. unfold spc in PC. rewrite E in PC.
  assert (U : forall q, q < next_pid s -> existsb (fitk q) (kids s ++ [mkKid (next_pid s) false 0 []]) = existsb (fitk q) (kids s)).
  { intros q Hq. apply unfit_app_fresh. simpl. lia. }
  assert (O : OldsRet s -> OR (workers s) (hup_age s) (kids s ++ [mkKid (next_pid s) false 0 []])).
  { intros O w Hw Ho. rewrite U; [apply O; auto | apply WB; auto]. }
  constructor; simpl; auto.
  - rewrite map_app. simpl. apply NoDup_app_one; auto. intros Q. apply in_map_iff in Q. destruct Q as [c [Ec Hc]].
    pose proof (KB c Hc). lia.
  - intros c Hc. apply in_app_or in Hc. destruct Hc as [Hc|[Hc|[]]]; [pose proof (KB c Hc); lia|subst c; simpl; lia].
  - intros w Hw. pose proof (WB w Hw). lia.
  - unfold spc. simpl. destruct k as [n|n].
    + destruct PC as [P1 [P2 [P3 P4]]]. repeat split; auto; try lia. unfold OldsRet. simpl. apply O. auto.
    + destruct PC as [P1 [P2 [P3 [P4 P5]]]]. unfold cnew in *. simpl. repeat split; auto; try lia.
      * intros w Hw Hn. simpl in *. apply fit_app. apply P5; auto.
      * exists (mkKid (next_pid s) false 0 []). split; [apply in_or_app; right; simpl; auto|].
        unfold fitk. simpl. rewrite Z.eqb_refl. reflexivity.
Qed.

Lemma sregister_step : forall s p age k, SInv s -> cur s = PRegister p age k ->
  SInv (after_register (set_workers s (workers s ++ [mkWk p age (cfgid s) (lsn s)])) k).
Proof.
  intros s p age k [So A H K KB WB NC PC] E. unfold spc in PC. rewrite E in PC.
  set (nw := mkWk p age (cfgid s) (lsn s)).
  assert (Ages : (forall w, In w (workers s) -> w_age w < age) -> age = wage s -> hup_age s < age -> p < next_pid s ->
          sorted (workers s ++ [nw]) /\ (forall w, In w (workers s ++ [nw]) -> w_age w <= wage s) /\
          (forall w, In w (workers s ++ [nw]) -> w_pid w < next_pid s) /\
          (forall w, In w (workers s ++ [nw]) -> isnew (hup_age s) w = true -> w_cfg w = cfgid s /\ w_lsn w = lsn s) /\
          isnew (hup_age s) nw = true).
  { intros P3 P1 P4 P7. split; [apply sorted_app_one; auto|]. split; [|split; [|split]].
    - intros w Hw. apply in_app_or in Hw. destruct Hw as [Hw|[Hw|[]]]; [auto|subst w; simpl; lia].
    - intros w Hw. apply in_app_or in Hw. destruct Hw as [Hw|[Hw|[]]]; [auto|subst w; simpl; auto].
    - intros w Hw Hn. apply in_app_or in Hw. destruct Hw as [Hw|[Hw|[]]]; [auto|subst w; simpl; auto].
    - unfold isnew. simpl. apply Z.ltb_lt. auto. }
  assert (OApp : OldsRet s -> isnew (hup_age s) nw = true -> OR (workers s ++ [nw]) (hup_age s) (kids s)).
  { intros O Nn w Hw Ho. apply in_app_or in Hw. destruct Hw as [Hw|[Hw|[]]]; [apply O; auto|].
    subst w. rewrite (isold_not_new _ _ Ho) in Nn. discriminate. }
  destruct k as [n|n].
  - (* an ordinary respawn *)
    destruct PC as [P0 [P1 [P3 [P4 P7]]]]. destruct (Ages P3 P1 P4 P7) as [B1 [B2 [B3 [B4 B5]]]].
    unfold after_register. constructor; simpl; auto. unfold spc. simpl. apply OApp; auto.
  - destruct PC as [P1 [P2 [P3 [P4 [P5 [P6 P7]]]]]]. destruct (Ages P3 P1 P4 P7) as [B1 [B2 [B3 [B4 B5]]]].
    assert (Cn : Z.of_nat (length (filter (isnew (hup_age s)) (workers s ++ [nw]))) = cnew s + 1).
    { rewrite filter_app_one. rewrite B5. rewrite app_length. simpl. unfold cnew. lia. }
    assert (NF' : forall w, In w (workers s ++ [nw]) -> isnew (hup_age s) w = true -> fit (kids s) (w_pid w)).
    { intros w Hw Hn. apply in_app_or in Hw. destruct Hw as [Hw|[Hw|[]]]; [apply P5; auto|subst w; simpl; auto]. }
    unfold after_register. destruct n as [|n].
    + constructor; simpl; auto. unfold spc. simpl. right. split; [unfold cnew; simpl; lia | exact NF'].
    + unfold begin_spawn. constructor; simpl; auto; try lia.
      * intros w Hw. pose proof (B2 w Hw). lia.
      * unfold spc. simpl. unfold cnew. simpl. repeat split; auto; try lia.
        intros w Hw. pose proof (B2 w Hw). lia.
Qed.

Lemma ssort_step : forall s, SInv s -> cur s = PManageSort ->
  SInv (manage_kill_next s (pids (firstn (Z.to_nat (wlen s - num s)) (sort_by_age (workers s))))).
Proof.
  intros s G E. pose proof G as [So A H K KB WB NC PC]. unfold spc in PC. rewrite E in PC.
  set (v := pids (firstn (Z.to_nat (wlen s - num s)) (sort_by_age (workers s)))).
  assert (P : Pending (workers s) (hup_age s) (kids s) v).
  { destruct PC as [O|[C NF]]; [apply OR_Pending; auto|].
    intros w Hw Ho _. unfold v, pids. apply in_map. apply olds_in_prefix; auto. }
  unfold manage_kill_next. destruct v as [|p v'].
  - unfold to_loop. apply sinv_pc; auto. unfold spc. simpl. apply Pending_nil_OR. auto.
  - apply sinv_pc; auto.
Qed.

Local Arguments kill_worker : simpl never.

Lemma skill_step : forall s p v, SInv s -> cur s = PManageKill (p :: v) ->
  SInv (manage_kill_next (kill_worker s p SIGTERM) v).
Proof.
  intros s p v G E. pose proof G as [So A H K KB WB NC PC]. unfold spc in PC. rewrite E in PC.
  assert (G' : SInv (kill_worker s p SIGTERM) /\ Pending (workers (kill_worker s p SIGTERM)) (hup_age s) (kids (kill_worker s p SIGTERM)) v).
  { unfold kill_worker. destruct (kill_in (kids s) p SIGTERM) as [ks|] eqn:KI.
    - apply kill_in_some in KI. subst ks.
      assert (Unfit : forall q, existsb (fitk q) (map (sig_kid p SIGTERM) (kids s)) = true -> existsb (fitk q) (kids s) = true /\ q <> p).
      { intros q Hq. split; [eapply unfit_map; eauto; apply sig_kid_shrinking|].
        intros Q. subst q. apply existsb_exists in Hq. destruct Hq as [c [Hc Fc]]. rewrite (sig_kid_unfit _ _ _ Hc) in Fc. discriminate. }
      assert (Pd : Pending (workers s) (hup_age s) (map (sig_kid p SIGTERM) (kids s)) v).
      { intros w Hw Ho Hf. destruct (Unfit _ Hf) as [U1 U2]. assert (I : In (w_pid w) (p :: v)) by (apply PC; auto).
        simpl in I. destruct I; [congruence|auto]. }
      split; [|exact Pd]. constructor; simpl; auto.
      + rewrite map_map. erewrite map_ext; [exact K|]. intros c. apply sig_kid_pid.
      + intros c Hc. apply in_map_iff in Hc. destruct Hc as [c0 [Ec Hc]]. subst c. rewrite sig_kid_pid. auto.
      + unfold spc. simpl. rewrite E. eapply Pending_kids; [|exact PC]. intros q Hq. apply (Unfit q Hq).
    - (* ESRCH: WORKERS.pop(pid) *)
      assert (WSub : forall w, In w (remove_wk p (workers s)) -> In w (workers s)) by (intros w Hw; apply remove_wk_In in Hw; tauto).
      assert (Pd : Pending (remove_wk p (workers s)) (hup_age s) (kids s) v).
      { intros w Hw Ho Hf. apply remove_wk_In in Hw. destruct Hw as [Hw Np].
        assert (I : In (w_pid w) (p :: v)) by (apply PC; auto). simpl in I. destruct I; [congruence|auto]. }
      split; [|exact Pd]. constructor; simpl.
      + apply sorted_filter. auto.
      + intros w Hw. apply A. auto.
      + exact H.
      + exact K.
      + exact KB.
      + intros w Hw. apply WB. auto.
      + intros w Hw Hn. apply NC; auto.
      + unfold spc. simpl. rewrite E. eapply Pending_sub; [exact WSub|exact PC]. }
  destruct G' as [G1 P1].
  assert (HA : hup_age (kill_worker s p SIGTERM) = hup_age s) by (unfold kill_worker; destruct (kill_in (kids s) p SIGTERM); reflexivity).
  unfold manage_kill_next. destruct v as [|p' v'].
  - unfold to_loop. apply sinv_pc; auto. unfold spc. simpl. unfold OldsRet. simpl. rewrite HA. apply Pending_nil_OR. auto.
  - apply sinv_pc; auto. unfold spc. simpl. rewrite HA. exact P1.
Qed.

Lemma smaster : forall s, SInv s -> SInv (master s).
Proof.
  intros s G. pose proof G as [So A H K KB WB NC PC]. unfold master. unfold spc in PC.
  destruct (cur s) as [| | | |age k|p age k|n| |v] eqn:E.
  - (* PSigq *)
    destruct (sigq s) as [|sg q] eqn:Q.
    + apply sinv_pc; auto.
    + assert (G1 : SInv (set_sigq s q)) by (apply sinv_sigq; auto).
      assert (E1 : cur (set_sigq s q) = PSigq) by (simpl; auto).
      assert (O1 : OldsRet (set_sigq s q)) by (exact PC).
      destruct (sg =? SIGHUP) eqn:Hs.
      * apply Z.eqb_eq in Hs. subst sg. apply sreload_step; auto.
      * unfold dispatch. rewrite Hs.
        destruct (sg =? SIGTTIN).
        { apply sinv_pc; [apply sinv_num; auto|]. unfold spc. simpl. left. exact O1. }
        destruct (sg =? SIGTTOU).
        { destruct (num (set_sigq s q) <=? 1).
          - unfold to_loop. apply sinv_pc; auto.
          - apply sinv_pc; [apply sinv_num; auto|]. unfold spc. simpl. left. exact O1. }
        unfold to_loop. apply sinv_pc; auto.
  - apply sinv_pc; auto. unfold spc. simpl. left. exact PC.
  - destruct (wlen s <? num s) eqn:L.
    + apply sinv_pc; auto. unfold spc. simpl. destruct PC as [O|[C NF]]; auto.
      exfalso. apply Z.ltb_lt in L. pose proof (cnew_le_wlen s). lia.
    + apply sinv_pc; auto.
  - destruct (num s - wlen s <=? 0).
    + apply sinv_pc; auto. unfold spc. simpl. left. exact PC.
    + apply sbegin_spawn_k; auto.
  - apply sfork_step; auto.
  - apply sregister_step; auto.
  - destruct n as [|n'].
    + apply sinv_pc; auto. unfold spc. simpl. left. exact PC.
    + apply sbegin_spawn_k; auto.
  - apply ssort_step; auto.
  - destruct v as [|p v].
    + unfold to_loop. apply sinv_pc; auto. unfold spc. simpl. apply Pending_nil_OR. exact PC.
    + apply skill_step; auto.
Qed.

(* schedules in which a worker only dies when it was told to (TTIN / TTOU allowed) *)
Fixpoint no_untold_death (ls : list label) : bool :=
  match ls with
  | [] => true
  | Exit _ _ :: _ => false
  | _ :: t => no_untold_death t
  end.

Lemma srun : forall ls s, no_untold_death ls = true -> SInv s -> SInv (run s ls).
Proof.
  induction ls as [|l t IH]; simpl; intros s T G; auto.
  destruct l; try discriminate; apply IH; auto.
  - apply smaster; auto.
  - simpl. unfold chld. apply sreap; auto.
  - apply sstep_exit_told; auto.
  - simpl. apply sstep_queue; auto.
  - apply sstep_edit; auto.
  - simpl. apply sstep_queue; auto.
  - simpl. apply sstep_queue; auto.
Qed.

Lemma init_resized_sinv : forall n cw a, SInv (init_resized n cw a).
Proof.
  intros n cw a. destruct (init_resized_ginv n (Z.abs cw) a (Z.abs_nonneg cw)) as [So A H K KB WB NF NC CF PC WP SQ].
  unfold init_resized in *. constructor; cbn -[Z.add Z.of_nat Z.ltb Z.leb] in *; auto.
  unfold spc, OldsRet, OR. cbn -[Z.add Z.of_nat Z.ltb Z.leb]. unfold pc_inv in PC. cbn -[Z.add Z.of_nat Z.ltb Z.leb] in PC.
  destruct PC as [_ P]. intros w Hw Ho. specialize (P w Hw Ho). rewrite retired_unfit in P.
  cbn -[Z.add Z.of_nat Z.ltb Z.leb] in P. apply negb_true_iff in P. exact P.
Qed.

(* For every schedule of HUP, TTIN, TTOU, configuration edits, SIGCHLD deliveries and exits of workers that were told to
   stop, from a pool of any size: whenever the master is back at the top of its loop, every worker that has not been retired
   was forked after the last reload began, with the Config object and the listeners of that reload. *)
Theorem reload_generation_safe : forall n cw a ls, no_untold_death ls = true ->
  let s := run (init_resized n cw a) ls in
  cur s = PSigq \/ cur s = PSelect ->
  forall w, In w (workers s) -> retired s w = false -> hup_age s < w_age w /\ w_cfg w = cfgid s /\ w_lsn w = lsn s.
Proof.
  intros n cw a ls T s C w Hw R.
  assert (G : SInv s) by (apply srun; auto; apply init_resized_sinv).
  pose proof G as [So A H K KB WB NC PC]. unfold spc in PC.
  assert (O : OldsRet s) by (destruct C as [C|C]; rewrite C in PC; exact PC).
  destruct (new_or_old (hup_age s) w) as [N|Od].
  - destruct (NC w Hw N). repeat split; auto. unfold isnew in N. apply Z.ltb_lt in N. auto.
  - rewrite (oldsret_retired s O w Hw Od) in R. discriminate.
Qed.
