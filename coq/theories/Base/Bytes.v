(* Byte strings as lists of N (each < 256), sublist search and the facts the refill loops need. *)
From Coq Require Import List NArith Bool Lia Arith.
From GV Require Export Base.Enc.
Import ListNotations.

Fixpoint beq (a b : bytes) : bool :=
  match a, b with
  | [], [] => true
  | x :: a', y :: b' => N.eqb x y && beq a' b'
  | _, _ => false
  end.
Lemma beq_true a b : beq a b = true <-> a = b.
Proof.
  revert b; induction a as [|x a IH]; destruct b as [|y b]; cbn; try (split; congruence).
  rewrite andb_true_iff, N.eqb_eq, IH. split; [intros [-> ->]; reflexivity|intros [= -> ->]; auto].
Qed.
Lemma beq_refl a : beq a a = true. Proof. apply beq_true. reflexivity. Qed.
Lemma beq_false a b : beq a b = false <-> a <> b.
Proof. destruct (beq a b) eqn:E; split; try congruence.
  - apply beq_true in E. congruence.
  - intros _ H. apply beq_true in H. congruence. Qed.

Definition mem (c : N) (l : list N) : bool := existsb (N.eqb c) l.

Fixpoint prefixb (p s : bytes) : bool :=
  match p, s with
  | [], _ => true
  | x :: p', y :: s' => N.eqb x y && prefixb p' s'
  | _ :: _, [] => false
  end.

(* index of the first occurrence of [p] in [s]  (bytes.find) *)
Fixpoint find_pat (p s : bytes) : option nat :=
  if prefixb p s then Some 0 else
  match s with
  | [] => None
  | _ :: t => option_map S (find_pat p t)
  end.

Lemma prefixb_app_true p a b : prefixb p a = true -> prefixb p (a ++ b) = true.
Proof.
  revert a; induction p as [|x p IH]; intros a H; [reflexivity|].
  destruct a as [|y a]; [discriminate H|]. cbn in *. apply andb_prop in H as [H1 H2]. rewrite H1, (IH _ H2). reflexivity.
Qed.
Lemma prefixb_len p a : prefixb p a = true -> length p <= length a.
Proof.
  revert a; induction p as [|x p IH]; intros a H; cbn; [lia|].
  destruct a as [|y a]; [discriminate H|]. cbn in *. apply andb_prop in H as [_ H2]. specialize (IH _ H2). lia.
Qed.
Lemma prefixb_app_false p a b : prefixb p a = false -> length p <= length a -> prefixb p (a ++ b) = false.
Proof.
  revert a; induction p as [|x p IH]; intros a H Hl; [discriminate H|].
  destruct a as [|y a]; [cbn in Hl; lia|]. cbn in *. destruct (N.eqb x y); [|reflexivity]. cbn in *. apply IH; [exact H|lia].
Qed.
Lemma prefixb_spec p s : prefixb p s = true <-> exists t, s = p ++ t.
Proof.
  revert s; induction p as [|x p IH]; intros s; cbn.
  - split; [intros _; exists s; reflexivity|reflexivity].
  - destruct s as [|y s]; [split; [discriminate|intros [t H]; discriminate H]|].
    rewrite andb_true_iff, N.eqb_eq, IH. split.
    + intros [-> [t ->]]. exists t. reflexivity.
    + intros [t [= -> ->]]. split; [reflexivity|exists t; reflexivity].
Qed.

Lemma find_pat_bound p : forall s i, find_pat p s = Some i -> i + length p <= length s.
Proof.
  induction s as [|y s IH]; intros i H; cbn [find_pat] in H.
  - destruct (prefixb p []) eqn:E; [|discriminate H]. injection H as <-. apply prefixb_len in E. lia.
  - destruct (prefixb p (y :: s)) eqn:E.
    + injection H as <-. apply prefixb_len in E. lia.
    + destruct (find_pat p s) as [j|]; [|discriminate H]. injection H as <-. specialize (IH j eq_refl). cbn. lia.
Qed.

Lemma find_pat_stable p : forall a b i, find_pat p a = Some i -> find_pat p (a ++ b) = Some i.
Proof.
  induction a as [|y a IH]; intros b i H.
  - cbn [find_pat] in H. destruct (prefixb p []) eqn:E; [|discriminate H]. injection H as <-.
    destruct p; [|discriminate E]. destruct b; reflexivity.
  - cbn [find_pat app] in *. destruct (prefixb p (y :: a)) eqn:E.
    + injection H as <-. change (y :: a ++ b) with ((y :: a) ++ b). rewrite (prefixb_app_true _ _ _ E). reflexivity.
    + destruct (find_pat p a) as [j|] eqn:Ej; [|discriminate H]. injection H as <-.
      pose proof (find_pat_bound _ _ _ Ej) as Hb.
      change (y :: a ++ b) with ((y :: a) ++ b). rewrite (prefixb_app_false _ _ _ E) by (cbn; lia).
      rewrite (IH b j eq_refl). reflexivity.
Qed.

Lemma find_pat_late p : forall a b i, find_pat p a = None -> find_pat p (a ++ b) = Some i -> length a < i + length p.
Proof.
  induction a as [|y a IH]; intros b i Hn Hs.
  - cbn [find_pat] in Hn. destruct (prefixb p []) eqn:E; [discriminate Hn|]. destruct p; [discriminate E|]. cbn. lia.
  - cbn [find_pat app] in *. destruct (prefixb p (y :: a)) eqn:E; [discriminate Hn|].
    destruct (find_pat p a) as [j|] eqn:Ej; [discriminate Hn|].
    change (y :: a ++ b) with ((y :: a) ++ b) in Hs.
    destruct (prefixb p ((y :: a) ++ b)) eqn:E2.
    + injection Hs as <-. destruct (le_lt_dec (length p) (length (y :: a))) as [Hle|Hlt]; [|lia].
      rewrite (prefixb_app_false _ _ _ E Hle) in E2. discriminate.
    + destruct (find_pat p (a ++ b)) as [k|] eqn:Ek; [|discriminate Hs]. injection Hs as <-.
      specialize (IH b k eq_refl Ek). cbn. lia.
Qed.

Lemma find_pat_none_app p a b : find_pat p (a ++ b) = None -> find_pat p a = None.
Proof.
  intros H. destruct (find_pat p a) as [i|] eqn:E; [|reflexivity].
  rewrite (find_pat_stable _ _ b _ E) in H. discriminate.
Qed.

(* the match is really there, and it is the first *)
Lemma find_pat_sound p : forall s i, find_pat p s = Some i -> prefixb p (skipn i s) = true.
Proof.
  induction s as [|y s IH]; intros i H; cbn [find_pat] in H.
  - destruct (prefixb p []) eqn:E; [|discriminate H]. injection H as <-. exact E.
  - destruct (prefixb p (y :: s)) eqn:E; [injection H as <-; exact E|].
    destruct (find_pat p s) as [j|]; [|discriminate H]. injection H as <-. cbn. apply IH. reflexivity.
Qed.
Lemma find_pat_first p : forall s i j, find_pat p s = Some i -> j < i -> prefixb p (skipn j s) = false.
Proof.
  induction s as [|y s IH]; intros i j H Hj; cbn [find_pat] in H.
  - destruct (prefixb p []); [injection H as <-; lia|discriminate H].
  - destruct (prefixb p (y :: s)) eqn:E; [injection H as <-; lia|].
    destruct (find_pat p s) as [k|] eqn:Ek; [|discriminate H]. injection H as <-.
    destruct j as [|j]; [exact E|]. cbn. apply (IH k); [reflexivity|lia].
Qed.

Definition CR : N := 13. Definition LF : N := 10. Definition SP : N := 32. Definition HT : N := 9.
Definition CRLF : bytes := [13; 10]%N.
Definition CRLFCRLF : bytes := [13; 10; 13; 10]%N.

Definition blen (b : bytes) : N := N.of_nat (length b).

Lemma skipn_skipn {A} : forall a b (l : list A), skipn a (skipn b l) = skipn (a + b) l.
Proof.
  intros a b. revert a. induction b as [|b IH]; intros a l.
  - rewrite Nat.add_0_r. reflexivity.
  - destruct l as [|x l]; [rewrite !skipn_nil; reflexivity|]. rewrite Nat.add_succ_r. cbn [skipn]. apply IH.
Qed.
