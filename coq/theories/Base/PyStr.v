(* The str / bytes primitives of CPython that the request parser relies on, over latin-1 strings
   represented as byte lists (bytes_to_str is the identity on this representation).
   Validated against the regenerated per-character tables in Props (table lemmas by vm_compute). *)
From Coq Require Import List NArith ZArith Bool Lia Arith.
From GV Require Import Base.Bytes.
Import ListNotations.
Local Open Scope N_scope.

Definition is_ows (c : N) : bool := (c =? 32) || (c =? 9).           (* the set " \t" *)

Fixpoint lstrip (f : N -> bool) (l : bytes) : bytes :=
  match l with c :: t => if f c then lstrip f t else l | [] => [] end.
Definition rstrip (f : N -> bool) (l : bytes) : bytes := rev (lstrip f (rev l)).
Definition strip (f : N -> bool) (l : bytes) : bytes := rstrip f (lstrip f l).

(* bytes.split(sep) for a one-byte separator: all fields, at least one *)
Fixpoint split_aux (c : N) (cur : bytes) (l : bytes) : list bytes :=
  match l with
  | [] => [rev cur]
  | x :: t => if x =? c then rev cur :: split_aux c [] t else split_aux c (x :: cur) t
  end.
Definition split_char (c : N) (l : bytes) : list bytes := split_aux c [] l.

(* bytes.split(sep, n): at most n splits *)
Fixpoint splitn_aux (c : N) (n : nat) (cur : bytes) (l : bytes) : list bytes :=
  match n with
  | O => [rev cur ++ l]
  | S n' => match l with
            | [] => [rev cur]
            | x :: t => if x =? c then rev cur :: splitn_aux c n' [] t else splitn_aux c n (x :: cur) t
            end
  end.
Definition splitn (c : N) (n : nat) (l : bytes) : list bytes := splitn_aux c n [] l.

(* data.split(b"\r\n") *)
Fixpoint split_crlf_aux (cur : bytes) (l : bytes) : list bytes :=
  match l with
  | [] => [rev cur]
  | x :: t => match t with
              | y :: t' => if (x =? 13) && (y =? 10) then rev cur :: split_crlf_aux [] t'
                           else split_crlf_aux (x :: cur) t
              | [] => [rev (x :: cur)]
              end
  end.
Definition split_crlf (l : bytes) : list bytes := split_crlf_aux [] l.

Fixpoint find_char (c : N) (l : bytes) : option nat :=
  match l with [] => None | x :: t => if x =? c then Some 0%nat else option_map S (find_char c t) end.

(* str.lower() / str.upper() per latin-1 character (upper: only used on ASCII tokens) *)
Definition lower1 (b : N) : N :=
  if (65 <=? b) && (b <=? 90) then b + 32
  else if (192 <=? b) && (b <=? 222) && negb (b =? 215) then b + 32 else b.
Definition lower (l : bytes) : bytes := map lower1 l.
Definition upper1_ascii (b : N) : N := if (97 <=? b) && (b <=? 122) then b - 32 else b.
Definition upper_ascii (l : bytes) : bytes := map upper1_ascii l.

Definition is_digit (c : N) : bool := (48 <=? c) && (c <=? 57).
Definition is_hexdigit (c : N) : bool :=
  ((48 <=? c) && (c <=? 57)) || ((65 <=? c) && (c <=? 70)) || ((97 <=? c) && (c <=? 102)).
Definition hexval (c : N) : N :=
  if c <=? 57 then c - 48 else if c <=? 70 then c - 55 else c - 87.
Definition hex_value (l : bytes) : N := fold_left (fun a c => a * 16 + hexval c) l 0.
Definition dec_value (l : bytes) : N := fold_left (fun a c => a * 10 + (c - 48)) l 0.

(* str.isnumeric() on latin-1: the ASCII digits and  ² ³ ¹ ¼ ½ ¾ *)
Definition is_numeric_char (c : N) : bool :=
  is_digit c || (c =? 178) || (c =? 179) || (c =? 185) || (c =? 188) || (c =? 189) || (c =? 190).

(* default str.strip(): Unicode whitespace within latin-1 *)
Definition is_py_space (c : N) : bool :=
  ((9 <=? c) && (c <=? 13)) || ((28 <=? c) && (c <=? 32)) || (c =? 133) || (c =? 160).

Definition bytes_of_string_lit (l : list N) : bytes := l.

(* ---- facts ---- *)
Lemma split_aux_nonempty c : forall l cur, split_aux c cur l <> [].
Proof. induction l as [|x t IH]; intros cur; cbn; [discriminate|]. destruct (x =? c); [discriminate|apply IH]. Qed.

Lemma lstrip_app_nostrip f : forall a b, (forall c, In c a -> f c = true) -> lstrip f (a ++ b) = lstrip f b.
Proof. induction a as [|x a IH]; intros b H; cbn; [reflexivity|]. rewrite (H x (or_introl eq_refl)). apply IH. intros c Hc. apply H. right. exact Hc. Qed.

Lemma lstrip_idem f l : lstrip f (lstrip f l) = lstrip f l.
Proof. induction l as [|x t IH]; cbn; [reflexivity|]. destruct (f x) eqn:E; [exact IH|]. cbn. rewrite E. reflexivity. Qed.

Lemma lstrip_head f l : match lstrip f l with c :: _ => f c = false | [] => True end.
Proof. induction l as [|x t IH]; cbn; [exact I|]. destruct (f x) eqn:E; [exact IH|exact E]. Qed.

(* ---- int(str) on a latin-1 decoded string: [ws]* [+-]? digit ('_'? digit)* [ws]*  ------------ *)
Fixpoint digits_us (a : N) (prev_us : bool) (l : bytes) : option N :=
  match l with
  | [] => if prev_us then None else Some a
  | c :: t => if is_digit c then digits_us (a * 10 + (c - 48)) false t
              else if (c =? 95) && negb prev_us then digits_us a true t else None
  end.
Definition py_nat (l : bytes) : option N :=
  match l with
  | c :: _ => if is_digit c then digits_us 0 false l else None
  | [] => None
  end.
(* int() strips TAB LF VT FF CR SP NEL NBSP - not FS GS RS US *)
Definition is_int_space (c : N) : bool :=
  ((9 <=? c) && (c <=? 13)) || (c =? 32) || (c =? 133) || (c =? 160).
Definition py_int_l1 (l : bytes) : option Z :=
  match strip is_int_space l with
  | [] => None
  | c :: t => if c =? 43 then option_map Z.of_N (py_nat t)
              else if c =? 45 then option_map (fun n => Z.opp (Z.of_N n)) (py_nat t)
              else option_map Z.of_N (py_nat (c :: t))
  end.
