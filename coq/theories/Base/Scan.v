(* The one refill loop of the parser: "look for a delimiter in the accumulated buffer, else test the
   size cap, else pull the next read" - and the lemma that its outcome depends only on the
   concatenation of what is buffered and what is still to come (segmentation independence). *)
From Coq Require Import List NArith Bool Lia Arith.
From GV Require Import Base.Bytes.
Import ListNotations.

Definition unreader := list bytes.           (* successive results of Unreader.read(); all non-empty *)
Definition u_abs (p : unreader) : bytes := concat p.
Definition u_read (p : unreader) : bytes * unreader :=
  match p with [] => ([], []) | c :: t => (c, t) end.
Definition u_unread (d : bytes) (p : unreader) : unreader :=
  match d with [] => p | _ => d :: p end.
Lemma u_unread_abs d p : u_abs (u_unread d p) = d ++ u_abs p.
Proof. destruct d; reflexivity. Qed.

Section Scan.
  Variable find : bytes -> option nat.
  Variable over : nat -> bool.

  Inductive scan_res :=
  | SFound (i : nat) (data : bytes) (p : unreader)
  | SOver
  | SEof (data : bytes).

  Fixpoint scan (data : bytes) (p : unreader) : scan_res :=
    match find data with
    | Some i => SFound i data p
    | None => if over (length data) then SOver else
              match p with
              | [] => SEof data
              | c :: t => scan (data ++ c) t
              end
    end.

  (* what a reader of the whole stream would conclude *)
  Inductive abs_res := AFound (i : nat) | AOver | AEof.
  Definition abs_scan (post : nat -> bool) (s : bytes) : abs_res :=
    match find s with
    | Some i => if post i then AOver else AFound i
    | None => if over (length s) then AOver else AEof
    end.
  Definition res_abs (post : nat -> bool) (r : scan_res) : abs_res :=
    match r with
    | SFound i _ _ => if post i then AOver else AFound i
    | SOver => AOver
    | SEof _ => AEof
    end.

  Variable width : nat.
  Variable post : nat -> bool.
  Hypothesis find_stable : forall a b i, find a = Some i -> find (a ++ b) = Some i.
  Hypothesis find_late : forall a b i, find a = None -> find (a ++ b) = Some i -> length a < i + width.
  Hypothesis over_mono : forall n m, n <= m -> over n = true -> over m = true.
  Hypothesis early_fire : forall n i, n < i + width -> over n = true -> post i = true.

  Theorem scan_refines : forall p data, res_abs post (scan data p) = abs_scan post (data ++ concat p).
  Proof.
    induction p as [|c p IH]; intros data; cbn [scan concat].
    - rewrite app_nil_r. unfold abs_scan. destruct (find data); [reflexivity|]. destruct (over (length data)); reflexivity.
    - destruct (find data) as [i|] eqn:Hf.
      + unfold abs_scan. rewrite (find_stable _ (c ++ concat p) _ Hf). reflexivity.
      + destruct (over (length data)) eqn:Ho.
        * unfold abs_scan. cbn [res_abs].
          destruct (find (data ++ c ++ concat p)) as [i|] eqn:Hs.
          -- rewrite (early_fire (length data) i); [reflexivity| |exact Ho]. eapply find_late; eassumption.
          -- rewrite (over_mono (length data)); [reflexivity| |exact Ho]. rewrite app_length. lia.
        * rewrite IH, <- app_assoc. reflexivity.
  Qed.

  (* the data returned with a find is the stream cut at a read boundary: data ++ concat p' = whole *)
  Lemma scan_found_abs : forall p data i d p', scan data p = SFound i d p' -> d ++ concat p' = data ++ concat p /\ find d = Some i.
  Proof.
    induction p as [|c p IH]; intros data i d p' H; cbn [scan] in H.
    - destruct (find data) eqn:E; [injection H as <- <- <-; auto|]. destruct (over (length data)); discriminate.
    - destruct (find data) eqn:E; [injection H as <- <- <-; auto|]. destruct (over (length data)); [discriminate|].
      apply IH in H as [H1 H2]. rewrite H1, <- app_assoc. auto.
  Qed.

  (* bounded buffering: while no delimiter has been seen and the cap has not fired, what is held
     never exceeds cap + the size of the last read *)
  Lemma scan_eof_abs : forall p data d, scan data p = SEof d -> d = data ++ concat p /\ find d = None /\ over (length d) = false.
  Proof.
    induction p as [|c p IH]; intros data d H; cbn [scan] in H.
    - destruct (find data) eqn:E; [discriminate|]. destruct (over (length data)) eqn:Eo; [discriminate|].
      injection H as <-. cbn. rewrite app_nil_r. repeat split; assumption.
    - destruct (find data) eqn:E; [discriminate|]. destruct (over (length data)); [discriminate|].
      apply IH in H as (H1 & H2 & H3). rewrite <- app_assoc in H1. repeat split; assumption.
  Qed.
End Scan.

(* ---- canonical (segmentation-free) view of a scan result ------------------------------------- *)
Definition NE (p : unreader) : Prop := Forall (fun c => c <> []) p.
Lemma NE_tl c p : NE (c :: p) -> NE p. Proof. intros H; inversion H; assumption. Qed.
Lemma NE_unread d p : NE p -> NE (u_unread d p).
Proof. intros H. destruct d; [exact H|]. constructor; [discriminate|exact H]. Qed.
Lemma NE_nil_abs p : NE p -> u_abs p = [] -> p = [].
Proof. destruct p as [|c t]; [reflexivity|]. intros H E. inversion H; subst. cbn in E. destruct c; [congruence|discriminate]. Qed.

Section Canon.
  Variable find : bytes -> option nat.
  Variable over : nat -> bool.
  Variable width : nat.        (* delimiter width for the late-find bound *)
  Variable wb : nat.           (* bytes of the delimiter guaranteed to be inside the buffer, wb <= width *)
  Variable post : nat -> bool.
  Hypothesis find_stable : forall a b i, find a = Some i -> find (a ++ b) = Some i.
  Hypothesis find_late : forall a b i, find a = None -> find (a ++ b) = Some i -> length a < i + width.
  Hypothesis find_bound : forall a i, find a = Some i -> i + wb <= length a.
  Hypothesis over_mono : forall n m, n <= m -> over n = true -> over m = true.
  Hypothesis early_fire : forall n i, n < i + width -> over n = true -> post i = true.

  (* what the callers use of a successful scan: the bytes up to and including the delimiter, and
     everything after it (buffered or still to come) *)
  Inductive cut := CFound (i : nat) (pre : bytes) (rest : bytes) | COver | CEof.
  Definition canon (r : scan_res) : cut :=
    match r with
    | SFound i d p' => if post i then COver else CFound i (firstn (i + wb) d) (skipn (i + wb) d ++ concat p')
    | SOver => COver
    | SEof _ => CEof
    end.
  Definition abs_cut (s : bytes) : cut :=
    match find s with
    | Some i => if post i then COver else CFound i (firstn (i + wb) s) (skipn (i + wb) s)
    | None => if over (length s) then COver else CEof
    end.

  Theorem scan_canon : forall p data, canon (scan find over data p) = abs_cut (data ++ concat p).
  Proof.
    intros p data.
    pose proof (scan_refines find over width post find_stable find_late over_mono early_fire p data) as Hr.
    destruct (scan find over data p) as [i d p'| |d] eqn:Es.
    - destruct (scan_found_abs find over _ _ _ _ _ Es) as [Hd Hf].
      cbn [canon res_abs] in *. unfold abs_cut, abs_scan in *. rewrite <- Hd in *.
      rewrite (find_stable _ (concat p') _ Hf) in *.
      destruct (post i); [reflexivity|].
      pose proof (find_bound _ _ Hf) as Hb.
      rewrite firstn_app, skipn_app.
      replace (i + wb - length d) with 0 by lia. cbn [firstn skipn]. rewrite app_nil_r. reflexivity.
    - cbn [canon res_abs] in *. unfold abs_cut, abs_scan in *.
      destruct (find (data ++ concat p)); [destruct (post n); [reflexivity|discriminate]|].
      destruct (over _); [reflexivity|discriminate].
    - cbn [canon res_abs] in *. unfold abs_cut, abs_scan in *.
      destruct (find (data ++ concat p)); [destruct (post n); discriminate|].
      destruct (over _); [discriminate|reflexivity].
  Qed.

  Lemma scan_found_NE : forall p data i d p', NE p -> scan find over data p = SFound i d p' -> NE p'.
  Proof.
    induction p as [|c p IH]; intros data i d p' Hne H; cbn [scan] in H.
    - destruct (find data); [injection H as <- <- <-; exact Hne|]. destruct (over _); discriminate.
    - destruct (find data); [injection H as <- <- <-; exact Hne|]. destruct (over _); [discriminate|].
      eapply IH; [eapply NE_tl; exact Hne|exact H].
  Qed.
End Canon.
