(* Decimal text of a number ("%s" % n / str(n)) and a model of Python's int(str) on ASCII text,
   with the round trip  py_int (dec n) = Some n  for every n. *)
From Coq Require Import List NArith ZArith Lia Bool Arith.
Import ListNotations.
Local Open Scope N_scope.

Definition digit_char (d : N) : N := 48 + d.
Definition is_digit (c : N) : bool := (48 <=? c) && (c <=? 57).

Fixpoint dec_aux (fuel : nat) (n : N) (acc : list N) : list N :=
  match fuel with
  | O => digit_char (n mod 10) :: acc
  | S f => if n <? 10 then digit_char n :: acc else dec_aux f (n / 10) (digit_char (n mod 10) :: acc)
  end.
(* N.size n >= number of decimal digits *)
Definition dec (n : N) : list N := dec_aux (N.to_nat (N.size n)) n [].

Fixpoint digits_from (a : N) (l : list N) : option N :=
  match l with
  | [] => Some a
  | c :: t => if is_digit c then digits_from (a * 10 + (c - 48)) t else None
  end.
Definition parse_digits (l : list N) : option N := match l with [] => None | _ => digits_from 0 l end.

Lemma is_digit_char d : d < 10 -> is_digit (digit_char d) = true /\ digit_char d - 48 = d.
Proof. intros H. unfold is_digit, digit_char. split; [apply andb_true_intro; split; apply N.leb_le; lia | lia]. Qed.

Lemma size_div10 n : 10 <= n -> (N.to_nat (N.size (n / 10)) < N.to_nat (N.size n))%nat.
Proof.
  intros H. assert (Hs : N.size (n / 10) < N.size n).
  { rewrite (N.size_log2 n) by lia.
    destruct (N.eq_dec (n / 10) 0) as [E|E].
    - rewrite E. cbn. lia.
    - rewrite (N.size_log2 (n / 10)) by exact E. apply -> N.succ_lt_mono.
      assert (Hle : n / 10 <= n / 2).
      { apply N.div_le_compat_l. lia. }
      assert (Hlog : N.log2 (n / 10) <= N.log2 (n / 2)) by (apply N.log2_le_mono; exact Hle).
      assert (Hhalf : N.log2 (n / 2) < N.log2 n).
      { change 2 with (2 ^ 1). rewrite <- N.shiftr_div_pow2, N.log2_shiftr.
        assert (1 <= N.log2 n) by (change 1 with (N.log2 2); apply N.log2_le_mono; lia). lia. }
      lia. }
  lia.
Qed.

Lemma dec_aux_spec : forall fuel n acc a,
    (N.to_nat (N.size n) <= fuel)%nat ->
    exists k, digits_from a (dec_aux fuel n acc) = digits_from (a * 10 ^ k + n) acc.
Proof.
  induction fuel as [|f IH]; intros n acc a Hf.
  - assert (n = 0) by (destruct n; [reflexivity|cbn in Hf; lia]). subst. exists 1. cbn. f_equal; lia.
  - cbn [dec_aux]. destruct (n <? 10) eqn:E.
    + apply N.ltb_lt in E. exists 1. cbn [digits_from].
      destruct (is_digit_char n E) as [H1 H2]. rewrite H1, H2. f_equal; lia.
    + apply N.ltb_ge in E. pose proof (size_div10 n E) as Hsz.
      destruct (IH (n / 10) (digit_char (n mod 10) :: acc) a ltac:(lia)) as [k Hk].
      exists (N.succ k). rewrite Hk. cbn [digits_from].
      assert (Hm : n mod 10 < 10) by (apply N.mod_lt; lia).
      destruct (is_digit_char _ Hm) as [H1 H2]. rewrite H1, H2.
      f_equal. rewrite N.pow_succ_r'. pose proof (N.div_mod' n 10). nia.
Qed.

Lemma dec_aux_nonempty : forall fuel n acc, dec_aux fuel n acc <> [].
Proof.
  induction fuel as [|f IH]; intros n acc; cbn; [discriminate|].
  destruct (n <? 10); [discriminate|apply IH].
Qed.

Theorem dec_roundtrip : forall n, parse_digits (dec n) = Some n.
Proof.
  intros n. unfold parse_digits, dec.
  destruct (dec_aux_spec (N.to_nat (N.size n)) n [] 0 (le_n _)) as [k Hk].
  destruct (dec_aux _ n []) eqn:E.
  - exfalso. eapply dec_aux_nonempty. exact E.
  - rewrite Hk. cbn. f_equal; lia.
Qed.

Lemma dec_aux_all_digits : forall fuel n acc, forallb is_digit acc = true -> forallb is_digit (dec_aux fuel n acc) = true.
Proof.
  induction fuel as [|f IH]; intros n acc H; cbn [dec_aux].
  - cbn [forallb]. rewrite H. assert (Hm : n mod 10 < 10) by (apply N.mod_lt; lia).
    destruct (is_digit_char (n mod 10) Hm) as [-> _]. reflexivity.
  - destruct (n <? 10) eqn:E.
    + apply N.ltb_lt in E. cbn [forallb]. destruct (is_digit_char n E) as [-> _]. exact H.
    + apply IH. cbn [forallb]. assert (Hm : n mod 10 < 10) by (apply N.mod_lt; lia).
      destruct (is_digit_char (n mod 10) Hm) as [-> _]. exact H.
Qed.
Lemma dec_all_digits n : forallb is_digit (dec n) = true.
Proof. apply dec_aux_all_digits. reflexivity. Qed.

(* ---- Python int(text) on ASCII text: [ws]* [+-]? digit ('_'? digit)* [ws]* ------------------ *)
(* the characters int() strips: TAB LF VT FF CR SP (not FS GS RS US, although str.isspace holds for them) *)
Definition is_py_space (c : N) : bool :=
  ((9 <=? c) && (c <=? 13)) || (c =? 32).
Fixpoint lstrip_ws (l : list N) : list N :=
  match l with c :: t => if is_py_space c then lstrip_ws t else l | [] => [] end.
Definition strip_ws (l : list N) : list N := rev (lstrip_ws (rev (lstrip_ws l))).

(* digits with single underscores between digits *)
Fixpoint digits_us (a : N) (prev_us : bool) (l : list N) : option N :=
  match l with
  | [] => if prev_us then None else Some a
  | c :: t => if is_digit c then digits_us (a * 10 + (c - 48)) false t
              else if (c =? 95) && negb prev_us then digits_us a true t else None
  end.
Definition py_nat (l : list N) : option N :=
  match l with
  | c :: _ => if is_digit c then digits_us 0 false l else None
  | [] => None
  end.
Definition py_int (l : list N) : option Z :=
  if existsb (fun c => 128 <=? c) l then None else
  match strip_ws l with
  | [] => None
  | c :: t => if c =? 43 then option_map Z.of_N (py_nat t)
              else if c =? 45 then option_map (fun n => Z.opp (Z.of_N n)) (py_nat t)
              else option_map Z.of_N (py_nat (c :: t))
  end.

Lemma digits_us_digits : forall l a, forallb is_digit l = true -> digits_us a false l = digits_from a l.
Proof.
  induction l as [|c t IH]; intros a H; cbn in *; [reflexivity|].
  apply andb_prop in H as [Hc Ht]. rewrite Hc. apply IH. exact Ht.
Qed.

Lemma lstrip_ws_nospace l : (match l with c :: _ => is_py_space c = false | [] => True end) -> lstrip_ws l = l.
Proof. destruct l as [|c t]; cbn; [reflexivity|]. intros ->. reflexivity. Qed.

Lemma digit_not_space c : is_digit c = true -> is_py_space c = false.
Proof. unfold is_digit, is_py_space. intros H. apply andb_prop in H as [H1 H2]. apply N.leb_le in H1, H2.
  apply orb_false_intro; [apply andb_false_intro2; apply N.leb_gt; lia|apply N.eqb_neq; lia]. Qed.

Lemma digit_lt128 c : is_digit c = true -> (128 <=? c) = false.
Proof. unfold is_digit. intros H. apply andb_prop in H as [H1 H2]. apply N.leb_le in H1, H2. apply N.leb_gt. lia. Qed.

Lemma existsb_digits_128 l : forallb is_digit l = true -> existsb (fun c => 128 <=? c) l = false.
Proof. induction l as [|c t IH]; cbn; [reflexivity|]. intros H. apply andb_prop in H as [Hc Ht].
  rewrite (digit_lt128 c Hc), (IH Ht). reflexivity. Qed.

Lemma forallb_rev {A} (f : A -> bool) l : forallb f (rev l) = forallb f l.
Proof. induction l as [|x t IH]; cbn; [reflexivity|]. rewrite forallb_app, IH. cbn. rewrite andb_true_r. apply andb_comm. Qed.

Lemma lstrip_digits l : forallb is_digit l = true -> lstrip_ws l = l.
Proof. destruct l as [|c t]; cbn; [reflexivity|]. intros H. apply andb_prop in H as [Hc _].
  rewrite (digit_not_space c Hc). reflexivity. Qed.

(* the text written by Pidfile.create:  "%s\n" % pid  *)
Theorem py_int_dec_nl : forall n, py_int (dec n ++ [10]) = Some (Z.of_N n).
Proof.
  intros n. unfold py_int.
  pose proof (dec_all_digits n) as Hd.
  assert (Hex : existsb (fun c => 128 <=? c) (dec n ++ [10]) = false).
  { rewrite existsb_app, (existsb_digits_128 _ Hd). reflexivity. }
  rewrite Hex.
  assert (Hs : strip_ws (dec n ++ [10]) = dec n).
  { unfold strip_ws.
    assert (H1 : lstrip_ws (dec n ++ [10]) = dec n ++ [10]).
    { destruct (dec n) as [|c t] eqn:E; [exfalso; eapply dec_aux_nonempty; exact E|].
      cbn in Hd. apply andb_prop in Hd as [Hc _]. cbn. rewrite (digit_not_space c Hc). reflexivity. }
    rewrite H1, rev_app_distr. cbn [rev app lstrip_ws].
    change (is_py_space 10) with true. cbn iota.
    rewrite lstrip_digits by (rewrite forallb_rev; exact Hd). apply rev_involutive. }
  rewrite Hs.
  pose proof (dec_roundtrip n) as Hr. unfold parse_digits in Hr.
  destruct (dec n) as [|c t] eqn:E; [discriminate Hr|].
  pose proof Hd as Hd'. cbn [forallb] in Hd'. apply andb_prop in Hd' as [Hc Ht].
  assert (c =? 43 = false /\ c =? 45 = false) as [-> ->].
  { unfold is_digit in Hc. apply andb_prop in Hc as [H1 H2]. apply N.leb_le in H1, H2. split; apply N.eqb_neq; lia. }
  unfold py_nat. rewrite Hc. rewrite digits_us_digits by exact Hd. rewrite Hr. reflexivity.
Qed.
