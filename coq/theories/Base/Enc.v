(* Canonical flat encoding of observations: every model exposes its observable behaviour as a
   [list Z]; harness/vlib.py has the mirror-image encoders for the implementation side. *)
From Coq Require Import List ZArith NArith.
Import ListNotations.

Notation bytes := (list N).

Definition enc_bool (b : bool) : list Z := [if b then 1%Z else 0%Z].
Definition enc_N (n : N) : list Z := [Z.of_N n].
Definition enc_nat (n : nat) : list Z := [Z.of_nat n].
Definition enc_Z (z : Z) : list Z := [z].
Definition enc_bytes (l : bytes) : list Z := Z.of_nat (length l) :: map Z.of_N l.
Definition enc_list {A} (f : A -> list Z) (l : list A) : list Z := Z.of_nat (length l) :: flat_map f l.
Definition enc_opt {A} (f : A -> list Z) (o : option A) : list Z :=
  match o with None => [0%Z] | Some x => 1%Z :: f x end.
Definition enc_pair {A B} (f : A -> list Z) (g : B -> list Z) (p : A * B) : list Z := f (fst p) ++ g (snd p).
