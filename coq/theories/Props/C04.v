(* C04 - graceful shutdown completes in-flight requests and leaves nothing behind.
   Statements only; every proof is `exact` of a lemma of Proof/Shutdown*.v (or a computation on a regenerated table). *)
From Coq Require Import List ZArith Bool Lia.
From GV Require Import Gen.GenArbiter Gen.GenShutdown Model.Shutdown Proof.ShutdownBase Proof.ShutdownMaster Proof.ShutdownWorker Proof.ShutdownTerm Proof.ShutdownStatus.
Import ListNotations.
Local Open Scope Z_scope.

(* ---- facts about the tree under test, by computation on the regenerated tables ------------------------------------- *)
(* SIGTERM reaches Worker.handle_exit, which only clears `alive`, in every worker class, without interrupting system
   calls; gthread / gevent / eventlet wait for the requests in flight for cfg.graceful_timeout *)
Lemma worker_tables : tables_ok.
Proof. unfold tables_ok. vm_compute. repeat split; reflexivity. Qed.
Lemma quit_table : worker_handler_quit = 2 /\ worker_handler_int = 2 /\ quit_exit_code = 0.
Proof. vm_compute. repeat split; reflexivity. Qed.
Lemma loops_test_alive : sync_loops_on_alive && gthread_loops_on_alive && gevent_loops_on_alive && eventlet_loops_on_alive = true.
Proof. vm_compute. reflexivity. Qed.
Lemma master_tables : master_limit_graceful = true /\ 0 < stop_nap_ticks.
Proof. vm_compute. split; reflexivity. Qed.

(* ---- the master --------------------------------------------------------------------------------------------------- *)
(* TERM: for every schedule of child deaths (ANY status), SIGCHLD deliveries and delays, if the master exits then it exits
   with status 0, no later than graceful_timeout + one nap + the delays, no tracked worker process is left running, every
   listener is closed, the pid file is gone, and the unix socket files are gone when this master owns them alone.
   [boot_scope ls]: on a tree whose reap_workers tests `not self._stopping` (reap_guards_halting = true, read from the
   source) only the part of the schedule BEFORE the dispatch must be free of boot failures (exit codes 3 / 4: such a
   failure came first and its code is the exit status, C03); one reaped while the master stops is an ordinary death.  On a
   tree without the test the whole schedule must be free of them (boot_failure_during_stop below). *)
Theorem graceful_end_state : forall c s0 ls status,
  cur s0 = PDispatch SIGTERM -> 0 <= grace c ->
  NoDup (map k_pid (kids s0)) -> covered s0 -> no_boot_failure s0 (boot_scope ls) ->
  let s := run c s0 ls in
  cur s = PExited status ->
  status = 0 /\
  wall s <= wall s0 + (grace c + stop_nap_ticks) + (slack s - slack s0) /\
  (forall k, In k (kids s) -> worker_running k = false) /\
  lst s = [] /\ closed s = closed s0 ++ map l_id (lst s0) /\
  (pidconf c = true -> pidfs s = false) /\
  (reexec s0 = 0 -> mpid s0 = 0 -> systemd c = false -> reuse c = false ->
     forall l, In l (lst s0) -> l_unix l = true -> ~ In (l_id l) (sockfs s)).
Proof.
  intros c s0 ls status E Hg N C B s X.
  assert (Hn : 0 <= nap) by (unfold nap; destruct master_tables; lia).
  destruct (shutdown_exit_status c s0 SIGTERM ls E eq_refl B) as [_ St].
  pose proof (exit_time c s0 SIGTERM ls status E Hg Hn X) as T. rewrite Z.eqb_refl in T.
  destruct (end_state_files c s0 SIGTERM ls status E Hg Hn X) as [F1 [F2 [F3 [F4 _]]]].
  split; [apply St; exact X|]. split; [unfold nap in T; fold s in T; lia|].
  split; [exact (no_worker_left c s0 SIGTERM ls status E N C X)|]. auto.
Qed.
Print Assumptions graceful_end_state.

(* INT / QUIT: the same end state; the wait is bounded by twice (graceful_timeout + nap): stop(False), then halt() *)
Theorem quick_shutdown : forall c s0 sg ls status,
  cur s0 = PDispatch sg -> sg = SIGINT \/ sg = SIGQUIT -> 0 <= grace c ->
  NoDup (map k_pid (kids s0)) -> covered s0 -> no_boot_failure s0 (boot_scope ls) ->
  let s := run c s0 ls in
  cur s = PExited status ->
  status = 0 /\
  wall s <= wall s0 + 2 * (grace c + stop_nap_ticks) + (slack s - slack s0) /\
  (forall k, In k (kids s) -> worker_running k = false) /\
  lst s = [] /\ closed s = closed s0 ++ map l_id (lst s0) /\
  (pidconf c = true -> pidfs s = false) /\
  (reexec s0 = 0 -> mpid s0 = 0 -> systemd c = false -> reuse c = false ->
     forall l, In l (lst s0) -> l_unix l = true -> ~ In (l_id l) (sockfs s)).
Proof.
  intros c s0 sg ls status E Sg Hg N C B s X.
  assert (Hn : 0 <= nap) by (unfold nap; destruct master_tables; lia).
  assert (Ss : stop_signal sg = true) by (destruct Sg; subst sg; vm_compute; reflexivity).
  destruct (shutdown_exit_status c s0 sg ls E Ss B) as [_ St].
  pose proof (exit_time c s0 sg ls status E Hg Hn X) as T.
  assert (Q : (sg =? SIGTERM) = false) by (destruct Sg; subst sg; vm_compute; reflexivity). rewrite Q in T.
  destruct (end_state_files c s0 sg ls status E Hg Hn X) as [F1 [F2 [F3 [F4 _]]]].
  split; [apply St; exact X|]. split; [unfold nap in T; fold s in T; lia|].
  split; [exact (no_worker_left c s0 sg ls status E N C X)|]. auto.
Qed.
Print Assumptions quick_shutdown.

(* the master does exit: whatever the environment does, a bounded number of its own steps ends it - with status 0 *)
Theorem master_exits : forall c s0 sg ls,
  cur s0 = PDispatch sg -> stop_signal sg = true -> 0 <= grace c -> no_boot_failure s0 (boot_scope ls) ->
  mu_st c s0 <= Z.of_nat (count_master ls) ->
  cur (run c s0 ls) = PExited 0.
Proof.
  intros c s0 sg ls E S Hg B M.
  destruct master_tables as [_ Hn].
  pose proof (shutdown_terminates c Hn s0 sg ls E S M) as G.
  destruct (shutdown_exit_status c s0 sg ls E S B) as [NC St].
  destruct (cur (run c s0 ls)) eqn:X; simpl in G; try discriminate.
  - rewrite (St status eq_refl). reflexivity.
  - exfalso. apply NC. reflexivity.
Qed.
Print Assumptions master_exits.

(* once the signal is dispatched nothing that is reaped changes the outcome (tree with the guard): for EVERY continuation,
   boot failures included, no exception leaves run() and an exit has status 0 - and then end_state_files / the theorems
   above give the pid file, the listeners and the socket files *)
Theorem dispatched_shutdown_exits_0 : reap_guards_halting = true -> forall c s0 sg ls,
  cur s0 = PDispatch sg -> stop_signal sg = true ->
  let s := run c s0 (Master :: ls) in
  cur s <> PCrashed /\ (forall status, cur s = PExited status -> status = 0).
Proof. exact dispatched_exit_status. Qed.
Print Assumptions dispatched_shutdown_exits_0.

(* whatever the status of the exit (0, or the code of a boot failure that came before the dispatch): the pid file is
   removed, the listeners are closed - no hypothesis on what dies *)
Theorem every_exit_removes_pidfile : forall c s0 sg ls status,
  cur s0 = PDispatch sg -> 0 <= grace c ->
  cur (run c s0 ls) = PExited status ->
  lst (run c s0 ls) = [] /\ (pidconf c = true -> pidfs (run c s0 ls) = false).
Proof.
  intros c s0 sg ls status E Hg X.
  assert (Hn : 0 <= nap) by (unfold nap; destruct master_tables; lia).
  destruct (end_state_files c s0 sg ls status E Hg Hn X) as [F1 [_ [F3 _]]]. split; assumption.
Qed.

(* a boot failure reaped while the master stops (the former known finding boot-failure-during-halt).  The constant read
   from reap_workers / stop() selects the reading that describes the tree under test:
   repaired tree (true): from every state, for every schedule, no exception leaves run();
   tree before the repair (false): TERM, then a worker exiting with code 3 is reaped in stop()'s wait: HaltServer escapes,
   the master dies with the pid file in place. *)
Theorem boot_failure_during_stop :
  if reap_guards_halting
  then forall c ls s, cur s <> PCrashed -> cur (run c s ls) <> PCrashed
  else cur w_s0 = PDispatch SIGTERM /\ cur (run w_cfg w_s0 w_ls) = PCrashed /\ pidfs (run w_cfg w_s0 w_ls) = true.
Proof. exact halt_reentry. Qed.
Print Assumptions boot_failure_during_stop.

(* a master that is one side of a binary upgrade, or runs under systemd / with reuse_port, leaves the socket files *)
Theorem shared_sockets_stay : forall c s0 sg ls status,
  cur s0 = PDispatch sg -> 0 <= grace c ->
  mpid s0 <> 0 \/ systemd c = true \/ reuse c = true ->
  cur (run c s0 ls) = PExited status -> sockfs (run c s0 ls) = sockfs s0.
Proof.
  intros c s0 sg ls status E Hg H X.
  assert (Hn : 0 <= nap) by (unfold nap; destruct master_tables; lia).
  destruct (end_state_files c s0 sg ls status E Hg Hn X) as [_ [_ [_ [_ F]]]]. exact (F H).
Qed.

(* SIGKILL is never sent before graceful_timeout has passed since the signal was dispatched *)
Theorem kill_waits_for_limit : forall c s0 sg ls p l k,
  cur s0 = PDispatch sg -> 0 <= grace c ->
  cur (run c s0 ls) = PKill (p :: l) SIGKILL k ->
  wall s0 + grace c <= wall (run c s0 ls).
Proof.
  intros c s0 sg ls p l k E Hg X.
  assert (Hn : 0 <= nap) by (unfold nap; destruct master_tables; lia).
  exact (kill_not_before_limit c s0 sg ls p l k E Hg Hn X).
Qed.
Print Assumptions kill_waits_for_limit.

(* ---- the workers ------------------------------------------------------------------------------------------------ *)
(* dl is the master's limit (start of stop() + graceful_timeout).  A request that a worker of any class has started is
   not lost before dl, whatever the order of TERM, loop iterations, client data, time and the final SIGKILL ... *)
Theorem started_request_not_abandoned : forall g dl cl ph need keep clk es, 0 <= g -> 0 < need ->
  started (w_init cl ph need keep clk) = true ->
  admissible g dl (w_init cl ph need keep clk) es ->
  let w' := wrun g (w_init cl ph need keep clk) es in
  w_conn w' = CLost -> dl <= w_clk w'.
Proof. exact (no_early_loss worker_tables). Qed.
Print Assumptions started_request_not_abandoned.

(* ... and once the application and the writes have had the time they need, the response is complete *)
Theorem started_requests_complete : forall g dl es w, 0 <= g ->
  Safe g dl w -> active (w_conn w) = true -> admissible g dl w es ->
  let w' := wrun g w es in
  w_need w + w_clk w <= w_clk w' -> w_clk w' < dl -> w_conn w' = CDone.
Proof. exact (ShutdownWorker.started_requests_complete worker_tables). Qed.
Print Assumptions started_requests_complete.

Theorem half_received_requests_complete : forall g dl es w, 0 <= g ->
  Safe g dl w -> (w_conn w = CHead \/ (w_conn w = CIdle /\ w_cls w = Sync)) -> w_mode w <> Gone ->
  admissible g dl w (WClient :: es) ->
  let w1 := wstep g w WClient in
  let w' := wrun g w1 es in
  w_conn w1 = CApp /\ (w_need w1 + w_clk w1 <= w_clk w' -> w_clk w' < dl -> w_conn w' = CDone).
Proof. exact (head_requests_complete worker_tables). Qed.

Theorem complete_response_stays : forall g es w, w_conn w = CDone -> w_conn (wrun g w es) = CDone.
Proof. exact done_run. Qed.

(* quick shutdown, worker side: QUIT / INT end a worker at once - except gthread (finding, KNOWN_FINDINGS.txt) *)
Theorem quick_stop_worker : forall g w, w_cls w <> GThread -> w_mode (wstep g w WQuit) = Gone.
Proof. exact quit_ends_worker. Qed.
Theorem quick_stop_gthread_refuted :
  exists w, w_cls w = GThread /\ w_mode (wrun 768 w [WQuit; WTick 256; WLoop; WTick 256; WLoop]) <> Gone.
Proof. exact quit_gthread_waits_refuted. Qed.

(* ---- non-vacuity ---------------------------------------------------------------------------------------------------- *)
Definition ex_cfg : cfg := mkCfg 256 false false true.
Definition ex_s0 (sg : Z) : st :=
  mkSt [100; 101] [mkLsn 0 true; mkLsn 1 false] 0 0 (PDispatch sg)
       [mkKid 100 false 0 [] false; mkKid 101 false 0 [] false] 512 [0] true [] 0 0 0.
(* worker 100 exits when told, worker 101 never does: full wait, then SIGKILL *)
Definition ex_ls : list label :=
  [Master; Master; Master; Master; Exit 100 0; Chld; Tick 7] ++ repeat Master 70.

Example graceful_example :
  let s := run ex_cfg (ex_s0 SIGTERM) ex_ls in
  cur s = PExited 0 /\ wall s = 512 + 260 + 7 /\ sockfs s = [] /\ pidfs s = false /\ lst s = [] /\
  map k_zomb (kids s) = [true].
Proof. vm_compute. repeat split. Qed.
Example example_hypotheses :
  NoDup (map k_pid (kids (ex_s0 SIGTERM))) /\ covered (ex_s0 SIGTERM) /\ no_boot_failure (ex_s0 SIGTERM) (boot_scope ex_ls) /\
  mu_st ex_cfg (ex_s0 SIGTERM) <= Z.of_nat (count_master ex_ls).
Proof.
  split; [|split; [|split]].
  - simpl. repeat constructor; simpl; intuition discriminate.
  - unfold covered. simpl. intros k [H|[H|H]] _; subst; simpl; auto; contradiction.
  - split.
    + simpl. intros k [H|[H|H]]; subst; auto; contradiction.
    + intros p status H. unfold boot_scope in H. destruct reap_guards_halting; [simpl in H; contradiction|].
      unfold ex_ls in H. simpl in H.
      repeat (destruct H as [H|H]; [try discriminate; inversion H; reflexivity|]). contradiction.
  - vm_compute. discriminate.
Qed.

(* every told worker exits during the first nap: nobody waits *)
Example quick_example :
  let s := fair ex_cfg 12 (ex_s0 SIGQUIT) in cur s = PExited 0 /\ wall s = 512 /\ kids s = [].
Proof. vm_compute. repeat split. Qed.
Example graceful_fair_example :
  let s := fair ex_cfg 12 (ex_s0 SIGTERM) in cur s = PExited 0 /\ wall s = 512 /\ kids s = [].
Proof. vm_compute. repeat split. Qed.

Example measure_example : mu_st ex_cfg (ex_s0 SIGINT) = 59.
Proof. vm_compute. reflexivity. Qed.

(* a sync worker: application needs 300 ticks, TERM at 0, limit at 768: complete; needs 1000 ticks: killed at the limit *)
Example worker_example_done :
  wobs (wrun 768 (w_init Sync CApp 300 512 0) [WTerm; WTick 256; WLoop; WTick 256; WLoop]) = [5; 3; 0]
  /\ admissible 768 768 (w_init Sync CApp 300 512 0) [WTerm; WTick 256; WLoop; WTick 256; WLoop].
Proof. split; [vm_compute; reflexivity|]. simpl. repeat split; lia. Qed.
Example worker_example_overrun :
  wobs (wrun 768 (w_init GEvent CApp 1000 512 0) [WTerm; WTick 256; WLoop; WTick 256; WLoop; WTick 256; WKill; WLoop]) = [6; 3; 0].
Proof. vm_compute. reflexivity. Qed.
Example safe_example : Safe 768 768 (w_init GThread CResp 10 512 0).
Proof. apply init_safe; [reflexivity|lia]. Qed.

(* the former finding on this tree: TERM, a worker exits with code 3 during the wait *)
Example boot_failure_during_stop_example :
  let s := run w_cfg w_s0 w_ls in
  if reap_guards_halting
  then ws s = [101] /\ cur (run w_cfg s (repeat Master 30)) = PExited 0 /\ pidfs (run w_cfg s (repeat Master 30)) = false
  else cur s = PCrashed /\ pidfs s = true.
Proof. exact w_outcome. Qed.
