(* C05 - Hostile or broken input is contained: error reply, no app call, worker lives.
   Only statements, each closed by [exact]/[apply] of a lemma; model in Model/Handle.v (+ Gen/GenErrors.v,
   regenerated from the tree under test), strict response reader in Spec/ErrResp.v, proofs in Proof/*.v.

   [connection w c st ps apps fs] is one connection served by worker kind [w] (sync / gthread / async wrapper)
   for ANY stream [ps] of parser outcomes (a parsed head, an exception of any class raised by next(parser),
   the keep-alive timeout), ANY application behaviour [apps] (start_response / write / raise scripts, file
   wrappers) and ANY sequence [fs] of socket faults (one per socket operation: Ok | EPIPE | ECONNRESET |
   ENOTCONN | other OSError).  The parser is an oracle here, so no byte stream is outside the theorems.

   Hypotheses used, and why:
     exn_ok w e    - e is not an ssl.SSLError (TLS is not modelled), and for the thread worker e is an
                     Exception (its ladder ends in `except Exception`: a SystemExit raised by application
                     code does leave the pool thread - see [gthread_baseexception_escapes]);
     app_exn_ok e  - application exceptions are Exceptions and not SSLErrors (needed only for "an error page is
                     never appended to a response whose head went out"). *)
From Coq Require Import List NArith ZArith Bool.
From GV Require Import Base.Enc Base.Dec Gen.GenErrors Model.Handle Spec.ErrResp.
From GV Require Import Proof.HandleProofs Proof.ConnProofs Proof.TraceLemmas Proof.ErrRespProofs.
Import ListNotations.
Local Open Scope N_scope.

(* (1) the worker survives: nothing propagates out of handle() / the pool thread *)
Theorem C05_nothing_escapes : forall w c st ps apps fs,
    Forall (exn_ok w) (pouts_exns ps) -> Forall (exn_ok w) (apps_exns apps) ->
    o_escaped (connection w c st ps apps fs) = None.
Proof. exact connection_no_escape. Qed.
Print Assumptions C05_nothing_escapes.

(* (2) the server always closes the connection: the last event is close() on the client socket *)
Theorem C05_always_closed : forall w c st ps apps fs,
    let o := connection w c st ps apps fs in
    (o_escaped o = None \/ exists e, o_escaped o = Some e /\ is_exception (x_cls e) = true) ->
    exists pre f, o_trace o = pre ++ [EvClose f].
Proof. exact connection_closed. Qed.
Print Assumptions C05_always_closed.

(* (3) a rejected request never reaches the application: after next(parser) raised (any class) or timed out
   the application is not entered and nothing more is parsed on this connection ... *)
Theorem C05_rejected_never_dispatched : forall w c st ps apps fs pre e post,
    o_trace (connection w c st ps apps fs) = pre ++ e :: post -> is_reject e = true ->
    forallb (fun x => negb (is_app x) && negb (is_parse x)) post = true.
Proof.
  intros w c st ps apps fs pre e post H He.
  exact (after_reject _ _ _ _ (proj1 (connection_trace_ok w c st ps apps fs)) H He).
Qed.
Print Assumptions C05_rejected_never_dispatched.

(* ... and every application entry is preceded by its own accepted head *)
Theorem C05_dispatch_needs_head : forall w c st ps apps fs pre post,
    o_trace (connection w c st ps apps fs) = pre ++ EvApp :: post ->
    exists a b, pre = a ++ EvHead :: b /\ forallb (fun x => negb (is_app x) && negb (is_parse x)) b = true.
Proof.
  intros w c st ps apps fs pre post H.
  exact (app_has_head _ _ _ (proj1 (connection_trace_ok w c st ps apps fs)) H).
Qed.
Print Assumptions C05_dispatch_needs_head.

(* (4) the error part of the wire is empty or exactly one well-formed 4xx/5xx response marked
   Connection: close, and it is the last thing written: no other error page before it, only close() after it;
   the page is accepted by the strict reader, its Content-Length is the length of what follows the head *)
Theorem C05_error_reply : forall w c st ps apps fs pre page f post,
    o_trace (connection w c st ps apps fs) = pre ++ EvErr page f :: post ->
    forallb (fun e => negb (is_err e)) pre = true
    /\ forallb is_close post = true
    /\ exists r, decode page = Some r /\ 400 <= e_status r /\ e_status r <= 599 /\ says_close r = true.
Proof.
  intros w c st ps apps fs pre page f post H.
  pose proof (connection_trace_ok w c st ps apps fs) as K. cbn zeta in K. destruct K as (_ & R & W). rewrite H in R, W.
  destruct (err_position _ _ _ _ R) as [A B]. split; [exact A|]. split; [exact B|].
  apply Forall_app in W as [_ W]. inversion W as [|? ? Hw _]; subst. cbn in Hw. destruct Hw as (cl & t & Hp).
  destruct (error_page_wellformed _ _ _ Hp) as (r & D & S1 & S2 & S3 & _). exists r. repeat split; assumption.
Qed.
Print Assumptions C05_error_reply.

(* an error page is never appended to a response whose head already went out: since the last parser event
   no Response.send_headers succeeded (dirty_after = false) *)
Theorem C05_error_never_follows_head : forall w c st ps apps fs pre page f post,
    Forall nonssl (pouts_exns ps) -> Forall app_exn_ok (apps_exns apps) ->
    o_trace (connection w c st ps apps fs) = pre ++ EvErr page f :: post ->
    dirty_after false pre = false.
Proof.
  intros w c st ps apps fs pre page f post Hp Ha H.
  pose proof (connection_trace_ok w c st ps apps fs) as K. cbn zeta in K. destruct K as (_ & R & _). rewrite H in R.
  pose proof (connection_clean w c st ps apps fs Hp Ha) as K. cbn zeta in K. destruct K as [C _]. rewrite H in C.
  exact (clean_position _ _ _ _ _ (proj1 (err_position _ _ _ _ R)) C).
Qed.
Print Assumptions C05_error_never_follows_head.

(* (5) the worker keeps running and serves the next connection normally: its state after the connection is
   the state before, except that the request counter moved by the number of application entries (and
   `alive` follows max_requests - C18); in particular hostile input that never reaches the application
   leaves the worker exactly as it was *)
Theorem C05_worker_state : forall w c st ps apps fs,
    let o := connection w c st ps apps fs in
    (o_escaped o = None \/ exists e, o_escaped o = Some e /\ is_exception (x_cls e) = true) ->
    o_st o = st_after c st (napps (o_trace o)).
Proof. exact connection_state. Qed.
Print Assumptions C05_worker_state.

Corollary C05_undispatched_input_leaves_worker_unchanged : forall w c st ps apps fs,
    let o := connection w c st ps apps fs in
    o_escaped o = None -> napps (o_trace o) = 0 -> o_st o = st.
Proof.
  intros w c st ps apps fs o He Hn. unfold o in *. rewrite (connection_state w c st ps apps fs (or_introl He)), Hn. reflexivity.
Qed.
Print Assumptions C05_undispatched_input_leaves_worker_unchanged.

(* the regenerated handle_error table: every class maps to a 4xx/5xx status with a CR/LF-free reason, and the
   real method wrote `Connection: close` and a consistent Content-Length for it (enumerated completely) *)
Theorem C05_status_table : forallb row_ok all_ecls = true.
Proof. exact table_rows_ok. Qed.
Print Assumptions C05_status_table.

(* ---- non-vacuity ---- *)
Definition cfg0 : cfg := {| c_max := 9223372036854775807; c_keepalive := true; c_sendfile := true; c_max_keepalived := 999 |}.
Definition st0 : wst := {| w_nr := 0; w_alive := true; w_keep := 0; w_conns := 0 |}.
Definition bad_line : exn := {| x_cls := E_InvalidRequestLine; x_text := [71;69;84]; x_req := false; x_ssl_eof := false |}.
Definition hd11 : head := {| h_v10 := false; h_head := false; h_close := false; h_expect := 0; h_create_exn := None |}.

(* a request line the parser refuses: exactly [parse error; 400 page; close], nothing dispatched *)
Example rejected_request_trace : forall w,
  exists page, o_trace (connection w cfg0 st0 [PRaise bad_line] [] []) = [EvPRaise E_InvalidRequestLine; EvErr page FOk; EvClose FOk]
               /\ option_map e_status (decode page) = Some 400.
Proof. intros w. destruct w; eexists; split; vm_compute; reflexivity. Qed.

Example hypotheses_satisfiable : forall w, Forall (exn_ok w) (pouts_exns [PRaise bad_line; PHead hd11]).
Proof. intros w. repeat constructor; discriminate. Qed.

(* keep-alive: one good request, then garbage: the response, then one 400, then close; one application entry *)
Example pipelined_garbage :
  let o := connection WAsync cfg0 st0 [PHead hd11; PRaise bad_line] [{| a_acts := [AStart 200 (Some 2); AReturn; AWrite [111;107]]; a_file := None |}] [] in
  map (fun e => match e with EvErr _ _ => 1 | EvApp => 2 | EvClose _ => 3 | EvHdr _ _ _ _ _ => 4 | _ => 0 end) (o_trace o)
  = [0; 2; 4; 0; 0; 0; 1; 3] /\ w_nr (o_st o) = 1 /\ w_alive (o_st o) = true.
Proof. vm_compute. repeat split. Qed.

(* the socket dies while the error page is written: still closed, nothing escapes *)
Example fault_during_error_page :
  let o := connection WSync cfg0 st0 [PRaise bad_line] [] [FErr EPIPE; FErr ECONNRESET] in
  o_escaped o = None /\ exists page, o_trace o = [EvPRaise E_InvalidRequestLine; EvErr page (FErr EPIPE); EvClose (FErr ECONNRESET)].
Proof. split; [reflexivity|]. eexists. vm_compute. reflexivity. Qed.

(* why the thread worker needs the Exception hypothesis: SystemExit raised by application code leaves the
   pool thread, and the connection is neither closed nor discounted (model of gthread.py handle/finish_request) *)
Example gthread_baseexception_escapes :
  let o := connection WGthread cfg0 st0 [PHead hd11] [{| a_acts := [ARaise (mk_exn E_SystemExit)]; a_file := None |}] [] in
  o_escaped o = Some (mk_exn E_SystemExit) /\ existsb is_close (o_trace o) = false /\ w_conns (o_st o) = 1%Z.
Proof. vm_compute. repeat split. Qed.
