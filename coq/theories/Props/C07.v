(* C07 - wsgi.input yields exactly the request body, and never the next request.
   Only statements, each closed by [exact]. *)
From Coq Require Import List NArith ZArith Bool.
From GV Require Import Base.Bytes Base.Scan Base.PyStr Model.Parser Spec.IdealBody
     Proof.ParserHead Proof.ChunkedDecode Proof.ParserRun Proof.ChunkedReader Proof.BodyFileThm Proof.BodySim Proof.EndToEnd Proof.RunFuel.
Import ListNotations.
Local Open Scope N_scope.

(* The reference: [file_run prog f] runs a program of read(n) / readline(n) / readlines() / next()
   calls - any sizes: None, negative, 0, anything - over a binary file holding the bytes f
   (Spec/IdealBody.v, the semantics of io.BytesIO).  [alpha_c c k = (body, TEof after tr)] says that the
   connection state k denotes a body [body] still to be delivered, followed on the stream by [after]. *)

(* Any call sequence over wsgi.input returns, call by call, what the same sequence returns over a file
   holding exactly the framed body - whatever the segmentation, the 1024-byte refill, the chunk layout. *)
Theorem C07_program_is_file : forall c prog k body after tr,
    inv_c c k -> alpha_c c k = (body, TEof after tr) -> blen body <= maxsize ->
    exists b' k' rest,
      run_calls (reader_read c) remaining_upper prog ([], k) = (fst (file_run prog body), (b', k'), None)
      /\ inv_c c k' /\ alpha_c c k' = (rest, TEof after tr) /\ b' ++ rest = snd (file_run prog body).
Proof. exact body_program_is_file. Qed.
Print Assumptions C07_program_is_file.

(* However much or little was consumed, once Parser.__next__ has drained the body the next request is
   parsed from exactly the first byte after the body (and the trailers are the announced ones). *)
Theorem C07_next_request_starts_after_body : forall c k body after tr fuel b b'' k'',
    inv_c c k -> alpha_c c k = (body, TEof after tr) ->
    drain (reader_read c) remaining_upper fuel (b, k) = ((b'', k''), None) ->
    b'' = [] /\ u_abs (c_unreader k'') = after /\ c_trailers k'' = tr /\ NE (c_unreader k'').
Proof. exact drain_reaches_after. Qed.
Print Assumptions C07_next_request_starts_after_body.

(* Content-Length framing: the body is the next n bytes of the stream, whatever its segmentation. *)
Theorem C07_length_body : forall c n p tr, NE p ->
    let k := {| c_reader := RLength n; c_unreader := p; c_trailers := tr |} in
    inv_c c k /\ alpha_c c k = (takeN n (u_abs p), TEof (dropN n (u_abs p)) tr).
Proof. exact alpha_length. Qed.
Print Assumptions C07_length_body.

(* chunked framing: the body is the concatenation of the chunk data of the stream ([decodes]), the
   next request starts after the trailer section - for every chunk layout and segmentation. *)
Theorem C07_chunked_body : forall c p D after tr, NE p ->
    decodes c (AStart (u_abs p)) D (DStop after tr) ->
    inv_c c (chunked_init p) /\
    alpha_c c (chunked_init p) = (D, TEof after (match tr with Some t => t | None => [] end)).
Proof. exact alpha_chunked. Qed.
Print Assumptions C07_chunked_body.

(* a malformed or truncated chunked body is never presented as a clean end of file *)
Theorem C07_malformed_chunked_raises : forall c p D e, NE p ->
    decodes c (AStart (u_abs p)) D (DRaise e) -> alpha_c c (chunked_init p) = (D, TErr e).
Proof. exact alpha_chunked_err. Qed.
Print Assumptions C07_malformed_chunked_raises.

(* the meaning of a chunked stream is a function of the stream *)
Theorem C07_decoding_is_deterministic : forall c a D T, decodes c a D T -> forall D' T', decodes c a D' T' -> D = D' /\ T = T'.
Proof. exact decodes_fun. Qed.
Print Assumptions C07_decoding_is_deterministic.

(* the model's loops are run on explicit fuel; for the chunked reader the fuel is always sufficient:
   EOutOfFuel is never what a read answers (so the error terminal of a body is always a real error) *)
Theorem C07_chunked_read_never_out_of_fuel : forall c n k, cr_inv k -> 0 < n -> fst (reader_read c n k) <> inr EOutOfFuel.
Proof. exact chunked_read_never_out_of_fuel. Qed.
Print Assumptions C07_chunked_read_never_out_of_fuel.

(* the drain that Parser.__next__ runs before the next request always completes on a cleanly ending body
   (with the fuel run_conn gives it), leaves nothing of the body behind, and leaves the unreader exactly at
   the first byte after the message *)
Theorem C07_drain_completes : forall c k rem after tr b,
    inv_c c k -> alpha_c c k = (rem, TEof after tr) ->
    exists k', drain (reader_read c) remaining_upper (S (length b + remaining_upper k)) (b, k) = (([], k'), None)
               /\ u_abs (c_unreader k') = after /\ c_trailers k' = tr /\ NE (c_unreader k').
Proof. exact drain_completes. Qed.
Print Assumptions C07_drain_completes.

(* ... and no operation of wsgi.input (read / readline / readlines / next, any size), no sequence of them and no
   drain ever answers "out of fuel", for both framings: an exception seen by the application is always a real one *)
Theorem C07_no_call_answers_out_of_fuel : forall c cl b k, inv_c c k ->
    fst (do_call (reader_read c) remaining_upper cl (b, k)) <> RExc EOutOfFuel.
Proof. exact do_call_never_out_of_fuel. Qed.
Print Assumptions C07_no_call_answers_out_of_fuel.
Theorem C07_no_program_answers_out_of_fuel : forall c prog b k, inv_c c k ->
    let '(o, bk, err) := run_calls (reader_read c) remaining_upper prog (b, k) in
    err <> Some EOutOfFuel /\ (err = None -> inv_c c (snd bk)).
Proof. exact run_calls_never_out_of_fuel. Qed.
Theorem C07_drain_never_out_of_fuel : forall c b k, inv_c c k ->
    snd (drain (reader_read c) remaining_upper (S (length b + remaining_upper k)) (b, k)) <> Some EOutOfFuel.
Proof. exact drain_never_out_of_fuel. Qed.
Print Assumptions C07_drain_never_out_of_fuel.

(* ---- non-vacuity ---- *)
Definition ex_chunked : bytes :=      (* 5\r\nhel\nl\r\n3;x=y\r\no\nw\r\n0\r\nT: 1\r\n\r\nNEXT *)
  [53;13;10;104;101;108;10;108;13;10;51;59;120;61;121;13;10;111;10;119;13;10;48;13;10;84;58;32;49;13;10;13;10;78;69;88;84]%N.
Example ex_chunked_decodes :
  decodes default_cfg (AStart ex_chunked) [104;101;108;10;108;111;10;119]%N (DStop [78;69;88;84]%N (Some [([84]%N, [49]%N)])).
Proof.
  assert (H : gen_run default_cfg 40 GStart [ex_chunked] = Some ([104;101;108;10;108;111;10;119]%N, GTStop [[78;69;88;84]%N] (Some [([84]%N, [49]%N)])))
    by (vm_compute; reflexivity).
  destruct (gen_run_sound default_cfg 40 GStart [ex_chunked] _ _ (NE_whole ex_chunked) I H) as [Hd _].
  exact Hd.
Qed.
Example ex_program_over_file :
  fst (file_run [Read (Some 2%Z); Readline None; Next; Readlines; Read None] [104;101;108;10;108;111;10;119]%N)
  = [1;2;104;101; 1;2;108;10; 1;3;108;111;10; 2;1;1;119; 1;0]%Z.
Proof. vm_compute. reflexivity. Qed.
