(* C14 - binary upgrade (USR2) hands the listening sockets over without a gap.
   Statements only; every proof is `exact` of a lemma of Proof/Upgrade*.v.  The histories are lists of the events
   {USR2, Stop (TERM / INT / QUIT), child exit noticed, parent death noticed, HUP, WINCH} addressed to either master. *)
From Coq Require Import List ZArith Bool Lia.
From GV Require Import Gen.GenUpgrade Model.Upgrade Proof.UpgradeInv Proof.UpgradePid Proof.UpgradeThm.
Import ListNotations.
Local Open Scope Z_scope.

(* read from the tree (gen_upgrade.py): start() appends ".2" to the pid-file name of a re-executed master - the model has
   this built in, so the table must agree *)
Lemma start_table : start_names_dot2 = true.
Proof. vm_compute. reflexivity. Qed.

(* after ANY history: while a master lives, the unix socket file exists (no master ever unlinks it under another) *)
Theorem socket_survives_first_exit : forall c es, unixb c = true ->
  some_alive (run c (init c) es) -> sockf (run c (init c) es) = true.
Proof. exact socket_survives. Qed.
Print Assumptions socket_survives_first_exit.

(* ... in particular when both live and either of them is stopped *)
Theorem either_may_exit_first : forall c es x, unixb c = true ->
  let s := run c (init c) es in
  m_alive (get s x) = true -> m_alive (get s (other x)) = true ->
  sockf (step c s (Stop x)) = true /\ m_alive (get (step c s (Stop x)) (other x)) = true.
Proof. exact first_exit_keeps_socket. Qed.

(* the last master to exit removes the file, provided it has noticed that it is alone ... *)
Theorem last_exit_unlinks : forall c es x, unixb c = true -> shared c = false ->
  let s := run c (init c) es in
  m_alive (get s x) = true -> m_reexec (get s x) = 0 -> m_mpid (get s x) = 0 ->
  let s' := step c s (Stop x) in
  sockf s' = false /\ m_alive (ma s') = false /\ m_alive (mb s') = false.
Proof.
  intros c es x Hu Hs s. apply UpgradeThm.last_exit_unlinks; auto.
  unfold s. apply run_wf. apply init_wf.
Qed.
Print Assumptions last_exit_unlinks.

(* ... which SIGCHLD and one turn of its main loop guarantee *)
Theorem alone_is_noticed : forall c es x, pidconf c = true ->
  let s := run c (init c) es in
  m_alive (get s x) = true -> m_alive (get s (other x)) = false ->
  let s' := run c s [NoticeChild x; NoticeParent x] in
  m_alive (get s' x) = true /\ m_reexec (get s' x) = 0 /\ m_mpid (get s' x) = 0.
Proof.
  intros c es x Pc s. destruct (reach c es Pc) as [P W]. apply UpgradeThm.alone_is_noticed; auto.
Qed.

(* refuted without that: both masters stopped at the same moment (Ctrl-C in a terminal, a process-group TERM) leave the file *)
Theorem last_exit_unlinks_needs_notice_refuted :
  exists c es, unixb c = true /\ shared c = false /\
    let s := run c (init c) es in m_alive (ma s) = false /\ m_alive (mb s) = false /\ sockf s = true.
Proof. exists (mkCfg true true false false 1), [USR2 A; Stop A; Stop B]. vm_compute. repeat split. Qed.

Theorem second_usr2_ignored : forall c s x,
  m_reexec (get s x) <> 0 \/ m_mpid (get s x) <> 0 -> step c s (USR2 x) = s.
Proof. exact UpgradeThm.second_usr2_ignored. Qed.
Print Assumptions second_usr2_ignored.

(* two slots are enough: a master that is alone does start a new one, as its child, on a fresh pid *)
Theorem usr2_starts_one_master : forall c es x,
  let s := run c (init c) es in
  m_alive (get s x) = true -> m_reexec (get s x) = 0 -> m_mpid (get s x) = 0 ->
  let s' := step c s (USR2 x) in
  execs s' = execs s + 1 /\ m_reexec (get s' x) = next_pid s /\ m_pid (get s' (other x)) = next_pid s /\
  m_mpid (get s' (other x)) = m_pid (get s x).
Proof. intros c es x s. apply usr2_accepted. unfold s. apply run_wf. apply init_wf. Qed.

(* pid files: every live master holds the file it names; while both live the new one holds '<pidfile>.2' and the old one
   the configured name (so neither ever removed or overwrote the other's) *)
Theorem pidfile_names : forall c es x, pidconf c = true ->
  let s := run c (init c) es in
  m_alive (get s x) = true -> m_alive (get s (other x)) = true -> m_mpid (get s x) <> 0 ->
  m_pname (get s x) = PDot2 /\ m_pname (get s (other x)) = PMain /\
  fsP2 s = Some (m_pid (get s x)) /\ fsP s = Some (m_pid (get s (other x))).
Proof. exact UpgradeThm.pidfile_names. Qed.
Print Assumptions pidfile_names.

Theorem pidfile_held : forall c es x, pidconf c = true ->
  let s := run c (init c) es in
  m_alive (get s x) = true -> fs_get s (m_pname (get s x)) = Some (m_pid (get s x)).
Proof. exact UpgradeThm.pidfile_held. Qed.

(* once the old master is gone, the next turn of the new master's main loop moves its pid to the configured name *)
Theorem pidfile_moves_on_promotion : forall c es x, pidconf c = true ->
  let s := run c (init c) es in
  m_alive (get s x) = true -> m_alive (get s (other x)) = false -> m_mpid (get s x) <> 0 -> m_pname (get s x) = PDot2 ->
  let s' := step c s (NoticeParent x) in
  m_alive (get s' x) = true /\ m_mpid (get s' x) = 0 /\ m_pname (get s' x) = PMain /\
  fsP s' = Some (m_pid (get s x)) /\ fsP2 s' = None.
Proof. intros c es x Pc s. destruct (reach c es Pc) as [P W]. apply promotion_moves_pidfile; auto. Qed.

(* stopping the new master instead: after its exit is noticed the old master is exactly what it was, minus the reference *)
Theorem rollback_restores : forall c es x, pidconf c = true ->
  let s := run c (init c) es in
  m_alive (get s x) = true -> m_alive (get s (other x)) = true -> m_reexec (get s x) = m_pid (get s (other x)) ->
  let s' := run c s [Stop (other x); NoticeChild x] in
  get s' x = set_m_reexec (get s x) 0 /\ m_alive (get s' (other x)) = false /\ sockf s' = sockf s /\
  fsP s' = fsP s /\ fsP2 s' = None.
Proof.
  intros c es x Pc s Al Ao Rx s'. destruct (reach c es Pc) as [P W].
  destruct (UpgradeThm.rollback_restores c s x W (fun _ => P) Al Ao Rx) as [H1 [H2 [H3 H4]]].
  destruct (H4 Pc). repeat split; auto.
Qed.
Print Assumptions rollback_restores.

(* ... and the same when the new master stops BY ITSELF, whatever its exit status (3 / 4: its workers cannot boot, the
   upgrade to a broken release): the status of the re-executed master is of no consequence for its parent, which goes on
   serving as a single master (and accepts a later USR2: its reexec reference is cleared).  All the theorems above that
   quantify over event lists include [Halt] events since round 10. *)
Theorem failed_upgrade_restores : forall c es x code, pidconf c = true ->
  let s := run c (init c) es in
  m_alive (get s x) = true -> m_alive (get s (other x)) = true -> m_reexec (get s x) = m_pid (get s (other x)) ->
  let s' := run c s [Halt (other x) code; NoticeChild x] in
  get s' x = set_m_reexec (get s x) 0 /\ m_alive (get s' (other x)) = false /\ sockf s' = sockf s /\
  fsP s' = fsP s /\ fsP2 s' = None.
Proof.
  intros c es x code Pc s Al Ao Rx s'. destruct (reach c es Pc) as [P W].
  destruct (UpgradeThm.failed_upgrade_restores c s x code W (fun _ => P) Al Ao Rx) as [H1 [H2 [H3 H4]]].
  destruct (H4 Pc). repeat split; auto.
Qed.
Print Assumptions failed_upgrade_restores.

Example failed_upgrade_example :
  let c := mkCfg true true false false 1 in
  let s := run c (init c) [USR2 A; Halt B 3; NoticeChild A; USR2 A] in
  m_alive (ma s) = true /\ m_alive (mb s) = true /\ sockf s = true /\ execs s = 2.
Proof. vm_compute. repeat split. Qed.

(* HUP to the re-executed master while the old one lives: with reload() naming the pid file with ".2" while master_pid != 0
   (reload_names_dot2 = true, read from the source by gen_upgrade.py; repaired in /repo by ecaf6c4) the new master survives the
   HUP holding '<pidfile>.2'; with the rule as it was before the repair (false) the HUP ends it - both readings are proved, the
   generated constant selects the one that describes the tree *)
Theorem hup_to_new_master_refuted :
  exists c, let s := run c (init c) [USR2 A; HUP B] in
    if reload_names_dot2 then m_alive (mb s) = true /\ fsP2 s = Some (m_pid (mb s)) /\ fsP s = Some (m_pid (ma s))
    else m_alive (mb s) = false /\ m_status (mb s) = 255 /\ m_alive (ma s) = true.
Proof. exists (mkCfg true true false false 1). vm_compute. repeat split. Qed.

(* ---- non-vacuity --------------------------------------------------------------------------------------------------------- *)
Definition ex_c : cfg := mkCfg true true true false 2.
(* upgrade, second USR2, old master exits first, promotion, a further upgrade, rollback of that one, last exit *)
Definition ex_history : list event :=
  [USR2 A; USR2 A; WINCH A; Stop A; NoticeParent B; USR2 B; Stop A; NoticeChild B; HUP B].
Example upgrade_example :
  let s := run ex_c (init ex_c) ex_history in
  obs s = [0; 0; 0; 0; 0; 0;  1; 0; 0; 0; 1; 2;  2; 0; 1; 2] /\
  obs (run ex_c (init ex_c) [USR2 A]) = [1; 0; 1; 0; 1; 2;  1; 0; 0; 1; 2; 2;  1; 2; 1; 1] /\
  sockf (step ex_c s (Stop B)) = false.
Proof. vm_compute. repeat split. Qed.
Example both_alive_example :
  let s := run ex_c (init ex_c) [USR2 A] in
  m_alive (get s B) = true /\ m_alive (get s A) = true /\ m_mpid (get s B) <> 0 /\ m_reexec (get s A) = m_pid (get s B).
Proof. vm_compute. repeat split; discriminate. Qed.
