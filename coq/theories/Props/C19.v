(* C19 - Every handled request is logged once, truthfully, on a single line.
   Only statements.  Worker side: Model/Handle.v (where log.access is called, with which resp.status / resp.sent);
   record side: Model/AccessLog.v (Logger.atoms, SafeAtoms with the escaping table regenerated from the tree
   under test, %-interpolation of access_log_format).  Proofs in Proof/RecordProofs.v, Proof/AccessLogProofs.v. *)
From Coq Require Import List NArith ZArith Bool.
From GV Require Import Base.Enc Base.Dec Gen.GenErrors Gen.GenAccessLog Model.Handle Model.AccessLog.
From GV Require Import Proof.HandleProofs Proof.ConnProofs Proof.TraceLemmas Proof.RecordProofs Proof.AccessLogProofs.
From GV Require Import Spec.ErrResp Spec.Chunked Proof.ChunkedProofs.
Import ListNotations.
Local Open Scope N_scope.

(* (1) every request whose application call completes produces exactly one record, carrying the status that
   went out in the response head and the number of body bytes actually handed to the socket - for every producer
   path (write(), iterable, chunked or identity, file wrapper via sendfile or via reads), every worker wrapper,
   every counter state.  [request_outcome ... = Some (true, None, ...)]: the application was entered and no
   exception occurred up to and including resp.close(). *)
Theorem C19_one_truthful_record : forall w c st h a fs hr st1 fs1 evs r fsb body,
    request_outcome w c st h a fs = Some (true, None, r, fsb, body) ->
    handle_request w c st h a fs = (hr, st1, fs1, evs) ->
    count is_access evs = 1%nat
    /\ In (EvAccess (r_status r) (r_sent r)) evs
    /\ r_sent r = sumN delivered evs
    /\ Forall (hdr_code_ok (r_status r)) evs
    /\ forallb ev_ok body = true.
Proof. exact one_truthful_record. Qed.
Print Assumptions C19_one_truthful_record.

(* what the record's count is in general: resp.sent counts a piece before writing it, so after a failed socket
   write the record over-reports by the pieces that failed (observation; the property speaks of completed calls) *)
Theorem C19_sent_counts_attempts : forall w c st h a fs logged x r fsb body,
    request_outcome w c st h a fs = Some (logged, x, r, fsb, body) -> r_sent r = sumN attempted body.
Proof. exact sent_is_attempted. Qed.
Print Assumptions C19_sent_counts_attempts.

(* the link between the events counted above and the bytes on the wire for chunked responses: the frames
   util.write_chunk writes for the non-empty pieces, closed by Response.close's terminating chunk, are read back by
   an independent strict chunked reader (Spec/Chunked.v) as exactly the concatenation of the pieces
   (needs "%X" % n read back as n, for every n) *)
Theorem C19_chunked_wire_decodes : forall ds, Forall (fun d => d <> []) ds ->
    dechunk (flat_map chunk_frame ds ++ chunk_frame []) = Some (concat ds).
Proof. exact chunked_wire_decodes. Qed.
Print Assumptions C19_chunked_wire_decodes.

(* never two records from handle_request itself *)
Theorem C19_request_records_at_most_one : forall w c st h a fs hr st1 fs1 evs,
    handle_request w c st h a fs = (hr, st1, fs1, evs) -> (count is_access evs <= 1)%nat.
Proof. exact request_records_at_most_one. Qed.
Print Assumptions C19_request_records_at_most_one.

(* (2) a request the server rejects itself (next(parser) raised, any class; keep-alive timeout) produces at most
   one record - for every outcome stream, application behaviour and fault sequence *)
Theorem C19_rejected_at_most_one : forall w c st ps apps fs pre e post,
    o_trace (connection w c st ps apps fs) = pre ++ e :: post -> is_reject e = true ->
    (count is_access post <= 1)%nat.
Proof.
  intros w c st ps apps fs pre e post H He.
  pose proof (connection_trace_ok w c st ps apps fs) as K. cbn zeta in K. destruct K as (D & _ & _).
  exact (reject_records _ _ _ _ (connection_racc w c st ps apps fs) D H He).
Qed.
Print Assumptions C19_rejected_at_most_one.

(* (3) no client-controlled data can make a record span several lines: for ALL format strings without control
   characters and ALL dictionaries of atoms - whatever the request target, header names and values, the decoded
   basic-auth user name, the application's response headers contain - the rendered record contains no C0
   control character other than HTAB and no DEL, in particular no CR and no LF.
   ([opaque_ok]: values that are not str/int/None are server-side objects rendered by str().) *)
Theorem C19_record_is_one_line : forall fmt d out,
    clean fmt = true -> Forall (fun kv => opaque_ok (snd kv)) d ->
    render fmt (safe_lookup d) = Some out -> one_line out = true.
Proof. exact record_is_one_line. Qed.
Print Assumptions C19_record_is_one_line.

Theorem C19_record_has_no_control_characters : forall fmt d out,
    clean fmt = true -> Forall (fun kv => opaque_ok (snd kv)) d ->
    render fmt (safe_lookup d) = Some out -> clean out = true.
Proof. exact record_clean. Qed.
Print Assumptions C19_record_has_no_control_characters.

(* the same for the dictionary Logger.atoms builds from resp / req / environ (any contents) *)
Theorem C19_access_line_is_one_line : forall fmt a out,
    clean fmt = true -> Forall (fun kv => opaque_ok (snd kv)) (i_environ a) -> opaque_ok (i_status a) ->
    access_line fmt a = Some out -> one_line out = true.
Proof. exact access_line_is_one_line. Qed.
Print Assumptions C19_access_line_is_one_line.

(* what the record shows: %(s)s is the first word of resp.status (escaped), %(B)s and %(b)s are resp.sent *)
Theorem C19_record_fields : forall a d,
    atoms a = Some d ->
    (forall n, i_sent a = Some n -> safe_lookup d [66] = dec n /\ safe_lookup d [98] = dec n)
    /\ (forall s w, i_status a = VStr s -> first_token s = Some w -> safe_lookup d [115] = escape w).
Proof. exact record_fields. Qed.
Print Assumptions C19_record_fields.

(* the regenerated escaping table: every character's image is free of control characters *)
Theorem C19_escaping_table : forall c, clean (esc_char c) = true.
Proof. exact esc_char_clean. Qed.
Print Assumptions C19_escaping_table.

(* ---- non-vacuity ---- *)
Definition cfg0 : cfg := {| c_max := 9223372036854775807; c_keepalive := true; c_sendfile := true; c_max_keepalived := 999 |}.
Definition st0 : wst := {| w_nr := 0; w_alive := true; w_keep := 0; w_conns := 0 |}.
Definition hd11 : head := {| h_v10 := false; h_head := false; h_close := false; h_expect := 0; h_create_exn := None |}.
Definition file_app : app :=
  {| a_acts := [AStart 200 None; AReturn]; a_file := Some {| f_avail := [104;101;108;108;111]; f_blk := 8192; f_fileno := true |} |}.

(* the sendfile path: five body bytes on the wire (one chunk), the record says 200 and 5 *)
Example sendfile_record :
  match request_outcome WGthread cfg0 st0 hd11 file_app [] with
  | Some (true, None, r, _, body) => r_status r = Some 200 /\ r_sent r = 5 /\ sumN delivered body = 5
  | _ => False
  end.
Proof. vm_compute. repeat split. Qed.

Example chunked_example : dechunk (chunk_frame [104;105] ++ chunk_frame (repeat 120 300) ++ chunk_frame []) = Some ([104;105] ++ repeat 120 300).
Proof. vm_compute. reflexivity. Qed.

(* a socket fault while the body is written: the record over-reports *)
Example fault_overreports :
  match request_outcome WSync cfg0 st0 hd11 {| a_acts := [AStart 200 (Some 4); AReturn; AWrite [1;2]; AWrite [3;4]]; a_file := None |} [FOk; FOk; FErr EPIPE] with
  | Some (true, Some _, r, _, body) => r_sent r = 4 /\ sumN delivered body = 2
  | _ => False
  end.
Proof. vm_compute. repeat split. Qed.

(* LF, CR and a quote coming from the client: one line *)
Definition hostile : str := [101;118;105;108;10;70;65;75;69;13;34].
Example hostile_user_one_line :
  let d := [([117], VStr hostile); ([114], VStr hostile)] in
  render default_access_log_format (safe_lookup d)
  = Some ([45;32;45;32] ++ escape hostile ++ [32;45;32;34] ++ escape hostile ++ [34;32;45;32;45;32;34;45;34;32;34;45;34])
  /\ escape hostile = [101;118;105;108;92;120;48;97;70;65;75;69;92;120;48;100;92;34]
  /\ clean default_access_log_format = true.
Proof. vm_compute. repeat split. Qed.

Example rejected_has_one_record :
  let o := connection WSync cfg0 st0 [PRaise {| x_cls := E_InvalidHeader; x_text := []; x_req := true; x_ssl_eof := false |}] [] [] in
  count is_access (o_trace o) = 1%nat.
Proof. vm_compute. reflexivity. Qed.
