From Coq Require Import List ZArith Bool.
From GV Require Import Base.Enc Model.GThread.
