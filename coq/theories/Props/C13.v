(* C13 - The threaded worker accounts for every connection and never stops serving.
   Only statements, each closed by [exact]; model in Model/GThread.v, proofs in Proof/GThreadProofs.v.
   [reachable g s] = some sequence of atomic blocks of the main thread, the pool threads and the environment,
   in ANY interleaving, leads from the initial state to s. *)
From Coq Require Import List ZArith Bool Lia.
From GV Require Import Base.Enc Model.GThread Proof.GThreadProofs Proof.GThreadReap.
Import ListNotations.
Local Open Scope Z_scope.

(* ---- accounting: nr_conns is exactly the number of connections in New / Keep / Handling states, and a socket has
        been closed (once) exactly for the connections in state Closed ---- *)
Theorem C13_accounting : forall g s, reachable g s ->
  nr_conns s = n_counted s
  /\ (forall c x, getc s c = Some x -> closes x = match st x with CClosed => 1%nat | _ => 0%nat end).
Proof. exact accounting. Qed.
Print Assumptions C13_accounting.

Theorem C13_no_double_close : forall g s c x, reachable g s -> getc s c = Some x -> (closes x <= 1)%nat.
Proof. exact no_double_close. Qed.
Print Assumptions C13_no_double_close.

Theorem C13_closed_absorbing : forall g s l s' c x, reachable g s -> step g s l = Some s' ->
  getc s c = Some x -> st x = CClosed -> exists x', getc s' c = Some x' /\ st x' = CClosed.
Proof. exact closed_absorbing. Qed.
Print Assumptions C13_closed_absorbing.

(* ---- never closed while a request on it is being handled ---- *)
Theorem C13_never_closed_while_handled : forall g s c x, reachable g s -> getc s c = Some x ->
  st x <> CClosed -> closes x = 0%nat.
Proof. exact never_closed_while_handled. Qed.
Print Assumptions C13_never_closed_while_handled.

(* a step that closes c finds it in: handle returned / finish_request at its lock after the loop ended /
   queued and cancelled / keep-alive expired and popped by the reaper - never Running, never a live New or Keep *)
Theorem C13_close_requires : forall g s l s' c x x', reachable g s -> step g s l = Some s' ->
  (forall evs, l <> LMain evs true) ->
  getc s c = Some x -> getc s' c = Some x' -> st x <> CClosed -> st x' = CClosed ->
  (exists ka, st x = CDone ka /\ l = LFinish c) \/ (st x = CTimed /\ l = LFinLock c)
  \/ (st x = CQueued /\ l = LCancel c) \/ (st x = CExpiring /\ exists now, mpc s = MUnreg now c).
Proof. exact close_requires. Qed.
Print Assumptions C13_close_requires.

(* ---- the number of open connections never exceeds the configured maximum ---- *)
Theorem C13_bounded : forall g s, 1 <= wconn g -> nlisten g = 1%nat -> reachable g s -> nr_conns s <= wconn g.
Proof. exact bounded. Qed.
Print Assumptions C13_bounded.

Theorem C13_bounded_n_listeners : forall g s, cfg_ok g -> reachable g s ->
  nr_conns s <= wconn g + Z.of_nat (nlisten g) - 1.
Proof. exact bounded_general. Qed.
Print Assumptions C13_bounded_n_listeners.

(* ---- idle keep-alive connections are not closed before the keep-alive time has passed ---- *)
Theorem C13_keepalive_not_before : forall g s l s' c x x', reachable g s -> step g s l = Some s' ->
  (forall evs, l <> LMain evs true) ->
  getc s c = Some x -> getc s' c = Some x' -> st x = CKeep -> st x' = CExpiring ->
  tmo x <= clock s /\ tmo x = since x + keepalive g.
Proof. exact keepalive_not_before. Qed.
Print Assumptions C13_keepalive_not_before.

(* ---- D20 (genuine defect, known finding gthread-capacity-stall): at nr_conns >= worker_connections the loop
        only waits for futures; when the slots are held by idle New connections nothing - no request, no client
        leaving, no passage of time - is ever noticed again ---- *)
Theorem C13_capacity_stall_forever : forall g ls s s', stalled g s -> Forall benign ls -> run g s ls = Some s' ->
  stalled g s' /\ same_service s s' /\ nr_conns s' = nr_conns s.
Proof. exact capacity_stall_forever. Qed.
Print Assumptions C13_capacity_stall_forever.

Theorem C13_served_if_thread_free_refuted : exists g s c x,
  reachable g s /\ getc s c = Some x /\ st x = CNew /\ In c (regd s) /\ sockbuf x = [KA] /\ n_running s < threads g
  /\ forall ls s', Forall benign ls -> run g s ls = Some s' ->
       exists x', getc s' c = Some x' /\ resp x' = 0%nat /\ st x' = CNew.
Proof. exact served_if_thread_free_refuted. Qed.
Print Assumptions C13_served_if_thread_free_refuted.

Theorem C13_returns_to_zero_refuted : exists g s,
  reachable g s /\ (forall c x, getc s c = Some x -> eof x = true) /\ n_running s = 0
  /\ forall ls s', Forall benign ls -> run g s ls = Some s' -> nr_conns s' = 1.
Proof. exact returns_to_zero_refuted. Qed.
Print Assumptions C13_returns_to_zero_refuted.

(* ---- D21 (genuine defect, known finding gthread-pipelined-request-dropped): a fair run - every select reports
        everything readable, a thread is free throughout - in which the second of two pipelined requests is never
        answered and is dropped with the connection at keep-alive expiry ---- *)
Theorem C13_pipelined_request_dropped : exists g ls s x,
  runr g (init g) ls = Some s /\ getc s 0%nat = Some x
  /\ st x = CClosed /\ resp x = 1%nat /\ pbuf x = [KA] /\ eof x = false.
Proof. exact pipelined_request_dropped. Qed.
Print Assumptions C13_pipelined_request_dropped.

(* ... and not only in that run: an idle keep-alive connection with a request in its parser, nothing on the socket
   and a client that waits for its answer is never served, whatever else happens, for as long as the client waits
   ([runr]: a selector that reports only what is readable) *)
Theorem C13_buffered_request_never_served : forall g n0 c ls s s', J g n0 c s -> Forall (client_silent c) ls ->
  runr g s ls = Some s' -> waiting n0 s' c.
Proof. exact buffered_request_never_served. Qed.
Print Assumptions C13_buffered_request_never_served.

Example buffered_hypotheses_satisfiable : J g21 1 0 s21k /\ exists x, getc s21k 0%nat = Some x /\ pbuf x = [KA].
Proof. split. exact s21k_J. eexists. split. vm_compute. reflexivity. reflexivity. Qed.

(* ---- what holds once D20 and D21 are excluded by hypothesis ---- *)

(* served as long as a handler thread is free: the loop is polling (mpc = MSel: not the D20 situation) and the
   request is visible to the selector (In (EvRd c) evs with a realistic selector: not the D21 situation) *)
Theorem C13_served_if_thread_free : forall g s evs c, reachable g s -> mpc s = MSel -> evs_ok g s evs = true ->
  In (EvRd c) evs -> dispatchable s c ->
  exists n s', run g s (LMain evs false :: repeat m_ n) = Some s' /\ queued s' c
               /\ (pool_busy s' < threads g -> exists s'', step g s' (LStart c) = Some s'').
Proof. exact served_if_thread_free. Qed.
Print Assumptions C13_served_if_thread_free.

(* idle keep-alive connections are closed once the keep-alive time has passed: within one loop period, in either
   branch of the loop (so also at capacity) *)
Theorem C13_keepalive_expires : forall g s c pre rest, mpc s = MWait -> orphan s = false ->
  keep s = pre ++ c :: rest ->
  (forall k, In k (pre ++ [c]) -> exists x, getc s k = Some x /\ tmo x <= clock s) ->
  exists s', run g s (repeat m_ (1 + 2 * (length pre + 1))) = Some s'
             /\ exists x, getc s' c = Some x /\ st x = CClosed.
Proof. exact keepalive_expires. Qed.
Print Assumptions C13_keepalive_expires.

(* ... and the reaper runs in EVERY iteration, also in one whose select() returned events: from poller.select with any
   admissible event list that does not concern the oldest idle connection, the main thread alone (n of its atomic blocks)
   closes that connection once its keep-alive time has passed - other traffic does not keep an expired connection open *)
Theorem C13_reaper_runs_in_busy_iterations : forall g s evs c, reachable g s -> mpc s = MSel -> evs_ok g s evs = true ->
  ~ In (EvRd c) evs -> orphan s = false -> head_kept c s ->
  (exists x, getc s c = Some x /\ tmo x <= clock s) ->
  exists n s', run g s (LMain evs false :: repeat m_ n) = Some s' /\ exists x', getc s' c = Some x' /\ st x' = CClosed.
Proof. exact busy_iteration_reaps. Qed.
Print Assumptions C13_reaper_runs_in_busy_iterations.

(* returns to zero: partial - when every connection has been closed the counter is 0 (that they do get closed when
   the clients leave is C13_served_if_thread_free for the EOF event + the Finish step; refuted at capacity, above) *)
Theorem C13_returns_to_zero_partial : forall g s, reachable g s ->
  (forall c x, getc s c = Some x -> st x = CClosed \/ st x = CPending) -> nr_conns s = 0.
Proof. exact all_closed_zero. Qed.
Print Assumptions C13_returns_to_zero_partial.

(* ---- non-vacuity ---- *)
Definition gx : cfg := mkCfg 2 3 1 0 1.
Definition lx1 : list label :=
  [LConnect; LMain [EvAcc 0%nat] false; m_; m_; m_; m_; LSend 0%nat [KA]].
Definition sx1 : state := the (run gx (init gx) lx1) (init gx).

Example served_hypotheses_satisfiable :
  run gx (init gx) lx1 = Some sx1 /\ mpc sx1 = MSel /\ evs_ok gx sx1 [EvRd 0%nat] = true /\ dispatchable sx1 0%nat.
Proof.
  split. vm_compute. reflexivity. split. reflexivity. split. reflexivity.
  eexists. split. vm_compute. reflexivity. split. vm_compute. auto. left. reflexivity.
Qed.

Definition lx2 : list label :=
  lx1 ++ [LMain [EvRd 0%nat] false; m_; LStart 0%nat; LHandle 0%nat; LFinish 0%nat; LFinLock 0%nat].
Definition sx2 : state := the (run gx (init gx) lx2) (init gx).          (* idle keep-alive connection, deadline 1 *)
Definition sx3 : state := the (run gx sx2 [LTick]) sx2.                     (* ... which has passed *)

Example accounting_example : nr_conns sx2 = 1 /\ n_counted sx2 = 1 /\ keep sx2 = [0%nat] /\ regd sx2 = [0%nat].
Proof. vm_compute. repeat split. Qed.

Example expires_hypotheses_satisfiable :
  reachable gx sx3 /\ mpc sx3 = MWait /\ orphan sx3 = false /\ keep sx3 = [] ++ 0%nat :: []
  /\ exists x, getc sx3 0%nat = Some x /\ st x = CKeep /\ tmo x <= clock sx3.
Proof.
  split. exists (lx2 ++ [LTick]). vm_compute. reflexivity. split. reflexivity. split. reflexivity. split. reflexivity.
  eexists. split. vm_compute. reflexivity. split. reflexivity. vm_compute. discriminate.
Qed.

(* the reaper takes it only now: one tick earlier the same two main-thread steps put it back *)
Example not_before_example :
  (exists x, getc (the (run gx sx2 [m_; m_]) sx2) 0%nat = Some x /\ st x = CKeep)
  /\ (exists x, getc (the (run gx sx3 [m_; m_]) sx3) 0%nat = Some x /\ st x = CExpiring).
Proof. split; vm_compute; eexists; split; reflexivity. Qed.

(* an expired idle connection (deadline 1, clock 1) while the loop stands at select and a new client is waiting to be accepted *)
Definition sy : state := the (run gx sx2 [m_; m_; m_; LConnect; LTick]) sx2.
Example busy_reaper_hypotheses_satisfiable :
  reachable gx sy /\ mpc sy = MSel /\ evs_ok gx sy [EvAcc 0%nat] = true /\ ~ In (EvRd 0%nat) [EvAcc 0%nat]
  /\ orphan sy = false /\ head_kept 0%nat sy /\ backlog sy = [1%nat]
  /\ exists x, getc sy 0%nat = Some x /\ st x = CKeep /\ tmo x <= clock sy.
Proof.
  split. exists (lx2 ++ [m_; m_; m_; LConnect; LTick]). vm_compute. reflexivity.
  split. reflexivity. split. reflexivity. split. intros [H|[]]; discriminate. split. reflexivity.
  split. exists []. reflexivity. split. reflexivity.
  eexists. split. vm_compute. reflexivity. split. reflexivity. vm_compute. discriminate.
Qed.

Example stalled_example : reachable g20 s20a /\ stalled g20 s20a.
Proof. split. exact s20a_reach. exact s20a_stalled. Qed.

(* a finish_request close and a reaper close really occur (close_requires is not vacuous) *)
Example closes_occur :
  (exists x, getc (the (run gx sx3 [m_; m_; m_]) sx3) 0%nat = Some x /\ st x = CClosed /\ closes x = 1%nat).
Proof. vm_compute. eexists. repeat split. Qed.
