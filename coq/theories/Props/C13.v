(* C13 - The threaded worker accounts for every connection and never stops serving.
   Only statements, each closed by [exact]; model in Model/GThread.v, proofs in Proof/GThreadProofs.v.
   [reachable g s] = some sequence of atomic blocks of the main thread, the pool threads and the environment,
   in ANY interleaving, leads from the initial state to s. *)
From Coq Require Import List ZArith Bool Lia.
From GV Require Import Base.Enc Model.GThread Proof.GThreadProofs.
Import ListNotations.
Local Open Scope Z_scope.

(* ---- accounting: nr_conns is exactly the number of connections in New / Keep / Handling states, and a socket has
        been closed (once) exactly for the connections in state Closed ---- *)
Theorem C13_accounting : forall g s, reachable g s ->
  nr_conns s = n_counted s
  /\ (forall c x, getc s c = Some x -> closes x = match st x with CClosed => 1%nat | _ => 0%nat end).
Proof. exact accounting. Qed.
Print Assumptions C13_accounting.

Theorem C13_no_double_close : forall g s c x, reachable g s -> getc s c = Some x -> (closes x <= 1)%nat.
Proof. exact no_double_close. Qed.
Print Assumptions C13_no_double_close.

Theorem C13_closed_absorbing : forall g s l s' c x, reachable g s -> step g s l = Some s' ->
  getc s c = Some x -> st x = CClosed -> exists x', getc s' c = Some x' /\ st x' = CClosed.
Proof. exact closed_absorbing. Qed.
Print Assumptions C13_closed_absorbing.

(* ---- never closed while a request on it is being handled ---- *)
Theorem C13_never_closed_while_handled : forall g s c x, reachable g s -> getc s c = Some x ->
  st x <> CClosed -> closes x = 0%nat.
Proof. exact never_closed_while_handled. Qed.
Print Assumptions C13_never_closed_while_handled.

(* a step that closes c finds it in: handle returned / finish_request at its lock after the loop ended /
   queued and cancelled / keep-alive expired and popped by the reaper - never Running, never a live New or Keep *)
Theorem C13_close_requires : forall g s l s' c x x', reachable g s -> step g s l = Some s' ->
  (forall evs, l <> LMain evs true) ->
  getc s c = Some x -> getc s' c = Some x' -> st x <> CClosed -> st x' = CClosed ->
  (exists ka, st x = CDone ka /\ l = LFinish c) \/ (st x = CTimed /\ l = LFinLock c)
  \/ (st x = CQueued /\ l = LCancel c) \/ (st x = CExpiring /\ exists now, mpc s = MUnreg now c).
Proof. exact close_requires. Qed.
Print Assumptions C13_close_requires.

(* ---- the number of open connections never exceeds the configured maximum ---- *)
Theorem C13_bounded : forall g s, 1 <= wconn g -> nlisten g = 1%nat -> reachable g s -> nr_conns s <= wconn g.
Proof. exact bounded. Qed.
Print Assumptions C13_bounded.

Theorem C13_bounded_n_listeners : forall g s, cfg_ok g -> reachable g s ->
  nr_conns s <= wconn g + Z.of_nat (nlisten g) - 1.
Proof. exact bounded_general. Qed.
Print Assumptions C13_bounded_n_listeners.

(* ---- idle keep-alive connections are not closed before the keep-alive time has passed ---- *)
Theorem C13_keepalive_not_before : forall g s l s' c x x', reachable g s -> step g s l = Some s' ->
  (forall evs, l <> LMain evs true) ->
  getc s c = Some x -> getc s' c = Some x' -> st x = CKeep -> st x' = CExpiring ->
  tmo x <= clock s /\ tmo x = since x + keepalive g.
Proof. exact keepalive_not_before. Qed.
Print Assumptions C13_keepalive_not_before.

(* ---- D20 (genuine defect, known finding gthread-capacity-stall): at nr_conns >= worker_connections the loop
        only waits for futures; when the slots are held by idle New connections nothing - no request, no client
        leaving, no passage of time - is ever noticed again ---- *)
Theorem C13_capacity_stall_forever : forall g ls s s', stalled g s -> Forall benign ls -> run g s ls = Some s' ->
  stalled g s' /\ same_service s s' /\ nr_conns s' = nr_conns s.
Proof. exact capacity_stall_forever. Qed.
Print Assumptions C13_capacity_stall_forever.

Theorem C13_served_if_thread_free_refuted : exists g s c x,
  reachable g s /\ getc s c = Some x /\ st x = CNew /\ In c (regd s) /\ sockbuf x = [KA] /\ n_running s < threads g
  /\ forall ls s', Forall benign ls -> run g s ls = Some s' ->
       exists x', getc s' c = Some x' /\ resp x' = 0%nat /\ st x' = CNew.
Proof. exact served_if_thread_free_refuted. Qed.
Print Assumptions C13_served_if_thread_free_refuted.

Theorem C13_returns_to_zero_refuted : exists g s,
  reachable g s /\ (forall c x, getc s c = Some x -> eof x = true) /\ n_running s = 0
  /\ forall ls s', Forall benign ls -> run g s ls = Some s' -> nr_conns s' = 1.
Proof. exact returns_to_zero_refuted. Qed.
Print Assumptions C13_returns_to_zero_refuted.

(* ---- D21 (genuine defect, known finding gthread-pipelined-request-dropped): a fair run - every select reports
        everything readable, a thread is free throughout - in which the second of two pipelined requests is never
        answered and is dropped with the connection at keep-alive expiry ---- *)
Theorem C13_pipelined_request_dropped : exists g ls s x,
  runr g (init g) ls = Some s /\ getc s 0%nat = Some x
  /\ st x = CClosed /\ resp x = 1%nat /\ pbuf x = [KA] /\ eof x = false.
Proof. exact pipelined_request_dropped. Qed.
Print Assumptions C13_pipelined_request_dropped.
