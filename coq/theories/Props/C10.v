(* C10 - placeholder while the proofs are being written *)
From Coq Require Import List ZArith Bool.
From GV Require Import Gen.GenArbiter Model.Reload.
