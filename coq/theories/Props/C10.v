(* C10 - reload (HUP) replaces every worker without refusing or cutting a request.
   Statements only; every proof is `exact` of a lemma of Proof/Reload*.v / Proof/ShutdownWorker.v. *)
From Coq Require Import List ZArith Bool Lia.
From GV Require Import Gen.GenArbiter Gen.GenShutdown Model.Shutdown Proof.ShutdownWorker Model.Reload Proof.ReloadBase Proof.ReloadInv Proof.ReloadCount Proof.ReloadThm Proof.ReloadSafe.
Import ListNotations.
Local Open Scope Z_scope.

Lemma worker_tables : tables_ok.
Proof. unfold tables_ok. vm_compute. repeat split; reflexivity. Qed.

(* For any number and timing of HUPs, configuration edits, worker deaths and SIGCHLD deliveries: while the configured bind
   address stays the same, LISTENERS are the very objects the master started with, no listener is ever closed (so the
   kernel never refuses a connection), and every worker of every generation is forked with exactly these objects. *)
Theorem reload_keeps_listeners : forall n a ls, addr_ok a ls = true ->
  let s := run (init n a) ls in
  lsn s = [0] /\ closed s = [] /\ (forall w, In w (workers s) -> w_lsn w = [0]).
Proof. exact ReloadThm.reload_keeps_listeners. Qed.
Print Assumptions reload_keeps_listeners.

(* For any number and timing of HUPs (workers dying only when told to stop): whenever the master is back at the top of
   its loop, every worker that has not been retired (sent SIGTERM / dead / gone) is older than worker_age was when the
   last reload began, was forked with the Config object and the listeners of that reload, and there are exactly
   cfg.workers of them.  New workers are forked BEFORE the old ones are told to stop (the invariant's PFork / PRegister
   clauses: the count of the new generation reaches cfg.workers before manage_workers computes its victims). *)
Theorem reload_replaces_pool : forall n a ls, told_only ls = true ->
  let s := run (init n a) ls in
  cur s = PSigq \/ cur s = PSelect ->
  (forall w, In w (workers s) -> retired s w = false -> hup_age s < w_age w /\ w_cfg w = cfgid s /\ w_lsn w = lsn s) /\
  Z.of_nat (length (filter (fun w => negb (retired s w)) (workers s))) = num s /\ num s = cfgw s.
Proof. exact ReloadThm.reload_replaces_pool. Qed.
Print Assumptions reload_replaces_pool.

(* after convergence (the retired workers have exited and been reaped) *)
Theorem pool_after_convergence : forall n a ls, told_only ls = true ->
  let s := run (init n a) ls in
  cur s = PSigq \/ cur s = PSelect ->
  (forall w, In w (workers s) -> retired s w = false) ->
  wlen s = cfgw s /\ (forall w, In w (workers s) -> hup_age s < w_age w /\ w_cfg w = cfgid s /\ w_lsn w = lsn s).
Proof. exact converged_pool. Qed.

(* ... and this whatever TTIN / TTOU had made of the pool before the reload: from a pool of n running workers whose
   configuration says k (init_resized n k), once a reload has happened (the Config object in force is not the one loaded at
   start) num_workers is cfg.workers again, the unretired workers are the new generation, and after convergence the pool
   has exactly the newly configured number *)
Theorem reload_replaces_resized_pool : forall n k a ls, 0 <= k -> told_only ls = true ->
  let s := run (init_resized n k a) ls in
  cur s = PSigq \/ cur s = PSelect ->
  (forall w, In w (workers s) -> retired s w = false -> hup_age s < w_age w /\ w_cfg w = cfgid s /\ w_lsn w = lsn s) /\
  Z.of_nat (length (filter (fun w => negb (retired s w)) (workers s))) = num s /\ (0 < cfgid s -> num s = cfgw s).
Proof. exact reload_replaces_pool_resized. Qed.
Print Assumptions reload_replaces_resized_pool.

Theorem resized_pool_after_convergence : forall n k a ls, 0 <= k -> told_only ls = true ->
  let s := run (init_resized n k a) ls in
  cur s = PSigq \/ cur s = PSelect -> 0 < cfgid s ->
  (forall w, In w (workers s) -> retired s w = false) ->
  wlen s = cfgw s /\ (forall w, In w (workers s) -> hup_age s < w_age w /\ w_cfg w = cfgid s /\ w_lsn w = lsn s).
Proof. exact converged_pool_resized. Qed.

(* for ANY schedule without further TTIN / TTOU, deaths included: a reload resets num_workers to the configured number *)
Theorem count_after_reload : forall n k a ls, no_resize ls = true ->
  let s := run (init_resized n k a) ls in 0 < cfgid s -> num s = cfgw s.
Proof. exact ReloadCount.count_after_reload. Qed.
Print Assumptions count_after_reload.

(* what the three signals do to num_workers and cfg.workers, in any state *)
Theorem dispatch_counts : forall s,
  num (dispatch s SIGHUP) = disk_w s /\ cfgw (dispatch s SIGHUP) = disk_w s /\
  num (dispatch s SIGTTIN) = num s + 1 /\
  num (dispatch s SIGTTOU) = (if num s <=? 1 then num s else num s - 1) /\
  cfgw (dispatch s SIGTTIN) = cfgw s /\ cfgw (dispatch s SIGTTOU) = cfgw s.
Proof. exact ReloadCount.dispatch_counts. Qed.

(* TTIN / TTOU anywhere - before, between and after the reloads: whenever the master is back at the top of its loop, every
   worker that has not been retired was forked after the last reload began, with the Config object and the listeners of that
   reload.  (With TTIN / TTOU under way the COUNT of unretired workers is not an invariant of the loop: after TTIN the missing
   worker is spawned only once the told ones have been reaped, after TTOU new workers are told; num_workers itself is
   dispatch_counts.) *)
Theorem reload_generation_with_resizing : forall n cw a ls, no_untold_death ls = true ->
  let s := run (init_resized n cw a) ls in
  cur s = PSigq \/ cur s = PSelect ->
  forall w, In w (workers s) -> retired s w = false -> hup_age s < w_age w /\ w_cfg w = cfgid s /\ w_lsn w = lsn s.
Proof. exact reload_generation_safe. Qed.
Print Assumptions reload_generation_with_resizing.

Theorem resized_reload_keeps_listeners : forall n k a ls, addr_ok a ls = true ->
  let s := run (init_resized n k a) ls in
  lsn s = [0] /\ closed s = [] /\ (forall w, In w (workers s) -> w_lsn w = [0]).
Proof. exact reload_keeps_listeners_resized. Qed.

(* hup_age is worker_age at the moment the reload is dispatched *)
Theorem generation_mark : forall s q, sigq s = SIGHUP :: q -> cur s = PSigq -> hup_age (master s) = wage s.
Proof. exact hup_age_is_wage_at_reload. Qed.

(* side finding: a NEW worker dying inside the reload window leaves an OLD worker, with the OLD configuration, unretired *)
Theorem reload_replaces_pool_needs_no_death_refuted :
  exists ls, let s := run (init 2 0) ls in
    cur s = PSigq /\ exists w, In w (workers s) /\ retired s w = false /\ w_age w <= hup_age s /\ w_cfg w <> cfgid s.
Proof.
  exists ([Hup] ++ repeat Master 5 ++ [Exit 102 9; Chld] ++ repeat Master 8). vm_compute. split; [reflexivity|].
  eexists. split; [right; left; reflexivity|]. repeat split; discriminate.
Qed.

(* the old worker: it is only ever sent SIGTERM by a reload (never KILL / QUIT).  A sync or gthread worker then never gives
   up a request it has started; for every class a started request is answered in full if the application finishes within
   graceful_timeout (Props/C04.v started_requests_complete with dl = the worker's own drain deadline). *)
Theorem old_worker_finishes : forall g cl ph need keep clk es,
  cl = Sync \/ cl = GThread -> started (w_init cl ph need keep clk) = true -> forallb gentle es = true ->
  w_conn (wrun g (w_init cl ph need keep clk) es) <> CLost.
Proof. exact (term_only_never_loses worker_tables). Qed.
Print Assumptions old_worker_finishes.

Theorem old_worker_finishes_within_graceful : forall g dl es w, 0 <= g ->
  Safe g dl w -> active (w_conn w) = true -> admissible g dl w es ->
  let w' := wrun g w es in
  w_need w + w_clk w <= w_clk w' -> w_clk w' < dl -> w_conn w' = CDone.
Proof. exact (ShutdownWorker.started_requests_complete worker_tables). Qed.

(* ---- non-vacuity ---------------------------------------------------------------------------------------------------- *)
(* two workers; edit to 3 workers; HUP; the new ones are forked, the old ones told; they exit; converged *)
Definition ex_ls : list label :=
  [Edit 3 0; Hup] ++ repeat Master 12 ++ [ExitTold 100; ExitTold 101; Chld] ++ repeat Master 4.
Example reload_example :
  let s := run (init 2 0) ex_ls in
  told_only ex_ls = true /\ addr_ok 0 ex_ls = true /\ (cur s = PSigq \/ cur s = PSelect) /\
  map w_pid (workers s) = [102; 103; 104] /\ map w_age (workers s) = [3; 4; 5] /\ map w_cfg (workers s) = [1; 1; 1] /\
  hup_age s = 2 /\ cfgid s = 1 /\ forallb (fun w => negb (retired s w)) (workers s) = true.
Proof. vm_compute. repeat split; auto. Qed.
(* before the old ones exit: they are in WORKERS, retired *)
Example reload_example_midway :
  let s := run (init 2 0) ([Edit 3 0; Hup] ++ repeat Master 12) in
  map w_pid (workers s) = [100; 101; 102; 103; 104] /\ map (retired s) (workers s) = [true; true; false; false; false].
Proof. vm_compute. repeat split. Qed.
(* TTIN had made it 3 workers, the configuration says 2; HUP: two new ones, the three old ones told; converged: 2 workers *)
Definition ex_resized : list label :=
  [Hup] ++ repeat Master 10 ++ [ExitTold 100; ExitTold 101; ExitTold 102; Chld] ++ repeat Master 4.
Example resized_example :
  let s := run (init_resized 3 2 0) ex_resized in
  told_only ex_resized = true /\ (cur s = PSigq \/ cur s = PSelect) /\ 0 < cfgid s /\ num (init_resized 3 2 0) = 3 /\
  map w_pid (workers s) = [103; 104] /\ num s = 2 /\ forallb (fun w => negb (retired s w)) (workers s) = true.
Proof. vm_compute. repeat split; auto. Qed.
(* HUP, then TTIN while the old workers are still around, then TTOU twice: the survivors are all of the new generation *)
Definition ex_mixed : list label :=
  [Hup] ++ repeat Master 9 ++ [Ttin] ++ repeat Master 6 ++ [ExitTold 100; ExitTold 101; Chld] ++ repeat Master 8 ++
  [Ttou; Ttou] ++ repeat Master 12.
Example mixed_example :
  let s := run (init 2 0) ex_mixed in
  no_untold_death ex_mixed = true /\ (cur s = PSigq \/ cur s = PSelect) /\ num s = 1 /\ cfgw s = 2 /\
  map w_pid (workers s) = [102; 103; 104] /\ map (retired s) (workers s) = [true; true; false] /\ hup_age s = 2.
Proof. vm_compute. repeat split; auto. Qed.
Example old_worker_example :
  w_conn (wrun 768 (w_init GThread CApp 5000 512 0) [WTerm; WTick 256; WLoop; WTick 4000; WLoop; WTick 1000; WLoop]) = CDone.
Proof. vm_compute. reflexivity. Qed.
