(* C06 - placeholder while the model is being validated; theorems follow *)
From GV Require Import Base.Bytes Base.Scan Base.PyStr Model.Parser.
