(* C06 - Parsing does not depend on how bytes are split across reads.
   Only statements, each closed by [exact]; model in Model/Parser.v, proofs in Proof/Parser*.v,
   Proof/Body*.v, Proof/Chunked*.v. *)
From Coq Require Import List NArith ZArith Bool.
From GV Require Import Base.Bytes Base.Scan Base.PyStr Gen.GenParser Model.Parser Proof.ParserHead Proof.ChunkedReader Proof.HeadSound Proof.RunFuel.
Import ListNotations.

(* [run c x progs p] is the whole observable behaviour of a connection whose successive reads are the
   chunks of [p]: every request (method, target, version, header list, scheme, PROXY info, close
   decision), the result of every call of each request's read program on wsgi.input, the trailers, the
   number of bytes left after each body, and the terminal event (clean end or the exception class).
   It is the same for every segmentation of the same stream: no bound on stream length, number of
   requests, number or size of reads. *)
Theorem C06_segmentation_independent : forall c x progs p,
    NE p -> run c x progs p = run c x progs (whole (u_abs p)).
Proof. exact run_segmentation_independent. Qed.
Print Assumptions C06_segmentation_independent.

Corollary C06_two_segmentations_agree : forall c x progs p1 p2,
    NE p1 -> NE p2 -> concat p1 = concat p2 -> run c x progs p1 = run c x progs p2.
Proof.
  intros c x progs p1 p2 H1 H2 E.
  rewrite (run_segmentation_independent c x progs p1 H1), (run_segmentation_independent c x progs p2 H2).
  unfold u_abs. rewrite E. reflexivity.
Qed.
Print Assumptions C06_two_segmentations_agree.

(* the request head alone: same request, same leftover bytes *)
Theorem C06_head_independent : forall c x n p, NE p ->
    canon_req (parse_request c x n p) = canon_req (parse_request c x n (whole (u_abs p))).
Proof. exact parse_request_indep. Qed.
Print Assumptions C06_head_independent.

(* The loops of the model run on explicit fuel; the fuel never decides anything.  No request head answers
   "out of fuel", and giving run_conn more fuel than the S (length of the stream) units [run] gives it never
   changes the observation (every request consumes at least its request line) - so the equality above is
   never an equality of two truncated runs. *)
Theorem C06_head_never_out_of_fuel : forall c x n p, parse_request c x n p <> inr EOutOfFuel.
Proof. exact parse_request_never_out_of_fuel. Qed.
Print Assumptions C06_head_never_out_of_fuel.
Theorem C06_fuel_never_decides : forall c x, safe_cfg c -> forall f1 f2 n progs p,
    NE p -> (length (u_abs p) < f1)%nat -> (length (u_abs p) < f2)%nat ->
    run_conn c x f1 n progs p = run_conn c x f2 n progs p.
Proof. exact run_conn_fuel_irrelevant. Qed.
Print Assumptions C06_fuel_never_decides.

(* ---- non-vacuity: a pipelined chunked request cut inside the chunk-size line, the chunk
        terminator and the trailer, against the unsegmented stream ---- *)
Definition ex_stream : bytes :=
  [80;79;83;84;32;47;32;72;84;84;80;47;49;46;49;13;10;
   84;114;97;110;115;102;101;114;45;69;110;99;111;100;105;110;103;58;32;99;104;117;110;107;101;100;13;10;13;10;
   53;13;10;104;101;108;108;111;13;10;48;13;10;88;58;32;49;13;10;13;10;
   71;69;84;32;47;110;32;72;84;84;80;47;49;46;49;13;10;13;10]%N.
Definition ex_ext : ext := {| uri_ok := fun _ => true; inet_ok := fun _ _ => true |}.
Definition ex_cut (n m : nat) : unreader := [firstn n ex_stream; firstn m (skipn n ex_stream); skipn (n + m) ex_stream].
Example segmented_run_is_nontrivial :
  run default_cfg ex_ext [[Read (Some 2%Z); Readline None]; []] (ex_cut 48 9)
  = run default_cfg ex_ext [[Read (Some 2%Z); Readline None]; []] [ex_stream]
  /\ length (run default_cfg ex_ext [[Read (Some 2%Z); Readline None]; []] [ex_stream]) = 73%nat.
Proof. vm_compute. split; reflexivity. Qed.
