(* C20 - Workers always run with exactly the configured user and group.
   Only statements, each closed by [exact]; model in Model/Creds.v, proofs in Proof/CredsProofs.v.

   Reading of the property (DESIGN.md section 6, C20):
   - master = a root process started normally ([root_master]: real and effective uid 0, one gid in the
     three gid slots; saved uid and supplementary groups arbitrary);
   - "a user is configured" = the uid handed to set_owner_process is non-zero (an unconfigured id
     defaults to the master's effective id, i.e. 0); the group id may be anything, 0 included;
   - the kernel's credential rules are modelled (trusted, validated on /proc/<pid>/status of real
     processes by the correspondence run). *)
From Coq Require Import List NArith ZArith Bool.
From GV Require Import Base.Enc Model.Creds Proof.CredsProofs.
Import ListNotations.
Local Open Scope Z_scope.

(* (1) The identity change itself: all three user ids and all three group ids become the configured
   ones; with initgroups the supplementary set becomes exactly the user's groups plus the gid,
   without it (or for a uid without a passwd entry) the set is left alone. *)
Theorem C20_worker_identity : forall db c0 uid gid ig,
    root_master c0 -> uid <> 0 ->
    set_owner_process db uid gid ig c0 = Done (target db uid gid ig c0).
Proof. exact worker_identity. Qed.
Print Assumptions C20_worker_identity.

Theorem C20_initgroups_exact : forall db n g y,
    In y (getgrouplist db n g) <-> y = g \/ In y (memberships db n).
Proof. exact getgrouplist_exact. Qed.
Print Assumptions C20_initgroups_exact.

(* (2) Before any application code: in Worker.init_process every point where application code runs
   (load_wsgi, run) comes after set_owner_process returned, with exactly the credentials it
   produced; a worker whose identity change raises dies without running application code. *)
Theorem C20_app_code_only_after_drop : forall db uid gid ig reload tmp c0 c,
    In (EvApp c) (w_log (init_process db uid gid ig reload tmp c0)) ->
    set_owner_process db uid gid ig c0 = Done c /\ w_creds (init_process db uid gid ig reload tmp c0) = c.
Proof. exact app_code_after_drop. Qed.
Print Assumptions C20_app_code_only_after_drop.

Theorem C20_app_code_only_after_drop_any_order : forall db uid gid ig tmp pre post c0,
    forallb quiet_step pre = true -> forallb not_owner post = true ->
    let w := exec_steps db uid gid ig tmp (pre ++ StSetOwner :: post) {| w_creds := c0; w_log := []; w_dead := false |} in
    forall c, In (EvApp c) (w_log w) -> set_owner_process db uid gid ig c0 = Done c /\ w_creds w = c.
Proof. exact app_code_after_drop_generic. Qed.
Print Assumptions C20_app_code_only_after_drop_any_order.

Theorem C20_failed_drop_runs_no_app : forall db uid gid ig reload tmp c0 e c',
    set_owner_process db uid gid ig c0 = Raised e c' ->
    no_app (w_log (init_process db uid gid ig reload tmp c0)) /\
    w_dead (init_process db uid gid ig reload tmp c0) = true.
Proof. exact failed_drop_runs_no_app. Qed.
Print Assumptions C20_failed_drop_runs_no_app.

(* (3) Every generation, and the master keeps its identity: after ANY history of worker deaths,
   HUP (with any new configuration), USR2, TTIN, TTOU and master exits, every master still has the
   credentials the first master started with, and every worker - initial, respawned, started by a
   reload, started by an upgraded master - ran its application code only with the identity
   configured at the time it was spawned, and still has it. *)
Theorem C20_every_generation : forall db c0 k evs,
    root_master c0 -> good_cfg k -> Forall good_ev evs ->
    forall p, In p (run db (boot db c0 k) evs) ->
      match p_role p with
      | Master => p_creds p = c0
      | Worker => forall c, In (EvApp c) (p_log p) ->
                    c = target db (c_uid (p_cfg p)) (c_gid (p_cfg p)) (c_ig (p_cfg p)) c0 /\ p_creds p = c
      end.
Proof. exact every_worker_generation_identity. Qed.
Print Assumptions C20_every_generation.

(* the same without any assumption on master or configuration: application code only ever runs with
   what set_owner_process made of the first master's credentials *)
Theorem C20_every_generation_same_path : forall db c0 k evs,
    Forall (proc_ok db c0 (fun _ => True)) (run db (boot db c0 k) evs).
Proof. exact every_generation_same_path. Qed.
Print Assumptions C20_every_generation_same_path.

(* (4) What the worker needs afterwards. *)
Theorem C20_heartbeat_touchable : forall db c0 uid gid ig umask c,
    euid c0 = 0 -> ruid c0 = 0 ->
    set_owner_process db uid gid ig c0 = Done c ->
    exists tmp, workertmp_create c0 uid gid umask = Some tmp /\ can_utime c tmp = true.
Proof. exact heartbeat_touchable. Qed.
Print Assumptions C20_heartbeat_touchable.

Theorem C20_alive_worker_heartbeat : forall db uid gid ig reload tmp c0,
    w_dead (init_process db uid gid ig reload tmp c0) = false ->
    In (EvNotify true) (w_log (init_process db uid gid ig reload tmp c0)).
Proof. exact alive_worker_heartbeat. Qed.
Print Assumptions C20_alive_worker_heartbeat.

Theorem C20_socket_owned_by_worker : forall db c0 uid gid ig umask c,
    euid c0 = 0 -> ruid c0 = 0 -> Z.testbit umask 7 = false ->
    set_owner_process db uid gid ig c0 = Done c ->
    exists f, unixsocket_bind c0 uid gid umask = Some f /\ f_uid f = uid /\ f_gid f = gid /\ can_write c f = true.
Proof. exact socket_usable_by_worker. Qed.
Print Assumptions C20_socket_owned_by_worker.

(* (5) Spellings: a name and its numeric id configure the same identity. *)
Theorem C20_spelling_user : forall db m n u,
    validate_user db m (SpName n) = Some u ->
    validate_user db m (SpDigits u) = Some u /\ validate_user db m (SpInt u) = Some u.
Proof. exact spelling_agree_user. Qed.
Theorem C20_spelling_group : forall db m n g,
    validate_group db m (SpName n) = Some g ->
    validate_group db m (SpDigits g) = Some g /\ validate_group db m (SpInt g) = Some g.
Proof. exact spelling_agree_group. Qed.
Print Assumptions C20_spelling_user.

(* (6) Only a group configured (the worker stays root), and why root_master asks for ruid = 0. *)
Theorem C20_group_only : forall db c0 gid ig,
    root_master c0 ->
    set_owner_process db 0 gid ig c0 =
    Done (with_gids (if ig then with_groups c0 (match pw_uid_name db 0 with
                                                | Some n => getgrouplist db n gid
                                                | None => [gid] end)
                     else c0) gid gid gid).
Proof. exact group_only. Qed.
Theorem C20_setuid_launcher_keeps_root : forall db uid gid c0,
    uid <> 0 -> ruid c0 = uid -> euid c0 = 0 ->
    forall c, set_owner_process db uid gid false c0 = Done c -> euid c = 0.
Proof. exact setuid_launcher_keeps_root. Qed.
Print Assumptions C20_group_only.

(* ---- non-vacuity ---- *)
Definition ex_tab : dbtab :=
  {| t_pw := [(0, 0%N); (33, 1%N); (65534, 2%N)];
     t_gr := [(0%N, 0); (1%N, 4); (2%N, 24); (3%N, 33); (4%N, 65534)];
     t_mem := [(2%N, [4; 24]); (1%N, [4])] |}.
Definition ex_db := db_of_tab ex_tab.
Definition c_root : creds := mk 0 0 0 0 0 0 [0; 4; 27].

Example root_master_inhabited : root_master c_root.
Proof. repeat split. Qed.

Example identity_example :
  set_owner_process ex_db 65534 65534 true c_root = Done (mk 65534 65534 65534 65534 65534 65534 [4; 24; 65534]).
Proof. vm_compute. reflexivity. Qed.
Example identity_example_no_initgroups :
  set_owner_process ex_db 65534 65534 false c_root = Done (mk 65534 65534 65534 65534 65534 65534 [0; 4; 27]).
Proof. vm_compute. reflexivity. Qed.
Example spelled_by_name :
  obs_cell ex_tab c_root (SpName 2%N) (SpName 4%N) true = obs_cell ex_tab c_root (SpDigits 65534) (SpInt 65534) true.
Proof. vm_compute. reflexivity. Qed.

(* the wrong order (setuid first) cannot work: the kernel refuses the later setgid *)
Example setgid_after_setuid_refused :
  match k_setuid 65534 c_root with SysOk c => k_setgid 65534 c | SysEPERM => SysEPERM end = SysEPERM.
Proof. vm_compute. reflexivity. Qed.

Example user_only_initgroups :
  set_owner_process ex_db 65534 0 true c_root = Done (mk 65534 65534 65534 0 0 0 [0; 4; 24]).
Proof. vm_compute. reflexivity. Qed.
Example group_only_initgroups_example :
  set_owner_process ex_db 0 65534 true c_root = Done (mk 0 0 0 65534 65534 65534 [65534]).
Proof. vm_compute. reflexivity. Qed.

Definition ex_cfg : cfg := {| c_uid := 65534; c_gid := 65534; c_ig := true; c_umask := 0; c_reload := false; c_workers := 2 |}.
Definition ex_cfg2 : cfg := {| c_uid := 33; c_gid := 33; c_ig := false; c_umask := 63; c_reload := true; c_workers := 1 |}.
Definition ex_hist : list sevent := [SKillWorker 1; SHup 0 ex_cfg2; SUsr2 0 ex_cfg2; STtin 0; SKillWorker 6; STerm 0].

Example history_hypotheses : good_cfg ex_cfg /\ Forall good_ev ex_hist.
Proof. split; [discriminate|]. repeat constructor; discriminate. Qed.

(* the history really creates workers of every kind, and each of them ran application code *)
Example history_generations :
  let s := run ex_db (boot ex_db c_root ex_cfg) ex_hist in
  (length s, length (filter (fun p => negb (is_master p) && p_alive p) s),
   forallb (fun p => is_master p || existsb (fun e => match e with EvApp _ => true | _ => false end) (p_log p)) s,
   map (fun p => euid (p_creds p)) s)
  = (9%nat, 1%nat, true, [0; 65534; 65534; 65534; 33; 0; 33; 33; 33]).
Proof. vm_compute. reflexivity. Qed.

(* the heartbeat chown matters: a root-owned file cannot be touched by the dropped worker *)
Example heartbeat_needs_chown :
  can_utime (mk 65534 65534 65534 65534 65534 65534 []) {| f_uid := 0; f_gid := 0; f_mode := 384 |} = false
  /\ exists tmp, workertmp_create c_root 65534 65534 0 = Some tmp /\ f_uid tmp = 65534.
Proof. split; [reflexivity|]. eexists. split; reflexivity. Qed.

(* ... and so does the socket chown under a restrictive umask (0o077) *)
Example socket_needs_chown :
  can_write (mk 65534 65534 65534 65534 65534 65534 []) {| f_uid := 0; f_gid := 0; f_mode := Z.ldiff 511 63 |} = false
  /\ Z.testbit 63 7 = false.
Proof. split; reflexivity. Qed.
