(* C18 - max_requests recycles workers without losing requests.
   Only statements; models in Model/Handle.v (the counter block `count_request`, one request of a connection
   `one_request`) and Model/Recycle.v (a worker = shared counters + connections, under ANY interleaving of
   accepts and request dispatches); proofs in Proof/RecycleProofs.v and Proof/SimProofs.v.

   What is NOT claimed here: "clients never see a dropped request because of the recycling" is false for the
   thread worker on the current tree (finding D14, confirmed on the real ThreadWorker.run: a connection that was
   accepted but has not become readable when the main loop sees alive = False is closed without an answer;
   harness/props/c18.py reproduces it and reports it under the known-finding key
   gthread-idle-conn-dropped-at-recycle).  The replacement of the exited worker is C03's theorem. *)
From Coq Require Import List NArith ZArith Bool.
From GV Require Import Base.Enc Base.Dec Gen.GenErrors Model.Handle Model.Recycle.
From GV Require Import Proof.HandleProofs Proof.ConnProofs Proof.RecycleProofs Proof.SimProofs.
Import ListNotations.
Local Open Scope N_scope.

(* (1) no worker keeps accepting work after the limit: for every schedule, once `alive` has been cleared the
   worker enters the application at most once more per connection that was open at that moment (g_dead_open),
   and never before ... *)
Theorem C18_recycle_bound : forall w c st l, w_alive st = true ->
    let g := wrun w c (world0 st) l in
    match g_dead_open g with
    | Some n => w_alive (g_st g) = false /\ (g_after g <= n)%nat
    | None => w_alive (g_st g) = true /\ g_after g = 0%nat
    end.
Proof. exact recycle_bound. Qed.
Print Assumptions C18_recycle_bound.

(* ... no new connection is taken by a worker that is no longer alive ... *)
Theorem C18_no_accept_after_limit : forall w c g ps apps fs,
    w_alive (g_st g) = false -> wstep w c g (SAccept ps apps fs) = g.
Proof. exact wstep_no_accept_when_dead. Qed.
Print Assumptions C18_no_accept_after_limit.

(* ... a request handled by a worker that is no longer alive ends its connection (force_close) ... *)
Theorem C18_request_after_limit_closes : forall w c st p apps fs, w_alive st = false ->
    exists x st1 fs1 evs, one_request w c st p apps fs = Done x st1 fs1 evs.
Proof. exact dead_request_done. Qed.
Print Assumptions C18_request_after_limit_closes.

(* ... and `alive` is cleared exactly when the counter reaches max_requests (+ jitter). *)
Theorem C18_recycled_at_limit : forall w c st l, w_alive st = true ->
    let g := wrun w c (world0 st) l in
    w_nr st < w_nr (g_st g) -> c_max c <= w_nr (g_st g) -> w_alive (g_st g) = false.
Proof. exact recycled_at_limit. Qed.
Print Assumptions C18_recycled_at_limit.

(* the sync worker, one connection at a time: never more than max_requests requests, and the connection
   whose request reached the limit is the last one it takes (0 in flight) *)
Theorem C18_sync_recycle : forall conns c st, w_alive st = true -> w_nr st < c_max c ->
    Forall (fun o => o_escaped o = None) (sync_life c st conns) ->
    Forall (fun o => w_nr (o_st o) <= c_max c) (sync_life c st conns)
    /\ (forall pre o post, sync_life c st conns = pre ++ o :: post -> post <> [] ->
          w_alive (o_st o) = true /\ w_nr (o_st o) < c_max c).
Proof. exact sync_recycle. Qed.
Print Assumptions C18_sync_recycle.

(* (2) the request that reaches the limit, and those handled afterwards on connections already open, are
   answered in full: what handle_request writes (status, framing, every body byte, the access record, the
   terminating chunk) is the same whatever the counters are; only the Connection option of the head may differ.
   Hypothesis: the application calls start_response before it produces output. *)
Theorem C18_limit_request_answered : forall w c c' st st' h a fs,
    starts_first (a_acts a) = true -> c_sendfile c = c_sendfile c' ->
    let '(hr, _, fs1, evs) := handle_request w c st h a fs in
    let '(hr', _, fs1', evs') := handle_request w c' st' h a fs in
    map erase evs = map erase evs' /\ fs1 = fs1' /\ count is_app evs = count is_app evs'.
Proof. exact response_independent_of_counters. Qed.
Print Assumptions C18_limit_request_answered.

(* (3) with max_requests unset the limit is sys.maxsize: whatever the schedule, a worker that has handled
   fewer requests than that is never recycled *)
Theorem C18_never_recycled_when_unset : forall w c st l pick, w_alive st = true ->
    c_max c = effective_max 0 pick ->
    let g := wrun w c (world0 st) l in w_nr (g_st g) < 9223372036854775807 -> w_alive (g_st g) = true.
Proof. exact never_recycled_when_unset. Qed.
Print Assumptions C18_never_recycled_when_unset.

Theorem C18_never_recycled_below_limit : forall w c st l, w_alive st = true ->
    let g := wrun w c (world0 st) l in w_nr (g_st g) < c_max c -> w_alive (g_st g) = true.
Proof. exact never_recycled_below_limit. Qed.
Print Assumptions C18_never_recycled_below_limit.

(* ---- non-vacuity ---- *)
Definition hd11 : head := {| h_v10 := false; h_head := false; h_close := false; h_expect := 0; h_create_exn := None |}.
Definition okapp : app := {| a_acts := [AStart 200 (Some 2); AReturn; AWrite [111;107]]; a_file := None |}.
Definition cfg2 : cfg := {| c_max := effective_max 2 0; c_keepalive := true; c_sendfile := true; c_max_keepalived := 10 |}.
Definition st0 : wst := {| w_nr := 0; w_alive := true; w_keep := 0; w_conns := 0 |}.
Definition three := [PHead hd11; PHead hd11; PHead hd11].

(* thread worker, max_requests = 2, two keep-alive connections A and B: A, B (limit: alive cleared, B closes,
   A is the one connection still open), A once more (answered, closed), a third connection is not taken,
   A again does nothing *)
Example gthread_limit_run :
  let g := wrun WGthread cfg2 (world0 st0)
             [SAccept three [okapp; okapp; okapp] []; SAccept three [okapp; okapp; okapp] [];
              SDispatch 0; SDispatch 1; SDispatch 0; SAccept three [okapp] []; SDispatch 0; SDispatch 2] in
  g_dead_open g = Some 1%nat /\ g_after g = 1%nat /\ w_nr (g_st g) = 3 /\ w_alive (g_st g) = false
  /\ map k_open (g_conns g) = [false; false] /\ length (g_log g) = 3%nat.
Proof. vm_compute. repeat split. Qed.

Example unset_is_maxsize : effective_max 0 3 = 9223372036854775807 /\ effective_max 5 3 = 8.
Proof. split; reflexivity. Qed.

(* the limit request gets the same bytes as an ordinary one; only keep-alive becomes close *)
Example limit_request_same_bytes :
  let '(_, _, _, e1) := handle_request WGthread cfg2 st0 hd11 okapp [] in
  let '(_, _, _, e2) := handle_request WGthread cfg2 {| w_nr := 1; w_alive := true; w_keep := 0; w_conns := 0 |} hd11 okapp [] in
  e1 <> e2 /\ map erase e1 = map erase e2
  /\ e2 = [EvApp; EvHdr (Some 200) true false (Some 2) FOk; EvData [111;107] FOk; EvAccess (Some 200) 2].
Proof. vm_compute. repeat split. discriminate. Qed.

Example sync_stops_after_limit :
  let c1 := {| c_max := effective_max 1 0; c_keepalive := true; c_sendfile := true; c_max_keepalived := 10 |} in
  length (sync_life c1 st0 [([PHead hd11], [okapp], []); ([PHead hd11], [okapp], []); ([PHead hd11], [okapp], [])]) = 1%nat.
Proof. vm_compute. reflexivity. Qed.
