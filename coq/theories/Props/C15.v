(* C15 - The WSGI environ faithfully reflects the request that was received.
   Only statements, each closed by [exact]; model in Model/Environ.v, reference mapping in
   Spec/EnvSpec.v (RFC 9112 / RFC 3986 / RFC 3875 / PEP 3333, single left-to-right scans), proofs in
   Proof/EnvC15Proofs.v. *)
From Coq Require Import List NArith ZArith Bool.
From GV Require Import Base.Enc Base.Dec Gen.GenEnv Model.EnvStr Model.Environ Spec.EnvSpec Proof.EnvStrProofs Proof.EnvC08Proofs Proof.EnvC15Proofs.
Import ListNotations.
Local Open Scope N_scope.

(* For every accepted request (any configuration outside the three documented-unsafe parser switches, any
   peer, any position in the connection, any behaviour of inet_pton / netloc validation, any PROXY
   information attached by the worker) the environ built by the model carries, on the variables the
   property lists, exactly the reference mapping of the request's own bytes:
     REQUEST_METHOD, RAW_URI, SERVER_PROTOCOL  the three parts of the request line
     QUERY_STRING                             the RFC 3986 query of the target, undecoded
     HTTP_<NAME>                              values of the presented fields of that name, comma-joined in order
     CONTENT_LENGTH                           likewise (the parser admits at most one)
     CONTENT_TYPE                             likewise when the field occurs at most once, or always on a tree that joins
                                              repeated Content-Type fields (GenEnv.content_type_joins, probed on the
                                              real wsgi.create); duplicates on gunicorn 23.0.0: see refuted below
     SCRIPT_NAME ++ PATH_INFO                 the percent-decoded RFC 3986 path, one latin-1 character per octet,
                                              SCRIPT_NAME being the configured one unless a presented SCRIPT_NAME
                                              field exists (C08 says who may present one)
   [present] is the header-name policy (which fields are forwarded at all), the subject of C08. *)
Theorem C15_environ_faithful : forall (inet4_ok inet6_ok : bytes -> inet_res) (netloc_ok : bytes -> bool) c p reqno data r rest i e,
  safe_cfg c = true ->
  parse_request inet4_ok inet6_ok netloc_ok c p reqno data = PAccept r rest ->
  wsgi_create c (set_ppi r i) p = inr e ->
  exists rq,
    sp_request (http_part c reqno data) = Some rq /\
    let present := kept c (fwd_in_force c p) in
    let tg := sp_target (s_target rq) in
    env_get s_REQUEST_METHOD e = Some (s_method rq) /\
    env_get s_RAW_URI e = Some (s_target rq) /\
    env_get s_SERVER_PROTOCOL e = Some (s_protocol rq) /\
    env_get s_QUERY_STRING e = Some (t_query tg) /\
    (forall k, starts_with s_HTTP_ k = true -> env_get k e = sp_var present (s_fields rq) k) /\
    env_get s_CONTENT_LENGTH e = sp_var present (s_fields rq) s_CONTENT_LENGTH /\
    (content_type_joins = true \/ (length (sp_values present (s_fields rq) s_CONTENT_TYPE) <= 1)%nat ->
       env_get s_CONTENT_TYPE e = sp_var present (s_fields rq) s_CONTENT_TYPE) /\
    exists sn pinfo,
      env_get s_SCRIPT_NAME e = Some sn /\ env_get s_PATH_INFO e = Some pinfo /\
      ((forall f, In f (s_fields rq) -> present (sp_upper (fst f)) = true -> sp_upper (fst f) <> s_SCRIPT_NAME) ->
         sn = os_script_name c) /\
      (nmem 37 sn = false -> sn ++ pinfo = pct_decode (t_path tg)).
Proof. exact environ_faithful_proof. Qed.
Print Assumptions C15_environ_faithful.

(* urllib's unquote_to_bytes (split on "%", look two characters ahead) on the latin-1 bytes is the
   octet-by-octet reference decoder, for every byte string *)
Theorem C15_percent_decoding : forall s, unquote s = pct_decode s.
Proof. exact unquote_is_pct_decode. Qed.
Print Assumptions C15_percent_decoding.

(* util.split_request_uri (urlsplit with its find / min / split arithmetic and the "." trick for "//")
   yields the RFC 3986 components for every target the parser lets through *)
Theorem C15_target_split : forall netloc_ok uri parts,
  clean uri -> split_request_uri netloc_ok uri = Some parts ->
  u_path parts = t_path (sp_target uri) /\ u_query parts = t_query (sp_target uri) /\
  u_fragment parts = t_fragment (sp_target uri) /\
  u_netloc parts = match t_authority (sp_target uri) with Some a => a | None => [] end.
Proof. exact split_request_uri_spec. Qed.
Print Assumptions C15_target_split.

(* the stored header list of an accepted head is the reference field list, names upper-cased, minus
   the fields the name policy withholds: nothing is merged, reordered or rewritten before wsgi.create *)
Theorem C15_fields_are_stored_in_order : forall c p lines hs h,
  strip_header_spaces c = false -> permit_obsolete_folding c = false ->
  parse_headers c p lines = HOk hs h ->
  exists fs, sp_fields lines = Some fs /\ hs = stored c (fwd_in_force c p) fs.
Proof. exact parse_headers_spec. Qed.
Print Assumptions C15_fields_are_stored_in_order.

(* table lemma behind "accepted targets contain only 0x21-0x7e and 0x80-0xff": what urlsplit strips
   or silently deletes is refused by the parser (fails to compile on a tree without that check) *)
Lemma urlsplit_cannot_alter_an_accepted_target :
  forallb (fun c => nmem c target_badchars) (urlsplit_lstripped ++ urlsplit_removed) = true.
Proof. vm_compute. reflexivity. Qed.

(* ---- non-vacuity and witnesses ------------------------------------------------------------------------------- *)
Definition yes (_ : bytes) : bool := true.
Definition ok (_ : bytes) : inet_res := IOk.
Definition cfg0 : cfg :=
  {| forwarded_allow_ips := default_forwarded_allow_ips; forwarder_headers := default_forwarder_headers;
     secure_scheme_headers := default_secure_scheme_headers; header_map := Drop;
     proxy_protocol := false; proxy_allow_ips := default_proxy_allow_ips; is_ssl := false;
     strip_header_spaces := false; permit_obsolete_folding := false; casefold_http_method := false;
     permit_unconventional_http_method := false; permit_unconventional_http_version := false;
     limit_request_line := default_limit_request_line; limit_request_fields := default_limit_request_fields;
     limit_request_field_size := default_limit_request_field_size; keepalive := 2; os_script_name := [47;97] |}.   (* "/a" *)
Definition stranger : peer := PTuple [56;46;56;46;56;46;56] 5002.
Definition env_of (data : bytes) : option env :=
  match conn_run ok ok yes cfg0 WSync stranger data with REnv e :: _ => Some e | _ => None end.

(* "GET /a/%41%zz" 0xE9 "%e9?q=%41#f HTTP/1.1" CRLF "Foo: 1" CRLF "foo:  2 " CRLF "Content-Type: t" CRLF CRLF *)
Definition req1 : bytes :=
  [71;69;84;32;47;97;47;37;52;49;37;122;122;233;37;101;57;63;113;61;37;52;49;35;102;32;72;84;84;80;47;49;46;49;13;10;
   70;111;111;58;32;49;13;10; 102;111;111;58;32;32;50;32;13;10;
   67;111;110;116;101;110;116;45;84;121;112;101;58;32;116;13;10;13;10].

Example faithful_on_a_request_with_escapes_and_raw_bytes :
  safe_cfg cfg0 = true /\
  match env_of req1 with
  | Some e =>
      env_get s_PATH_INFO e = Some [47;65;37;122;122;233;233]        (* "/A%zz" 0xE9 0xE9: one character per octet *)
      /\ env_get s_SCRIPT_NAME e = Some [47;97]
      /\ env_get s_QUERY_STRING e = Some [113;61;37;52;49]           (* "q=%41", undecoded *)
      /\ env_get (s_HTTP_ ++ [70;79;79]) e = Some [49;44;50]         (* HTTP_FOO = "1,2" *)
      /\ env_get s_CONTENT_TYPE e = Some [116]
      /\ env_get s_RAW_URI e = Some [47;97;47;37;52;49;37;122;122;233;37;101;57;63;113;61;37;52;49;35;102]
  | None => False
  end.
Proof. vm_compute. repeat split. Qed.

(* the four target forms, through the reference split *)
Example target_forms :
  t_path (sp_target [47;47;120;47;121]) = [47;47;120;47;121]                                         (* "//x/y" *)
  /\ t_path (sp_target [104;116;116;112;58;47;47;104;58;56;47;112;63;113]) = [47;112]                (* "http://h:8/p?q" *)
  /\ t_authority (sp_target [104;116;116;112;58;47;47;104;58;56;47;112;63;113]) = Some [104;58;56]
  /\ t_path (sp_target [42]) = [42]                                                                   (* "*" *)
  /\ t_query (sp_target [47;63;97;63;98;35;99;35;100]) = [97;63;98].                                 (* "/?a?b#c#d" *)
Proof. vm_compute. repeat split. Qed.

(* The statement is given for at most one Content-Type field because for duplicates the faithful model
   (like wsgi.create) keeps the last one instead of joining: the full statement is refuted.  The witness
   is replayed on the implementation by harness/props/c15.py (known finding content-type-last-wins). *)
(* "GET /a HTTP/1.1" CRLF "Content-Type: a" CRLF "Content-Type: b" CRLF CRLF *)
Definition req_two_ct : bytes :=
  [71;69;84;32;47;97;32;72;84;84;80;47;49;46;49;13;10;
   67;111;110;116;101;110;116;45;84;121;112;101;58;32;97;13;10;
   67;111;110;116;101;110;116;45;84;121;112;101;58;32;98;13;10;13;10].
Theorem C15_content_type_duplicates_refuted :
  content_type_joins = false ->
  exists c p data e rq,
    safe_cfg c = true /\
    conn_run ok ok yes c WSync p data = [REnv e] /\ sp_request data = Some rq /\
    env_get s_CONTENT_TYPE e <> sp_var (fun _ => true) (s_fields rq) s_CONTENT_TYPE.
Proof.
  intros Hflag.
  first [ discriminate Hflag
        | exists cfg0, stranger, req_two_ct; eexists; eexists;
          split; [reflexivity|]; split; [vm_compute; reflexivity|]; split; [vm_compute; reflexivity|];
          vm_compute; discriminate ].
Qed.
