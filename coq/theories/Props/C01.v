(* C01 - Request framing is unambiguous and RFC 9112-exact (no smuggling).
   Only statements, each closed by [exact].  The body side (which bytes are the body, where the message
   ends, for every segmentation) is C07 / C06; here: the framing decision and the grammar of the head. *)
From Coq Require Import List NArith ZArith Bool.
From GV Require Import Base.Bytes Base.Scan Base.PyStr Gen.GenParser Model.Parser Spec.Rfc9112
     Proof.Framing Proof.HeadGrammar Proof.HeadSound Proof.ParserHead Proof.ChunkedDecode Proof.ChunkedGrammar Proof.ParserRun Proof.ChunkedReader Proof.BodyFileThm Proof.BodySim Proof.EndToEnd Proof.StreamSound.
Import ListNotations.
Local Open Scope N_scope.

(* (a) at stream level, for every segmentation: an accepted request head is a strict RFC 9112 head of the
   stream - request line up to the first CRLF, strictly well-formed field lines up to the first empty
   line, the header list being exactly these field lines (split at the first colon, name upper-cased, value
   stripped of SP / HTAB; minus what header_map withholds), framing as the declarative rules say of that
   list - and the body starts exactly behind the empty line. *)
Theorem C01_accepted_head_is_strict : forall c x n p r p',
    NE p -> safe_cfg c -> parse_request c x n p = inl (r, p') -> strict_head c (u_abs p) r (u_abs p').
Proof. exact accepted_head_is_strict_any_segmentation. Qed.
Print Assumptions C01_accepted_head_is_strict.

(* (a) with the PROXY protocol switched on: the first request of a connection may be preceded by exactly one PROXY line -
   taken only on request number 1, only from a peer in proxy_allow_ips, only when well formed - and what follows it is a
   strict head as above; otherwise no PROXY information is attached to the request *)
Theorem C01_accepted_head_is_strict_with_proxy_protocol : forall c x n p r p',
    NE p -> safe_cfg_px c -> parse_request c x n p = inl (r, p') ->
    (r_proxy r = None /\ strict_head c (u_abs p) r (u_abs p'))
    \/ (exists pline s' info,
           proxy_protocol c = true /\ n = 1 /\ proxy_trusted c = true /\
           u_abs p = pline ++ CRLF ++ s' /\ find_pat CRLF (u_abs p) = Some (length pline) /\ prefixb s_PROXY pline = true /\
           parse_proxy_protocol x pline = inl info /\ r_proxy r = Some info /\ strict_head c s' r (u_abs p')).
Proof. exact accepted_head_is_strict_px_any_segmentation. Qed.
Print Assumptions C01_accepted_head_is_strict_with_proxy_protocol.

(* (a) whatever Message.set_body_reader accepts is framed exactly as RFC 9112 section 6 frames it *)
Theorem C01_framing_sound : forall hs ver f mc,
    set_body_reader hs ver = inl (f, mc) -> rfc_framing hs ver = Some f.
Proof. exact framing_sound. Qed.
Print Assumptions C01_framing_sound.

(* (b) ambiguous or malformed framing is never accepted ... *)
Theorem C01_malformed_framing_refused : forall hs ver,
    rfc_framing hs ver = None -> exists e, set_body_reader hs ver = inr e.
Proof. exact malformed_framing_refused. Qed.
Print Assumptions C01_malformed_framing_refused.

(* ... and each class named by the property is malformed for the rules *)
Theorem C01_class_cl_with_chunked : forall hs ver, cl_with_chunked hs -> rfc_framing hs ver = None.
Proof. exact class_cl_with_chunked. Qed.
Theorem C01_class_repeated_cl : forall hs ver, repeated_cl hs -> rfc_framing hs ver = None.
Proof. exact class_repeated_cl. Qed.
Theorem C01_class_non_digit_cl : forall hs ver, non_digit_cl hs -> rfc_framing hs ver = None.
Proof. exact class_non_digit_cl. Qed.
Theorem C01_class_chunked_not_last : forall hs ver, chunked_not_last hs -> rfc_framing hs ver = None.
Proof. exact class_chunked_not_last. Qed.
Theorem C01_class_chunked_repeated : forall hs ver, chunked_repeated hs -> rfc_framing hs ver = None.
Proof. exact class_chunked_repeated. Qed.
Theorem C01_class_unknown_coding : forall hs ver, unknown_coding hs -> rfc_framing hs ver = None.
Proof. exact class_unknown_coding. Qed.
Theorem C01_class_chunked_on_http10 : forall hs ver, chunked_on_http10 hs ver -> rfc_framing hs ver = None.
Proof. exact class_chunked_on_http10. Qed.
Print Assumptions C01_class_chunked_on_http10.

(* request line: method token SP target (no whitespace / control characters) SP HTTP/d.d *)
Theorem C01_request_line_strict : forall c x line m uri ver,
    casefold_http_method c = false ->
    parse_request_line c x line = inl (m, uri, ver) -> strict_request_line line m uri ver.
Proof. exact request_line_strict. Qed.
Print Assumptions C01_request_line_strict.

(* field lines: token ":" OWS value OWS, value free of NUL/CR/LF, no obsolete folding, no whitespace
   before the colon - for every accepted header (and trailer) block, in every non-unsafe configuration *)
Theorem C01_accepted_field_lines_strict : forall c ft fuel lines n seen https acc hs h,
    permit_obsolete_folding c = false -> strip_header_spaces c = false ->
    parse_headers_loop c ft fuel lines n seen https acc = inl (hs, h) ->
    forallb strict_field_line lines = true.
Proof. exact accepted_field_lines_strict. Qed.
Print Assumptions C01_accepted_field_lines_strict.
Theorem C01_bad_field_line_rejected : forall c ft https data l,
    permit_obsolete_folding c = false -> strip_header_spaces c = false ->
    In l (split_crlf data) -> strict_field_line l = false ->
    exists e, parse_headers c ft https data = inr e.
Proof. exact bad_field_line_rejected. Qed.
Print Assumptions C01_bad_field_line_rejected.
Theorem C01_obs_fold_is_bad : forall l, starts_ws l = true -> strict_field_line l = false.
Proof. exact obs_fold_not_strict. Qed.
Theorem C01_ws_before_colon_is_bad : forall name, name <> [] -> is_ows (last name 0) = true -> is_token name = false.
Proof. exact ws_before_colon_not_token. Qed.
Theorem C01_nontoken_name_is_bad : forall l i, find_char 58 l = Some (S i) -> is_token (firstn (S i) l) = false -> strict_field_line l = false.
Proof. exact nontoken_name_not_strict. Qed.
Theorem C01_bad_value_is_bad : forall l i, find_char 58 l = Some (S i) ->
  existsb (fun ch => mem ch value_badchars) (strip is_ows (skipn (S (S i)) l)) = true -> strict_field_line l = false.
Proof. exact bad_value_not_strict. Qed.

(* table facts over the regenerated character classes *)
Lemma C01_token_class_is_rfc_tchar : forallb is_rfc_tchar token_chars = true.
Proof. exact token_chars_are_tchar. Qed.
Lemma C01_nul_cr_lf_refused_in_values : mem 0 value_badchars = true /\ mem 10 value_badchars = true /\ mem 13 value_badchars = true.
Proof. exact value_badchars_cover. Qed.
Lemma C01_ctl_and_space_refused_in_target : forallb (fun c => mem c target_badchars) (127 :: map N.of_nat (seq 0 33)) = true.
Proof. exact target_badchars_cover. Qed.
Lemma C01_te_list_stripped_of_sp_htab_only : fact_te_strip_sp_htab = true.
Proof. vm_compute. reflexivity. Qed.

(* chunk syntax: a chunk not followed by CRLF, or a size that is not 1*HEXDIG, ends the body with an
   exception - never with a clean end of file (and the meaning of a chunked stream is unique) *)
Theorem C01_missing_chunk_crlf_raises : forall c s, beq (firstn 2 s) CRLF = false ->
    decodes c (ATerm s) [] (DRaise EChunkMissingTerminator).
Proof. exact dec_term_bad. Qed.
Theorem C01_chunked_reading_unambiguous : forall c a D T, decodes c a D T -> forall D' T', decodes c a D' T' -> D = D' /\ T = T'.
Proof. exact decodes_fun. Qed.
Theorem C01_malformed_chunked_never_eof : forall c p D e, NE p ->
    decodes c (AStart (u_abs p)) D (DRaise e) -> alpha_c c (chunked_init p) = (D, Spec.IdealBody.TErr e).
Proof. exact alpha_chunked_err. Qed.
Print Assumptions C01_malformed_chunked_never_eof.

(* chunked bodies: the bytes delivered and the end of the message are exactly those of the RFC 9112 7.1
   grammar (chunk-size = 1*HEXDIG [BWS ";" ext], no CR/LF in the line, data, CRLF, ..., last-chunk, trailer
   section up to the first empty line) - or the stream ended inside the trailer section and nothing follows *)
Theorem C01_chunked_body_is_rfc : forall c s D after tr,
    decodes c (AStart s) D (DStop after tr) -> rfc_chunked s D after \/ after = [].
Proof. exact chunked_body_is_rfc. Qed.
Print Assumptions C01_chunked_body_is_rfc.

(* the header list handed to the application IS the list of field lines of the block, in order, each split
   at its first colon (name upper-cased, value stripped of SP / HTAB) - nothing merged, dropped or invented,
   except the names with an underscore that the header_map policy withholds *)
Theorem C01_accepted_headers_are_the_lines : forall c ft https data hs h,
    permit_obsolete_folding c = false -> strip_header_spaces c = false ->
    parse_headers c ft https data = inl (hs, h) ->
    hs = filter (kept c ft) (map field_of_line (split_crlf data)).
Proof. exact parse_headers_are_the_lines. Qed.
Print Assumptions C01_accepted_headers_are_the_lines.

(* head and body joined: for an accepted request (any segmentation of the stream), the head is a strict
   RFC head of the stream, and the body the application will be given / the place where the next request
   starts are those of the strict reading of the bytes behind the head: the next Content-Length bytes, or
   the RFC 9112 7.1 decoding of the chunked stream (a malformed one ends in an exception, never in EOF) *)
Theorem C01_accepted_request_end_to_end : forall c x n p r p1,
    NE p -> safe_cfg c -> parse_request c x n p = inl (r, p1) ->
    let k := snd (init_conn r p1) in
    strict_head c (u_abs p) r (u_abs p1) /\ inv_c c k /\ body_denotes c r (u_abs p1) (alpha_c c k).
Proof. exact accepted_request_end_to_end. Qed.
Print Assumptions C01_accepted_request_end_to_end.

(* (a) for a whole connection, any number of pipelined messages, every segmentation: the messages handed over when each
   body is read to its end ([accepted]: request, body, what follows the message) form a chain of strict readings - each head
   is a strict head of what follows the previous message, each body is the one the framing rules assign (Content-Length
   bytes / the chunked decoding), and nothing is parsed behind a message that ends the connection. *)
Theorem C01_connection_is_a_strict_chain : forall c x, safe_cfg c -> forall fuel n p,
    NE p -> blen (u_abs p) < maxsize -> chain c (u_abs p) (accepted c x fuel n p).
Proof. exact accepted_is_a_strict_chain. Qed.
Print Assumptions C01_connection_is_a_strict_chain.
Theorem C01_chain_chunked_bodies_are_rfc : forall c r sh D after, r_framing r = FChunked ->
    body_of c r sh D after -> rfc_chunked sh D after \/ after = [].
Proof. exact chain_chunked_bodies_are_rfc. Qed.
(* [accepted] is the connection [run] describes - the function the correspondence check compares with the real parser:
   run's observation under the read-everything programs is the rendering of the structured trace whose messages are [accepted] *)
Theorem C01_run_is_the_rendered_trace : forall c x fuel n p,
    run_conn c x fuel n (repeat [Read None] fuel) p = let '(ms, t) := trace_all c x fuel n p in render ms t.
Proof. exact run_is_the_rendered_trace. Qed.
Theorem C01_accepted_are_the_messages_of_the_trace : forall c x fuel n p,
    accepted c x fuel n p = map (fun m => match m with (r, D, _, after) => (r, D, after) end) (fst (trace_all c x fuel n p)).
Proof. exact accepted_of_trace. Qed.
Print Assumptions C01_run_is_the_rendered_trace.

(* ---- non-vacuity ---- *)
Definition H_TE_gzip_chunked : list header := [(n_te, s_gzip ++ [44; 32] ++ s_chunked)].
Example accepts_gzip_chunked : set_body_reader H_TE_gzip_chunked (1, 1) = inl (FChunked, true).
Proof. vm_compute. reflexivity. Qed.
Example rejects_cl_with_chunked : set_body_reader [(n_cl, [51]); (n_te, s_chunked)] (1, 1) = inr EInvalidHeader.
Proof. vm_compute. reflexivity. Qed.
Example vt_chunked_is_unknown : set_body_reader [(n_te, 11 :: s_chunked)] (1, 1) = inr EUnsupportedTransferCoding.
Proof. vm_compute. reflexivity. Qed.
Example cl_with_chunked_instance : cl_with_chunked [(n_cl, [51]); (n_te, s_chunked)].
Proof. split; [vm_compute; reflexivity|vm_compute; discriminate]. Qed.

(* two pipelined messages: a chunked POST with a trailer, then a GET *)
Definition ex_pipeline : bytes :=
  [80;79;83;84;32;47;32;72;84;84;80;47;49;46;49;13;10;
   84;114;97;110;115;102;101;114;45;69;110;99;111;100;105;110;103;58;32;99;104;117;110;107;101;100;13;10;13;10;
   53;13;10;104;101;108;108;111;13;10;48;13;10;88;58;32;49;13;10;13;10;
   71;69;84;32;47;110;32;72;84;84;80;47;49;46;49;13;10;13;10]%N.
Definition ex_ext1 : ext := {| uri_ok := fun _ => true; inet_ok := fun _ _ => true |}.
Example ex_pipeline_accepted :
  map (fun m => match m with (r, D, after) => (r_method r, D, length after) end)
      (accepted default_cfg ex_ext1 100 1 [firstn 50 ex_pipeline; skipn 50 ex_pipeline])
  = [([80;79;83;84], [104;101;108;108;111], 19%nat); ([71;69;84], [], 0%nat)].
Proof. vm_compute. reflexivity. Qed.
