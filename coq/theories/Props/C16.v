(* C16 - Configuration sources are merged in the documented order of authority.
   Only statements, each closed by [exact]; model in Model/Config.v, proofs in Proof/ConfigProofs.v,
   the settings table in Gen/GenConfig.v is regenerated from the tree under test on every run.

   All theorems are generic in the validated-value type and in the validators (any function
   [validate : setting index -> raw value -> option value], None = the validator raised), and are
   instantiated on the regenerated table through the table lemma [settings_table_wf]. *)
From Coq Require Import List NArith ZArith Bool.
From GV Require Import Base.Enc Base.Dec Model.Config Proof.ConfigProofs Gen.GenConfig.
Import ListNotations.

(* The table lemma, by computation over the regenerated table (a finite, completely enumerated domain):
   unique lower-case-stable names, every argparse option has default None (so only a given option
   "mentions" a setting) and a non-None constant, distinct well-shaped option strings, no setting is called
   "args", the settings the loader itself consults exist. *)
Lemma settings_table_wf : wf_table extra_flags settings = true.
Proof. vm_compute. reflexivity. Qed.

Section C16.
  Variable value : Type.
  Variable vnone : value.
  Variable is_none : value -> bool.
  Variable validate : nat -> raw -> option value.
  Notation load := (load value vnone is_none validate extra_flags settings).
  Notation gather := (gather extra_flags settings).

  (* (1) For every setting the effective value is the validated value given by the most authoritative
     source that mentions it: command line > GUNICORN_CMD_ARGS > configuration file > framework > built-in
     default.  [gather] computes what each source mentions without touching any setting. *)
  Theorem C16_most_authoritative_source_wins : forall inp c u,
      load inp = Loaded value c u ->
      exists G, gather inp = Some G /\
        forall i, nth_error c i = match winner (g_src G) i with
                                  | Some r => validate i r
                                  | None => default_value value vnone validate settings i
                                  end.
  Proof. exact (most_authoritative_source_wins value vnone is_none validate extra_flags settings settings_table_wf). Qed.

  (* ... spelled out per source *)
  Theorem C16_command_line_wins : forall inp c u ns pos i,
      load inp = Loaded value c u -> argparse extra_flags settings (i_argv inp) = POk ns pos -> i < length settings ->
      nth i ns RNone <> RNone -> nth_error c i = validate i (nth i ns RNone).
  Proof. exact (command_line_wins value vnone is_none validate extra_flags settings settings_table_wf). Qed.

  Theorem C16_environment_wins_unless_command_line : forall inp c u ns pos ens epos i,
      load inp = Loaded value c u -> argparse extra_flags settings (i_argv inp) = POk ns pos ->
      parse_env extra_flags settings (i_env inp) = Some (POk ens epos) -> i < length settings ->
      nth i ns RNone = RNone -> nth i ens RNone <> RNone -> nth_error c i = validate i (nth i ens RNone).
  Proof. exact (environment_wins_unless_command_line value vnone is_none validate extra_flags settings settings_table_wf). Qed.

  Theorem C16_file_wins_unless_env_or_command_line : forall inp c u ns pos ens epos items i r,
      load inp = Loaded value c u -> argparse extra_flags settings (i_argv inp) = POk ns pos ->
      parse_env extra_flags settings (i_env inp) = Some (POk ens epos) -> i < length settings ->
      nth i ns RNone = RNone -> nth i ens RNone = RNone ->
      select_file settings inp ns ens = FItems items -> last_assign i (resolve_file settings items) = Some r ->
      nth_error c i = validate i r.
  Proof. exact (file_wins_unless_env_or_command_line value vnone is_none validate extra_flags settings settings_table_wf). Qed.

  (* the built-in default is the class default run through the validator (None stays None) *)
  Theorem C16_default_value : forall c0 i s,
      initial_config value vnone validate settings = Some c0 -> nth_error settings i = Some s ->
      default_value value vnone validate settings i = if is_rnone (s_default s) then Some vnone else validate i (s_default s).
  Proof. exact (default_value_spec value vnone validate settings). Qed.

  (* (2) A source never changes a setting it does not mention: applying any list of assignments leaves
     every setting that is not assigned as it was ... *)
  Theorem C16_unmentioned_untouched : forall (c c' : config value) (src : assigns) i,
      run_sets value validate c src = Some c' -> ~ In i (map fst src) -> nth_error c' i = nth_error c i.
  Proof. exact (unmentioned_untouched value validate). Qed.

  (* ... so a setting no source mentions ends with its built-in default *)
  Theorem C16_unmentioned_keeps_default : forall inp c u i,
      load inp = Loaded value c u ->
      (forall G, gather inp = Some G -> ~ In i (map fst (all_assigns (g_src G)))) ->
      nth_error c i = default_value value vnone validate settings i.
  Proof. exact (unmentioned_keeps_default value vnone is_none validate extra_flags settings settings_table_wf). Qed.

  (* (3) A value a validator rejects stops startup with an error, whichever source gives it and also when a
     more authoritative source gives the same setting a valid value: nothing is silently replaced. *)
  Theorem C16_invalid_value_stops : forall inp G i r,
      gather inp = Some G -> In (i, r) (all_assigns (g_src G)) -> validate i r = None ->
      load inp = ExitConfig value.
  Proof. exact (invalid_value_stops value vnone is_none validate extra_flags settings settings_table_wf). Qed.

  Theorem C16_invalid_default_stops : forall inp i s,
      in_model inp = true -> nth_error settings i = Some s -> s_default s <> RNone -> validate i (s_default s) = None ->
      load inp = ExitConfig value.
  Proof. exact (invalid_default_stops value vnone is_none validate extra_flags settings). Qed.

  (* conversely nothing else stops it: front ends fine, every mentioned value accepted, application named *)
  Theorem C16_valid_configuration_loads : forall inp G c0,
      gather inp = Some G -> initial_config value vnone validate settings = Some c0 ->
      (forall i r, In (i, r) (all_assigns (g_src G)) -> i < length settings /\ validate i r <> None) ->
      g_pos G <> [] ->
      exists c u, load inp = Loaded value c u.
  Proof. exact (valid_configuration_loads value vnone is_none validate extra_flags settings settings_table_wf). Qed.

  (* loading IS the merge of the four sources' assignment lists, in order of authority, over the defaults *)
  Theorem C16_load_is_ordered_merge : forall inp G,
      gather inp = Some G ->
      load inp = match initial_config value vnone validate settings with
                 | None => ExitConfig value
                 | Some c0 => match run_sets value validate c0 (all_assigns (g_src G)) with
                              | None => ExitConfig value
                              | Some c => final value is_none settings c (g_pos G)
                              end
                 end.
  Proof. exact (load_eq value vnone is_none validate extra_flags settings settings_table_wf). Qed.
End C16.

(* What "the command line mentions a setting" means (likewise GUNICORN_CMD_ARGS after shlex.split):
   its namespace slot is not None exactly when a recognised option occurrence targets it ... *)
Theorem C16_cli_mentions_iff : forall argv ns pos i,
    argparse extra_flags settings argv = POk ns pos -> i < length settings ->
    (nth i ns RNone <> RNone <-> exists o, In o (occurrences extra_flags settings argv) /\ fst o = TgSet i).
Proof. exact (fun argv ns pos i => cli_mentions_iff extra_flags settings argv ns pos i settings_table_wf). Qed.

(* ... occurrences only arise from a setting's own option strings; settings without option strings
   (wsgi_app, the server hooks, ...) are never mentioned there; arguments that do not start with '-'
   mention nothing *)
Theorem C16_occurrences_declared : forall argv o i,
    In o (occurrences extra_flags settings argv) -> fst o = TgSet i ->
    exists s f, nth_error settings i = Some s /\ In f (s_flags s).
Proof. exact (occurrences_declared extra_flags settings). Qed.

Theorem C16_flagless_never_mentioned : forall argv ns pos i s,
    argparse extra_flags settings argv = POk ns pos -> nth_error settings i = Some s -> s_flags s = [] ->
    nth i ns RNone = RNone.
Proof. exact (fun argv ns pos i s => flagless_never_mentioned extra_flags settings argv ns pos i s settings_table_wf). Qed.

Theorem C16_plain_arguments_mention_nothing : forall argv ns pos i,
    forallb (fun a => negb (looks_like_option a)) argv = true ->
    argparse extra_flags settings argv = POk ns pos -> nth i ns RNone = RNone.
Proof. exact (fun argv ns pos i => plain_arguments_mention_nothing extra_flags settings argv ns pos i settings_table_wf). Qed.

Print Assumptions C16_most_authoritative_source_wins.
Print Assumptions C16_command_line_wins.
Print Assumptions C16_environment_wins_unless_command_line.
Print Assumptions C16_file_wins_unless_env_or_command_line.
Print Assumptions C16_unmentioned_untouched.
Print Assumptions C16_unmentioned_keeps_default.
Print Assumptions C16_invalid_value_stops.
Print Assumptions C16_invalid_default_stops.
Print Assumptions C16_valid_configuration_loads.
Print Assumptions C16_load_is_ordered_merge.
Print Assumptions C16_cli_mentions_iff.
Print Assumptions C16_flagless_never_mentioned.
Print Assumptions C16_plain_arguments_mention_nothing.

(* ---- non-vacuity: concrete loads on the regenerated table --------------------------------------- *)
Local Open Scope Z_scope.
Definition s_ (l : list Z) : str := map Z.to_N l.
(* "workers", "--workers", "-w", "app:app", "3", "4", "5", "x" *)
Definition k_workers := s_ [119;111;114;107;101;114;115].
Definition f_workers := s_ [45;45;119;111;114;107;101;114;115].
Definition app := s_ [97;112;112;58;97;112;112].

(* the key settings are where the model looks for them *)
Example key_settings_exist :
  (find_idx settings n_config, find_idx settings n_wsgi_app, find_idx settings k_workers) = (Some 0%nat, Some 1%nat, Some 4%nat)
  /\ is_some (find_idx settings n_default_proc_name) = true /\ is_some (find_idx settings n_paste) = true.
Proof. vm_compute. repeat split; reflexivity. Qed.

(* a validator that accepts integers >= 0 for `workers` and everything for the other settings *)
Definition vt_ex : list vt_entry :=
  default_vt ++ [(4%nat, RInt 3, Some [2;3]); (4%nat, RInt 4, Some [2;4]); (4%nat, RInt 5, Some [2;5]); (4%nat, RInt 6, Some [2;6]);
                 (4%nat, RInt (-1), None); (4%nat, RStr (s_ [120]), None);
                 (56%nat, RStr app, Some (3 :: 7 :: map Z.of_N app))].
Definition inp_all : input :=      (* workers: framework 3, file 4, GUNICORN_CMD_ARGS 5, command line 6 *)
  {| i_argv := [f_workers; s_ [54]; app]; i_dict := [(k_workers, RInt 3)];
     i_env := Some (f_workers ++ s_ [61;53]); i_files := []; i_modules := [];
     i_default_file := Some [(k_workers, RInt 4)] |}.
Definition workers_of (o : outcome venc) : option venc :=
  match o with Loaded _ c _ => nth_error c 4 | _ => None end.
Definition L := load venc venc_none venc_is_none (validate_tbl vt_ex) extra_flags settings.

Example all_four_sources_command_line_wins : workers_of (L inp_all) = Some [2;6].
Proof. vm_compute. reflexivity. Qed.
Example without_command_line_environment_wins :
  workers_of (L {| i_argv := [app]; i_dict := i_dict inp_all; i_env := i_env inp_all; i_files := []; i_modules := [];
                   i_default_file := i_default_file inp_all |}) = Some [2;5].
Proof. vm_compute. reflexivity. Qed.
Example then_the_file :
  workers_of (L {| i_argv := [app]; i_dict := i_dict inp_all; i_env := None; i_files := []; i_modules := [];
                   i_default_file := i_default_file inp_all |}) = Some [2;4].
Proof. vm_compute. reflexivity. Qed.
Example then_the_framework :
  workers_of (L {| i_argv := [app]; i_dict := i_dict inp_all; i_env := None; i_files := []; i_modules := [];
                   i_default_file := None |}) = Some [2;3].
Proof. vm_compute. reflexivity. Qed.
Example then_the_default :
  workers_of (L {| i_argv := [app]; i_dict := []; i_env := None; i_files := []; i_modules := []; i_default_file := None |}) = Some [2;1].
Proof. vm_compute. reflexivity. Qed.
(* the hypotheses of the theorems are satisfiable: gather succeeds on inp_all and mentions workers four times *)
Example gather_inp_all :
  option_map (fun G => map (last_assign 4) [src_fw (g_src G); src_file (g_src G); src_env (g_src G); src_cli (g_src G)])
             (gather extra_flags settings inp_all)
  = Some [Some (RInt 3); Some (RInt 4); Some (RInt 5); Some (RInt 6)].
Proof. vm_compute. reflexivity. Qed.
(* a rejected value in the file stops the start although the command line overrides it *)
Example invalid_below_valid_still_stops :
  L {| i_argv := [f_workers; s_ [54]; app]; i_dict := []; i_env := None; i_files := []; i_modules := [];
       i_default_file := Some [(k_workers, RInt (-1))] |} = ExitConfig venc.
Proof. vm_compute. reflexivity. Qed.
Example usage_error_is_exit_2 :
  L {| i_argv := [f_workers; s_ [120]; app]; i_dict := []; i_env := None; i_files := []; i_modules := []; i_default_file := None |}
  = ExitUsage venc.
Proof. vm_compute. reflexivity. Qed.
