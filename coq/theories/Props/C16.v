(* C16 - placeholder while the harness is being brought up *)
From Coq Require Import List NArith ZArith Bool.
From GV Require Import Base.Enc Base.Dec Model.Config Gen.GenConfig.
Import ListNotations.
