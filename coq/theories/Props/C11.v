(* C11 - Hung workers are killed and replaced; healthy workers never are.
   Only statements; model in Model/Heartbeat.v (the decision of murder_workers, the notify() schedules of the four
   worker loops) on top of Model/Arbiter.v (where the timeout scan is a sequence of master steps that any schedule
   may interleave with notifications, time, deaths and SIGCHLD); proofs in Proof/HeartbeatProofs.v. *)
From Coq Require Import List ZArith Bool Lia.
From GV Require Import Gen.GenArbiter Model.Arbiter Model.Heartbeat Proof.ArbiterBase Proof.ArbiterInv Proof.ArbiterC03 Proof.ArbiterConv Proof.HeartbeatProofs.
Import ListNotations.
Local Open Scope Z_scope.

(* the timeout scan of the arbiter model takes exactly the decision function the scan-level theorems speak about *)
Theorem C11_scan_is_murder_decision : forall s p todo w,
  cur s = PMurderCheck (p :: todo) -> find_wk p (workers s) = Some w ->
  master s =
  match murder_decision (mono s) (w_hb w) (timeout s * tps) (w_aborted w) with
  | Nothing => murder_next s todo
  | SigKill => set_pc s (PMurderKill p SIGKILL todo)
  | SigAbrt => set_pc (set_workers s (set_aborted p (workers s))) (PMurderKill p SIGABRT todo)
  end.
Proof. exact murder_check_is_decision. Qed.

(* ---- healthy workers are never killed ------------------------------------------------------------------- *)
(* For EVERY schedule (any interleaving of master steps, SIGCHLD, deaths, signals, reloads, time, notifications):
   a worker whose heartbeat is never older than the timeout is never signalled by murder_workers and never marked
   aborted. *)
Theorem C11_no_false_kill : forall ls s p,
  quietp p s ->
  (forall k, fresh_at p (run s (firstn k ls))) ->
  forall k, ~ murdering p (cur (run s (firstn k ls))) /\ not_aborted p (run s (firstn k ls)).
Proof. intros. apply no_false_kill; auto. Qed.
Print Assumptions C11_no_false_kill.

(* What a scan sees is the last notify() before it; if the worker's notify() instants are at most g apart and
   g <= timeout, no scan - at any instant - decides anything but "nothing". *)
Theorem C11_no_false_kill_scan : forall ns g tmo t d aborted,
  0 <= g -> g <= tmo -> nondecreasing (d :: ns) -> max_gap (d :: ns) <= g -> d <= t -> t <= last ns d + g ->
  murder_decision t (last_before ns t d) tmo aborted = Nothing.
Proof. exact no_false_kill_scan. Qed.
Print Assumptions C11_no_false_kill_scan.

(* The notify() instants of every worker class: consecutive calls are at most one loop iteration apart
   (idle: the class's wait + latency; sync busy: the request + latency). *)
Theorem C11_heartbeat_gap : forall c tmo g evs t,
  0 <= g -> (forall e, In e evs -> iter_len c tmo e <= g) -> max_gap (notify_times c tmo t evs) <= g.
Proof. exact max_gap_bound. Qed.
Print Assumptions C11_heartbeat_gap.

(* Together: a worker of any class all of whose iterations take at most the timeout (idle with latency within the
   slack budget, sync requests shorter than the timeout) is never signalled, whenever the master looks. *)
Theorem C11_healthy_worker_never_killed : forall c tmo evs t0 t aborted,
  0 <= tmo ->
  (forall e, In e evs -> iter_len c tmo e <= tmo * ticks_per_second) ->
  nondecreasing (notify_times c tmo t0 evs) ->
  t0 <= t -> t <= last (notify_times c tmo t0 evs) t0 + tmo * ticks_per_second ->
  murder_decision t (last_before (tl (notify_times c tmo t0 evs)) t t0) (tmo * ticks_per_second) aborted = Nothing.
Proof. exact healthy_worker_never_killed. Qed.
Print Assumptions C11_healthy_worker_never_killed.

(* the latency an idle worker may have: half the timeout for sync, timeout - 1 s for the one-second loops *)
Theorem C11_slack_budget_sync : forall tmo, 1 <= tmo ->
  slack_budget Sync tmo = tmo * (ticks_per_second / 2) /\ ticks_per_second / 2 <= slack_budget Sync tmo.
Proof. exact slack_budget_sync. Qed.
Theorem C11_slack_budget_others : forall c tmo, c <> Sync -> slack_budget c tmo = (tmo - 1) * ticks_per_second.
Proof. exact slack_budget_others. Qed.

(* D19 (known finding): with timeout = 1 the one-second loops have no slack at all; an idle gevent worker that is
   2 ticks (8 ms) late per iteration is sent SIGABRT - at the scan level and in the arbiter model *)
Theorem C11_no_false_kill_refuted :
  let ns := notify_times Gevent 1 0 [Idle 2; Idle 2] in
  ns = [0; 258; 516] /\ slack_budget Gevent 1 = 0 /\
  murder_decision 257 (last_before (tl ns) 257 0) (1 * ticks_per_second) false = SigAbrt.
Proof. exact no_false_kill_refuted. Qed.
Theorem C11_no_false_kill_refuted_arbiter :
  let s := run (init 1 1 30 0 0) d19_schedule in
  cur s = PMurderKill 100 SIGABRT [] /\ mono s = 257 /\ mono s < 0 + period Gevent 1 + 2.
Proof. exact no_false_kill_refuted_arbiter. Qed.
Print Assumptions C11_no_false_kill_refuted_arbiter.

(* ---- hung workers are killed ------------------------------------------------------------------------------- *)
(* in every state: a scan that meets a stale worker whose process is running sends SIGABRT and marks it; the next
   time SIGKILL, which takes effect at once *)
Theorem C11_hang_escalates : forall s p todo w c,
  cur s = PMurderCheck (p :: todo) -> find_wk p (workers s) = Some w ->
  timeout s * tps < mono s - w_hb w ->
  find_kid p (kids s) = Some c -> is_running c = true ->
  let s2 := master (master s) in
  if w_aborted w
  then sent s2 = (p, SIGKILL) :: sent s /\ exists c', find_kid p (kids s2) = Some c' /\ c_st c' = Zombie SIGKILL
  else sent s2 = (p, SIGABRT) :: sent s /\ exists w', find_wk p (workers s2) = Some w' /\ w_aborted w' = true.
Proof. exact hang_escalates. Qed.
Print Assumptions C11_hang_escalates.

(* the deadline: scans at most P apart (the master's loop period), last notify() at h, SIGABRT ignored: some scan
   sends SIGABRT, the next SIGKILL, no later than h + timeout + 2 P; no scan before that signals the worker *)
Theorem C11_hang_is_killed : forall (c : nat -> Z) h tmo P,
  (forall i, c i < c (S i) <= c i + P) -> c O <= h + tmo ->
  exists i,
    (forall j, (j < i)%nat -> murder_decision (c j) h tmo false = Nothing) /\
    murder_decision (c i) h tmo false = SigAbrt /\
    murder_decision (c (S i)) h tmo true = SigKill /\
    c (S i) <= h + tmo + 2 * P.
Proof. exact hang_is_killed_scan. Qed.
Print Assumptions C11_hang_is_killed.

(* ... and the dead worker is reaped and replaced: once the killed process is a zombie, C03_converges applies
   (the pool returns to exactly num_workers live, tracked workers) *)
Theorem C11_killed_worker_is_replaced : forall s,
  reachable s -> at_rest s -> no_upgrade s -> tracked s -> no_boot_failure_pending s ->
  exists n, converged (settle n s).
Proof. exact converges. Qed.

(* ---- non-vacuity ------------------------------------------------------------------------------------------------ *)
(* a sync worker with timeout 30: idle iterations with 1 s latency and a 29 s request stay within the timeout *)
Example C11_healthy_example :
  let evs := [Idle 256; Request (29 * 256) 10; Idle 0; Woken 100 5] in
  forallb (fun e => iter_len Sync 30 e <=? 30 * ticks_per_second) evs = true /\
  max_gap (notify_times Sync 30 0 evs) = 29 * 256 + 10.
Proof. vm_compute. split; reflexivity. Qed.

(* scans every 256 ticks from 100 on, last notify at 0, timeout 2 s: SIGABRT at 612, SIGKILL at 868 <= 0 + 512 + 2 * 256 *)
Example C11_hang_example :
  let c := fun i : nat => 100 + 256 * Z.of_nat i in
  murder_decision (c 1%nat) 0 512 false = Nothing /\ murder_decision (c 2%nat) 0 512 false = SigAbrt /\
  murder_decision (c 3%nat) 0 512 true = SigKill /\ c 3%nat <= 0 + 512 + 2 * 256.
Proof. vm_compute. repeat split; try reflexivity. discriminate. Qed.

(* the hypotheses of C11_no_false_kill are satisfiable on a real run: a worker that notifies before every scan *)
Example C11_no_false_kill_example :
  let ls := [Master; Master; Master; Master; Master; Master; NotifyAll; Master; Master; Master; Master] in
  let s0 := init 1 1 30 0 0 in
  forallb (fun k => match find_wk 100 (workers (run s0 (firstn k ls))) with
                    | Some w => mono (run s0 (firstn k ls)) - w_hb w <=? timeout (run s0 (firstn k ls)) * tps
                    | None => true end) (seq 0 12) = true /\
  cur (run s0 ls) = PManageLen.
Proof. vm_compute. split; reflexivity. Qed.
