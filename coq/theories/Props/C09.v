(* C09 - placeholder while the model is being validated *)
From GV Require Import Model.Response Spec.RespSpec.
