(* C09 - Application-supplied status and headers cannot split or forge a response.
   Only statements, each closed by [exact]; model in Model/Response.v, spec-side readers in Spec/RespSpec.v,
   proofs in Proof/ResponseHead.v, table lemmas over the regenerated tables in Proof/RespTables.v.

   An application is ANY program: a list of start_response calls (arbitrary code-point strings, with or
   without exc_info, in any number and at any time) and body writes, ending normally, with a file wrapper
   or with an exception; the request, the worker class and the worker state are arbitrary too. *)
From Coq Require Import List NArith ZArith Bool.
From GV Require Import Base.Enc Base.Dec Model.RespStr Gen.GenResponse Model.Response Spec.RespSpec Proof.RespStrProofs Proof.RespTables Proof.ResponseHead.
Import ListNotations.
Local Open Scope N_scope.

(* ---- table lemmas: what the regenerated character classes and the hop-by-hop set are ------------------- *)
(* TOKEN_RE accepts exactly the RFC 9110 tchar characters, for every code point (also > 255) *)
Theorem C09_token_class_is_tchar : forall c, memN c token_chars = is_tchar c.
Proof. exact tchar_table. Qed.
Print Assumptions C09_token_class_is_tchar.
(* HEADER_VALUE_RE accepts exactly HTAB / SP / VCHAR / obs-text: no CR, LF, NUL, other C0 control, DEL, > 255 *)
Theorem C09_value_class_is_field_content : forall c, memN c value_chars = is_field_char c.
Proof. exact field_char_table. Qed.
Print Assumptions C09_value_class_is_field_content.
Theorem C09_hop_set_covers_rfc : forallb (fun h => mem_str h hop_headers) rfc_hop = true.
Proof. exact rfc_hop_in_hop_headers. Qed.
Print Assumptions C09_hop_set_covers_rfc.

(* ---- refusal ----------------------------------------------------------------------------------------------- *)
(* Text with CR, LF or NUL (anywhere in status, a name or a value), a code point above 255, or a header name
   that is not an RFC token: the call raises, in every state of the Response (first call, second call, with
   or without exc_info, before or after the head was sent) and touches neither the socket nor
   headers_sent / sent / must_close. *)
Theorem C09_bad_text_refused : forall rq st status hdrs exc_info,
    bad_text status hdrs ->
    snd (start_response rq st status hdrs exc_info) <> None
    /\ same_io st (fst (start_response rq st status hdrs exc_info)).
Proof. exact start_response_refuses. Qed.
Print Assumptions C09_bad_text_refused.

(* In a whole request: nothing is sent by the refused call nor after it (the bytes on the wire are those the
   actions before it had produced), on every worker. *)
Theorem C09_nothing_sent_after_refusal : forall rq date st pre status hdrs exc_info post st' r,
    bad_text status hdrs ->
    run_acts rq date st (pre ++ StartResponse status hdrs exc_info :: post) = (st', r) ->
    r <> None /\ r_wire st' = r_wire (fst (run_acts rq date st pre))
    /\ r_headers_sent st' = r_headers_sent (fst (run_acts rq date st pre)).
Proof. exact refused_call_sends_nothing. Qed.
Print Assumptions C09_nothing_sent_after_refusal.

(* ... in particular, when no body item precedes the call: refused before any byte is sent, and the exception
   reaches Worker.handle_error (which answers with its own error page - C05). *)
Theorem C09_bad_text_refused_before_any_byte : forall w ws date rq pre status hdrs exc_info post en,
    bad_text status hdrs -> forallb is_sr pre = true ->
    let o := fst (serve w ws date rq {| a_acts := pre ++ StartResponse status hdrs exc_info :: post; a_end := en |}) in
    o_wire o = [] /\ o_headers_sent o = false /\ exists x, o_ended o = Propagated x.
Proof. exact serve_refuses. Qed.
Print Assumptions C09_bad_text_refused_before_any_byte.

(* ---- the head is exactly the server's lines plus one line per accepted application header ------------------ *)
(* Whatever the program does: if any byte reaches the wire, the wire starts with a head that the strict line
   reader splits (no bare CR / LF / NUL inside any line) into exactly
        "HTTP/x.y <status>"                                  <status> = text of ONE start_response call of the
        "Server: gunicorn"  "Date: <date>"                   program whose status and headers all passed validation
        "Connection: close|keep-alive|upgrade"               (or the literal None if the program wrote before
        [ "Transfer-Encoding: chunked" ]                      calling start_response)
        one "name: value" line per forwarded header of that same call, in order, values stripped of SP / HTAB. *)
Theorem C09_head_is_exactly : forall w ws date rq a, date_ok date ->
    let o := fst (serve w ws date rq a) in
    o_wire o <> [] ->
    exists c te s hs body,
      In c conn_tokens /\ clean_eff (a_acts a) s hs /\
      head_lines (S (length (o_wire o))) (o_wire o)
      = Some (status_line_text rq s :: map field_line (head_fields date c te hs), body).
Proof. exact serve_head. Qed.
Print Assumptions C09_head_is_exactly.

(* The forwarded lines of an accepted call: the headers that are not hop-by-hop (the regenerated set, which
   covers the RFC names - C09_hop_set_covers_rfc), plus "Upgrade: websocket" (DESIGN.md section 5), values
   stripped; nothing else, nothing twice, order kept. *)
Theorem C09_forwarded_is_filter : forall h, Forall valid_hdr h ->
    forwarded h = map (fun x => (fst x, strip_sp_tab (snd x))) (filter keeps h).
Proof. exact forwarded_filter. Qed.
Print Assumptions C09_forwarded_is_filter.

(* ---- non-vacuity ------------------------------------------------------------------------------------------- *)
Definition rq11 : reqinfo := {| rq_major := 1; rq_minor := 1; rq_method := [71; 69; 84]; rq_conn := []; rq_must_close := false |}.
Definition ws0 : wstate := {| w_nr := 0; w_max_requests := 1000; w_alive := true; w_keepalive := true; w_keep_full := false; w_sendfile := true |}.
Definition date0 : str := [84; 104; 117; 44; 32; 48; 49; 32; 79; 99; 116; 32; 50; 48; 50; 54; 32; 50; 49; 58; 49; 51; 58; 48; 48; 32; 71; 77; 84].
Definition s200 : str := [50; 48; 48; 32; 79; 75].                                  (* "200 OK" *)
Definition s200_inj : str := s200 ++ [13; 10; 88; 58; 32; 121].                    (* "200 OK\r\nX: y" *)
Definition hX : str * str := ([88; 45; 65], [32; 98; 32]).                         (* ("X-A", " b ") *)
Definition hTE : str * str := (s_TE_name, s_chunked).                              (* ("Transfer-Encoding", "chunked") *)
Definition hBadName : str * str := ([88; 32; 89], [118]).                          (* ("X Y", "v") *)
Definition hBadValue : str * str := ([88], [97; 10; 98]).                          (* ("X", "a\nb") *)
Definition hAbove : str * str := ([88], [256]).

Example date0_ok : date_ok date0.
Proof. split; [vm_compute; reflexivity|split; vm_compute; reflexivity]. Qed.
Example bad_status_example : bad_text s200_inj [].
Proof. left. vm_compute. reflexivity. Qed.
Example bad_name_example : bad_text s200 [hX; hBadName].
Proof. right. right. apply Exists_cons_tl, Exists_cons_hd. left. vm_compute. reflexivity. Qed.
Example bad_value_example : bad_text s200 [hBadValue].
Proof. right. right. apply Exists_cons_hd. right. right. left. vm_compute. reflexivity. Qed.
Example above_latin1_example : bad_text s200 [hAbove].
Proof. right. right. apply Exists_cons_hd. right. right. right. vm_compute. reflexivity. Qed.
(* a refused status on the gthread wrapper: no byte, InvalidHeader propagated *)
Example refused_example :
  let o := fst (serve WGthread ws0 date0 rq11 {| a_acts := [StartResponse s200_inj [hX] false; Write [104; 105]]; a_end := EndDone |}) in
  o_wire o = [] /\ o_ended o = Propagated EInvalidHeader.
Proof. vm_compute. split; reflexivity. Qed.
(* an accepted call with a hop-by-hop header: the head has the server's lines and "X-A: b" only *)
Example accepted_example :
  let o := fst (serve WGthread ws0 date0 rq11 {| a_acts := [StartResponse s200 [hTE; hX] false; Write [104; 105]]; a_end := EndDone |}) in
  exists body, head_lines (S (length (o_wire o))) (o_wire o)
  = Some (status_line_text rq11 (Some s200) :: map field_line (head_fields date0 s_keep_alive true [([88; 45; 65], [98])]), body).
Proof. eexists. vm_compute. reflexivity. Qed.
Example forwarded_example : forwarded [hTE; hX; (s_Connection_name, s_close)] = [([88; 45; 65], [98])].
Proof. vm_compute. reflexivity. Qed.
(* second call with exc_info before any output replaces the first call's lines *)
Example second_call_example :
  let o := fst (serve WSync ws0 date0 rq11
     {| a_acts := [StartResponse s200 [(s_content_length, [51])] false;
                   StartResponse [53; 48; 48; 32; 120] [hX] true; Write [104; 105]]; a_end := EndDone |}) in
  exists body, head_lines (S (length (o_wire o))) (o_wire o)
  = Some (status_line_text rq11 (Some [53; 48; 48; 32; 120]) :: map field_line (head_fields date0 s_close true [([88; 45; 65], [98])]), body).
Proof. eexists. vm_compute. reflexivity. Qed.
