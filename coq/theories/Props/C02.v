(* C02 - Responses on the wire are correctly framed; keep-alive only when safe.
   Only statements, each closed by [exact]; model in Model/Response.v, the independent strict response reader in
   Spec/RespSpec.v, "well-behaved application" in Spec/RespWB.v, proofs in Proof/ResponseFraming.v.

   Quantification: every worker wrapper (sync / gthread / base_async), every worker state (request counter,
   max_requests, alive, keepalive setting, keep-alive slots, sendfile setting), every request head (version digits,
   method, list of Connection field values, must_close), every date text free of CR/LF, and every well-behaved
   application: any status >= 200 with any reason, any list of valid headers (hop-by-hop ones included), any
   number of start_response(exc_info) calls before output, any list of write()/yielded byte strings (empty ones
   included), ending normally or with a file wrapper over any content / position / block size / with or
   without descriptor - unbounded lists everywhere. *)
From Coq Require Import List NArith ZArith Bool.
From GV Require Import Base.Enc Base.Dec Model.RespStr Gen.GenResponse Model.Response Spec.RespSpec Spec.RespWB Proof.RespStrProofs Proof.RespTables Proof.ResponseHead Proof.ResponseFraming.
Import ListNotations.
Local Open Scope N_scope.

(* "%X" % n is read back as n by the chunk-size reader, for every n *)
Theorem C02_hex_roundtrip : forall n, parse_hex (hex_upper n) = Some n.
Proof. exact hex_roundtrip. Qed.
Print Assumptions C02_hex_roundtrip.

(* One request.  The bytes written are exactly one well-formed response: the strict reader accepts them and
   reports the application's status code and reason, the server's fields followed by the application's
   forwarded fields, and as body the application's output cut to the declared Content-Length
   (RESP ... = that record; its p_body is [exp_body] = [expected_body]).
   - self-delimiting responses (no-body status / HEAD, Content-Length, chunked) are read back with ANY bytes
     following them left untouched as leftover: exactly Content-Length bytes, or a chunked stream with exactly
     one last-chunk;
   - a response delimited by connection close is the whole wire and the connection is not kept open;
   - the request completes (no exception), and the connection is kept open only if the response was
     self-delimiting, the client did not ask to close, and "Connection: keep-alive" was announced (and never
     on the sync worker). *)
Theorem C02_response_framed : forall w ws date rq a v,
    wf_req rq -> date_ok date -> view a = Some v -> well_behaved rq a = true ->
    let o := fst (serve w ws date rq a) in
    let mc := forced_close w (bump ws) in
    let sd := self_delim rq (v_code v) (v_headers v) in
    let R := RESP rq date (v_code v) (v_reason v) (v_headers v) mc (v_output v) in
    exists kept, o_ended o = Completed kept
      /\ (sd = true -> forall more, decode (rq_method rq) (o_wire o ++ more) = Some (R more true))
      /\ (sd = false -> decode (rq_method rq) (o_wire o) = Some (R [] false))
      /\ (kept = true -> sd = true /\ client_wants_close (rq_major rq) (rq_minor rq) (rq_conn rq) = false
                         /\ announces_keepalive (R [] true) = true)
      /\ (kept = true -> w <> WSync).
Proof. exact serve_framed. Qed.
Print Assumptions C02_response_framed.

(* what R is, field by field *)
Theorem C02_response_record : forall date rq a v mc lft sd, view a = Some v ->
    reads_as date rq a (RESP rq date (v_code v) (v_reason v) (v_headers v) mc (v_output v) lft sd).
Proof. exact RESP_reads_as. Qed.
Print Assumptions C02_response_record.
Theorem C02_body_is_expected : forall rq v, exp_body rq (v_code v) (v_headers v) (v_output v) = expected_body rq v.
Proof. reflexivity. Qed.

(* A whole connection (induction over the request list): the byte stream written for the requests that were
   served is a sequence of responses, one per served request, each reading as above, each starting exactly
   where the previous one ended, with nothing before, between or after them ("nothing follows a response except
   the next response"; decode_stream refuses leftover bytes and anything after a close-delimited response). *)
Theorem C02_connection_stream : forall l w ws date, date_ok date -> Forall wb_pair l ->
    let os := serve_conn w ws date l in
    let served := firstn (length os) l in
    exists rs, decode_stream (map (fun p => rq_method (fst p)) served) (conn_wire os) = Some rs
      /\ Forall2 (fun r p => reads_as date (fst p) (snd p) r) rs served
      /\ Forall (fun o => exists k, o_ended o = Completed k) os.
Proof. exact conn_framed. Qed.
Print Assumptions C02_connection_stream.

(* For EVERY application, well-behaved or not: a connection is never kept open when the client asked to close. *)
Theorem C02_never_kept_open_against_client : forall w ws date rq a,
    o_ended (fst (serve w ws date rq a)) = Completed true ->
    client_wants_close (rq_major rq) (rq_minor rq) (rq_conn rq) = false /\ w <> WSync.
Proof. exact never_kept_open_against_client. Qed.
Print Assumptions C02_never_kept_open_against_client.

(* ---- non-vacuity ---------------------------------------------------------------------------------------------- *)
Definition rqG (minor : N) (conn : list str) : reqinfo :=
  {| rq_major := 1; rq_minor := minor; rq_method := [71; 69; 84]; rq_conn := conn; rq_must_close := false |}.
Definition rqH : reqinfo := {| rq_major := 1; rq_minor := 1; rq_method := s_HEAD; rq_conn := []; rq_must_close := false |}.
Definition ws0 : wstate := {| w_nr := 0; w_max_requests := 1000; w_alive := true; w_keepalive := true; w_keep_full := false; w_sendfile := true |}.
Definition date0 : str := [84; 104; 117; 44; 32; 48; 49; 32; 79; 99; 116; 32; 50; 48; 50; 54; 32; 50; 49; 58; 49; 51; 58; 48; 48; 32; 71; 77; 84].
Definition s200 : str := [50; 48; 48; 32; 79; 75].
Definition hello : bytes := [104; 101; 108; 108; 111].
Definition world : bytes := [119; 111; 114; 108; 100].
(* chunked: write("hello"), yield "", yield "world" *)
Definition app_chunked : app := {| a_acts := [StartResponse s200 [(s_TE_name, s_chunked)] false; Write hello; Write []; Write world]; a_end := EndDone |}.
(* Content-Length: 7 with 10 bytes produced, through write() then a file wrapper over a descriptor *)
Definition app_cl_file : app :=
  {| a_acts := [StartResponse s200 [(s_content_length, [32; 55])] false; Write hello];
     a_end := EndFile {| f_content := [120; 120] ++ world; f_offset := 2; f_blksize := 3; f_has_fileno := true |} |}.
(* error before output: second call with exc_info *)
Definition app_retry : app :=
  {| a_acts := [StartResponse s200 [(s_content_length, [57])] false; StartResponse [53; 48; 48; 32; 120] [] true; Write hello]; a_end := EndDone |}.
Definition app_head : app := {| a_acts := [StartResponse s200 [(s_content_length, [53])] false]; a_end := EndDone |}.

Example date0_ok : date_ok date0.
Proof. split; [vm_compute; reflexivity|split; vm_compute; reflexivity]. Qed.
Example wb_examples :
  well_behaved (rqG 1 []) app_chunked = true /\ well_behaved (rqG 1 []) app_cl_file = true
  /\ well_behaved (rqG 0 []) app_retry = true /\ well_behaved rqH app_head = true.
Proof. vm_compute. repeat split. Qed.
Example wf_examples : wf_req (rqG 1 []) /\ wf_req rqH.
Proof. unfold wf_req. cbn. repeat split; reflexivity. Qed.
(* the chunked response on gthread: kept open, decodes to "helloworld", whatever follows is left alone *)
Example chunked_example :
  let o := fst (serve WGthread ws0 date0 (rqG 1 []) app_chunked) in
  o_ended o = Completed true
  /\ option_map (fun r => (p_code r, p_body r, p_leftover r, p_self_delimiting r)) (decode [71; 69; 84] (o_wire o ++ [72; 84]))
     = Some (200, hello ++ world, [72; 84], true).
Proof. vm_compute. split; reflexivity. Qed.
(* write() + file wrapper with Content-Length 7: exactly "hellowo" and no byte more *)
Example cl_file_example :
  let o := fst (serve WAsync ws0 date0 (rqG 1 []) app_cl_file) in
  o_ended o = Completed true
  /\ option_map (fun r => (p_body r, p_leftover r)) (decode [71; 69; 84] (o_wire o)) = Some (hello ++ [119; 111], []).
Proof. vm_compute. split; reflexivity. Qed.
(* HTTP/1.0 without keep-alive: delimited by close, not kept open *)
Example close_delimited_example :
  let o := fst (serve WGthread ws0 date0 (rqG 0 []) app_retry) in
  o_ended o = Completed false
  /\ option_map (fun r => (p_code r, p_body r, p_self_delimiting r)) (decode [71; 69; 84] (o_wire o)) = Some (500, hello, false).
Proof. vm_compute. split; reflexivity. Qed.
(* a connection of three requests on the async worker: three responses, nothing else *)
Example connection_example :
  let l := [(rqG 1 [], app_chunked); (rqH, app_head); (rqG 1 [s_close], app_cl_file); (rqG 1 [], app_chunked)] in
  let os := serve_conn WAsync ws0 date0 l in
  length os = 3%nat
  /\ option_map (map (fun r => (p_code r, p_body r))) (decode_stream [[71; 69; 84]; s_HEAD; [71; 69; 84]] (conn_wire os))
     = Some [(200, hello ++ world); (200, []); (200, hello ++ [119; 111])].
Proof. vm_compute. split; reflexivity. Qed.
