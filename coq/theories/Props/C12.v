(* C12 - Request-head limits are enforced and parser buffering is bounded.
   Only statements, each closed by [exact]. *)
From Coq Require Import List NArith ZArith Bool.
From GV Require Import Base.Bytes Base.Scan Base.PyStr Gen.GenParser Model.Parser Proof.ParserHead Proof.Limits Proof.LimitsCompose.
Import ListNotations.
Local Open Scope N_scope.

(* -- request line ([eff_line c] = the clamped limit_request_line; 0 = unlimited, as documented) -- *)
Theorem C12_long_request_line_never_handed : forall c x n d p i,
    0 < eff_line c -> find_pat CRLF (d ++ concat p) = Some i -> eff_line c < N.of_nat i ->
    parse_from c x n d p = inr ELimitRequestLine.
Proof. exact long_request_line_never_handed. Qed.
Print Assumptions C12_long_request_line_never_handed.

Theorem C12_endless_request_line_rejected : forall lim data p,
    0 < lim -> find_pat CRLF (data ++ concat p) = None -> lim + 2 < blen (data ++ concat p) ->
    canon3 (read_line lim data p) = inr ELimitRequestLine.
Proof. exact endless_request_line_rejected. Qed.
Print Assumptions C12_endless_request_line_rejected.

Theorem C12_request_line_within_limit_accepted : forall lim data p i,
    find_pat CRLF (data ++ concat p) = Some i -> (lim = 0 \/ N.of_nat i <= lim) ->
    exists line rest, canon3 (read_line lim data p) = inl (line, rest) /\ line = firstn i (data ++ concat p).
Proof. exact short_request_line_accepted. Qed.
Print Assumptions C12_request_line_within_limit_accepted.

(* -- number of header fields and size of each field, for every header block and every policy -- *)
Theorem C12_over_limit_headers_rejected : forall c ft fuel lines n seen https acc,
    within_limits c fuel lines n = false ->
    exists e, parse_headers_loop c ft fuel lines n seen https acc = inr e.
Proof. exact over_limit_headers_rejected. Qed.
Print Assumptions C12_over_limit_headers_rejected.

Theorem C12_within_limits_not_rejected_for_size : forall c ft fuel lines n seen https acc,
    within_limits c fuel lines n = true ->
    parse_headers_loop c ft fuel lines n seen https acc <> inr ELimitRequestHeaders.
Proof. exact within_limits_not_rejected_for_size. Qed.
Print Assumptions C12_within_limits_not_rejected_for_size.

(* -- the header block as a whole -- *)
Theorem C12_oversized_header_block_rejected : forall c rbuf p i,
    prefixb CRLF (rbuf ++ concat p) = false -> find_pat CRLFCRLF (rbuf ++ concat p) = Some i ->
    max_buffer_headers c < N.of_nat (i + 4) ->
    canonH (header_stage c rbuf p) = inr ELimitRequestHeaders.
Proof. exact oversized_header_block_rejected. Qed.
Print Assumptions C12_oversized_header_block_rejected.
Theorem C12_endless_header_block_rejected : forall c rbuf p,
    hdr_find (rbuf ++ concat p) = None -> max_buffer_headers c <= blen (rbuf ++ concat p) ->
    canonH (header_stage c rbuf p) = inr ELimitRequestHeaders.
Proof. exact endless_header_block_rejected. Qed.
Print Assumptions C12_endless_header_block_rejected.

(* -- the three size tests composed: a block whose fields respect limit_request_fields and limit_request_field_size
      (> 0) also fits the cap on the block as a whole, so it is refused for size nowhere in the header stage.
      (limit_request_field_size = 0, "unlimited", switches off the per-field test only: the block stays bounded by the
      cap computed with the default field size - DESIGN.md 13.2 - and a block beyond it is refused.) -- *)
Theorem C12_fields_within_limits_fit_the_block_cap : forall c block,
    0 < eff_field_size c ->
    within_limits c (S (length (split_crlf block))) (split_crlf block) 0 = true ->
    N.of_nat (length block + 4) <= max_buffer_headers c.
Proof. exact within_limits_block_fits. Qed.
Print Assumptions C12_fields_within_limits_fit_the_block_cap.
Theorem C12_request_within_limits_not_rejected_for_size : forall c rbuf p i,
    0 < eff_field_size c ->
    prefixb CRLF (rbuf ++ concat p) = false -> find_pat CRLFCRLF (rbuf ++ concat p) = Some i ->
    within_limits c (S (length (split_crlf (firstn i (rbuf ++ concat p))))) (split_crlf (firstn i (rbuf ++ concat p))) 0 = true ->
    canonH (header_stage c rbuf p) <> inr ELimitRequestHeaders.
Proof. exact header_block_within_limits_not_rejected. Qed.
Print Assumptions C12_request_within_limits_not_rejected_for_size.

(* the whole request head, for every segmentation (d = the first read, p = the following ones): request line within
   limit_request_line, number of fields within limit_request_fields, every field within limit_request_field_size
   => whatever else is wrong with the request, the error is not one of the two size errors (414 / 431) *)
Theorem C12_request_within_all_limits_not_rejected_for_size : forall c x n d p i j e,
    proxy_protocol c = false -> 0 < eff_field_size c ->
    find_pat CRLF (d ++ concat p) = Some i -> (eff_line c = 0 \/ N.of_nat i <= eff_line c) ->
    prefixb CRLF (skipn (i + 2) (d ++ concat p)) = false ->
    find_pat CRLFCRLF (skipn (i + 2) (d ++ concat p)) = Some j ->
    within_limits c (S (length (split_crlf (firstn j (skipn (i + 2) (d ++ concat p))))))
                  (split_crlf (firstn j (skipn (i + 2) (d ++ concat p)))) 0 = true ->
    parse_from c x n d p = inr e -> size_error e = false.
Proof. exact request_within_limits_not_rejected_for_size. Qed.
Print Assumptions C12_request_within_all_limits_not_rejected_for_size.

(* -- bounded buffering: whatever the client sends in reads of at most M bytes, each refill loop
      (request line, header block / trailer block, chunk-size line) never holds more than its cap + M -- *)
Theorem C12_request_line_buffer_bounded : forall c M data p, 0 < eff_line c ->
    Forall (fun ch => length ch <= M)%nat p -> (length data <= N.to_nat (eff_line c) + 3 + M)%nat ->
    (scan_peak (find_pat CRLF) (rl_over (eff_line c)) data p <= N.to_nat (eff_line c) + 3 + M)%nat.
Proof. exact request_line_buffer_bounded. Qed.
Print Assumptions C12_request_line_buffer_bounded.
Theorem C12_header_and_trailer_block_buffer_bounded : forall c M data p,
    Forall (fun ch => length ch <= M)%nat p -> (length data <= N.to_nat (max_buffer_headers c) + M)%nat ->
    (scan_peak hdr_find (cap_over (max_buffer_headers c)) data p <= N.to_nat (max_buffer_headers c) + M)%nat.
Proof. exact header_block_buffer_bounded. Qed.
Print Assumptions C12_header_and_trailer_block_buffer_bounded.
Theorem C12_chunk_size_line_buffer_bounded : forall c M data p,
    Forall (fun ch => length ch <= M)%nat p -> (length data <= N.to_nat (max_buffer_headers c) + M)%nat ->
    (scan_peak (find_pat CRLF) (cap_over (max_buffer_headers c)) data p <= N.to_nat (max_buffer_headers c) + M)%nat.
Proof. exact chunk_size_line_buffer_bounded. Qed.
Print Assumptions C12_chunk_size_line_buffer_bounded.
Theorem C12_peak_is_the_peak : forall find over p data,
    match scan find over data p with
    | SFound _ d _ => (length d <= scan_peak find over data p)%nat
    | SEof d => (length d <= scan_peak find over data p)%nat
    | SOver => True
    end.
Proof. exact scan_result_le_peak. Qed.
Print Assumptions C12_peak_is_the_peak.

(* ---- table facts over the regenerated constants, and non-vacuity ---- *)
Lemma C12_default_limits : eff_line default_cfg = 4094 /\ eff_fields default_cfg = 100 /\ eff_field_size default_cfg = 8190
                           /\ max_buffer_headers default_cfg = 819204.
Proof. vm_compute. repeat split; reflexivity. Qed.
Lemma C12_clamping : forall c, eff_line c <= max_request_line /\ 0 < eff_fields c /\ eff_fields c <= max_headers /\ 4 <= max_buffer_headers c.
Proof. exact limits_clamped. Qed.
Print Assumptions C12_clamping.
Definition small : cfg :=
  {| limit_request_line := 20; limit_request_fields := 2; limit_request_field_size := 10;
     permit_unconventional_http_method := false; permit_unconventional_http_version := false;
     casefold_http_method := false; strip_header_spaces := false; permit_obsolete_folding := false;
     header_map := 0; proxy_protocol := false; fwd_trusted := true; proxy_trusted := true;
     secure_scheme_headers := []; forwarder_headers := []; is_ssl := false |}.
Example three_fields_over_limit_2 : within_limits small 9 [[65;58;49]; [66;58;50]; [67;58;51]] 0 = false.
Proof. vm_compute. reflexivity. Qed.
Example two_fields_within_limit_2 : within_limits small 9 [[65;58;49]; [66;58;50]] 0 = true.
Proof. vm_compute. reflexivity. Qed.
Example field_of_11_bytes_over_limit_10 : within_limits small 9 [[65;58;49;50;51;52;53;54;55]] 0 = false.
Proof. vm_compute. reflexivity. Qed.
