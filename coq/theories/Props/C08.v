(* C08 - Only trusted peers can set scheme, script name or client address.
   Only statements, each closed by [exact]; model in Model/Environ.v, proofs in Proof/EnvC08Proofs.v.
   All theorems quantify over every configuration, peer, byte stream and (Section variables) every
   behaviour of socket.inet_pton and of urlsplit's netloc validation. *)
From Coq Require Import List NArith ZArith Bool.
From GV Require Import Base.Enc Base.Dec Gen.GenEnv Model.EnvStr Model.Environ Spec.EnvSpec Proof.EnvStrProofs Proof.EnvC08Proofs.
Import ListNotations.
Local Open Scope N_scope.

(* (a) Under the default ('drop') and 'refuse' header-map modes two differently spelled stored header
   names never share an environ key - unless the peer passed the forwarded_allow_ips gate and one of
   the two is a listed forwarder header (the documented exception).  [hs] are the (upper-cased name,
   value) pairs Message.parse_headers stores; [env_key] is the key wsgi.create puts a name under. *)
Theorem C08_names_do_not_collide : forall c p lines hs https,
  header_map c <> Dangerous ->
  parse_headers c p lines = HOk hs https ->
  forall n1 v1 n2 v2, In (n1, v1) hs -> In (n2, v2) hs -> n1 <> n2 -> env_key n1 = env_key n2 ->
    trusted_fwd c p = true /\ (listed c n1 = true \/ listed c n2 = true).
Proof. exact names_do_not_collide_proof. Qed.
Print Assumptions C08_names_do_not_collide.

(* (b) A peer outside forwarded_allow_ips cannot move wsgi.url_scheme, SCRIPT_NAME or PATH_INFO with
   any header: they are the configured scheme, os.environ's SCRIPT_NAME and the decoded remainder of
   the request line's path, whatever the header block says (any position in the connection, any
   PROXY information [i] the worker attached). *)
Theorem C08_untrusted_peer_cannot_assert : forall (inet4_ok inet6_ok : bytes -> inet_res) (netloc_ok : bytes -> bool) c p reqno data r rest i e,
  trusted_fwd c p = false -> header_map c <> Dangerous ->
  parse_request inet4_ok inet6_ok netloc_ok c p reqno data = PAccept r rest ->
  wsgi_create c (set_ppi r i) p = inr e ->
  exists line rbuf q,
    cut_crlf (http_part c reqno data) = Some (line, rbuf) /\ parse_request_line netloc_ok c line = inr q /\
    env_get s_url_scheme e = Some (if is_ssl c then s_https else s_http) /\
    env_get s_SCRIPT_NAME e = Some (os_script_name c) /\
    exists pi, u_path (q_parts q) = os_script_name c ++ pi /\ env_get s_PATH_INFO e = Some (unquote pi).
Proof. exact untrusted_peer_cannot_assert_proof. Qed.
Print Assumptions C08_untrusted_peer_cannot_assert.

(* (c) REMOTE_ADDR differs from the peer's address only if proxy_protocol is on, the peer passed the
   proxy_allow_ips gate and the connection's first line was a PROXY line that parse_proxy_protocol
   accepts - and then it is the address that line declares.  Every worker, every request position. *)
Theorem C08_proxy_line_gate : forall (inet4_ok inet6_ok : bytes -> inet_res) (netloc_ok : bytes -> bool) c w p data e,
  In (REnv e) (conn_run inet4_ok inet6_ok netloc_ok c w p data) ->
  env_get s_REMOTE_ADDR e <> Some (peer_host p) ->
  exists i, proxy_gate inet4_ok inet6_ok c p data i /\ env_get s_REMOTE_ADDR e = Some (pp_client_addr i).
Proof. exact proxy_line_gate_proof. Qed.
Print Assumptions C08_proxy_line_gate.

(* (d) A PROXY-declared client address applies to every request of the connection: if request 1
   carried the declaration [i], every environ of the run shows its address and port. *)
Theorem C08_proxy_addr_sticks : forall (inet4_ok inet6_ok : bytes -> inet_res) (netloc_ok : bytes -> bool) c w p data r rest i e,
  parse_request inet4_ok inet6_ok netloc_ok c p 1 data = PAccept r rest -> r_ppi r = Some i ->
  In (REnv e) (conn_run inet4_ok inet6_ok netloc_ok c w p data) ->
  env_get s_REMOTE_ADDR e = Some (pp_client_addr i) /\ env_get s_REMOTE_PORT e = Some (dec (pp_client_port i)).
Proof. exact proxy_addr_sticks_proof. Qed.
Print Assumptions C08_proxy_addr_sticks.

(* ... and the gate is sufficient as well: an accepted first request whose connection starts with a PROXY
   line that parse_proxy_protocol accepts carries exactly that declaration (so (d) applies to it) *)
Theorem C08_proxy_line_is_applied : forall (inet4_ok inet6_ok : bytes -> inet_res) (netloc_ok : bytes -> bool) c p data pl rb i r rest,
  proxy_protocol c = true -> cut_crlf data = Some (pl, rb) -> starts_with s_PROXY pl = true ->
  parse_proxy_line inet4_ok inet6_ok pl = PLOk i ->
  parse_request inet4_ok inet6_ok netloc_ok c p 1 data = PAccept r rest -> r_ppi r = Some i.
Proof. exact proxy_line_is_applied_proof. Qed.
Print Assumptions C08_proxy_line_is_applied.

(* the fuel of the connection loop is never exhausted: (c) and (d) speak about complete runs *)
Theorem C08_runs_are_complete : forall (inet4_ok inet6_ok : bytes -> inet_res) (netloc_ok : bytes -> bool) c w p data,
  ~ In ROutOfFuel (conn_run inet4_ok inet6_ok netloc_ok c w p data).
Proof. exact conn_run_never_out_of_fuel. Qed.
Print Assumptions C08_runs_are_complete.

(* ---- configurations, built from the defaults regenerated from gunicorn/config.py ----------------------- *)
Definition hmode_of (n : N) : hmode := match n with 0 => Drop | 1 => Refuse | _ => Dangerous end.
Definition default_cfg : cfg :=
  {| forwarded_allow_ips := default_forwarded_allow_ips; forwarder_headers := default_forwarder_headers;
     secure_scheme_headers := default_secure_scheme_headers; header_map := hmode_of default_header_map;
     proxy_protocol := default_proxy_protocol; proxy_allow_ips := default_proxy_allow_ips; is_ssl := false;
     strip_header_spaces := false; permit_obsolete_folding := false; casefold_http_method := false;
     permit_unconventional_http_method := false; permit_unconventional_http_version := false;
     limit_request_line := default_limit_request_line; limit_request_fields := default_limit_request_fields;
     limit_request_field_size := default_limit_request_field_size; keepalive := 2; os_script_name := [] |}.
Definition with_mode (c : cfg) (m : hmode) (pp : bool) : cfg :=
  {| forwarded_allow_ips := forwarded_allow_ips c; forwarder_headers := forwarder_headers c;
     secure_scheme_headers := secure_scheme_headers c; header_map := m;
     proxy_protocol := pp; proxy_allow_ips := proxy_allow_ips c; is_ssl := is_ssl c;
     strip_header_spaces := false; permit_obsolete_folding := false; casefold_http_method := false;
     permit_unconventional_http_method := false; permit_unconventional_http_version := false;
     limit_request_line := limit_request_line c; limit_request_fields := limit_request_fields c;
     limit_request_field_size := limit_request_field_size c; keepalive := keepalive c; os_script_name := os_script_name c |}.

(* the default mode is one the theorems cover (a change of the default to 'dangerous' breaks this) *)
Lemma default_mode_is_covered : header_map default_cfg <> Dangerous.
Proof. vm_compute. discriminate. Qed.
(* by default nobody but the loopback addresses is trusted, and the listed forwarder headers are the documented two *)
Lemma default_trust_is_loopback_only :
  negb (bmem s_star (forwarded_allow_ips default_cfg)) && negb (bmem s_star (proxy_allow_ips default_cfg)) &&
  bmem s_SCRIPT_NAME (forwarder_headers default_cfg) && negb (bmem s_star (forwarder_headers default_cfg)) = true.
Proof. vm_compute. reflexivity. Qed.
(* none of the default secure-scheme header names contains an underscore: their underscore variants are
   different names, dropped or refused like any other *)
Lemma default_scheme_names_have_no_underscore :
  forallb (fun kv => negb (has_underscore (fst kv))) (secure_scheme_headers default_cfg) = true.
Proof. vm_compute. reflexivity. Qed.

(* ---- non-vacuity and witnesses ------------------------------------------------------------------------------- *)
Definition yes (_ : bytes) : bool := true.
Definition ok (_ : bytes) : inet_res := IOk.
Definition listed_peer : peer := PTuple [49;50;55;46;48;46;48;46;49] 5000.     (* 127.0.0.1 *)
Definition stranger : peer := PTuple [56;46;56;46;56;46;56] 5002.              (* 8.8.8.8 *)
(* "GET /x/y HTTP/1.1" CRLF "X-Forwarded-Proto: https" CRLF "SCRIPT_NAME: /x" CRLF "Script-Name: /q" CRLF CRLF *)
Definition req_spoof : bytes :=
  [71;69;84;32;47;120;47;121;32;72;84;84;80;47;49;46;49;13;10;
   88;45;70;111;114;119;97;114;100;101;100;45;80;114;111;116;111;58;32;104;116;116;112;115;13;10;
   83;67;82;73;80;84;95;78;65;77;69;58;32;47;120;13;10;
   83;99;114;105;112;116;45;78;97;109;101;58;32;47;113;13;10;13;10].

Definition env_of (c : cfg) (p : peer) (data : bytes) : option env :=
  match conn_run ok ok yes c WSync p data with REnv e :: _ => Some e | _ => None end.

(* hypotheses of (a) are satisfiable, and its exception clause is inhabited: from a trusted peer the
   listed SCRIPT_NAME and the differently spelled Script-Name share HTTP_SCRIPT_NAME *)
Example collision_only_through_the_documented_exception :
  match env_of default_cfg listed_peer req_spoof with
  | Some e => env_get (http_key s_SCRIPT_NAME) e = Some [47;120;44;47;113]         (* "/x,/q" *)
              /\ env_get s_SCRIPT_NAME e = Some [47;120] /\ env_get s_url_scheme e = Some s_https
  | None => False
  end.
Proof. vm_compute. repeat split. Qed.

(* hypotheses of (b) are satisfiable: the same bytes from a stranger are accepted, and assert nothing *)
Example stranger_asserts_nothing :
  trusted_fwd default_cfg stranger = false /\
  match env_of default_cfg stranger req_spoof with
  | Some e => env_get s_url_scheme e = Some s_http /\ env_get s_SCRIPT_NAME e = Some [] /\
              env_get s_PATH_INFO e = Some [47;120;47;121] /\
              env_get (http_key s_SCRIPT_NAME) e = Some [47;113]                   (* only Script-Name: "/q" *)
  | None => False
  end.
Proof. vm_compute. repeat split. Qed.

(* (b) in 'dangerous' mode.  Whether wsgi.create itself checks the gate before obeying a SCRIPT_NAME
   header is probed on the tree under test (GenEnv.script_name_needs_trust).
   - where it does, SCRIPT_NAME / PATH_INFO are out of an untrusted peer's reach in EVERY mode: *)
Theorem C08_untrusted_script_name_any_mode : forall (inet4_ok inet6_ok : bytes -> inet_res) (netloc_ok : bytes -> bool) c p reqno data r rest i e,
  script_name_needs_trust = true -> trusted_fwd c p = false ->
  parse_request inet4_ok inet6_ok netloc_ok c p reqno data = PAccept r rest ->
  wsgi_create c (set_ppi r i) p = inr e ->
  env_get s_SCRIPT_NAME e = Some (os_script_name c) /\
  exists pi, r_path r = os_script_name c ++ pi /\ env_get s_PATH_INFO e = Some (unquote pi).
Proof. exact untrusted_script_name_any_mode_proof. Qed.
Print Assumptions C08_untrusted_script_name_any_mode.
(* - where it does not (gunicorn 23.0.0), (b) needs its hypothesis header_map <> dangerous: the faithful model
     lets a stranger's SCRIPT_NAME header through to wsgi.create, which obeys it.  The witness is replayed on the
     implementation by harness/props/c08.py (known finding dangerous-untrusted-script-name). *)
Theorem C08_untrusted_peer_dangerous_mode_refuted :
  script_name_needs_trust = false ->
  exists c p data e,
    trusted_fwd c p = false /\ header_map c = Dangerous /\ env_of c p data = Some e /\
    env_get s_SCRIPT_NAME e <> Some (os_script_name c).
Proof.
  intros Hflag.
  first [ discriminate Hflag
        | exists (with_mode default_cfg Dangerous false), stranger, req_spoof;
          eexists; split; [vm_compute; reflexivity|]; split; [reflexivity|]; split; [vm_compute; reflexivity|];
          vm_compute; discriminate ].
Qed.

(* "PROXY TCP4 1.2.3.4 5.6.7.8 1111 80" CRLF then three requests "GET /k HTTP/1.1" CRLF CRLF *)
Definition conn_proxy3 : bytes :=
  [80;82;79;88;89;32;84;67;80;52;32;49;46;50;46;51;46;52;32;53;46;54;46;55;46;56;32;49;49;49;49;32;56;48;13;10] ++
  [71;69;84;32;47;49;32;72;84;84;80;47;49;46;49;13;10;13;10] ++
  [71;69;84;32;47;50;32;72;84;84;80;47;49;46;49;13;10;13;10] ++
  [71;69;84;32;47;51;32;72;84;84;80;47;49;46;49;13;10;13;10].
Definition remote_addrs (l : list robs) : list (option bytes) :=
  flat_map (fun r => match r with REnv e => [env_get s_REMOTE_ADDR e] | _ => [] end) l.

(* hypotheses of (c) and (d) are satisfiable: three requests on each keep-alive worker, all three see 1.2.3.4 *)
Example proxy_address_on_all_three_requests :
  let c := with_mode default_cfg Drop true in
  remote_addrs (conn_run ok ok yes c WThread listed_peer conn_proxy3) = [Some [49;46;50;46;51;46;52]; Some [49;46;50;46;51;46;52]; Some [49;46;50;46;51;46;52]] /\
  remote_addrs (conn_run ok ok yes c WAsync listed_peer conn_proxy3) = [Some [49;46;50;46;51;46;52]; Some [49;46;50;46;51;46;52]; Some [49;46;50;46;51;46;52]] /\
  remote_addrs (conn_run ok ok yes c WSync listed_peer conn_proxy3) = [Some [49;46;50;46;51;46;52]].
Proof. vm_compute. repeat split. Qed.

(* and the gate is real: a stranger's PROXY line gets 403, with proxy_protocol off it is a bad request *)
Example proxy_line_from_stranger_is_refused :
  conn_run ok ok yes (with_mode default_cfg Drop true) WThread stranger conn_proxy3 = [RErr 403] /\
  conn_run ok ok yes (with_mode default_cfg Drop false) WThread listed_peer conn_proxy3 = [RErr 400].
Proof. vm_compute. split; reflexivity. Qed.
