(* C03 - The master keeps exactly the configured number of live workers.
   Only statements, each closed by [exact]/[apply] of a lemma; model in Model/Arbiter.v (one [Master] label = the
   code between two consecutive accesses to state shared with the signal handlers / system calls; [Chld] = the
   whole SIGCHLD handler, schedulable between any two of them), proofs in Proof/Arbiter*.v.
   A schedule is any list of labels, so "forall ls" below quantifies over every history of worker deaths
   (any status), TTIN/TTOU/HUP (and the other signals), time, notifications, and over every position of the
   SIGCHLD handler relative to the master's own fork / kill / wait calls. *)
From Coq Require Import List ZArith Bool Lia.
From GV Require Import Gen.GenArbiter Model.Arbiter Proof.ArbiterBase Proof.ArbiterInv Proof.ArbiterC03 Proof.ArbiterConv Proof.ArbiterRefute.
Import ListNotations.
Local Open Scope Z_scope.

(* ---- table facts over the regenerated constants ------------------------------------------------------ *)
(* the boot-failure exit codes are distinct from each other, from a clean exit, and from an uncaught exception *)
Lemma C03_exit_codes_distinct :
  worker_boot_error <> app_load_error /\ worker_boot_error <> 0 /\ app_load_error <> 0 /\
  worker_boot_error <> 1 /\ app_load_error <> 1.
Proof. vm_compute. repeat split; discriminate. Qed.
Lemma C03_ttin_ttou_hup_are_queued :
  zmem SIGTTIN queued_signals = true /\ zmem SIGTTOU queued_signals = true /\ zmem SIGHUP queued_signals = true /\
  0 < sig_queue_max.
Proof. vm_compute. repeat split; reflexivity. Qed.

(* ---- safety: in every reachable state ------------------------------------------------------------------ *)
Theorem C03_arbiter_invariant : forall s, reachable s ->
  (* while the master serves, every child is in WORKERS, or between fork() and its registration, or is the USR2 child *)
  (serving (cur s) = true -> forall c, In c (kids s) ->
     if c_master c then reexec s = c_pid c \/ In (c_pid c) (pending_master (cur s))
     else In (c_pid c) (pids (workers s) ++ pending_reg (cur s))) /\
  (* ages strictly increase along WORKERS and never exceed worker_age; pids are distinct *)
  incr (map w_age (workers s)) /\ Forall (fun a => a <= wage s) (map w_age (workers s)) /\ NoDup (pids (workers s)) /\
  (* the target is never negative; the signal queue is bounded *)
  0 <= num s /\ Z.of_nat (length (sigq s)) <= sig_queue_max /\
  (* an orderly exit has status 0, or the boot-failure status of a worker *)
  (forall x, cur s = PExited x -> x = 0 \/ x = worker_boot_error \/ x = app_load_error).
Proof.
  intros s R. pose proof (inv_reachable _ R) as H. unfold Inv in H.
  split. { exact (i_track _ _ H). }
  split. { pose proof (i_ages _ _ H) as A. apply incr_app in A. tauto. }
  split. { pose proof (i_wage _ _ H) as A. apply Forall_app in A. tauto. }
  split. { pose proof (i_pids _ _ H) as A. apply incr_app in A. apply incr_NoDup. tauto. }
  split. { pose proof (i_nonneg _ _ H). tauto. }
  split. { pose proof (i_queue _ _ H). tauto. }
  intros x PC. eapply exit_status_in_0_3_4; eauto.
Qed.
Print Assumptions C03_arbiter_invariant.

(* the SIGCHLD handler either raises HaltServer (boot failure) or leaves no zombie behind *)
Theorem C03_no_zombie_survives_chld : forall s,
  master_gone (cur s) = false ->
  match reap (S (length (kids s))) s with
  | (_, Some code) => code = worker_boot_error \/ code = app_load_error
  | (s1, None) => kids (chld s) = kids s1 /\ forallb is_running (kids (chld s)) = true
  end.
Proof. exact no_zombie_survives_chld. Qed.
Print Assumptions C03_no_zombie_survives_chld.

(* ---- convergence once events stop ------------------------------------------------------------------------- *)
(* [settle n s]: n master steps under the fair environment only (told workers exit, SIGCHLD is delivered,
   healthy workers notify) - "events have stopped".  Hypotheses: the master is at the top of its loop with an
   empty queue; no USR2 upgrade is pending (outside C03's alphabet); [tracked]: no entry of WORKERS names a pid
   that is not a child - this excludes exactly the fork/SIGCHLD race D17 (see C03_converges_refuted); no
   unreaped child carries a boot-failure status (then the server halts instead: C03_boot_failure_halts). *)
Theorem C03_converges : forall s,
  reachable s -> at_rest s -> no_upgrade s -> tracked s -> no_boot_failure_pending s ->
  exists n, converged (settle n s).
Proof. exact converges. Qed.
Print Assumptions C03_converges.

Theorem C03_converged_means : forall s, converged s ->
  cur s = PSigq /\ sigq s = [] /\
  pids (workers s) = kpids (filter (fun c => is_running c && negb (c_master c)) (kids s)) /\
  Z.of_nat (length (workers s)) = num s /\
  (forall c, In c (kids s) -> is_running c = true /\ told c = false).
Proof.
  intros s [A [B [C [D E]]]]. repeat split; auto; specialize (E c H); unfold healthy in E; apply andb_true_iff in E;
    destruct E as [E1 E2]; auto. apply negb_true_iff in E2. auto.
Qed.

Theorem C03_converged_stable : forall s, Inv s -> quiet s -> converged s ->
  exists k s', settle k s = s' /\ converged s' /\ quiet s' /\ Inv s'.
Proof. exact converged_stable. Qed.
Print Assumptions C03_converged_stable.

(* ---- surplus workers are asked to stop oldest first ----------------------------------------------------------- *)
Theorem C03_surplus_oldest_first : forall s, Inv s -> cur s = PManageSort ->
  (master s = manage_kill_next s (pids (victims_of s))) /\
  victims_of s = firstn (Z.to_nat (wlen s - num s)) (workers s) /\
  length (victims_of s) = Nat.min (Z.to_nat (wlen s - num s)) (length (workers s)) /\
  (forall a b, In a (victims_of s) -> In b (workers s) -> ~ In b (victims_of s) -> w_age a < w_age b).
Proof. exact surplus_oldest_first. Qed.
Print Assumptions C03_surplus_oldest_first.

Theorem C03_manage_kill_sends_TERM_in_order : forall s p v, cur s = PManageKill (p :: v) ->
  master s = manage_kill_next (kill_worker s p SIGTERM) v.
Proof. exact manage_kill_step. Qed.

(* ---- a worker that cannot boot stops the whole server ---------------------------------------------------------- *)
Theorem C03_boot_failure_halts : forall s z,
  Inv s -> master_gone (cur s) = false -> in_final_stop (cur s) = false ->
  In z (kids s) -> is_zombie z = true -> boot_code z = true -> c_pid z <> reexec s ->
  exists code, (code = worker_boot_error \/ code = app_load_error) /\
    halting code (cur (chld s)) /\ master_gone (cur (chld s)) = false /\
    forall ls, forks (run (chld s) ls) = forks s /\
               forall x, cur (run (chld s) ls) = PExited x -> x = code.
Proof. exact boot_failure_halts. Qed.
Print Assumptions C03_boot_failure_halts.

(* the only way the master dies outside an orderly exit: HaltServer raised by the handler inside halt()'s stop() *)
Theorem C03_crash_only_by_halt_reentry : forall s l, cur s <> PCrashed -> cur (step s l) = PCrashed ->
  l = Chld /\ in_final_stop (cur s) = true /\ reaps_boot_failure s.
Proof. exact crash_only_by_halt_reentry. Qed.
Print Assumptions C03_crash_only_by_halt_reentry.

(* ---- known refutations (findings on the current tree) ----------------------------------------------------------- *)
(* D17: with timeout = 0 the pool never converges after SIGCHLD was handled between fork() and registration *)
Theorem C03_converges_refuted :
  reachable d17_state /\ at_rest d17_state /\ no_upgrade d17_state /\ no_boot_failure_pending d17_state /\
  timeout d17_state = 0 /\ ~ tracked d17_state /\
  forall n, ~ converged (settle n d17_state).
Proof. exact converges_refuted. Qed.
Print Assumptions C03_converges_refuted.

(* ... with a positive timeout the dead entry is removed by the timeout scan (SIGABRT -> ESRCH -> pop) *)
Theorem C03_phantom_is_murdered : forall s p todo w,
  cur s = PMurderCheck (p :: todo) -> find_wk p (workers s) = Some w -> w_aborted w = false ->
  ~ In p (kpids (kids s)) -> timeout s * tps < mono s - w_hb w ->
  ~ In p (pids (workers (master (master s)))).
Proof. exact phantom_is_murdered. Qed.

(* D22: a second boot failure reaped while halt() runs: the master dies with an uncaught HaltServer (status 1) *)
Theorem C03_boot_failure_exit_status_refuted :
  cur (run (init 2 30 30 0 0) d22_schedule) = PCrashed /\ forks (run (init 2 30 30 0 0) d22_schedule) = 2.
Proof. exact boot_failure_exit_status_refuted. Qed.
Print Assumptions C03_boot_failure_exit_status_refuted.

(* ---- non-vacuity ------------------------------------------------------------------------------------------------ *)
(* a reachable state meeting every hypothesis of C03_converges that is not yet converged: three workers, then TTOU
   (target 2), worker 101 killed from outside and not yet reaped *)
Definition ex_schedule : list label :=
  [Master; Master; Master; Master; Master; Master; Master; Master; Master; Master; Master; Master; Master;
   Sig SIGTTOU; Exit 101 9;
   Master; Master; Master; Master; Master; Master; Master; Master; Master; Master; Master].
Definition ex_state : st := run (init 3 30 30 0 0) ex_schedule.
Lemma ex_state_fields :
  cur ex_state = PSigq /\ sigq ex_state = [] /\ master_pid ex_state = 0 /\ reexec ex_state = 0 /\ num ex_state = 2 /\
  pids (workers ex_state) = [100; 101; 102] /\
  kids ex_state = [mkChild 100 Running [SIGTERM] false; mkChild 101 (Zombie 9) [] false; mkChild 102 Running [] false].
Proof. vm_compute. repeat split; reflexivity. Qed.
Lemma ex_state_reachable : reachable ex_state.
Proof. exists 3, 30, 30, 0, 0, ex_schedule. split; [unfold valid_cfg; lia | reflexivity]. Qed.
Opaque ex_state.
Example C03_converges_hypotheses_satisfiable :
  reachable ex_state /\ at_rest ex_state /\ no_upgrade ex_state /\ tracked ex_state /\ no_boot_failure_pending ex_state /\
  ~ converged ex_state.
Proof.
  destruct ex_state_fields as [PC [Q [M [R [N [W K]]]]]].
  split. { exact ex_state_reachable. }
  split. { unfold at_rest. auto. }
  split. { split; auto. intros c Hc. rewrite K in Hc. destruct Hc as [<-|[<-|[<-|[]]]]; reflexivity. }
  split. { intros w Hw. apply (in_map w_pid) in Hw. change (map w_pid (workers ex_state)) with (pids (workers ex_state)) in Hw.
           rewrite W in Hw. rewrite K. destruct Hw as [<-|[<-|[<-|[]]]]; cbn; auto. }
  split. { intros c Hc Zc. rewrite K in Hc. clear - Hc Zc. destruct Hc as [<-|[<-|[<-|[]]]]; try (discriminate Zc). vm_compute. reflexivity. }
  intros [_ [_ [_ [L _]]]]. unfold wlen in L. rewrite <- (map_length w_pid) in L.
  change (map w_pid (workers ex_state)) with (pids (workers ex_state)) in L. rewrite W, N in L. discriminate.
Qed.

(* oldest first on a concrete table: ages 1,2,3, target 1 -> the workers of age 1 and 2 are retired, in that order *)
Example C03_oldest_first_example :
  let s := set_pc (set_num (set_workers (init 1 30 30 0 0)
             [mkWk 100 1 false 0; mkWk 101 2 false 0; mkWk 102 3 false 0]) 1) PManageSort in
  cur (master s) = PManageKill [100; 101].
Proof. vm_compute. reflexivity. Qed.

(* boot failure: hypotheses of C03_boot_failure_halts hold in a reachable state, and the halt happens *)
Definition bf_state : st := run (init 2 30 30 0 0) [Master; Master; Master; Master; Master; Master; Master; Master; Master; Exit 101 1024].
Example C03_boot_failure_example :
  master_gone (cur bf_state) = false /\ in_final_stop (cur bf_state) = false /\
  existsb (fun z => is_zombie z && boot_code z && negb (c_pid z =? reexec bf_state)) (kids bf_state) = true /\
  cur (chld bf_state) = PKillAllSnap SIGTERM (KAWait (30 * tps) (AExit app_load_error)).
Proof. vm_compute. repeat split; reflexivity. Qed.
