(* C03 - The master keeps exactly the configured number of live workers.
   Only statements, each closed by [exact]/[apply] of a lemma; model in Model/Arbiter.v (one [Master] label = the
   code between two consecutive accesses to state shared with the signal handlers / system calls; [Chld] = the
   whole SIGCHLD handler, schedulable between any two of them), proofs in Proof/Arbiter*.v.
   A schedule is any list of labels, so "forall ls" below quantifies over every history of worker deaths
   (any status), TTIN/TTOU/HUP (and the other signals), time, notifications, and over every position of the
   SIGCHLD handler relative to the master's own fork / kill / wait calls. *)
From Coq Require Import List ZArith Bool Lia.
From GV Require Import Gen.GenArbiter Model.Arbiter Proof.ArbiterBase Proof.ArbiterInv Proof.ArbiterC03 Proof.ArbiterConv Proof.ArbiterRefute.
Import ListNotations.
Local Open Scope Z_scope.

(* ---- table facts over the regenerated constants ------------------------------------------------------ *)
(* the boot-failure exit codes are distinct from each other, from a clean exit, and from an uncaught exception *)
Lemma C03_exit_codes_distinct :
  worker_boot_error <> app_load_error /\ worker_boot_error <> 0 /\ app_load_error <> 0 /\
  worker_boot_error <> 1 /\ app_load_error <> 1.
Proof. vm_compute. repeat split; discriminate. Qed.
Lemma C03_ttin_ttou_hup_are_queued :
  zmem SIGTTIN queued_signals = true /\ zmem SIGTTOU queued_signals = true /\ zmem SIGHUP queued_signals = true /\
  0 < sig_queue_max.
Proof. vm_compute. repeat split; reflexivity. Qed.

(* ---- safety: in every reachable state ------------------------------------------------------------------ *)
Theorem C03_arbiter_invariant : forall s, reachable s ->
  (* while the master serves, every child is in WORKERS, or between fork() and its registration, or is the USR2 child *)
  (serving (cur s) = true -> forall c, In c (kids s) ->
     if c_master c then reexec s = c_pid c \/ In (c_pid c) (pending_master (cur s))
     else In (c_pid c) (pids (workers s) ++ pending_reg (cur s))) /\
  (* ages strictly increase along WORKERS and never exceed worker_age; pids are distinct *)
  incr (map w_age (workers s)) /\ Forall (fun a => a <= wage s) (map w_age (workers s)) /\ NoDup (pids (workers s)) /\
  (* the target is never negative; the signal queue is bounded *)
  0 <= num s /\ Z.of_nat (length (sigq s)) <= sig_queue_max /\
  (* an orderly exit has status 0, or the boot-failure status of a worker *)
  (forall x, cur s = PExited x -> x = 0 \/ x = worker_boot_error \/ x = app_load_error).
Proof.
  intros s R. pose proof (inv_reachable _ R) as H. unfold Inv in H.
  split. { exact (i_track _ _ H). }
  split. { pose proof (i_ages _ _ H) as A. apply incr_app in A. tauto. }
  split. { pose proof (i_wage _ _ H) as A. apply Forall_app in A. tauto. }
  split. { pose proof (i_pids _ _ H) as A. apply incr_app in A. apply incr_NoDup. tauto. }
  split. { pose proof (i_nonneg _ _ H). tauto. }
  split. { pose proof (i_queue _ _ H). tauto. }
  intros x PC. eapply exit_status_in_0_3_4; eauto.
Qed.
Print Assumptions C03_arbiter_invariant.

(* the SIGCHLD handler either raises HaltServer (boot failure) or leaves no zombie behind *)
Theorem C03_no_zombie_survives_chld : forall s,
  master_gone (cur s) = false ->
  match reap (S (length (kids s))) s with
  | (_, Some code) => code = worker_boot_error \/ code = app_load_error
  | (s1, None) => kids (chld s) = kids s1 /\ forallb is_running (kids (chld s)) = true
  end.
Proof. exact no_zombie_survives_chld. Qed.
Print Assumptions C03_no_zombie_survives_chld.

(* ---- convergence once events stop ------------------------------------------------------------------------- *)
(* [settle n s]: n master steps under the fair environment only (told workers exit, SIGCHLD is delivered,
   healthy workers notify) - "events have stopped".  Hypotheses: the master is at the top of its loop with an
   empty queue; no USR2 upgrade is pending (outside C03's alphabet); [tracked]: no entry of WORKERS names a pid
   that is not a child - this excludes exactly the fork/SIGCHLD race D17 (see C03_converges_refuted); no
   unreaped child carries a boot-failure status (then the server halts instead: C03_boot_failure_halts). *)
Theorem C03_converges : forall s,
  reachable s -> at_rest s -> no_upgrade s -> tracked s -> no_boot_failure_pending s ->
  exists n, converged (settle n s).
Proof. exact converges. Qed.
Print Assumptions C03_converges.

Theorem C03_converged_means : forall s, converged s ->
  cur s = PSigq /\ sigq s = [] /\
  pids (workers s) = kpids (filter (fun c => is_running c && negb (c_master c)) (kids s)) /\
  Z.of_nat (length (workers s)) = num s /\
  (forall c, In c (kids s) -> is_running c = true /\ told c = false).
Proof.
  intros s [A [B [C [D E]]]]. repeat split; auto; specialize (E c H); unfold healthy in E; apply andb_true_iff in E;
    destruct E as [E1 E2]; auto. apply negb_true_iff in E2. auto.
Qed.

Theorem C03_converged_stable : forall s, Inv s -> quiet s -> converged s ->
  exists k s', settle k s = s' /\ converged s' /\ quiet s' /\ Inv s'.
Proof. exact converged_stable. Qed.
Print Assumptions C03_converged_stable.

(* ---- surplus workers are asked to stop oldest first ----------------------------------------------------------- *)
Theorem C03_surplus_oldest_first : forall s, Inv s -> cur s = PManageSort ->
  (master s = manage_kill_next s (pids (victims_of s))) /\
  victims_of s = firstn (Z.to_nat (wlen s - num s)) (workers s) /\
  length (victims_of s) = Nat.min (Z.to_nat (wlen s - num s)) (length (workers s)) /\
  (forall a b, In a (victims_of s) -> In b (workers s) -> ~ In b (victims_of s) -> w_age a < w_age b).
Proof. exact surplus_oldest_first. Qed.
Print Assumptions C03_surplus_oldest_first.

Theorem C03_manage_kill_sends_TERM_in_order : forall s p v, cur s = PManageKill (p :: v) ->
  master s = manage_kill_next (kill_worker s p SIGTERM) v.
Proof. exact manage_kill_step. Qed.

(* ---- a worker that cannot boot stops the whole server ---------------------------------------------------------- *)
(* [raises s]: the tests of reap_workers let a boot failure through (Model/Arbiter.v: always on a tree without the
   `not self._stopping` guard, before stop() was entered on a tree with it).  The first boot failure reaped decides: the
   master halts with exactly that code, for EVERY continuation ls of the schedule - further boot failures (of either code)
   and any other deaths reaped while halt() / stop() run change neither the status nor the fork count - and the only way
   not to reach the orderly exit is the crash that needs a tree without the guard. *)
Theorem C03_boot_failure_halts : forall s z,
  Inv s -> master_gone (cur s) = false -> in_final_stop (cur s) = false -> raises s = true ->
  In z (kids s) -> is_zombie z = true -> boot_code z = true -> c_pid z <> reexec s ->
  exists code, (code = worker_boot_error \/ code = app_load_error) /\
    halting code (cur (chld s)) /\ master_gone (cur (chld s)) = false /\
    forall ls, forks (run (chld s) ls) = forks s /\
               (forall x, cur (run (chld s) ls) = PExited x -> x = code) /\
               (cur (run (chld s) ls) = PCrashed -> reap_guards_halting = false).
Proof. exact boot_failure_halts. Qed.
Print Assumptions C03_boot_failure_halts.

(* the same on a tree with the guard: "the master has not begun to stop" is the whole precondition, and no exception
   leaves run() *)
Theorem C03_boot_failure_halts_guarded : reap_guards_halting = true -> forall s z,
  Inv s -> master_gone (cur s) = false -> stopping s = false ->
  In z (kids s) -> is_zombie z = true -> boot_code z = true -> c_pid z <> reexec s ->
  exists code, (code = worker_boot_error \/ code = app_load_error) /\
    halting code (cur (chld s)) /\ master_gone (cur (chld s)) = false /\
    forall ls, forks (run (chld s) ls) = forks s /\
               (forall x, cur (run (chld s) ls) = PExited x -> x = code) /\
               cur (run (chld s) ls) <> PCrashed.
Proof. exact boot_failure_halts_guarded. Qed.
Print Assumptions C03_boot_failure_halts_guarded.

(* a stop signal came first: TERM (and, with the guard, INT / QUIT) dequeued at the top of the loop ends in exit status 0
   whatever is reaped afterwards - a boot failure reaped while the master stops is an ordinary death *)
Theorem C03_stop_signal_exits_0 : forall s sg q,
  cur s = PSigq -> sigq s = sg :: q ->
  sg = SIGTERM \/ (reap_guards_halting = true /\ (sg = SIGINT \/ sg = SIGQUIT)) ->
  halting 0 (cur (master s)) /\
  forall ls, forks (run (master s) ls) = forks (master s) /\
             (forall x, cur (run (master s) ls) = PExited x -> x = 0) /\
             (cur (run (master s) ls) = PCrashed -> reap_guards_halting = false).
Proof. exact stop_signal_exits_0. Qed.
Print Assumptions C03_stop_signal_exits_0.

(* the only way the master dies outside an orderly exit: HaltServer raised by the handler inside halt()'s stop() - which
   takes a tree whose reap_workers does not test `self._stopping` *)
Theorem C03_crash_only_by_halt_reentry : forall s l, cur s <> PCrashed -> cur (step s l) = PCrashed ->
  l = Chld /\ in_final_stop (cur s) = true /\ reaps_boot_failure s /\ reap_guards_halting = false.
Proof. exact crash_only_by_halt_reentry. Qed.
Print Assumptions C03_crash_only_by_halt_reentry.

(* D22, a boot failure reaped while halt() runs (second failing worker, or a failure during a TERM shutdown).  The reading
   that describes the tree under test is selected by the constant gen_arbiter.py reads from reap_workers / stop():
   repaired tree (true): for every schedule from every state no exception leaves run();
   tree before the repair (false): the witness schedule ends in the crash (status 1, traceback, pid file kept). *)
Theorem C03_boot_failure_during_halt :
  if reap_guards_halting
  then forall ls s, cur s <> PCrashed -> cur (run s ls) <> PCrashed
  else cur (run (init 2 30 30 0 0) d22_schedule) = PCrashed /\ forks (run (init 2 30 30 0 0) d22_schedule) = 2.
Proof. exact halt_reentry. Qed.
Print Assumptions C03_boot_failure_during_halt.

(* ---- known refutation (finding that remains on the current tree) ----------------------------------------------------------- *)
(* D17: with timeout = 0 the pool never converges after SIGCHLD was handled between fork() and registration *)
Theorem C03_converges_refuted :
  reachable d17_state /\ at_rest d17_state /\ no_upgrade d17_state /\ no_boot_failure_pending d17_state /\
  timeout d17_state = 0 /\ ~ tracked d17_state /\
  forall n, ~ converged (settle n d17_state).
Proof. exact converges_refuted. Qed.
Print Assumptions C03_converges_refuted.

(* ... with a positive timeout the dead entry is removed by the timeout scan (SIGABRT -> ESRCH -> pop) *)
Theorem C03_phantom_is_murdered : forall s p todo w,
  cur s = PMurderCheck (p :: todo) -> find_wk p (workers s) = Some w -> w_aborted w = false ->
  ~ In p (kpids (kids s)) -> timeout s * tps < mono s - w_hb w ->
  ~ In p (pids (workers (master (master s)))).
Proof. exact phantom_is_murdered. Qed.

(* ---- non-vacuity ------------------------------------------------------------------------------------------------ *)
(* a reachable state meeting every hypothesis of C03_converges that is not yet converged: three workers, then TTOU
   (target 2), worker 101 killed from outside and not yet reaped *)
Definition ex_schedule : list label :=
  [Master; Master; Master; Master; Master; Master; Master; Master; Master; Master; Master; Master; Master;
   Sig SIGTTOU; Exit 101 9;
   Master; Master; Master; Master; Master; Master; Master; Master; Master; Master; Master].
Definition ex_state : st := run (init 3 30 30 0 0) ex_schedule.
Lemma ex_state_fields :
  cur ex_state = PSigq /\ sigq ex_state = [] /\ master_pid ex_state = 0 /\ reexec ex_state = 0 /\ num ex_state = 2 /\
  pids (workers ex_state) = [100; 101; 102] /\
  kids ex_state = [mkChild 100 Running [SIGTERM] false; mkChild 101 (Zombie 9) [] false; mkChild 102 Running [] false].
Proof. vm_compute. repeat split; reflexivity. Qed.
Lemma ex_state_reachable : reachable ex_state.
Proof. exists 3, 30, 30, 0, 0, ex_schedule. split; [unfold valid_cfg; lia | reflexivity]. Qed.
Opaque ex_state.
Example C03_converges_hypotheses_satisfiable :
  reachable ex_state /\ at_rest ex_state /\ no_upgrade ex_state /\ tracked ex_state /\ no_boot_failure_pending ex_state /\
  ~ converged ex_state.
Proof.
  destruct ex_state_fields as [PC [Q [M [R [N [W K]]]]]].
  split. { exact ex_state_reachable. }
  split. { unfold at_rest. auto. }
  split. { split; auto. intros c Hc. rewrite K in Hc. destruct Hc as [<-|[<-|[<-|[]]]]; reflexivity. }
  split. { intros w Hw. apply (in_map w_pid) in Hw. change (map w_pid (workers ex_state)) with (pids (workers ex_state)) in Hw.
           rewrite W in Hw. rewrite K. destruct Hw as [<-|[<-|[<-|[]]]]; cbn; auto. }
  split. { intros c Hc Zc. rewrite K in Hc. clear - Hc Zc. destruct Hc as [<-|[<-|[<-|[]]]]; try (discriminate Zc). vm_compute. reflexivity. }
  intros [_ [_ [_ [L _]]]]. unfold wlen in L. rewrite <- (map_length w_pid) in L.
  change (map w_pid (workers ex_state)) with (pids (workers ex_state)) in L. rewrite W, N in L. discriminate.
Qed.

(* oldest first on a concrete table: ages 1,2,3, target 1 -> the workers of age 1 and 2 are retired, in that order *)
Example C03_oldest_first_example :
  let s := set_pc (set_num (set_workers (init 1 30 30 0 0)
             [mkWk 100 1 false 0; mkWk 101 2 false 0; mkWk 102 3 false 0]) 1) PManageSort in
  cur (master s) = PManageKill [100; 101].
Proof. vm_compute. reflexivity. Qed.

(* boot failure: hypotheses of C03_boot_failure_halts hold in a reachable state, and the halt happens *)
Definition bf_state : st := run (init 2 30 30 0 0) [Master; Master; Master; Master; Master; Master; Master; Master; Master; Exit 101 1024].
Example C03_boot_failure_example :
  master_gone (cur bf_state) = false /\ in_final_stop (cur bf_state) = false /\ stopping bf_state = false /\ raises bf_state = true /\
  existsb (fun z => is_zombie z && boot_code z && negb (c_pid z =? reexec bf_state)) (kids bf_state) = true /\
  cur (chld bf_state) = PKillAllSnap SIGTERM (KAWait (30 * tps) (AExit app_load_error)).
Proof. vm_compute. repeat split; reflexivity. Qed.

(* the witness of D22 on this tree: with the guard the second failure is reaped as an ordinary death and the master exits
   with the status of the first; without it the master crashes *)
Example C03_second_boot_failure_example :
  let s := run (init 2 30 30 0 0) d22_schedule in
  (forks s = 2) /\
  (if reap_guards_halting
   then kids s = [] /\ cur (run s (repeat Master 4)) = PExited worker_boot_error
   else cur s = PCrashed).
Proof. exact d22_outcome. Qed.

(* TERM first, then a worker exits with code 3 while stop() waits: C03_stop_signal_exits_0's hypotheses hold in a reachable
   state; the run ends with status 0 on a tree with the guard (and in the crash without) *)
Definition term_state : st := run (init 2 30 1 0 0) [Master; Master; Master; Master; Master; Master; Master; Master; Master; Sig SIGTERM].
Example C03_term_then_boot_failure_example :
  cur term_state = PSigq /\ sigq term_state = [SIGTERM] /\
  cur (run (master term_state) ([Master; Master; Master; Exit 100 768; Chld] ++ repeat Master 40)) =
    (if reap_guards_halting then PExited 0 else PCrashed).
Proof. vm_compute. repeat split; reflexivity. Qed.
