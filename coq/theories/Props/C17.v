(* C17 - The pid file names the running master, exclusively and atomically.
   Only statements, each closed by [exact]; model in Model/Pidfile.v, proofs in Proof/PidfileProofs.v. *)
From Coq Require Import List NArith ZArith Bool.
From GV Require Import Base.Enc Base.Dec Model.Pidfile Proof.PidfileProofs.
Import ListNotations.

(* A master refuses to start when its pid file names another live process (and changes nothing). *)
Theorem C17_refuses_live : forall s i x pid crash c w,
    nth_error (insts s) i = Some x -> lookup (fname x) (fs s) = Some c -> py_int c = Some w ->
    w <> 0%Z -> w <> ospid x -> kill0 s w <> PDead -> crashed crash 0 = false ->
    step s (Create i pid crash) = (s, RRuntimeError, []).
Proof. exact create_refuses_live. Qed.
Print Assumptions C17_refuses_live.

(* ... and takes over a stale one (absent, unparsable, or naming a dead process). *)
Theorem C17_takes_stale : forall s i x pid,
    nth_error (insts s) i = Some x -> dir_exists (fname x) = true ->
    validate_path s (fname x) = None ->
    exists s' ev, step s (Create i pid None) = (s', RNone, ev)
                  /\ lookup (fname x) (fs s') = Some (pid_text pid)
                  /\ ((0 <= pid)%Z -> py_int (pid_text pid) = Some pid).
Proof. exact create_takes_stale. Qed.
Print Assumptions C17_takes_stale.

Theorem C17_stale_means : forall s p,
  validate_path s p = None <->
  (lookup p (fs s) = None \/ exists c, lookup p (fs s) = Some c /\
      (py_int c = None \/ exists w, py_int c = Some w /\ kill0 s w = PDead)).
Proof. exact validate_none_iff. Qed.
Print Assumptions C17_stale_means.

(* The file only ever appears with complete content, whatever instant the process dies: after any
   history (crash points included) a pid-file path holds what it held initially, the complete text of
   some create, or what a foreign program wrote there. *)
Theorem C17_never_partial : forall ops s p c,
    lookup p (fs (fst (fst (run s ops)))) = Some c ->
    lookup p (fs s) = Some c \/ (exists pid, c = pid_text pid) \/ In (Foreign p c) ops.
Proof. exact never_partial. Qed.
Print Assumptions C17_never_partial.

(* A master removes only a pid file that still contains its own pid, and installs its file only over
   nothing or over a stale one - at every step of every history. *)
Theorem C17_removes_only_own : forall ops s, run_events_ok s ops.
Proof. exact removes_only_own. Qed.
Print Assumptions C17_removes_only_own.

Theorem C17_disappearance_is_own_unlink : forall s o s' r ev p c,
    step s o = (s', r, ev) -> lookup p (fs s) = Some c -> lookup p (fs s') = None ->
    o = ForeignRm p \/ exists who, In (EUnlink who p c) ev /\ own_content who c.
Proof. exact disappearance_is_own_unlink. Qed.
Print Assumptions C17_disappearance_is_own_unlink.

(* ---- non-vacuity: concrete states meeting the hypotheses ---- *)
Definition s_live : st := (* instance 0 (pid 11) wants path 0, which names live pid 77 *)
  {| fs := [(0%N, pid_text 77)]; temps := []; live := [77%Z; 11%Z]; eperm := [];
     insts := [{| fname := 0%N; ipid := None; ospid := 11%Z |}] |}.
Example refuses_live_example : snd (fst (step s_live (Create 0 11%Z None))) = RRuntimeError.
Proof. vm_compute. reflexivity. Qed.
Definition s_stale : st :=
  {| fs := [(0%N, pid_text 77)]; temps := []; live := [11%Z]; eperm := [];
     insts := [{| fname := 0%N; ipid := None; ospid := 11%Z |}] |}.
Example takes_stale_example :
  lookup 0%N (fs (fst (fst (step s_stale (Create 0 11%Z None))))) = Some (pid_text 11).
Proof. vm_compute. reflexivity. Qed.
Example crash_leaves_old_content :   (* dies between write and rename: path 0 still has the old complete text *)
  lookup 0%N (fs (fst (fst (step s_stale (Create 0 11%Z (Some 2%nat)))))) = Some (pid_text 77).
Proof. vm_compute. reflexivity. Qed.
Example foreign_file_survives_unlink :  (* B overwrote the file; A's unlink leaves it alone *)
  let s := fst (fst (run s_stale [Create 0 11%Z None; Foreign 0%N (pid_text 99); Unlink 0])) in
  lookup 0%N (fs s) = Some (pid_text 99).
Proof. vm_compute. reflexivity. Qed.
