(* Executable model of the access-log record (gunicorn/glogging.py): Logger.atoms, Logger._get_user, SafeAtoms
   (escaping table regenerated from the tree under test: Gen/GenAccessLog.v) and the %-interpolation of
   access_log_format for `%(key)s` items (keys with balanced parentheses inside) and `%%`.
   Strings are lists of code points (N, unbounded: the basic-auth user name is UTF-8 decoded).
   Definitions only; proofs in Proof/AccessLogProofs.v.

   Not modelled: conversions other than `s`, flags / width / precision in access_log_format (render gives None:
   "unsupported"), lower() of atom keys outside latin-1, syslog / logconfig handlers, the logging formatter
   around the message (gunicorn's default access formatter is "%(message)s"). *)
From Coq Require Import List NArith ZArith Bool.
From GV Require Import Base.Enc Base.Dec Gen.GenAccessLog.
Import ListNotations.
Local Open Scope N_scope.

Definition str := list N.

Fixpoint str_eqb (a b : str) : bool :=
  match a, b with
  | [], [] => true
  | x :: s, y :: t => (x =? y) && str_eqb s t
  | _, _ => false
  end.

(* a value stored in the atoms dictionary *)
Inductive aval :=
| VStr (s : str)            (* a str: escaped by SafeAtoms *)
| VInt (z : Z)
| VNone
| VOpaque (text : str).     (* any other object: passed through, rendered by str(); server-side objects only *)

Fixpoint assoc {A} (k : str) (d : list (str * A)) : option A :=
  match d with
  | [] => None
  | (k', v) :: t => if str_eqb k k' then Some v else assoc k t
  end.
Fixpoint assocN {A} (k : N) (d : list (N * A)) : option A :=
  match d with
  | [] => None
  | (k', v) :: t => if k =? k' then Some v else assocN k t
  end.

(* SafeAtoms.__init__ on one character / one string *)
Definition esc_char (c : N) : str :=
  if c <? 256 then nth (N.to_nat c) esc_table [c]
  else match assocN c esc_high with Some v => v | None => [c] end.
Definition escape (s : str) : str := flat_map esc_char s.

Definition safe (v : aval) : aval := match v with VStr s => VStr (escape s) | _ => v end.

Definition dec_Z (z : Z) : str := (if (z <? 0)%Z then [45] else []) ++ dec (Z.to_N (Z.abs z)).
(* str(value) as used by the `s` conversion *)
Definition show (v : aval) : str :=
  match v with
  | VStr s => s
  | VInt z => dec_Z z
  | VNone => [78;111;110;101]
  | VOpaque t => t
  end.

Definition lower_c (c : N) : N := if c <? 256 then nth (N.to_nat c) lower_table c else c.
Definition lower (s : str) : str := map lower_c s.
Definition is_space (c : N) : bool := if c <? 256 then nth (N.to_nat c) space_table false else false.

(* SafeAtoms.__getitem__ followed by str() *)
Definition safe_lookup (d : list (str * aval)) (k : str) : str :=
  let k' := match k with 123 :: _ => lower k | _ => k end in
  match assoc k' d with
  | Some v => show (safe v)
  | None => [45]
  end.

(* ---- `fmt % mapping` for the supported subset ---- *)
Inductive rstate := RText | RPct | RKey (depth : nat) (acc : str) | RConv (key : str).

Fixpoint render_go (look : str -> str) (st : rstate) (fmt : str) : option str :=
  match fmt with
  | [] => match st with RText => Some [] | _ => None end            (* "incomplete format" *)
  | c :: t =>
      match st with
      | RText => if c =? 37 then render_go look RPct t
                 else option_map (cons c) (render_go look RText t)
      | RPct => if c =? 37 then option_map (cons 37) (render_go look RText t)
                else if c =? 40 then render_go look (RKey 1 []) t
                else None                                             (* positional conversion: TypeError *)
      | RKey depth acc =>
          if c =? 41 then
            match depth with
            | 1%nat => render_go look (RConv (rev acc)) t
            | S d => render_go look (RKey d (c :: acc)) t
            | O => None
            end
          else if c =? 40 then render_go look (RKey (S depth) (c :: acc)) t
          else render_go look (RKey depth (c :: acc)) t
      | RConv key => if c =? 115 then option_map (fun r => look key ++ r) (render_go look RText t)
                     else None                                        (* not modelled *)
      end
  end.
Definition render (fmt : str) (look : str -> str) : option str := render_go look RText fmt.

(* ---- Logger.atoms ---- *)
Definition s_ (l : list N) : str := l.
Definition k_remote_addr := s_ [82;69;77;79;84;69;95;65;68;68;82].
Definition k_request_method := s_ [82;69;81;85;69;83;84;95;77;69;84;72;79;68].
Definition k_raw_uri := s_ [82;65;87;95;85;82;73].
Definition k_server_protocol := s_ [83;69;82;86;69;82;95;80;82;79;84;79;67;79;76].
Definition k_path_info := s_ [80;65;84;72;95;73;78;70;79].
Definition k_query_string := s_ [81;85;69;82;89;95;83;84;82;73;78;71].
Definition k_http_referer := s_ [72;84;84;80;95;82;69;70;69;82;69;82].
Definition k_http_user_agent := s_ [72;84;84;80;95;85;83;69;82;95;65;71;69;78;84].
Definition k_http_authorization := s_ [72;84;84;80;95;65;85;84;72;79;82;73;90;65;84;73;79;78].
Definition dash : aval := VStr [45].

Definition get_or (d : list (str * aval)) (k : str) (dflt : aval) : aval :=
  match assoc k d with Some v => v | None => dflt end.

(* status.split(None, 1)[0]; None = IndexError (a status of whitespace only) *)
Fixpoint skip_space (s : str) : str := match s with c :: t => if is_space c then skip_space t else s | [] => [] end.
Fixpoint take_word (s : str) : str := match s with c :: t => if is_space c then [] else c :: take_word t | [] => [] end.
Definition first_token (s : str) : option str :=
  match skip_space s with [] => None | w => Some (take_word w) end.

Definition pad6 (n : N) : str :=           (* "%06d" for 0 <= n < 10^6 (longer numbers are not padded) *)
  let d := dec n in repeat 48 (6 - length d) ++ d.

Definition wrap_key (name : str) (suffix : N) : str := 123 :: lower name ++ [125; suffix].   (* "{%s}x" % name.lower() *)

Record access_in := {
  i_status : aval;                          (* resp.status *)
  i_sent : option N;                        (* getattr(resp, "sent", None) *)
  i_environ : list (str * aval);            (* insertion order *)
  i_req_headers : list (str * str);
  i_resp_headers : list (str * str);
  i_now : str;                              (* self.now() *)
  i_secs : N; i_micros : N;                 (* request_time.seconds / .microseconds *)
  i_pid : N;
  i_user : option str                       (* self._get_user(environ) *)
}.

(* the dictionary, most recently set key first (so that the first match is what the dict holds) *)
Definition atoms (a : access_in) : option (list (str * aval)) :=
  let env := i_environ a in
  let env_last := rev env in                (* later assignments win *)
  let status := match i_status a with
                | VStr s => option_map VStr (first_token s)
                | v => Some v
                end in
  match status, assoc k_request_method env_last, assoc k_raw_uri env_last, assoc k_server_protocol env_last with
  | Some st, Some m, Some u, Some p =>
      let base : list (str * aval) :=
        [ ([104], get_or env_last k_remote_addr dash);
          ([108], dash);
          ([117], match i_user a with Some (c :: t) => VStr (c :: t) | _ => dash end);
          ([116], VStr (i_now a));
          ([114], VStr (show m ++ [32] ++ show u ++ [32] ++ show p));
          ([115], st);
          ([109], get_or env_last k_request_method VNone);
          ([85], get_or env_last k_path_info VNone);
          ([113], get_or env_last k_query_string VNone);
          ([72], get_or env_last k_server_protocol VNone);
          ([98], match i_sent a with Some n => VStr (dec n) | None => dash end);
          ([66], match i_sent a with Some n => VInt (Z.of_N n) | None => VNone end);
          ([102], get_or env_last k_http_referer dash);
          ([97], get_or env_last k_http_user_agent dash);
          ([84], VInt (Z.of_N (i_secs a)));
          ([68], VInt (Z.of_N (i_secs a * 1000000 + i_micros a)));
          ([77], VInt (Z.of_N (i_secs a * 1000 + i_micros a / 1000)));
          ([76], VStr (dec (i_secs a) ++ [46] ++ pad6 (i_micros a)));
          ([112], VStr ([60] ++ dec (i_pid a) ++ [62])) ] in
      let hi := map (fun kv => (wrap_key (fst kv) 105, VStr (snd kv))) (i_req_headers a) in
      let ho := map (fun kv => (wrap_key (fst kv) 111, VStr (snd kv))) (i_resp_headers a) in
      let he := map (fun kv => (wrap_key (fst kv) 101, snd kv)) env in
      Some (rev he ++ rev ho ++ rev hi ++ base)
  | _, _, _, _ => None
  end.

(* ---- Logger._get_user; base64 and UTF-8 decoding are parameters about which nothing is assumed ---- *)
Section User.
  Variable b64 : str -> option str.         (* base64.b64decode(s.encode("utf-8")): bytes, or binascii.Error *)
  Variable utf8 : str -> option str.        (* bytes.decode("UTF-8"): code points, or UnicodeDecodeError *)

  Fixpoint starts_with (p s : str) : bool :=
    match p, s with
    | [], _ => true
    | x :: p', y :: s' => (x =? y) && starts_with p' s'
    | _ :: _, [] => false
    end.
  Fixpoint split_first (c : N) (s : str) : option (str * str) :=
    match s with
    | [] => None
    | x :: t => if x =? c then Some ([], t)
                else match split_first c t with Some (a, b) => Some (x :: a, b) | None => None end
    end.
  Definition strip (s : str) : str := rev (skip_space (rev (skip_space s))).
  Definition before_colon (s : str) : str := match split_first 58 s with Some (a, _) => a | None => s end.

  Definition get_user (environ_last : list (str * aval)) : option str :=
    match assoc k_http_authorization environ_last with
    | Some (VStr auth) =>
        match auth with
        | [] => None
        | _ => if starts_with [98;97;115;105;99] (lower auth) then
                 match split_first 32 auth with
                 | Some (_, rest) => match b64 (strip rest) with
                                     | Some bytes => utf8 (before_colon bytes)
                                     | None => None
                                     end
                 | None => None
                 end
               else None
        end
    | _ => None
    end.
End User.

(* the line Logger.access hands to the access logger; None = an exception inside atoms() or the
   interpolation (the latter is caught by access(): no record) *)
Definition access_line (fmt : str) (a : access_in) : option str :=
  match atoms a with
  | Some d => render fmt (safe_lookup d)
  | None => None
  end.

Definition obs_line (o : option str) : list Z := enc_opt (fun s => Z.of_nat (length s) :: map Z.of_N s) o.
