(* Executable model of the per-connection control flow of the three worker bases:
     gunicorn/workers/sync.py      SyncWorker.handle / handle_request
     gunicorn/workers/gthread.py   ThreadWorker.handle / handle_request / finish_request (+ the accept bookkeeping)
     gunicorn/workers/base_async.py AsyncWorker.handle / handle_request
     gunicorn/workers/base.py      Worker.handle_error   (status table regenerated: Gen/GenErrors.v)
     gunicorn/util.py              write_error (byte for byte), write, write_chunk
     gunicorn/http/wsgi.py         the parts of Response that decide framing, `sent` and the close decision
   Definitions only; proofs are in Proof/HandleProofs.v.

   Inputs (all oracles, so the theorems quantify over every behaviour of the things not modelled here):
     * the parser: a list of outcomes of successive next(parser) calls - a parsed head (only the facts the
       worker looks at), an exception (any class), or a false value (the async keep-alive timeout);
       an exhausted list means EOF, i.e. NoMoreData;
     * the application: per call a script of start_response / write / raise actions, the point where the
       callable returns its iterable, optionally a file wrapper;
     * the socket: one fault (Ok | EPIPE | ECONNRESET | ENOTCONN | other OSError) per socket operation, in order;
     * worker configuration and counters.
   Output: the ordered trace of everything observable (parser outcomes, application entries, access records,
   every socket operation with its data and outcome), the exception escaping handle() if any, the counters.

   Not modelled: TLS wrapping (is_ssl; the SSLError branches of the ladders are modelled, the handshake is not),
   the pre_request/post_request hooks (defaults are no-ops), header validation inside start_response (an
   application passing a bad header is the script action [ARaise]), `Connection: upgrade`, a close() method of
   the iterable that raises, logging to the error log. *)
From Coq Require Import List NArith ZArith Bool.
From GV Require Import Base.Enc Base.Dec Gen.GenErrors.
Import ListNotations.
Local Open Scope N_scope.

(* ---------------------------------------------------------------------------------------------- *)
(* small text helpers                                                                               *)
(* ---------------------------------------------------------------------------------------------- *)
Definition len (l : list N) : N := N.of_nat (length l).
Definition CRLF : list N := [13; 10].

(* "%X" % n *)
Definition hexdigit (d : N) : N := if d <? 10 then 48 + d else 55 + d.
Fixpoint hex_aux (fuel : nat) (n : N) (acc : list N) : list N :=
  match fuel with
  | O => hexdigit (n mod 16) :: acc
  | S f => if n <? 16 then hexdigit n :: acc else hex_aux f (n / 16) (hexdigit (n mod 16) :: acc)
  end.
Definition hex_upper (n : N) : list N := hex_aux (N.to_nat (N.size n)) n [].

(* util.write_chunk: one sendall of  "%X\r\n" % len(data) + data + "\r\n" *)
Definition chunk_frame (d : list N) : list N := hex_upper (len d) ++ CRLF ++ d ++ CRLF.

(* html.escape(s)  (quote=True) *)
Definition html_escape_char (c : N) : list N :=
  if c =? 38 then [38;97;109;112;59]              (* &amp; *)
  else if c =? 60 then [38;108;116;59]            (* &lt; *)
  else if c =? 62 then [38;103;116;59]            (* &gt; *)
  else if c =? 34 then [38;113;117;111;116;59]    (* &quot; *)
  else if c =? 39 then [38;35;120;50;55;59]       (* &#x27; *)
  else [c].
Definition html_escape (s : list N) : list N := flat_map html_escape_char s.

(* util.write_error.  Strings are lists of code points; the page is encoded as latin-1, which fails
   (UnicodeEncodeError, swallowed by handle_error) when a code point exceeds 255. *)
Definition html_page (reason mesg : list N) : list N :=
  (* "<html>\n  <head>\n    <title>" *)
  [60;104;116;109;108;62;10;32;32;60;104;101;97;100;62;10;32;32;32;32;60;116;105;116;108;101;62]
  ++ reason ++
  (* "</title>\n  </head>\n  <body>\n    <h1><p>" *)
  [60;47;116;105;116;108;101;62;10;32;32;60;47;104;101;97;100;62;10;32;32;60;98;111;100;121;62;10;32;32;32;32;60;104;49;62;60;112;62]
  ++ reason ++
  (* "</p></h1>\n    " *)
  [60;47;112;62;60;47;104;49;62;10;32;32;32;32]
  ++ html_escape mesg ++
  (* "\n  </body>\n</html>\n" *)
  [10;32;32;60;47;98;111;100;121;62;10;60;47;104;116;109;108;62;10].

Definition error_head (status : N) (reason : list N) (clen : N) : list N :=
  (* "HTTP/1.1 " *) [72;84;84;80;47;49;46;49;32] ++ dec status ++ [32] ++ reason ++ CRLF ++
  (* "Connection: close" *) [67;111;110;110;101;99;116;105;111;110;58;32;99;108;111;115;101] ++ CRLF ++
  (* "Content-Type: text/html" *) [67;111;110;116;101;110;116;45;84;121;112;101;58;32;116;101;120;116;47;104;116;109;108] ++ CRLF ++
  (* "Content-Length: " *) [67;111;110;116;101;110;116;45;76;101;110;103;116;104;58;32] ++ dec clen ++ CRLF ++
  CRLF.

Definition latin1_ok (s : list N) : bool := forallb (fun c => c <? 256) s.

Definition error_page (status : N) (reason mesg : list N) : option (list N) :=
  let body := html_page reason mesg in
  let page := error_head status reason (len body) ++ body in
  if latin1_ok page then Some page else None.

(* ---------------------------------------------------------------------------------------------- *)
(* oracles                                                                                          *)
(* ---------------------------------------------------------------------------------------------- *)
Inductive errno := EPIPE | ECONNRESET | ENOTCONN | EOTHER.
Inductive fault := FOk | FErr (e : errno).

(* An exception instance: its class (most specific table class along the MRO), str(exc), whether it
   carries a non-None .req attribute, whether args[0] == ssl.SSL_ERROR_EOF. *)
Record exn := { x_cls : ecls; x_text : list N; x_req : bool; x_ssl_eof : bool }.
Definition mk_exn (c : ecls) : exn := {| x_cls := c; x_text := []; x_req := false; x_ssl_eof := false |}.
Definition exn_oserror : exn := mk_exn E_OSError.            (* raised by a faulted socket operation *)
Definition exn_stop : exn := mk_exn E_StopIteration.         (* raise StopIteration() in the workers *)
Definition exn_generic : exn := mk_exn E_Exception.          (* AssertionError / AttributeError / TypeError ... *)
Definition exn_nomoredata : exn := mk_exn E_NoMoreData.

(* What the worker looks at in a parsed request head. *)
Record head := {
  h_v10 : bool;                 (* req.version <= (1, 0) *)
  h_head : bool;                (* req.method == "HEAD" *)
  h_close : bool;               (* req.should_close() *)
  h_expect : nat;               (* number of `Expect: 100-continue` fields: one sock.send each in wsgi.create *)
  h_create_exn : option exn     (* wsgi.create raises (ConfigurationProblem: SCRIPT_NAME mismatch) *)
}.

Inductive pout := PHead (h : head) | PRaise (e : exn) | PNone.

Inductive act :=
| AStart (code : N) (clen : option N)     (* start_response("<code> <reason>", [.., ("Content-Length", clen)?]) *)
| AWrite (d : list N)                     (* write(d) during the call / an item of the iterable afterwards *)
| ARaise (e : exn)
| AReturn.                                (* the callable returns its iterable; later actions are the iteration *)

Record file := { f_avail : list N;        (* file content from the current offset to EOF *)
                 f_blk : positive;         (* FileWrapper blksize *)
                 f_fileno : bool }.        (* util.has_fileno(filelike) *)
Record app := { a_acts : list act; a_file : option file }.
Definition app_default : app := {| a_acts := [AStart 200 (Some 0)]; a_file := None |}.

Inductive wkind := WSync | WGthread | WAsync.

Record cfg := {
  c_max : N;                    (* Worker.max_requests (cfg.max_requests + jitter, or sys.maxsize when unset) *)
  c_keepalive : bool;           (* cfg.keepalive > 0 *)
  c_sendfile : bool;            (* cfg.sendfile is not False *)
  c_max_keepalived : Z          (* gthread: worker_connections - threads *)
}.
Record wst := {
  w_nr : N;                     (* requests handled so far *)
  w_alive : bool;
  w_keep : Z;                   (* gthread: len(self._keep) *)
  w_conns : Z                   (* gthread: nr_conns *)
}.

(* ---------------------------------------------------------------------------------------------- *)
(* trace                                                                                            *)
(* ---------------------------------------------------------------------------------------------- *)
Inductive ev :=
| EvHead | EvNone | EvPRaise (c : ecls)                   (* outcome of next(parser) *)
| EvApp                                                    (* the application callable is entered *)
| EvAccess (st : option N) (sent : N)                      (* log.access(resp, ...): status code, resp.sent *)
| Ev100 (f : fault)                                        (* sock.send(b"HTTP/1.1 100 Continue\r\n\r\n") *)
| EvHdr (code : option N) (close chunked : bool) (clen : option N) (f : fault)    (* Response.send_headers *)
| EvData (d : list N) (f : fault)                          (* sock.sendall(d): body bytes, not chunked *)
| EvChunk (d : list N) (f : fault)                         (* util.write_chunk(sock, d) *)
| EvRaw (d : list N) (f : fault)                           (* sendfile's chunk-size line / closing CRLF *)
| EvFile (d : list N) (f : fault)                          (* sock.sendfile(...): the bytes transferred *)
| EvErr (page : list N) (f : fault)                        (* util.write_error *)
| EvShutdown (f : fault)
| EvClose (f : fault)
| EvKeep.                                                  (* gthread: connection parked for keep-alive *)

Definition pop (fs : list fault) : fault * list fault :=
  match fs with [] => (FOk, []) | f :: t => (f, t) end.
Definition is_ok (f : fault) : bool := match f with FOk => true | FErr _ => false end.

(* one socket operation: consumes a fault, emits the event, raises OSError when it faulted *)
Definition sockop (mk : fault -> ev) (fs : list fault) : option exn * list fault * list ev :=
  let '(f, fs') := pop fs in
  ((if is_ok f then None else Some exn_oserror), fs', [mk f]).

(* ---------------------------------------------------------------------------------------------- *)
(* Response                                                                                         *)
(* ---------------------------------------------------------------------------------------------- *)
Record resp := {
  r_status : option N;          (* None until start_response ran *)
  r_clen : option N;            (* response_length *)
  r_chunked : bool;
  r_must_close : bool;
  r_hsent : bool;
  r_sent : N
}.
Definition resp_init (must_close : bool) : resp :=
  {| r_status := None; r_clen := None; r_chunked := false; r_must_close := must_close; r_hsent := false; r_sent := 0 |}.
Definition set_hsent (r : resp) : resp :=
  {| r_status := r_status r; r_clen := r_clen r; r_chunked := r_chunked r; r_must_close := r_must_close r;
     r_hsent := true; r_sent := r_sent r |}.
Definition add_sent (r : resp) (n : N) : resp :=
  {| r_status := r_status r; r_clen := r_clen r; r_chunked := r_chunked r; r_must_close := r_must_close r;
     r_hsent := r_hsent r; r_sent := r_sent r + n |}.

Definition is_some {A} (o : option A) : bool := match o with Some _ => true | None => false end.
Definition nobody_code (c : N) : bool := (c =? 204) || (c =? 304).

(* Response.is_chunked; None = AttributeError (status_code read before start_response) *)
Definition is_chunked_opt (h : head) (st : option N) (clen : option N) : option bool :=
  if is_some clen then Some false
  else if h_v10 h then Some false
  else if h_head h then Some false
  else match st with None => None | Some c => Some (negb (nobody_code c)) end.

(* Response.should_close; None = AttributeError *)
Definition should_close (h : head) (r : resp) : option bool :=
  if r_must_close r || h_close h then Some true
  else if is_some (r_clen r) || r_chunked r then Some false
  else if h_head h then Some false
  else match r_status r with
       | None => None
       | Some c => Some (negb ((c <? 200) || nobody_code c))
       end.

Definition start_response (h : head) (r : resp) (code : N) (clen : option N) : option resp :=
  match r_status r with
  | Some _ => None                      (* AssertionError("Response headers already set!") *)
  | None =>
      let ch := match is_chunked_opt h (Some code) clen with Some b => b | None => false end in
      Some {| r_status := Some code; r_clen := clen; r_chunked := ch; r_must_close := r_must_close r;
              r_hsent := r_hsent r; r_sent := r_sent r |}
  end.

Definition send_headers (h : head) (r : resp) (fs : list fault) : option exn * resp * list fault * list ev :=
  if r_hsent r then (None, r, fs, [])
  else match should_close h r with
       | None => (Some exn_generic, r, fs, [])
       | Some cl =>
           let '(x, fs', evs) := sockop (EvHdr (r_status r) cl (r_chunked r) (r_clen r)) fs in
           match x with
           | None => (None, set_hsent r, fs', evs)
           | Some e => (Some e, r, fs', evs)
           end
       end.

Definition firstnN (n : N) (l : list N) : list N := firstn (N.to_nat n) l.

(* Response.write *)
Definition resp_write (h : head) (r : resp) (d : list N) (fs : list fault) : option exn * resp * list fault * list ev :=
  let '(x, r1, fs1, e1) := send_headers h r fs in
  match x with
  | Some e => (Some e, r1, fs1, e1)
  | None =>
      let arglen := len d in
      let go (tosend : N) (d' : list N) :=
        if r_chunked r1 && (tosend =? 0) then (None, r1, fs1, e1)
        else let r2 := add_sent r1 tosend in
             let '(x2, fs2, e2) := sockop (if r_chunked r1 then EvChunk d' else EvData d') fs1 in
             (x2, r2, fs2, e1 ++ e2) in
      match r_clen r1 with
      | Some L => if L <=? r_sent r1 then (None, r1, fs1, e1)
                  else let tosend := N.min (L - r_sent r1) arglen in
                       go tosend (if tosend <? arglen then firstnN tosend d else d)
      | None => go arglen d
      end
  end.

Fixpoint write_all (h : head) (r : resp) (ds : list (list N)) (fs : list fault) : option exn * resp * list fault * list ev :=
  match ds with
  | [] => (None, r, fs, [])
  | d :: t => let '(x, r1, fs1, e1) := resp_write h r d fs in
              match x with
              | Some e => (Some e, r1, fs1, e1)
              | None => let '(x2, r2, fs2, e2) := write_all h r1 t fs1 in (x2, r2, fs2, e1 ++ e2)
              end
  end.

(* FileWrapper iteration: filelike.read(blksize) until empty *)
Fixpoint blocks (fuel : nat) (blk : nat) (l : list N) : list (list N) :=
  match fuel with
  | O => []
  | S f => match l with [] => [] | _ => firstn blk l :: blocks f blk (skipn blk l) end
  end.
Definition file_blocks (fl : file) : list (list N) :=
  blocks (length (f_avail fl)) (Pos.to_nat (f_blk fl)) (f_avail fl).

(* Response.write_file / sendfile *)
Definition resp_write_file (c : cfg) (h : head) (r : resp) (fl : file) (fs : list fault)
  : option exn * resp * list fault * list ev :=
  if c_sendfile c && f_fileno fl then
    (* what is left of the declared length after write() calls (negative: nothing) / the rest of the file *)
    let nbytes := match r_clen r with Some L => L - r_sent r | None => len (f_avail fl) end in
    let '(x, r1, fs1, e1) := send_headers h r fs in
    match x with
    | Some e => (Some e, r1, fs1, e1)
    | None =>
        if nbytes =? 0 then (None, r1, fs1, e1)
        else match is_chunked_opt h (r_status r1) (r_clen r1) with
             | None => (Some exn_generic, r1, fs1, e1)
             | Some ch =>
                 let data := firstnN nbytes (f_avail fl) in
                 let '(x2, fs2, e2) := if ch then sockop (EvRaw (hex_upper nbytes ++ CRLF)) fs1 else (None, fs1, []) in
                 match x2 with
                 | Some e => (Some e, r1, fs2, e1 ++ e2)
                 | None =>
                     let '(x3, fs3, e3) := sockop (EvFile data) fs2 in
                     match x3 with
                     | Some e => (Some e, r1, fs3, e1 ++ e2 ++ e3)
                     | None =>
                         let r2 := add_sent r1 (len data) in
                         let '(x4, fs4, e4) := if ch then sockop (EvRaw CRLF) fs3 else (None, fs3, []) in
                         (x4, r2, fs4, e1 ++ e2 ++ e3 ++ e4)
                     end
                 end
             end
    end
  else write_all h r (file_blocks fl) fs.

(* Response.close *)
Definition resp_close (h : head) (r : resp) (fs : list fault) : option exn * resp * list fault * list ev :=
  let '(x, r1, fs1, e1) := send_headers h r fs in
  match x with
  | Some e => (Some e, r1, fs1, e1)
  | None => if r_chunked r1
            then let '(x2, fs2, e2) := sockop (EvChunk []) fs1 in (x2, r1, fs2, e1 ++ e2)
            else (None, r1, fs1, e1)
  end.

(* ---------------------------------------------------------------------------------------------- *)
(* running the application script                                                                    *)
(* ---------------------------------------------------------------------------------------------- *)
Inductive phase_end := PEnd | PReturned (rest : list act) | PRaised (e : exn).

(* the call itself: until AReturn (or the end of the script = returns an empty iterable) *)
Fixpoint run_call (h : head) (r : resp) (acts : list act) (fs : list fault) : phase_end * resp * list fault * list ev :=
  match acts with
  | [] => (PEnd, r, fs, [])
  | a :: t =>
      match a with
      | AReturn => (PReturned t, r, fs, [])
      | ARaise e => (PRaised e, r, fs, [])
      | AStart code clen =>
          match start_response h r code clen with
          | None => (PRaised exn_generic, r, fs, [])
          | Some r1 => run_call h r1 t fs
          end
      | AWrite d =>
          let '(x, r1, fs1, e1) := resp_write h r d fs in
          match x with
          | Some e => (PRaised e, r1, fs1, e1)
          | None => let '(p, r2, fs2, e2) := run_call h r1 t fs1 in (p, r2, fs2, e1 ++ e2)
          end
      end
  end.

(* iterating the returned iterable: `for item in respiter: resp.write(item)`.  An iterator's __next__
   raising StopIteration simply ends the loop. *)
Fixpoint run_iter (h : head) (r : resp) (acts : list act) (fs : list fault) : option exn * resp * list fault * list ev :=
  match acts with
  | [] => (None, r, fs, [])
  | a :: t =>
      match a with
      | AReturn => run_iter h r t fs
      | ARaise e => if is_stopiter (x_cls e) then (None, r, fs, []) else (Some e, r, fs, [])
      | AStart code clen =>
          match start_response h r code clen with
          | None => (Some exn_generic, r, fs, [])
          | Some r1 => run_iter h r1 t fs
          end
      | AWrite d =>
          let '(x, r1, fs1, e1) := resp_write h r d fs in
          match x with
          | Some e => (Some e, r1, fs1, e1)
          | None => let '(x2, r2, fs2, e2) := run_iter h r1 t fs1 in (x2, r2, fs2, e1 ++ e2)
          end
      end
  end.

(* ---------------------------------------------------------------------------------------------- *)
(* handle_request of the three workers                                                              *)
(* ---------------------------------------------------------------------------------------------- *)
Inductive hres := HRet (keepalive : bool) | HExn (e : exn).

Fixpoint send_100 (n : nat) (fs : list fault) : option exn * list fault * list ev :=
  match n with
  | O => (None, fs, [])
  | S k => let '(x, fs1, e1) := sockop Ev100 fs in
           match x with
           | Some e => (Some e, fs1, e1)
           | None => let '(x2, fs2, e2) := send_100 k fs1 in (x2, fs2, e1 ++ e2)
           end
  end.

(* the counter block:  self.nr += 1; if self.nr >= self.max_requests: ... ; returns the new state and
   whether resp.force_close() was called *)
Definition count_request (w : wkind) (c : cfg) (st : wst) : wst * bool :=
  let nr := w_nr st + 1 in
  let hit := c_max c <=? nr in
  let alive := if hit then false else w_alive st in
  let st' := {| w_nr := nr; w_alive := alive; w_keep := w_keep st; w_conns := w_conns st |} in
  match w with
  | WSync => (st', true)                                    (* resp.force_close() unconditionally *)
  | WGthread => (st', hit || negb alive || negb (c_keepalive c) || (c_max_keepalived c <=? w_keep st)%Z)
  | WAsync => (st', negb alive || negb (c_keepalive c))
  end.

(* the except clauses of handle_request, for an exception raised after `resp` was created *)
Definition hr_ladder (w : wkind) (r : resp) (e : exn) (fs : list fault) : hres * list fault * list ev :=
  let c := x_cls e in
  if (match w with WAsync => is_stopiter c | _ => false end) then (HExn e, fs, [])
  else if is_oserror c then (HExn e, fs, [])
  else if is_exception c then
    if r_hsent r then
      (* client.shutdown(SHUT_RDWR); client.close()  inside try/except OSError: pass *)
      let '(x, fs1, e1) := sockop EvShutdown fs in
      match x with
      | Some _ => (HExn exn_stop, fs1, e1)
      | None => let '(_, fs2, e2) := sockop EvClose fs1 in (HExn exn_stop, fs2, e1 ++ e2)
      end
    else (HExn e, fs, [])
  else (HExn e, fs, []).

(* respiter = self.wsgi(environ, resp.start_response); then, inside try/finally, the body is written and
   resp.close() is called.  Returns whether the try/finally block was entered (=> one access record),
   the exception if any, the response state, the events. *)
Definition serve (c : cfg) (h : head) (r0 : resp) (a : app) (fs : list fault)
  : bool * option exn * resp * list fault * list ev :=
  let '(p, r1, fs1, e1) := run_call h r0 (a_acts a) fs in
  match p with
  | PRaised e => (false, Some e, r1, fs1, e1)
  | _ =>
    let rest := match p with PReturned t => t | _ => [] end in
    let '(x2, r2, fs2, e2) :=
      match a_file a with
      | Some fl => resp_write_file c h r1 fl fs1
      | None => run_iter h r1 rest fs1
      end in
    let '(x3, r3, fs3, e3) :=
      match x2 with
      | Some e => (Some e, r2, fs2, [])
      | None => resp_close h r2 fs2
      end in
    (true, x3, r3, fs3, e1 ++ e2 ++ e3)
  end.

(* after a completed response: sync returns, gthread returns the keep-alive verdict, async raises
   StopIteration when the connection must close *)
Definition hr_after (w : wkind) (h : head) (r : resp) : option hres :=
  match w with
  | WSync => Some (HRet false)
  | WGthread => match should_close h r with
                | None => None
                | Some true => Some (HRet false)
                | Some false => Some (HRet true)
                end
  | WAsync => match should_close h r with
              | None => None
              | Some true => Some (HExn exn_stop)
              | Some false => Some (HRet true)
              end
  end.

Definition handle_request (w : wkind) (c : cfg) (st : wst) (h : head) (a : app) (fs : list fault)
  : hres * wst * list fault * list ev :=
  (* wsgi.create: 100-continue, then possibly ConfigurationProblem; resp is still None in the handlers *)
  let '(x0, fs0, e0) := send_100 (h_expect h) fs in
  match x0 with
  | Some e => (HExn e, st, fs0, e0)
  | None =>
    match h_create_exn h with
    | Some e => (HExn e, st, fs0, e0)
    | None =>
      let '(st1, force) := count_request w c st in
      let '(logged, x, r, fs1, body) := serve c h (resp_init force) a fs0 in
      (* finally: self.log.access(resp, req, environ, request_time) *)
      let acc := if logged then [EvAccess (r_status r) (r_sent r)] else [] in
      let pre := e0 ++ EvApp :: body ++ acc in
      let failed (e : exn) := let '(hr, fs2, e2) := hr_ladder w r e fs1 in (hr, st1, fs2, pre ++ e2) in
      match x with
      | Some e => failed e
      | None => match hr_after w h r with
                | Some hr => (hr, st1, fs1, pre)
                | None => failed exn_generic        (* AttributeError in resp.should_close() *)
                end
      end
    end
  end.

(* ---------------------------------------------------------------------------------------------- *)
(* Worker.handle_error                                                                              *)
(* ---------------------------------------------------------------------------------------------- *)
Definition error_mesg (e : exn) : list N :=
  let c := x_cls e in
  if he_uses_text c then he_prefix c ++ x_text e ++ he_suffix c else he_prefix c.

Definition handle_error (req : bool) (e : exn) (fs : list fault) : list fault * list ev :=
  let c := x_cls e in
  let req' := req || (he_adopts_req c && x_req e) in
  let acc := if req' then [EvAccess (Some (he_status c)) 0] else [] in
  match error_page (he_status c) (he_reason c) (error_mesg e) with
  | None => (fs, acc)                                   (* UnicodeEncodeError: "Failed to send error message." *)
  | Some page => let '(_, fs', evs) := sockop (EvErr page) fs in (fs', acc ++ evs)   (* OSError swallowed too *)
  end.

(* the except ladder of handle(): SyncWorker.handle; AsyncWorker.handle (inner + outer ladder, which compose
   to the same first-match function); ThreadWorker.handle (last clause is `except Exception`).
   Returns the exception that escapes, if any. *)
Definition top_ladder (w : wkind) (req : bool) (e : exn) (fs : list fault) : option exn * list fault * list ev :=
  let c := x_cls e in
  if is_nomoredata c then (None, fs, [])
  else if is_stopiter c then (None, fs, [])
  else if is_sslerror c then
    if x_ssl_eof e then
      let '(x, fs1, e1) := sockop EvClose fs in (x, fs1, e1)      (* client.close() unprotected *)
    else let '(fs1, e1) := handle_error req e fs in (None, fs1, e1)
  else if is_oserror c then (None, fs, [])
  else match w with
       | WGthread => if is_exception c
                     then let '(fs1, e1) := handle_error req e fs in (None, fs1, e1)
                     else (Some e, fs, [])
       | _ => let '(fs1, e1) := handle_error req e fs in (None, fs1, e1)
       end.

Definition next_app (apps : list app) : app * list app :=
  match apps with [] => (app_default, []) | a :: t => (a, t) end.

(* ---------------------------------------------------------------------------------------------- *)
(* one connection                                                                                   *)
(* ---------------------------------------------------------------------------------------------- *)
Record result := {
  o_trace : list ev;
  o_escaped : option exn;       (* exception leaving handle() (sync/async) or the pool thread (gthread) *)
  o_st : wst
}.

(* util.close(client): errors swallowed *)
Definition final_close (fs : list fault) : list ev := let '(f, _) := pop fs in [EvClose f].

Definition finish (esc : option exn) (st : wst) (fs : list fault) (evs : list ev) : result :=
  {| o_trace := evs ++ final_close fs; o_escaped := esc; o_st := st |}.

(* what one pass through `req = next(parser); handle_request(...)` + the ladder does:
   the connection is over (Done) or goes on with the next request (Cont, keep-alive) *)
Inductive step_res :=
| Done (x : option exn) (st : wst) (fs : list fault) (evs : list ev)
| Cont (st : wst) (apps : list app) (fs : list fault) (evs : list ev).

Definition one_request (w : wkind) (c : cfg) (st : wst) (p : pout) (apps : list app) (fs : list fault) : step_res :=
  match p with
  | PNone =>
      match w, c_keepalive c with
      | WAsync, true => Done None st fs [EvNone]          (* `if not req: break` *)
      | WGthread, _ => Done None st fs [EvNone]           (* `if not req: return (False, conn)` *)
      | _, _ =>   (* handle_request(None): AttributeError inside wsgi.create, resp is None: re-raised *)
          let '(x, fs1, e1) := top_ladder w false exn_generic fs in Done x st fs1 (EvNone :: e1)
      end
  | PRaise e =>
      let '(x, fs1, e1) := top_ladder w false e fs in Done x st fs1 (EvPRaise (x_cls e) :: e1)
  | PHead h =>
      let '(a, apps') := next_app apps in
      let '(hr, st1, fs1, e1) := handle_request w c st h a fs in
      match hr with
      | HExn e => let '(x, fs2, e2) := top_ladder w true e fs1 in Done x st1 fs2 (EvHead :: e1 ++ e2)
      | HRet ka =>
          match w with
          | WSync => Done None st1 fs1 (EvHead :: e1)
          | WAsync => if c_keepalive c then Cont st1 apps' fs1 (EvHead :: e1)
                      else Done None st1 fs1 (EvHead :: e1)
          | WGthread =>
              (* handle returns (keepalive, conn); finish_request parks the connection iff keepalive and self.alive *)
              if ka && w_alive st1 then Cont st1 apps' fs1 (EvHead :: e1 ++ [EvKeep])
              else Done None st1 fs1 (EvHead :: e1)
          end
      end
  end.

(* the requests of one connection; an exhausted outcome list is EOF: NoMoreData *)
Fixpoint conn_loop (w : wkind) (c : cfg) (st : wst) (ps : list pout) (apps : list app) (fs : list fault)
  : option exn * wst * list fault * list ev :=
  match ps with
  | [] => let '(x, fs1, e1) := top_ladder w false exn_nomoredata fs in (x, st, fs1, EvPRaise E_NoMoreData :: e1)
  | p :: ps' =>
      match one_request w c st p apps fs with
      | Done x st1 fs1 e1 => (x, st1, fs1, e1)
      | Cont st1 apps1 fs1 e1 =>
          let '(x, st2, fs2, e2) := conn_loop w c st1 ps' apps1 fs1 in (x, st2, fs2, e1 ++ e2)
      end
  end.

Definition bump_conns (st : wst) (d : Z) : wst :=
  {| w_nr := w_nr st; w_alive := w_alive st; w_keep := w_keep st; w_conns := (w_conns st + d)%Z |}.

(* gthread only: an Exception leaving handle() (the unprotected close() of the SSL-EOF branch) is contained by
   finish_request; an exception that is not an Exception leaves the pool thread through finish_request's
   `fs.result()`, and the connection is then neither closed nor discounted. *)
Definition connection (w : wkind) (c : cfg) (st : wst) (ps : list pout) (apps : list app) (fs : list fault) : result :=
  match w with
  | WSync =>
      (* one request per connection *)
      let ps1 := match ps with [] => [] | p :: _ => [p] end in
      let '(x, st1, fs1, e1) := conn_loop WSync c st ps1 apps fs in
      finish x st1 fs1 e1
  | WAsync =>
      let ps1 := if c_keepalive c then ps else match ps with [] => [] | p :: _ => [p] end in
      let '(x, st1, fs1, e1) := conn_loop WAsync c st ps1 apps fs in
      finish x st1 fs1 e1
  | WGthread =>
      let st0 := bump_conns st 1 in                                (* accept(): nr_conns += 1 *)
      let '(x, st1, fs1, e1) := conn_loop WGthread c st0 ps apps fs in
      match x with
      | Some e => if is_exception (x_cls e)
                  then finish None (bump_conns st1 (-1)) fs1 e1    (* finish_request: except Exception: nr_conns -= 1; conn.close() *)
                  else {| o_trace := e1; o_escaped := x; o_st := st1 |}
      | None => finish None (bump_conns st1 (-1)) fs1 e1
      end
  end.

(* ---------------------------------------------------------------------------------------------- *)
(* observation (mirrored by harness/lib_handle.py)                                                   *)
(* ---------------------------------------------------------------------------------------------- *)
Definition enc_fault (f : fault) : Z :=
  match f with FOk => 0 | FErr EPIPE => 1 | FErr ECONNRESET => 2 | FErr ENOTCONN => 3 | FErr EOTHER => 4 end%Z.
Definition enc_optN (o : option N) : list Z := enc_opt enc_N o.
Definition enc_ev (e : ev) : list Z :=
  match e with
  | EvHead => [10%Z]
  | EvNone => [11%Z]
  | EvPRaise c => [12%Z; Z.of_N (ecls_id c)]
  | EvApp => [13%Z]
  | EvAccess st sent => 14%Z :: enc_optN st ++ [Z.of_N sent]
  | Ev100 f => [20%Z; enc_fault f]
  | EvHdr code cl ch clen f => 21%Z :: enc_fault f :: enc_optN code ++ enc_bool cl ++ enc_bool ch ++ enc_optN clen
  | EvData d f => 22%Z :: enc_fault f :: enc_bytes d
  | EvChunk d f => 22%Z :: enc_fault f :: enc_bytes (chunk_frame d)
  | EvRaw d f => 22%Z :: enc_fault f :: enc_bytes d
  | EvErr page f => 22%Z :: enc_fault f :: enc_bytes page
  | EvFile d f => 23%Z :: enc_fault f :: enc_bytes d
  | EvShutdown f => [24%Z; enc_fault f]
  | EvClose f => [25%Z; enc_fault f]
  | EvKeep => [26%Z]
  end.
Definition obs (o : result) : list Z :=
  flat_map enc_ev (o_trace o)
  ++ 99%Z :: enc_opt (fun e => [Z.of_N (ecls_id (x_cls e))]) (o_escaped o)
  ++ [Z.of_N (w_nr (o_st o))] ++ enc_bool (w_alive (o_st o)) ++ [w_conns (o_st o)].
