(* C14 - executable model of a binary upgrade (USR2): two master slots, the pid files, the unix socket file.
   Definitions only; proofs are in Proof/Upgrade*.v.

   A dedicated transition system at the granularity of whole signal handlers (each event is what one master does between
   two visits of the top of its main loop; the micro-step interleavings inside stop() are the subject of Model/Shutdown.v).
   It mirrors gunicorn/arbiter.py start (126-156), handle_usr2 / reexec (401-433), stop's unlink flag (381-386),
   halt (350-353), maybe_promote_master (314-329), reload's pid-file lines (471-478), reap_workers' reexec branch (520),
   handle_winch, and gunicorn/pidfile.py create / validate / unlink / rename.

   Two slots are enough: a master accepts USR2 only when it believes it has neither a live child master nor a live parent
   master, and Proof/UpgradeInv.v shows that the other slot is then empty (slots_suffice), so a chain of upgrades
   A -> B -> C ... reuses the slot of the master that is gone.

   Not modelled: SIGKILL / crashes of a master (every exit runs halt()), pid reuse, daemonize()'s double fork under
   systemd socket activation, a worker of one master outliving it, the fork/SIGCHLD race on reexec_pid (known finding). *)
From Coq Require Import List ZArith Bool Lia.
From GV Require Import Gen.GenUpgrade.
Import ListNotations.
Local Open Scope Z_scope.

Inductive pname := PMain | PDot2.             (* cfg.pidfile and cfg.pidfile + ".2" *)

Record master := mkM {
  m_pid : Z;
  m_alive : bool;
  m_status : Z;            (* exit status once dead *)
  m_reexec : Z;            (* Arbiter.reexec_pid *)
  m_mpid : Z;              (* Arbiter.master_pid *)
  m_pname : pname;         (* Arbiter.pidfile.fname *)
  m_pown : bool;           (* Arbiter.pidfile.pid is set (create() completed) *)
  m_workers : Z            (* num_workers *)
}.

Record cfg := mkCfg {
  pidconf : bool;          (* cfg.pidfile is not None *)
  unixb : bool;            (* the bind address is a unix socket *)
  daemon : bool;           (* cfg.daemon (WINCH is honoured) *)
  shared : bool;           (* systemd socket activation or reuse_port: stop() never unlinks *)
  cworkers : Z             (* cfg.workers *)
}.

Record st := mkSt {
  ma : master;             (* slot A *)
  mb : master;             (* slot B *)
  fsP : option Z;          (* content of the file cfg.pidfile *)
  fsP2 : option Z;         (* content of cfg.pidfile + ".2" *)
  sockf : bool;            (* the unix socket file exists *)
  next_pid : Z;
  (* ghost *)
  execs : Z                (* number of fork+exec performed *)
}.

Inductive slot := A | B.
Definition other (x : slot) : slot := match x with A => B | B => A end.
Definition get (s : st) (x : slot) : master := match x with A => ma s | B => mb s end.
Definition put (s : st) (x : slot) (m : master) : st :=
  match x with
  | A => mkSt m (mb s) (fsP s) (fsP2 s) (sockf s) (next_pid s) (execs s)
  | B => mkSt (ma s) m (fsP s) (fsP2 s) (sockf s) (next_pid s) (execs s)
  end.
Definition set_fs (s : st) (p p2 : option Z) : st := mkSt (ma s) (mb s) p p2 (sockf s) (next_pid s) (execs s).
Definition set_sock (s : st) (b : bool) : st := mkSt (ma s) (mb s) (fsP s) (fsP2 s) b (next_pid s) (execs s).
Definition set_exec (s : st) (np e : Z) : st := mkSt (ma s) (mb s) (fsP s) (fsP2 s) (sockf s) np e.

Definition set_m_reexec m x := mkM (m_pid m) (m_alive m) (m_status m) x (m_mpid m) (m_pname m) (m_pown m) (m_workers m).
Definition set_m_mpid m x := mkM (m_pid m) (m_alive m) (m_status m) (m_reexec m) x (m_pname m) (m_pown m) (m_workers m).
Definition set_m_pf m n o := mkM (m_pid m) (m_alive m) (m_status m) (m_reexec m) (m_mpid m) n o (m_workers m).
Definition set_m_workers m x := mkM (m_pid m) (m_alive m) (m_status m) (m_reexec m) (m_mpid m) (m_pname m) (m_pown m) x.
Definition set_m_dead m status := mkM (m_pid m) false status (m_reexec m) (m_mpid m) (m_pname m) (m_pown m) (m_workers m).

Definition dead_master : master := mkM 0 false 0 0 0 PMain false 0.

(* is the process p alive?  (kill(p, 0) of Pidfile.validate, getppid() of maybe_promote_master) *)
Definition alive_pid (s : st) (p : Z) : bool :=
  (m_alive (ma s) && (m_pid (ma s) =? p)) || (m_alive (mb s) && (m_pid (mb s) =? p)).

Definition fs_get (s : st) (n : pname) : option Z := match n with PMain => fsP s | PDot2 => fsP2 s end.
Definition fs_put (s : st) (n : pname) (v : option Z) : st :=
  match n with PMain => set_fs s v (fsP2 s) | PDot2 => set_fs s (fsP s) v end.

(* ---- gunicorn/pidfile.py --------------------------------------------------------------------------------------- *)
(* Pidfile.unlink of master m: removes the file only if it holds Pidfile.pid (None when create() did not complete) *)
Definition pf_unlink (s : st) (m : master) : st :=
  if m_pown m then
    match fs_get s (m_pname m) with
    | Some q => if q =? m_pid m then fs_put s (m_pname m) None else s
    | None => s
    end
  else s.

(* Pidfile(name).create(pid): Some state on success, None when validate() finds a live other process *)
Definition pf_create (s : st) (me : Z) (n : pname) : option st :=
  match fs_get s n with
  | Some q =>
      if alive_pid s q then (if q =? me then Some s (* `oldpid == os.getpid()`: returns early *) else None)
      else Some (fs_put s n (Some me))
  | None => Some (fs_put s n (Some me))
  end.
(* when create() returns early the Pidfile object's pid stays None *)
Definition pf_create_owns (s : st) (me : Z) (n : pname) : bool :=
  match fs_get s n with
  | Some q => negb (alive_pid s q && (q =? me))
  | None => true
  end.

(* ---- Arbiter.stop + halt ------------------------------------------------------------------------------------------ *)
Definition unlink_flag (c : cfg) (m : master) : bool :=
  (m_reexec m =? 0) && (m_mpid m =? 0) && negb (shared c).

(* the master in slot x stops (TERM / INT / QUIT -> halt): sockets closed (file unlinked when the flag says so),
   workers killed, pid file unlinked, exit *)
Definition do_exit (c : cfg) (s : st) (x : slot) (status : Z) : st :=
  let m := get s x in
  let s1 := if unlink_flag c m && unixb c then set_sock s false else s in
  let s2 := if pidconf c then pf_unlink s1 m else s1 in
  put s2 x (set_m_dead m status).

(* `except Exception` of Arbiter.run: stop(False); pidfile.unlink(); sys.exit(-1) *)
Definition crash (c : cfg) (s : st) (x : slot) : st := do_exit c s x 255.

(* ---- Arbiter.start of a re-executed master ------------------------------------------------------------------------- *)
(* the child of master `parent` starts in slot y: GUNICORN_PID -> master_pid, pid file name gets ".2", fds adopted *)
Definition start_child (c : cfg) (s : st) (y : slot) (parent : Z) : st :=
  let me := next_pid s in
  let s0 := set_exec s (me + 1) (execs s + 1) in
  let m0 := mkM me true 0 0 parent (if pidconf c then PDot2 else PMain) false (cworkers c) in
  if pidconf c then
    match pf_create (put s0 y m0) me PDot2 with
    | Some s1 => put s1 y (set_m_pf m0 PDot2 (pf_create_owns (put s0 y m0) me PDot2))
    | None => put s0 y (set_m_dead m0 1)                 (* RuntimeError in start(): exit 1, nothing was opened *)
    end
  else put s0 y m0.

(* ---- events ------------------------------------------------------------------------------------------------------------ *)
Inductive event :=
| USR2 (x : slot)             (* handle_usr2 -> reexec *)
| Stop (x : slot)             (* TERM / INT / QUIT *)
| NoticeChild (x : slot)      (* SIGCHLD handled: reap_workers *)
| NoticeParent (x : slot)     (* top of the main loop: maybe_promote_master *)
| HUP (x : slot)              (* reload *)
| WINCH (x : slot)
| Halt (x : slot) (code : Z). (* the master stops by itself: HaltServer (its workers cannot boot: code 3 / 4), same clean-up as a stop *)

Definition step (c : cfg) (s : st) (e : event) : st :=
  match e with
  | USR2 x =>
      let m := get s x in
      if negb (m_alive m) then s
      else if negb (m_reexec m =? 0) then s                    (* "USR2 signal ignored. Child exists." *)
      else if negb (m_mpid m =? 0) then s                      (* "USR2 signal ignored. Parent exists." *)
      else if m_alive (get s (other x)) then s                 (* never the case: Proof/UpgradeInv.v slots_suffice *)
      else
        let child := next_pid s in
        let s1 := put s x (set_m_reexec m child) in
        start_child c s1 (other x) (m_pid m)
  | Stop x =>
      if m_alive (get s x) then do_exit c s x 0 else s
  | NoticeChild x =>
      let m := get s x in
      if m_alive m && negb (m_reexec m =? 0) && negb (alive_pid s (m_reexec m))
      then put s x (set_m_reexec m 0) else s
  | NoticeParent x =>
      let m := get s x in
      if m_alive m && negb (m_mpid m =? 0) && negb (alive_pid s (m_mpid m)) then
        let m1 := set_m_mpid m 0 in
        if pidconf c then
          (* self.pidfile.rename(self.cfg.pidfile): unlink(); fname = path; create(pid) *)
          let s1 := pf_unlink s m in
          match pf_create s1 (m_pid m) PMain with
          | Some s2 => put s2 x (set_m_pf m1 PMain (pf_create_owns s1 (m_pid m) PMain))
          | None => crash c (put s1 x (set_m_pf m1 PMain false)) x
          end
        else put s x m1
      else s
  | HUP x =>
      let m := get s x in
      if negb (m_alive m) then s else
      let m1 := set_m_workers m (cworkers c) in
      if pidconf c then
        (* unlink pidfile; self.pidfile = Pidfile(<name>); create(self.pid).  <name> is the configured name - on the
           tree as it stands ALWAYS (reload_names_dot2 = false, read from the source by gen_upgrade.py), or with ".2"
           while master_pid != 0 (the repair in fixes/reload-pidfile-child-master.diff) *)
        let tgt := if reload_names_dot2 && negb (m_mpid m =? 0) then PDot2 else PMain in
        let s1 := pf_unlink s m in
        match pf_create s1 (m_pid m) tgt with
        | Some s2 => put s2 x (set_m_pf m1 tgt (pf_create_owns s1 (m_pid m) tgt))
        | None => crash c (put s1 x (set_m_pf m1 tgt false)) x
        end
      else put s x m1
  | WINCH x =>
      let m := get s x in
      if m_alive m && daemon c then put s x (set_m_workers m 0) else s
  | Halt x code =>
      if m_alive (get s x) then do_exit c s x code else s
  end.

Definition run (c : cfg) (s : st) (es : list event) : st := fold_left (step c) es s.

(* one master, started normally, pid 50 *)
Definition init (c : cfg) : st :=
  mkSt (mkM 50 true 0 0 0 PMain (pidconf c) (cworkers c)) dead_master
       (if pidconf c then Some 50 else None) None (unixb c) 100 0.

(* ---- observation (mirrors props/c14.py) ---------------------------------------------------------------------------------- *)
Definition b2z (b : bool) : Z := if b then 1 else 0.
Definition owner (s : st) (v : option Z) : Z :=
  match v with
  | None => 0
  | Some q => if m_pid (ma s) =? q then 1 else if m_pid (mb s) =? q then 2 else 3
  end.
Definition obs_m (m : master) : list Z :=
  if m_alive m then
    [1; 0; b2z (negb (m_reexec m =? 0)); b2z (negb (m_mpid m =? 0));
     (match m_pname m with PMain => 1 | PDot2 => 2 end); m_workers m]
  else [0; m_status m; 0; 0; 0; 0].          (* what a dead master believed is of no interest *)
Definition obs (s : st) : list Z :=
  obs_m (ma s) ++ obs_m (mb s) ++ [owner s (fsP s); owner s (fsP2 s); b2z (sockf s); execs s].
Fixpoint run_obs (c : cfg) (s : st) (es : list event) : list Z :=
  match es with
  | [] => obs s
  | e :: t => let s' := step c s e in obs s' ++ run_obs c s' t
  end.
