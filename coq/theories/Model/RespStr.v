(* Python text primitives used by gunicorn/http/wsgi.py (class Response), util.write_chunk and
   Message.should_close, on strings represented as lists of code points (a latin-1 [bytes] object is
   the same list with every element < 256).  Definitions only; lemmas are in Proof/RespStrProofs.v.

   Validated against CPython by the alphabet sweeps of harness/props/c09.py (every code point 0-255 in
   every position of status, header name and header value).
   Not modelled: int() on more than 4300 digits (ValueError in CPython >= 3.11), code points > 255
   inside int()/split()/lower() arguments (gunicorn refuses such text before these are applied). *)
From Coq Require Import List NArith ZArith Bool.
From GV Require Import Base.Enc Base.Dec.
Import ListNotations.
Local Open Scope N_scope.

Definition str := list N.

Fixpoint list_eqb (a b : list N) : bool :=
  match a, b with
  | [], [] => true
  | x :: a', y :: b' => (x =? y) && list_eqb a' b'
  | _, _ => false
  end.

Definition memN (c : N) (l : list N) : bool := existsb (N.eqb c) l.
Definition mem_str (s : list N) (l : list (list N)) : bool := existsb (list_eqb s) l.

(* str.lower() restricted to what matters here: ASCII letters.  For latin-1 text CPython's lower()
   never turns a non-ASCII character into an ASCII one and never changes the length, so comparisons
   of the lowered text with ASCII keywords agree. *)
Definition lower_c (c : N) : N := if (65 <=? c) && (c <=? 90) then c + 32 else c.
Definition lower (s : str) : str := map lower_c s.

(* str.strip(" \t") *)
Definition is_sp_tab (c : N) : bool := (c =? 32) || (c =? 9).
Fixpoint lstrip_by (f : N -> bool) (l : str) : str :=
  match l with c :: t => if f c then lstrip_by f t else l | [] => [] end.
Definition strip_by (f : N -> bool) (l : str) : str := rev (lstrip_by f (rev (lstrip_by f l))).
Definition strip_sp_tab : str -> str := strip_by is_sp_tab.

(* str.isspace() per character, code points <= 255 (measured: 9-13, 28-32, 133, 160) *)
Definition py_space (c : N) : bool :=
  ((9 <=? c) && (c <=? 13)) || ((28 <=? c) && (c <=? 32)) || (c =? 133) || (c =? 160).

(* s.split()[0] : None stands for IndexError (no word) *)
Fixpoint take_word (l : str) : str :=
  match l with c :: t => if py_space c then [] else c :: take_word t | [] => [] end.
Definition first_word (s : str) : option str :=
  match lstrip_by py_space s with [] => None | w => Some (take_word w) end.

(* int(text): surrounding whitespace, optional sign, decimal digits with single underscores between
   digits; anything else is ValueError (None). *)
Definition py_int (s : str) : option Z :=
  match strip_by py_space s with
  | [] => None
  | c :: t => if c =? 43 then option_map Z.of_N (py_nat t)
              else if c =? 45 then option_map (fun n => Z.opp (Z.of_N n)) (py_nat t)
              else option_map Z.of_N (py_nat (c :: t))
  end.

(* s.split(",") *)
Fixpoint split_comma_aux (cur : str) (l : str) : list str :=
  match l with
  | [] => [rev cur]
  | c :: t => if c =? 44 then rev cur :: split_comma_aux [] t else split_comma_aux (c :: cur) t
  end.
Definition split_comma (s : str) : list str := split_comma_aux [] s.

(* "%X" % n  for n >= 0 *)
Definition hexdigit (d : N) : N := if d <? 10 then 48 + d else 55 + d.
Fixpoint hex_aux (fuel : nat) (n : N) (acc : list N) : list N :=
  match fuel with
  | O => hexdigit (n mod 16) :: acc
  | S f => if n <? 16 then hexdigit n :: acc else hex_aux f (n / 16) (hexdigit (n mod 16) :: acc)
  end.
Definition hex_upper (n : N) : list N := hex_aux (N.to_nat (N.size n)) n [].

(* "%s" % z  for an int *)
Definition dec_Z (z : Z) : str := (if (z <? 0)%Z then [45] else []) ++ dec (Z.to_N (Z.abs z)).

(* constants *)
Definition s_content_length : list N := [99; 111; 110; 116; 101; 110; 116; 45; 108; 101; 110; 103; 116; 104].
Definition s_connection : list N := [99; 111; 110; 110; 101; 99; 116; 105; 111; 110].
Definition s_upgrade : list N := [117; 112; 103; 114; 97; 100; 101].
Definition s_websocket : list N := [119; 101; 98; 115; 111; 99; 107; 101; 116].
Definition s_close : list N := [99; 108; 111; 115; 101].
Definition s_keep_alive : list N := [107; 101; 101; 112; 45; 97; 108; 105; 118; 101].
Definition s_HEAD : list N := [72; 69; 65; 68].
Definition s_None : list N := [78; 111; 110; 101].
Definition s_HTTP : list N := [72; 84; 84; 80; 47].
Definition s_Server_name : list N := [83; 101; 114; 118; 101; 114].
Definition s_Date_name : list N := [68; 97; 116; 101].
Definition s_Connection_name : list N := [67; 111; 110; 110; 101; 99; 116; 105; 111; 110].
Definition s_TE_name : list N := [84; 114; 97; 110; 115; 102; 101; 114; 45; 69; 110; 99; 111; 100; 105; 110; 103].
Definition s_transfer_encoding : list N := [116; 114; 97; 110; 115; 102; 101; 114; 45; 101; 110; 99; 111; 100; 105; 110; 103].
Definition s_chunked : list N := [99; 104; 117; 110; 107; 101; 100].
Definition s_colon_sp : list N := [58; 32].
Definition crlf : list N := [13; 10].
