(* Byte-string primitives used by Model/Environ.v and Spec/EnvSpec.v: the CPython bytes/str
   operations that gunicorn/http/message.py, gunicorn/http/wsgi.py and urllib.parse apply on the
   request head.  A latin-1 str and the bytes it was decoded from are the same [list N].
   Definitions only. *)
From Coq Require Import List NArith ZArith Bool.
From GV Require Import Base.Enc Base.Dec Gen.GenEnv.
Import ListNotations.
Local Open Scope N_scope.

Fixpoint beq (a b : bytes) : bool :=
  match a, b with
  | [], [] => true
  | x :: a', y :: b' => (x =? y) && beq a' b'
  | _, _ => false
  end.
Definition nmem (c : N) (l : list N) : bool := existsb (N.eqb c) l.
Definition bmem (x : bytes) (l : list bytes) : bool := existsb (beq x) l.

Fixpoint assoc_n (c : N) (l : list (N * N)) : option N :=
  match l with [] => None | (k, v) :: t => if c =? k then Some v else assoc_n c t end.
Fixpoint assoc_b {A} (k : bytes) (l : list (bytes * A)) : option A :=
  match l with [] => None | (k', v) :: t => if beq k k' then Some v else assoc_b k t end.

(* str.upper() / str.lower() per character (tables regenerated from the interpreter) *)
Definition upper_c (c : N) : N := match assoc_n c upper_tab with Some u => u | None => c end.
Definition lower_c (c : N) : N := match assoc_n c lower_tab with Some u => u | None => c end.
Definition upper (s : bytes) : bytes := map upper_c s.
Definition lower (s : bytes) : bytes := map lower_c s.

Fixpoint starts_with (p l : bytes) : bool :=
  match p, l with
  | [], _ => true
  | x :: p', y :: l' => (x =? y) && starts_with p' l'
  | _ :: _, [] => false
  end.

(* s.find(c) / s.split(c, 1): cut at the first occurrence of a character *)
Fixpoint cut1 (c : N) (l : bytes) : bytes * option bytes :=
  match l with
  | [] => ([], None)
  | x :: t => if x =? c then ([], Some t) else let (a, b) := cut1 c t in (x :: a, b)
  end.

(* s.split(c): never empty *)
Definition cons_hd (x : N) (ls : list bytes) : list bytes :=
  match ls with h :: r => (x :: h) :: r | [] => [[x]] end.
Fixpoint split_c (c : N) (l : bytes) : list bytes :=
  match l with
  | [] => [[]]
  | x :: t => if x =? c then [] :: split_c c t else cons_hd x (split_c c t)
  end.

(* data.find(b"\r\n"): (data[:idx], data[idx+2:]) *)
Fixpoint cut_crlf (l : bytes) : option (bytes * bytes) :=
  match l with
  | [] => None
  | x :: t =>
      match t with
      | y :: t' => if (x =? 13) && (y =? 10) then Some ([], t')
                   else match cut_crlf t with Some (a, b) => Some (x :: a, b) | None => None end
      | [] => None
      end
  end.
(* data.find(b"\r\n\r\n"): (data[:idx], data[idx+4:]) *)
Definition crlf2 : bytes := [13; 10; 13; 10].
Fixpoint cut_crlf2 (l : bytes) : option (bytes * bytes) :=
  match l with
  | [] => None
  | x :: t => if starts_with crlf2 l then Some ([], skipn 3 t)
              else match cut_crlf2 t with Some (a, b) => Some (x :: a, b) | None => None end
  end.
(* data.split(b"\r\n") *)
Fixpoint split_crlf (l : bytes) : list bytes :=
  match l with
  | [] => [[]]
  | x :: t =>
      match t with
      | y :: t' => if (x =? 13) && (y =? 10) then [] :: split_crlf t' else cons_hd x (split_crlf t)
      | [] => [[x]]
      end
  end.

(* s.strip(" \t") and friends *)
Definition is_sp_tab (c : N) : bool := (c =? 32) || (c =? 9).
Fixpoint lstrip (f : N -> bool) (l : bytes) : bytes :=
  match l with c :: t => if f c then lstrip f t else l | [] => [] end.
Definition rstrip (f : N -> bool) (l : bytes) : bytes := rev (lstrip f (rev l)).
Definition strip (f : N -> bool) (l : bytes) : bytes := rstrip f (lstrip f l).

Fixpoint join (sep : bytes) (ls : list bytes) : bytes :=
  match ls with
  | [] => []
  | [x] => x
  | x :: t => x ++ sep ++ join sep t
  end.

Definition replace_c (a b : N) (s : bytes) : bytes := map (fun c => if c =? a then b else c) s.

(* int(str) on a latin-1 str:  ws* [+-]? digit ('_'? digit)* ws*  *)
Definition is_int_ws (c : N) : bool := nmem c int_ws.
Definition py_int_l1 (l : bytes) : option Z :=
  match strip is_int_ws l with
  | [] => None
  | c :: t => if c =? 43 then option_map Z.of_N (py_nat t)
              else if c =? 45 then option_map (fun n => Z.opp (Z.of_N n)) (py_nat t)
              else option_map Z.of_N (py_nat (c :: t))
  end.

(* ASCII literals *)
Definition s_PROXY : bytes := [80;82;79;88;89].
Definition s_TCP4 : bytes := [84;67;80;52].
Definition s_TCP6 : bytes := [84;67;80;54].
Definition s_star : bytes := [42].
Definition s_https : bytes := [104;116;116;112;115].
Definition s_http : bytes := [104;116;116;112].
Definition s_HTTP_ : bytes := [72;84;84;80;95].
Definition s_HTTPslash : bytes := [72;84;84;80;47].
Definition s_SCRIPT_NAME : bytes := [83;67;82;73;80;84;95;78;65;77;69].
Definition s_PATH_INFO : bytes := [80;65;84;72;95;73;78;70;79].
Definition s_CONTENT_TYPE_h : bytes := [67;79;78;84;69;78;84;45;84;89;80;69].          (* CONTENT-TYPE *)
Definition s_CONTENT_LENGTH_h : bytes := [67;79;78;84;69;78;84;45;76;69;78;71;84;72]. (* CONTENT-LENGTH *)
Definition s_CONTENT_TYPE : bytes := [67;79;78;84;69;78;84;95;84;89;80;69].
Definition s_CONTENT_LENGTH : bytes := [67;79;78;84;69;78;84;95;76;69;78;71;84;72].
Definition s_TRANSFER_ENCODING : bytes := [84;82;65;78;83;70;69;82;45;69;78;67;79;68;73;78;71].
Definition s_CONNECTION : bytes := [67;79;78;78;69;67;84;73;79;78].
Definition s_chunked : bytes := [99;104;117;110;107;101;100].
Definition s_identity : bytes := [105;100;101;110;116;105;116;121].
Definition s_compress : bytes := [99;111;109;112;114;101;115;115].
Definition s_deflate : bytes := [100;101;102;108;97;116;101].
Definition s_gzip : bytes := [103;122;105;112].
Definition s_close : bytes := [99;108;111;115;101].
Definition s_keep_alive : bytes := [107;101;101;112;45;97;108;105;118;101].
Definition s_REQUEST_METHOD : bytes := [82;69;81;85;69;83;84;95;77;69;84;72;79;68].
Definition s_QUERY_STRING : bytes := [81;85;69;82;89;95;83;84;82;73;78;71].
Definition s_RAW_URI : bytes := [82;65;87;95;85;82;73].
Definition s_SERVER_PROTOCOL : bytes := [83;69;82;86;69;82;95;80;82;79;84;79;67;79;76].
Definition s_url_scheme : bytes := [119;115;103;105;46;117;114;108;95;115;99;104;101;109;101]. (* wsgi.url_scheme *)
Definition s_REMOTE_ADDR : bytes := [82;69;77;79;84;69;95;65;68;68;82].
Definition s_REMOTE_PORT : bytes := [82;69;77;79;84;69;95;80;79;82;84].
Definition s_PROXY_PROTOCOL : bytes := [80;82;79;88;89;95;80;82;79;84;79;67;79;76].
Definition s_PROXY_ADDR : bytes := [80;82;79;88;89;95;65;68;68;82].
Definition s_PROXY_PORT : bytes := [80;82;79;88;89;95;80;79;82;84].
