(* Executable model of gunicorn's request parser, mirroring the source loop by loop:
     http/unreader.py  Unreader.read()/unread()            (Base/Scan.v: unreader, u_read, u_unread)
     http/message.py   Message.__init__, parse_headers, set_body_reader, should_close,
                       Request.parse, read_line, proxy_protocol*, parse_request_line
     http/body.py      ChunkedReader (the parse_chunked generator as an explicit state machine over
                       its resume points), LengthReader, Body.read/readline/readlines/__next__
     http/parser.py    Parser.__next__ (stop on should_close, drain with read(8192))
   Definitions only.  Every refill loop is an instance of Base/Scan.scan.
   External behaviour enters through [ext]: urlsplit's ValueError verdict and inet_pton. *)
From Coq Require Import List NArith ZArith Bool Lia Arith.
From GV Require Import Base.Bytes Base.Scan Base.PyStr Gen.GenParser.
Import ListNotations.
Local Open Scope N_scope.

Notation "x |> f" := (f x) (at level 50, left associativity, only parsing).

Inductive perr :=
| EStop | ENoMoreData | EInvalidRequestLine | EInvalidRequestMethod | EInvalidHTTPVersion
| EInvalidHeader | EInvalidHeaderName | EObsoleteFolding | EUnsupportedTransferCoding
| EInvalidSchemeHeaders | ELimitRequestLine | ELimitRequestHeaders
| EInvalidProxyLine | EForbiddenProxyRequest | EInvalidChunkSize | EChunkMissingTerminator
| EOutOfFuel.       (* never produced on real inputs: see Proof/ParserFuel *)

Definition perr_code (e : perr) : Z :=
  match e with
  | EStop => 0 | ENoMoreData => 1 | EInvalidRequestLine => 2 | EInvalidRequestMethod => 3
  | EInvalidHTTPVersion => 4 | EInvalidHeader => 5 | EInvalidHeaderName => 6 | EObsoleteFolding => 7
  | EUnsupportedTransferCoding => 8 | EInvalidSchemeHeaders => 9 | ELimitRequestLine => 10
  | ELimitRequestHeaders => 11 | EInvalidProxyLine => 12 | EForbiddenProxyRequest => 13
  | EInvalidChunkSize => 14 | EChunkMissingTerminator => 15 | EOutOfFuel => 99
  end%Z.

Notation header := (bytes * bytes)%type.

Record cfg := {
  limit_request_line : Z;
  limit_request_fields : Z;
  limit_request_field_size : Z;
  permit_unconventional_http_method : bool;
  permit_unconventional_http_version : bool;
  casefold_http_method : bool;
  strip_header_spaces : bool;
  permit_obsolete_folding : bool;
  header_map : N;                         (* 0 drop, 1 refuse, 2 dangerous *)
  proxy_protocol : bool;
  fwd_trusted : bool;                     (* '*' in forwarded_allow_ips or peer not a tuple or peer[0] listed *)
  proxy_trusted : bool;                   (* '*' in proxy_allow_ips or peer not a tuple or peer[0] listed *)
  secure_scheme_headers : list header;    (* upper-case name -> value meaning "secure" *)
  forwarder_headers : list bytes;         (* upper-case names; ["*"] possible *)
  is_ssl : bool
}.

Record ext := {
  uri_ok : bytes -> bool;                 (* false: urlsplit raises ValueError on this target *)
  inet_ok : bool -> bytes -> bool         (* inet_pton(AF_INET6 if true else AF_INET, addr) succeeds *)
}.

(* ---- effective limits (Message.__init__, Request.__init__) ---------------------------------- *)
Definition eff_line (c : cfg) : N :=
  let l := limit_request_line c in
  if (l <? 0)%Z || (Z.of_N max_request_line <=? l)%Z then max_request_line else Z.to_N l.
Definition eff_fields (c : cfg) : N :=
  let l := limit_request_fields c in
  if (l <=? 0)%Z || (Z.of_N max_headers <? l)%Z then max_headers else Z.to_N l.
Definition eff_field_size (c : cfg) : N :=
  let l := limit_request_field_size c in
  if (l <? 0)%Z then default_max_headerfield_size else Z.to_N l.
Definition max_buffer_headers (c : cfg) : N :=
  let fs := if eff_field_size c =? 0 then default_max_headerfield_size else eff_field_size c in
  eff_fields c * (fs + 2) + 4.

Definition takeN (n : N) (l : bytes) : bytes := firstn (N.to_nat (N.min n (blen l))) l.
Definition dropN (n : N) (l : bytes) : bytes := skipn (N.to_nat (N.min n (blen l))) l.

(* ---- Request.read_line ------------------------------------------------------------------- *)
Definition rl_over (limit : N) (n : nat) : bool := (0 <? limit) && (limit <? N.of_nat n - 2).
Definition rl_post (limit : N) (i : nat) : bool := (0 <? limit) && (limit <? N.of_nat i).
Definition read_line (limit : N) (data : bytes) (p : unreader) : (bytes * bytes * unreader) + perr :=
  match scan (find_pat CRLF) (rl_over limit) data p with
  | SFound i d p' => if rl_post limit i then inr ELimitRequestLine
                     else inl (firstn i d, skipn (i + 2) d, p')
  | SOver => inr ELimitRequestLine
  | SEof _ => inr ENoMoreData
  end.

(* ---- request line ---------------------------------------------------------------------------- *)
Definition is_token (s : bytes) : bool :=
  match s with [] => false | _ => forallb (fun ch => mem ch token_chars) s end.

Definition s_HTTP_slash : bytes := [72; 84; 84; 80; 47].
Definition parse_version (v : bytes) : option (N * N) :=
  if prefixb s_HTTP_slash v then
    match skipn 5 v with
    | [a; d; b] => if (d =? 46) && mem a version_digits && mem b version_digits then Some (a - 48, b - 48) else None
    | _ => None
    end
  else None.

Definition parse_request_line (c : cfg) (x : ext) (line : bytes) : (bytes * bytes * (N * N)) + perr :=
  match splitn 32 2 line with
  | [m; uri; ver] =>
      if negb (permit_unconventional_http_method c) &&
         (existsb (fun ch => mem ch method_badchars) m || negb ((3 <=? blen m) && (blen m <=? 20)))
      then inr EInvalidRequestMethod
      else if negb (is_token m) then inr EInvalidRequestMethod
      else
        let m' := if casefold_http_method c then upper_ascii m else m in
        match uri with
        | [] => inr EInvalidRequestLine
        | _ =>
          if existsb (fun ch => mem ch target_badchars) uri then inr EInvalidRequestLine
          else if negb (uri_ok x uri) then inr EInvalidRequestLine
          else match parse_version ver with
               | None => inr EInvalidHTTPVersion
               | Some (a, b) =>
                   if negb (a =? 1) && negb (permit_unconventional_http_version c)
                   then inr EInvalidHTTPVersion else inl (m', uri, (a, b))
               end
        end
  | _ => inr EInvalidRequestLine
  end.

(* ---- PROXY protocol line ------------------------------------------------------------------- *)
Definition s_PROXY : bytes := [80; 82; 79; 88; 89].
Definition s_TCP4 : bytes := [84; 67; 80; 52].
Definition s_TCP6 : bytes := [84; 67; 80; 54].
Record proxy_info := { pp_proto : bytes; pp_caddr : bytes; pp_cport : Z; pp_paddr : bytes; pp_pport : Z }.

Definition parse_proxy_protocol (x : ext) (line : bytes) : proxy_info + perr :=
  match split_char 32 line with
  | [_; proto; sa; da; sp; dp] =>
      let v6 := beq proto s_TCP6 in
      if negb (beq proto s_TCP4 || v6) then inr EInvalidProxyLine
      else if negb (inet_ok x v6 sa && inet_ok x v6 da) then inr EInvalidProxyLine
      else match py_int_l1 sp, py_int_l1 dp with
           | Some a, Some b =>
               if ((0 <=? a) && (a <=? 65535) && (0 <=? b) && (b <=? 65535))%Z
               then inl {| pp_proto := proto; pp_caddr := sa; pp_cport := a; pp_paddr := da; pp_pport := b |}
               else inr EInvalidProxyLine
           | _, _ => inr EInvalidProxyLine
           end
  | _ => inr EInvalidProxyLine
  end.

(* ---- Message.parse_headers ------------------------------------------------------------------ *)
Definition starts_ws (l : bytes) : bool := match l with c :: _ => is_ows c | [] => false end.
Fixpoint span_ws (lines : list bytes) : list bytes * list bytes :=
  match lines with
  | l :: t => if starts_ws l then let '(a, b) := span_ws t in (l :: a, b) else ([], lines)
  | [] => ([], [])
  end.
Fixpoint assoc (k : bytes) (l : list header) : option bytes :=
  match l with [] => None | (a, b) :: t => if beq a k then Some b else assoc k t end.
Definition bmem (k : bytes) (l : list bytes) : bool := existsb (beq k) l.
Definition join_sp (l : list bytes) : bytes :=
  match l with [] => [] | a :: t => a ++ flat_map (fun s => 32 :: s) t end.

(* scheme state: (a scheme header was seen, current scheme is https) *)
Fixpoint parse_headers_loop (c : cfg) (from_trailer : bool) (fuel : nat) (lines : list bytes)
         (nfields : N) (seen https : bool) (acc : list header) : (list header * bool) + perr :=
  match fuel with
  | O => inr EOutOfFuel
  | S fuel' =>
    match lines with
    | [] => inl (rev acc, https)
    | curr :: rest =>
      if eff_fields c <=? nfields then inr ELimitRequestHeaders else
      match find_char 58 curr with
      | None => inr EInvalidHeader
      | Some O => inr EInvalidHeader
      | Some i =>
        let name0 := firstn i curr in
        let value0 := skipn (S i) curr in
        let name1 := if strip_header_spaces c then rstrip is_ows name0 else name0 in
        if negb (is_token name1) then inr EInvalidHeaderName else
        let name := upper_ascii name1 in
        let '(conts, rest') := span_ws rest in
        let has_conts := match conts with [] => false | _ => true end in
        if has_conts && negb (permit_obsolete_folding c) then inr EObsoleteFolding else
        let hlen := fold_left (fun a l => a + blen l + 2) conts (blen curr + 2) in
        let fs := eff_field_size c in
        let toolong := (0 <? fs) && (fs <? hlen) in
        if has_conts && toolong then inr ELimitRequestHeaders else
        let value := join_sp (strip is_ows value0 :: map (strip is_ows) conts) in
        if existsb (fun ch => mem ch value_badchars) value then inr EInvalidHeader else
        if toolong then inr ELimitRequestHeaders else
        let trusted := negb from_trailer && fwd_trusted c in
        let sch := if trusted then assoc name (secure_scheme_headers c) else None in
        let scheme_res : (bool * bool) + perr :=
            match sch with
            | Some expect =>
                let secure := beq value expect in
                if seen then (if Bool.eqb secure https then inl (seen, https) else inr EInvalidSchemeHeaders)
                else inl (true, secure)
            | None => inl (seen, https)
            end in
        match scheme_res with
        | inr e => inr e
        | inl (seen', https') =>
            let fwd := if trusted then forwarder_headers c else [] in
            let keep := parse_headers_loop c from_trailer fuel' rest' (nfields + 1) seen' https' ((name, value) :: acc) in
            if mem 95 name then
              if bmem name fwd || bmem [42] fwd then keep
              else if header_map c =? 2 then keep
              else if header_map c =? 0 then
                parse_headers_loop c from_trailer fuel' rest' (nfields + 1) seen' https' acc
              else inr EInvalidHeaderName
            else keep
        end
      end
    end
  end.

Definition parse_headers (c : cfg) (from_trailer : bool) (https0 : bool) (data : bytes) : (list header * bool) + perr :=
  let lines := split_crlf data in
  parse_headers_loop c from_trailer (S (length lines)) lines 0 false https0 [].

(* ---- header block loop of Request.parse (with the limit tests of the current tree) -------------- *)
Definition hdr_find (data : bytes) : option nat :=
  if prefixb CRLF data then Some 0%nat else find_pat CRLFCRLF data.
Definition cap_over (limit : N) (n : nat) : bool := limit <=? N.of_nat n.
Definition cap_post (limit : N) (width : nat) (i : nat) : bool := limit <? N.of_nat (i + width).

(* ---- Message.set_body_reader ------------------------------------------------------------------ *)
Definition s_chunked : bytes := [99; 104; 117; 110; 107; 101; 100].
Definition s_identity : bytes := [105; 100; 101; 110; 116; 105; 116; 121].
Definition s_gzip : bytes := [103; 122; 105; 112].
Definition s_compress : bytes := [99; 111; 109; 112; 114; 101; 115; 115].
Definition s_deflate : bytes := [100; 101; 102; 108; 97; 116; 101].
Definition n_cl : bytes := [67; 79; 78; 84; 69; 78; 84; 45; 76; 69; 78; 71; 84; 72].
Definition n_te : bytes := [84; 82; 65; 78; 83; 70; 69; 82; 45; 69; 78; 67; 79; 68; 73; 78; 71].
Definition n_connection : bytes := [67; 79; 78; 78; 69; 67; 84; 73; 79; 78].
Definition s_close : bytes := [99; 108; 111; 115; 101].
Definition s_keepalive : bytes := [107; 101; 101; 112; 45; 97; 108; 105; 118; 101].

Inductive coding := CChunked | CIdentity | CCompress | CUnknown.
Definition classify (v : bytes) : coding :=
  let w := lower v in
  if beq w s_chunked then CChunked else if beq w s_identity then CIdentity
  else if beq w s_gzip || beq w s_compress || beq w s_deflate then CCompress else CUnknown.

Record fstate := { f_chunked : bool; f_cl : option bytes; f_must_close : bool }.
Fixpoint te_vals (st : fstate) (vals : list bytes) : fstate + perr :=
  match vals with
  | [] => inl st
  | v :: t =>
      match classify v with
      | CChunked => if f_chunked st then inr EInvalidHeader
                    else te_vals {| f_chunked := true; f_cl := f_cl st; f_must_close := f_must_close st |} t
      | CIdentity => if f_chunked st then inr EInvalidHeader
                     else te_vals {| f_chunked := f_chunked st; f_cl := f_cl st; f_must_close := true |} t
      | CCompress => if f_chunked st then inr EInvalidHeader
                     else te_vals {| f_chunked := f_chunked st; f_cl := f_cl st; f_must_close := true |} t
      | CUnknown => inr EUnsupportedTransferCoding
      end
  end.
Fixpoint scan_headers (st : fstate) (hs : list header) : fstate + perr :=
  match hs with
  | [] => inl st
  | (n, v) :: t =>
      if beq n n_cl then
        match f_cl st with
        | Some _ => inr EInvalidHeader
        | None => scan_headers {| f_chunked := f_chunked st; f_cl := Some v; f_must_close := f_must_close st |} t
        end
      else if beq n n_te then
        match te_vals st (map (strip is_ows) (split_char 44 v)) with
        | inl st' => scan_headers st' t
        | inr e => inr e
        end
      else scan_headers st t
  end.

Inductive framing := FChunked | FLength (n : N).
Definition max_str_digits : N := 4300.        (* sys.get_int_max_str_digits(): int() raises ValueError beyond *)
Definition all_digits (v : bytes) : bool := match v with [] => false | _ => forallb is_digit v end.

Definition set_body_reader (hs : list header) (version : N * N) : (framing * bool) + perr :=
  match scan_headers {| f_chunked := false; f_cl := None; f_must_close := false |} hs with
  | inr e => inr e
  | inl st =>
      if f_chunked st then
        if (fst version =? 0) || ((fst version =? 1) && (snd version =? 0)) then inr EInvalidHeader   (* version < (1,1) *)
        else match f_cl st with Some _ => inr EInvalidHeader | None => inl (FChunked, f_must_close st) end
      else match f_cl st with
           | Some v => if all_digits v && (blen v <=? max_str_digits) then inl (FLength (dec_value v), f_must_close st)
                       else inr EInvalidHeader
           | None => inl (FLength 0, f_must_close st)       (* Request: EOFReader replaced by LengthReader(0) *)
           end
  end.

(* Message.should_close (options list, every Connection field) *)
Fixpoint conn_scan (hs : list header) (keepalive : bool) : option bool :=   (* Some true: close *)
  match hs with
  | [] => if keepalive then Some false else None
  | (n, v) :: t =>
      if beq n n_connection then
        let opts := map (strip is_ows) (split_char 44 (lower v)) in
        if bmem s_close opts then Some true
        else conn_scan t (keepalive || bmem s_keepalive opts)
      else conn_scan t keepalive
  end.

Record request := {
  r_method : bytes; r_uri : bytes; r_version : N * N; r_headers : list header;
  r_https : bool; r_proxy : option proxy_info; r_framing : framing; r_must_close : bool
}.
Definition should_close (r : request) : bool :=
  if r_must_close r then true else
  match conn_scan (r_headers r) false with
  | Some b => b
  | None => (fst (r_version r) =? 0) || ((fst (r_version r) =? 1) && (snd (r_version r) =? 0))   (* version <= (1,0) *)
  end.

(* ---- Request.parse + Message.__init__ -------------------------------------------------------- *)
Definition proxy_stage (c : cfg) (x : ext) (req_number : N) (line1 rbuf1 : bytes) (p1 : unreader)
  : (option proxy_info * bytes * bytes * unreader) + perr :=
  if proxy_protocol c && (req_number =? 1) && prefixb s_PROXY line1 then
    if negb (proxy_trusted c) then inr EForbiddenProxyRequest
    else match parse_proxy_protocol x line1 with
         | inr e => inr e
         | inl info =>
             match read_line (eff_line c) rbuf1 p1 with
             | inr e => inr e
             | inl (l2, r2, p2) => inl (Some info, l2, r2, p2)
             end
         end
  else inl (None, line1, rbuf1, p1).

Definition header_stage (c : cfg) (rbuf : bytes) (p2 : unreader) : (list header * bool * unreader) + perr :=
  let lim := max_buffer_headers c in
  match scan hdr_find (cap_over lim) rbuf p2 with
  | SOver => inr ELimitRequestHeaders
  | SEof _ => inr ENoMoreData
  | SFound i d p3 =>
      if prefixb CRLF d then inl ([], is_ssl c, u_unread (skipn 2 d) p3)
      else if cap_post lim 4 i then inr ELimitRequestHeaders
      else match parse_headers c false (is_ssl c) (firstn i d) with
           | inr e => inr e
           | inl (hs, https) => inl (hs, https, u_unread (skipn (i + 4) d) p3)
           end
  end.

Definition parse_request (c : cfg) (x : ext) (req_number : N) (p : unreader) : (request * unreader) + perr :=
  match u_read p with
  | ([], _) => inr EStop
  | (data0, p0) =>
    match read_line (eff_line c) data0 p0 with
    | inr e => inr e
    | inl (line1, rbuf1, p1) =>
      match proxy_stage c x req_number line1 rbuf1 p1 with
      | inr e => inr e
      | inl (pinfo, line, rbuf, p2) =>
        match parse_request_line c x line with
        | inr e => inr e
        | inl (m, uri, ver) =>
          match header_stage c rbuf p2 with
          | inr e => inr e
          | inl (hs, https, p4) =>
            match set_body_reader hs ver with
            | inr e => inr e
            | inl (fr, mc) =>
                inl ({| r_method := m; r_uri := uri; r_version := ver; r_headers := hs; r_https := https;
                        r_proxy := pinfo; r_framing := fr; r_must_close := mc |}, p4)
            end
          end
        end
      end
    end
  end.

(* ---- LengthReader --------------------------------------------------------------------------- *)
Fixpoint lr_fill (size : N) (buf : bytes) (p : unreader) : bytes * unreader :=
  match p with
  | [] => (buf, [])
  | ch :: t => let buf' := buf ++ ch in if size <=? blen buf' then (buf', t) else lr_fill size buf' t
  end.
Definition lr_read (size : N) (len : N) (p : unreader) : bytes * N * unreader :=
  let size := N.min len size in
  if size =? 0 then ([], len, p) else
  let '(buf, p') := lr_fill size [] p in
  (takeN size buf, len - size, u_unread (dropN size buf) p').

(* ---- ChunkedReader: the parse_chunked generator ------------------------------------------- *)
Inductive gstate :=
| GStart                                  (* not started *)
| GPartial (left : N)                     (* suspended at "yield rest" inside a chunk, [left] bytes still to come *)
| GAfterLast (size : N) (rest : bytes)    (* suspended at "yield rest[:size]" *)
| GDead.                                  (* returned or raised: next() gives StopIteration *)

Inductive gout :=
| GYield (piece : bytes) (g : gstate) (p : unreader)
| GStop (p : unreader) (trailers : option (list header))      (* generator returned *)
| GRaise (e : perr) (p : unreader).

Definition hexdigits_ok (s : bytes) : bool := forallb is_hexdigit s.

(* parse_trailers: NoMoreData is swallowed by the caller (what was read is lost) *)
Definition parse_trailers (c : cfg) (data : bytes) (p : unreader) : (unreader * option (list header)) + perr :=
  let lim := max_buffer_headers c in
  match scan hdr_find (cap_over lim) data p with
  | SOver => inr ELimitRequestHeaders
  | SEof _ => inl ([], None)                                   (* NoMoreData swallowed *)
  | SFound i d p' =>
      if prefixb CRLF d then inl (u_unread (skipn 2 d) p', None)
      else if cap_post lim 4 i then inr ELimitRequestHeaders
      else match parse_headers c true false (firstn i d) with
           | inr e => inr e
           | inl (hs, _) => inl (u_unread (skipn (i + 4) d) p', Some hs)
           end
  end.

Inductive csize := CSChunk (size : N) (rest : bytes) (p : unreader)
                 | CSLast (p : unreader) (trailers : option (list header))
                 | CSErr (e : perr) (p : unreader).
Definition parse_chunk_size (c : cfg) (data : bytes) (p : unreader) : csize :=
  let lim := max_buffer_headers c in
  match scan (find_pat CRLF) (cap_over lim) data p with
  | SOver => CSErr EInvalidChunkSize []
  | SEof _ => CSErr ENoMoreData []
  | SFound i d p' =>
      if cap_post lim 2 i then CSErr EInvalidChunkSize p' else
      let line := firstn i d in
      let rest := skipn (i + 2) d in
      if mem 13 line || mem 10 line then CSErr EInvalidChunkSize p' else
      let sz := match find_char 59 line with
                | Some j => rstrip is_ows (firstn j line)
                | None => line
                end in
      if negb (hexdigits_ok sz) then CSErr EInvalidChunkSize p'
      else match sz with
           | [] => CSErr EInvalidChunkSize p'
           | _ => let n := hex_value sz in
                  if n =? 0 then
                    match parse_trailers c rest p' with
                    | inl (p'', tr) => CSLast p'' tr
                    | inr e => CSErr e p'
                    end
                  else CSChunk n rest p'
           end
  end.

(* the body of "while size > 0" up to the next yield *)
Definition gen_enter (size : N) (rest : bytes) (p : unreader) : gout :=
  if blen rest <? size then GYield rest (GPartial (size - blen rest)) p
  else GYield (takeN size rest) (GAfterLast size rest) p.

Fixpoint fill2 (rest : bytes) (p : unreader) : bytes * unreader :=       (* while len(rest) < 2: read more *)
  if 2 <=? blen rest then (rest, p) else
  match p with
  | [] => (rest, [])
  | ch :: t => fill2 (rest ++ ch) t
  end.

Definition gen_next (c : cfg) (g : gstate) (p : unreader) : gout :=
  match g with
  | GDead => GStop p None
  | GStart =>
      match parse_chunk_size c [] p with
      | CSChunk n rest p' => gen_enter n rest p'
      | CSLast p' tr => GStop p' tr
      | CSErr e p' => GRaise e p'
      end
  | GPartial lft =>
      match u_read p with
      | ([], p') => GRaise ENoMoreData p'
      | (rest, p') => gen_enter lft rest p'
      end
  | GAfterLast size rest =>
      let '(rest', p') := fill2 (dropN size rest) p in
      if negb (beq (firstn 2 rest') CRLF) then GRaise EChunkMissingTerminator p'
      else match parse_chunk_size c (skipn 2 rest') p' with
           | CSChunk n r p'' => gen_enter n r p''
           | CSLast p'' tr => GStop p'' tr
           | CSErr e p'' => GRaise e p''
           end
  end.

Record creader := { cg : gstate; cactive : bool; cbuf : bytes }.     (* cactive: self.parser is not None *)

(* ChunkedReader.read(size), size > 0.  Result: data or the exception; new reader; unreader; trailers set *)
Fixpoint cr_pull (c : cfg) (fuel : nat) (size : N) (g : gstate) (buf : bytes) (p : unreader) (tr : option (list header))
  : (creader * unreader * option (list header)) * option perr :=
  match fuel with
  | O => ({| cg := g; cactive := true; cbuf := buf |}, p, tr, Some EOutOfFuel)
  | S fuel' =>
      if size <=? blen buf then ({| cg := g; cactive := true; cbuf := buf |}, p, tr, None)
      else match gen_next c g p with
           | GYield piece g' p' => cr_pull c fuel' size g' (buf ++ piece) p' tr
           | GStop p' tr' => ({| cg := GDead; cactive := false; cbuf := buf |}, p',
                              match tr' with Some t => Some t | None => tr end, None)
           | GRaise e p' => ({| cg := GDead; cactive := true; cbuf := buf |}, p', tr, Some e)
           end
  end.

Definition gen_fuel (g : gstate) (p : unreader) : nat :=
  (2 * length p + length (u_abs p) + match g with GAfterLast _ rest => length rest | _ => 0 end + 4)%nat.

Definition cr_read (c : cfg) (size : N) (r : creader) (p : unreader)
  : (bytes + perr) * creader * unreader * option (list header) :=
  if size =? 0 then (inl [], r, p, None) else
  let '(r1, p1, tr, err) :=
      if cactive r then cr_pull c (gen_fuel (cg r) p) size (cg r) (cbuf r) p None
      else (r, p, None, None) in
  match err with
  | Some e => (inr e, r1, p1, tr)
  | None => (inl (takeN size (cbuf r1)), {| cg := cg r1; cactive := cactive r1; cbuf := dropN size (cbuf r1) |}, p1, tr)
  end.

(* ---- Body: generic in the reader behind it ------------------------------------------------------ *)
Definition maxsize : N := 9223372036854775807.
Definition getsize (size : option Z) : N :=
  match size with None => maxsize | Some z => if (z <? 0)%Z then maxsize else Z.to_N z end.

Fixpoint split_lines_aux (cur : bytes) (l : bytes) : list bytes :=
  match l with
  | [] => match cur with [] => [] | _ => [rev cur] end
  | x :: t => if x =? 10 then rev (x :: cur) :: split_lines_aux [] t else split_lines_aux (x :: cur) t
  end.
Definition split_lines (l : bytes) : list bytes := split_lines_aux [] l.

Inductive call := Read (size : option Z) | Readline (size : option Z) | Readlines | Next.
Inductive callres := RBytes (b : bytes) | RLines (l : list bytes) | RStopIter | RExc (e : perr).

Definition nl_cut (size : N) (data : bytes) : nat :=
  match find_char 10 (takeN size data) with
  | Some i => S i
  | None => if size <=? blen data then N.to_nat size else O
  end.

Section Body.
  Variable S : Type.                                       (* state of the reader behind the Body *)
  Variable rd : N -> S -> (bytes + perr) * S.              (* reader.read(n), n > 0 *)
  Variable fuel_of : S -> nat.                             (* an upper bound on the bytes still obtainable *)

  Definition bstate := (bytes * S)%type.                   (* Body.buf, reader *)

  (* Body.read: "while size > buf.tell(): data = reader.read(1024); if not data: break" *)
  Fixpoint body_fill (blk : N) (fuel : nat) (size : N) (buf : bytes) (s : S) : (bytes * S) * option perr :=
    match fuel with
    | O => ((buf, s), Some EOutOfFuel)
    | Datatypes.S fuel' =>
        if size <=? blen buf then ((buf, s), None)
        else match rd blk s with
             | (inr e, s') => ((buf, s'), Some e)
             | (inl [], s') => ((buf, s'), None)
             | (inl d, s') => body_fill blk fuel' size (buf ++ d) s'
             end
    end.

  Definition body_read_blk (blk : N) (size : option Z) (b : bstate) : (bytes + perr) * bstate :=
    let size := getsize size in
    if size =? 0 then (inl [], b) else
    let buf := fst b in
    if size <? blen buf then (inl (takeN size buf), (dropN size buf, snd b))
    else
      let '((buf', s'), err) := body_fill blk (fuel_of (snd b)) size buf (snd b) in
      match err with
      | Some e => (inr e, (buf', s'))                 (* the exception leaves self.buf as it was filled *)
      | None => (inl (takeN size buf'), (dropN size buf', s'))
      end.

  (* Body.readline *)
  Fixpoint readline_loop (blk : N) (fuel : nat) (size : N) (data acc : bytes) (s : S) : (bytes * bstate) * option perr :=
    match fuel with
    | O => ((acc, ([], s)), Some EOutOfFuel)
    | Datatypes.S fuel' =>
        match nl_cut size data with
        | Datatypes.S i => ((acc ++ firstn (Datatypes.S i) data, (skipn (Datatypes.S i) data, s)), None)
        | O =>
            let size' := size - blen data in
            match rd (N.min blk size') s with
            | (inr e, s') => ((acc ++ data, ([], s')), Some e)
            | (inl [], s') => ((acc ++ data, ([], s')), None)
            | (inl d, s') => readline_loop blk fuel' size' d (acc ++ data) s'
            end
        end
    end.
  Definition body_readline_blk (blk : N) (size : option Z) (b : bstate) : (bytes + perr) * bstate :=
    let size := getsize size in
    if size =? 0 then (inl [], b) else
    let '((out, b'), err) := readline_loop blk (fuel_of (snd b)) size (fst b) [] (snd b) in
    match err with Some e => (inr e, b') | None => (inl out, b') end.

  Definition body_read := body_read_blk 1024.
  Definition body_readline := body_readline_blk 1024.

  Definition do_call (cl : call) (b : bstate) : callres * bstate :=
    match cl with
    | Read s => match body_read s b with (inl d, b') => (RBytes d, b') | (inr e, b') => (RExc e, b') end
    | Readline s => match body_readline s b with (inl d, b') => (RBytes d, b') | (inr e, b') => (RExc e, b') end
    | Readlines => match body_read None b with (inl d, b') => (RLines (split_lines d), b') | (inr e, b') => (RExc e, b') end
    | Next => match body_readline None b with
              | (inl [], b') => (RStopIter, b')
              | (inl d, b') => (RBytes d, b')
              | (inr e, b') => (RExc e, b')
              end
    end.

  (* Parser.__next__: discard the unread body: data = body.read(8192); while data: ... *)
  Fixpoint drain (fuel : nat) (b : bstate) : bstate * option perr :=
    match fuel with
    | O => (b, Some EOutOfFuel)
    | Datatypes.S fuel' =>
        match body_read (Some 8192%Z) b with
        | (inr e, b') => (b', Some e)
        | (inl [], b') => (b', None)
        | (inl _, b') => drain fuel' b'
        end
    end.
End Body.
Arguments body_fill {S}. Arguments body_read_blk {S}. Arguments readline_loop {S}. Arguments body_readline_blk {S}.
Arguments body_read {S}. Arguments body_readline {S}. Arguments do_call {S}. Arguments drain {S}.

(* ---- the two concrete readers as one state type --------------------------------------------------- *)
Inductive reader := RLength (len : N) | RChunked (r : creader).
Record conn := { c_reader : reader; c_unreader : unreader; c_trailers : list header }.

Definition reader_read (c : cfg) (n : N) (k : conn) : (bytes + perr) * conn :=
  match c_reader k with
  | RLength len =>
      let '(d, len', p') := lr_read n len (c_unreader k) in
      (inl d, {| c_reader := RLength len'; c_unreader := p'; c_trailers := c_trailers k |})
  | RChunked r =>
      let '(res, r', p', tr) := cr_read c n r (c_unreader k) in
      (res, {| c_reader := RChunked r'; c_unreader := p';
               c_trailers := match tr with Some t => t | None => c_trailers k end |})
  end.

Definition remaining_upper (k : conn) : nat :=      (* an upper bound on the bytes still obtainable: fuel *)
  (length (u_abs (c_unreader k)) +
   match c_reader k with
   | RChunked r => length (cbuf r) + match cg r with GAfterLast _ rest => length rest | _ => 0 end
   | RLength _ => 0
   end + 2)%nat.

Definition init_conn (r : request) (p : unreader) : bytes * conn :=
  ([], {| c_reader := match r_framing r with
                      | FChunked => RChunked {| cg := GStart; cactive := true; cbuf := [] |}
                      | FLength n => RLength n
                      end;
          c_unreader := p; c_trailers := [] |}).

(* ---- observation ------------------------------------------------------------------------------ *)
Definition enc_header (h : header) : list Z := enc_bytes (fst h) ++ enc_bytes (snd h).
Definition enc_request (r : request) : list Z :=
  [100%Z] ++ enc_bytes (r_method r) ++ enc_bytes (r_uri r) ++ [Z.of_N (fst (r_version r)); Z.of_N (snd (r_version r))]
  ++ enc_list enc_header (r_headers r) ++ enc_bool (r_https r)
  ++ enc_opt (fun i => enc_bytes (pp_proto i) ++ enc_bytes (pp_caddr i) ++ [pp_cport i] ++ enc_bytes (pp_paddr i) ++ [pp_pport i]) (r_proxy r)
  ++ enc_bool (should_close r).
Definition enc_callres (r : callres) : list Z :=
  match r with
  | RBytes b => 1%Z :: enc_bytes b
  | RLines l => 2%Z :: enc_list enc_bytes l
  | RStopIter => [3%Z]
  | RExc e => [4%Z; perr_code e]
  end.

Section RunCalls.
  Variable S : Type.
  Variable rd : N -> S -> (bytes + perr) * S.
  Variable fuel_of : S -> nat.
  Fixpoint run_calls (cls : list call) (b : bytes * S) : list Z * (bytes * S) * option perr :=
    match cls with
    | [] => ([], b, None)
    | cl :: t => let '(r, b') := do_call rd fuel_of cl b in
                 match r with
                 | RExc e => (enc_callres r, b', Some e)          (* the application does not catch it *)
                 | _ => let '(o, b'', e) := run_calls t b' in (enc_callres r ++ o, b'', e)
                 end
    end.
End RunCalls.
Arguments run_calls {S}.

(* iterate the parser over the connection; progs = the read program of each request *)
Fixpoint run_conn (c : cfg) (x : ext) (fuel : nat) (n : N) (progs : list (list call)) (p : unreader) : list Z :=
  match fuel with
  | O => [(-99)%Z]
  | S fuel' =>
      match parse_request c x n p with
      | inr e => [200%Z; perr_code e]
      | inl (r, p1) =>
          let prog := hd [] progs in
          let '(o, b, err) := run_calls (reader_read c) remaining_upper prog (init_conn r p1) in
          enc_request r ++ o ++
          match err with
          | Some e => [200%Z; perr_code e]
          | None =>
              (* the rest of the body is read to its end: by Parser.__next__ before the next request, or
                 (when the connection is to be closed) by the observer, so that trailers are seen *)
              let '(b', derr) := drain (reader_read c) remaining_upper (S (length (fst b) + remaining_upper (snd b))) b in
              match derr with
              | Some e => [200%Z; perr_code e]
              | None =>
                  enc_list enc_header (c_trailers (snd b')) ++
                  (if should_close r then [201%Z]
                   else [Z.of_nat (length (u_abs (c_unreader (snd b'))))]
                        ++ run_conn c x fuel' (n + 1) (tl progs) (c_unreader (snd b')))
              end
          end
      end
  end.
Definition run (c : cfg) (x : ext) (progs : list (list call)) (p : unreader) : list Z :=
  run_conn c x (S (length (u_abs p))) 1 progs p.

Definition default_cfg : cfg :=
  {| limit_request_line := 4094; limit_request_fields := 100; limit_request_field_size := 8190;
     permit_unconventional_http_method := false; permit_unconventional_http_version := false;
     casefold_http_method := false; strip_header_spaces := false; permit_obsolete_folding := false;
     header_map := 0; proxy_protocol := false; fwd_trusted := true; proxy_trusted := true;
     secure_scheme_headers := []; forwarder_headers := []; is_ssl := false |}.
