(* Worker-level model for C18 (max_requests recycling), built on the request step of Model/Handle.v.

   A worker holds the shared counters (nr, alive) and a set of connections; a schedule is any interleaving,
   at request granularity, of
     SAccept inputs   the main loop takes a new connection - only while self.alive (the `while self.alive`
                      gate of SyncWorker.run_for_one / ThreadWorker.run);
     SDispatch i      connection i handles its next request: exactly Handle.one_request on the shared counters
                      (next(parser), handle_request with the counter block, the except ladder, and for the
                      thread worker finish_request's keep-alive decision).
   The sync worker is the special case accept-then-dispatch (one request per connection).
   Ghost fields record how many connections were open when `alive` went false and how many application
   entries happened in later steps.  Definitions only; proofs in Proof/RecycleProofs.v. *)
From Coq Require Import List NArith ZArith Bool.
From GV Require Import Base.Enc Base.Dec Gen.GenErrors Model.Handle.
Import ListNotations.
Local Open Scope N_scope.

(* Worker.__init__ (gunicorn/workers/base.py):
     if cfg.max_requests > 0: self.max_requests = cfg.max_requests + randint(0, cfg.max_requests_jitter)
     else:                    self.max_requests = sys.maxsize *)
Definition effective_max (max_requests pick : N) : N :=
  if 0 <? max_requests then max_requests + pick else sys_maxsize.

Record kconn := { k_ps : list pout; k_apps : list app; k_fs : list fault; k_open : bool }.

Record world := {
  g_st : wst;
  g_conns : list kconn;
  g_log : list (list ev);              (* events of each executed step, oldest first *)
  g_dead_open : option nat;            (* ghost: open connections right after the step that cleared `alive` *)
  g_after : nat                        (* ghost: application entries in steps that started with alive = false *)
}.

Inductive sched :=
| SAccept (ps : list pout) (apps : list app) (fs : list fault)
| SDispatch (i : nat).

Definition nopen (l : list kconn) : nat := length (filter k_open l).

Fixpoint set_nth {A} (i : nat) (x : A) (l : list A) : list A :=
  match i, l with
  | O, _ :: t => x :: t
  | S k, y :: t => y :: set_nth k x t
  | _, [] => []
  end.

Definition count_apps (l : list ev) : nat := length (filter (fun e => match e with EvApp => true | _ => false end) l).

Definition closed_conn : kconn := {| k_ps := []; k_apps := []; k_fs := []; k_open := false |}.

Definition wstep (w : wkind) (c : cfg) (g : world) (s : sched) : world :=
  match s with
  | SAccept ps apps fs =>
      if w_alive (g_st g)
      then {| g_st := g_st g; g_conns := g_conns g ++ [{| k_ps := ps; k_apps := apps; k_fs := fs; k_open := true |}];
              g_log := g_log g; g_dead_open := g_dead_open g; g_after := g_after g |}
      else g                                        (* the loop has ended: not accepted by this worker *)
  | SDispatch i =>
      match nth_error (g_conns g) i with
      | None => g
      | Some k =>
          if negb (k_open k) then g else
          match k_ps k with
          | [] =>                                   (* the client went away: the connection just ends *)
              {| g_st := g_st g; g_conns := set_nth i closed_conn (g_conns g); g_log := g_log g;
                 g_dead_open := g_dead_open g; g_after := g_after g |}
          | p :: ps' =>
              let was_alive := w_alive (g_st g) in
              let '(st1, k', evs) :=
                match one_request w c (g_st g) p (k_apps k) (k_fs k) with
                | Done _ st1 _ evs => (st1, closed_conn, evs)
                | Cont st1 apps1 fs1 evs => (st1, {| k_ps := ps'; k_apps := apps1; k_fs := fs1; k_open := true |}, evs)
                end in
              let conns' := set_nth i k' (g_conns g) in
              {| g_st := st1; g_conns := conns'; g_log := g_log g ++ [evs];
                 g_dead_open := match g_dead_open g with
                                | Some n => Some n
                                | None => if was_alive && negb (w_alive st1) then Some (nopen conns') else None
                                end;
                 g_after := if was_alive then g_after g else (g_after g + count_apps evs)%nat |}
          end
      end
  end.

Definition wrun (w : wkind) (c : cfg) (g : world) (l : list sched) : world := fold_left (wstep w c) l g.

Definition world0 (st : wst) : world :=
  {| g_st := st; g_conns := []; g_log := []; g_dead_open := None; g_after := 0 |}.

(* the sync worker: one connection at a time, while alive *)
Fixpoint sync_life (c : cfg) (st : wst) (conns : list (list pout * list app * list fault)) : list result :=
  match conns with
  | [] => []
  | (ps, apps, fs) :: t =>
      if w_alive st then let o := connection WSync c st ps apps fs in o :: sync_life c (o_st o) t else []
  end.

(* observation of a run, mirrored by harness/props/c18.py: the events of every executed step, then which
   connections are still open, then nr, alive *)
Definition obs_world (g : world) : list Z :=
  flat_map (fun evs => 77%Z :: flat_map enc_ev evs) (g_log g)
  ++ [78%Z] ++ map (fun k => if k_open k then 1%Z else 0%Z) (g_conns g)
  ++ [79%Z; Z.of_N (w_nr (g_st g))] ++ enc_bool (w_alive (g_st g)).
