(* C04 - executable model of a gunicorn shutdown.  Definitions only; proofs are in Proof/Shutdown*.v.

   A dedicated transition system (it does not import Model/Arbiter.v): it starts at the moment the master is about
   to dispatch a dequeued TERM / INT / QUIT and adds what Model/Arbiter.v leaves out - the listeners as objects, the
   unix socket files, the pid file, systemd / reuse_port, the unlink decision of Arbiter.stop.

   Part 1, the master (gunicorn/arbiter.py handle_term / handle_int / handle_quit, halt, stop, kill_workers,
   kill_worker, reap_workers; gunicorn/sock.py close_sockets; gunicorn/pidfile.py unlink).  The code is cut exactly
   where lib_arbiter's simulated kernel yields: list(WORKERS.keys()), os.kill, the test of WORKERS in stop()'s wait
   loop, time.sleep.  [Master] runs the pending access / call and the pure code up to the next one; [Chld] is the whole
   SIGCHLD handler and may be scheduled between any two of them; [Exit] is a child dying; [Tick] is time passing for
   any other reason (scheduling latency: the "slack" of the property).

   Part 2, the workers (gunicorn/workers/base.py init_signals / handle_exit / handle_quit, sync.py run_for_one,
   gthread.py run, ggevent.py run, geventlet.py run): one connection followed through one worker of each class.

   Time: ticks of 1/256 s.  Not modelled: failing kill other than ESRCH, a failing unlink, KeyboardInterrupt,
   signals that arrive after the stop began (they are queued and never read), pid reuse. *)
From Coq Require Import List ZArith Bool Lia.
From GV Require Import Gen.GenArbiter Gen.GenShutdown.
Import ListNotations.
Local Open Scope Z_scope.

(* ================================================================================================ *)
(* Part 1: the master                                                                               *)
(* ================================================================================================ *)

Record kid := mkKid { k_pid : Z; k_zomb : bool; k_status : Z; k_sigs : list Z; k_master : bool }.
Record lsn := mkLsn { l_id : Z; l_unix : bool }.       (* a unix listener's id names its socket file *)

Record cfg := mkCfg {
  grace : Z;            (* cfg.graceful_timeout in ticks *)
  systemd : bool;       (* Arbiter.systemd *)
  reuse : bool;         (* cfg.reuse_port *)
  pidconf : bool        (* a pid file is configured (Arbiter.pidfile is not None) *)
}.

Inductive after := AHalt | AExit (status : Z).
Inductive kcont := KWait (limit : Z) (a : after) | KDone (a : after).

Inductive pc :=
| PDispatch (sg : Z)                         (* `sig = SIG_QUEUE.pop(0)` is about to run with sg at the head *)
| PSnap (sg : Z) (k : kcont)                 (* kill_workers: list(self.WORKERS.keys()) *)
| PKill (todo : list Z) (sg : Z) (k : kcont) (* kill_worker(pid, sg) for the head of todo *)
| PWait (limit : Z) (a : after)              (* while self.WORKERS and time.time() < limit *)
| PNap (limit : Z) (a : after)               (* time.sleep(0.1) *)
| PExited (status : Z)
| PCrashed.                                  (* an exception left Arbiter.run() *)

Record st := mkSt {
  ws : list Z;            (* WORKERS keys, insertion order *)
  lst : list lsn;         (* LISTENERS *)
  reexec : Z;             (* reexec_pid *)
  mpid : Z;               (* master_pid *)
  cur : pc;
  (* the environment *)
  kids : list kid;        (* children of the master, fork order *)
  wall : Z;
  sockfs : list Z;        (* unix socket files that exist *)
  pidfs : bool;           (* the pid file exists (and holds our pid) *)
  (* ghost *)
  closed : list Z;        (* listeners closed so far *)
  slack : Z;              (* sum of all Tick *)
  wlim : Z;               (* `limit` of the stop() in progress *)
  olim : Z                (* the same limit on the master's own clock (wall - slack) *)
}.

Definition set_ws s x := mkSt x (lst s) (reexec s) (mpid s) (cur s) (kids s) (wall s) (sockfs s) (pidfs s) (closed s) (slack s) (wlim s) (olim s).
Definition set_reexec s x := mkSt (ws s) (lst s) x (mpid s) (cur s) (kids s) (wall s) (sockfs s) (pidfs s) (closed s) (slack s) (wlim s) (olim s).
Definition set_pc s x := mkSt (ws s) (lst s) (reexec s) (mpid s) x (kids s) (wall s) (sockfs s) (pidfs s) (closed s) (slack s) (wlim s) (olim s).
Definition set_kids s x := mkSt (ws s) (lst s) (reexec s) (mpid s) (cur s) x (wall s) (sockfs s) (pidfs s) (closed s) (slack s) (wlim s) (olim s).
Definition set_wall s x := mkSt (ws s) (lst s) (reexec s) (mpid s) (cur s) (kids s) x (sockfs s) (pidfs s) (closed s) (slack s) (wlim s) (olim s).
Definition set_tick s w k := mkSt (ws s) (lst s) (reexec s) (mpid s) (cur s) (kids s) w (sockfs s) (pidfs s) (closed s) k (wlim s) (olim s).
Definition set_pidfs s x := mkSt (ws s) (lst s) (reexec s) (mpid s) (cur s) (kids s) (wall s) (sockfs s) x (closed s) (slack s) (wlim s) (olim s).
Definition set_close s fs cl := mkSt (ws s) [] (reexec s) (mpid s) (cur s) (kids s) (wall s) fs (pidfs s) cl (slack s) (wlim s) (olim s).
Definition set_lim s w o := mkSt (ws s) (lst s) (reexec s) (mpid s) (cur s) (kids s) (wall s) (sockfs s) (pidfs s) (closed s) (slack s) w o.

Definition zmem (z : Z) (l : list Z) : bool := existsb (Z.eqb z) l.
Definition remove_z (p : Z) (l : list Z) : list Z := filter (fun x => negb (x =? p)) l.

(* ---- the kernel ------------------------------------------------------------------------------------ *)
(* kill(p, sg): None = ESRCH; a zombie accepts the signal without effect; SIGKILL takes effect at once.
   (pids are unique in the table: no pid reuse is modelled) *)
Definition sig_kid (p sg : Z) (c : kid) : kid :=
  if (k_pid c =? p) && negb (k_zomb c)
  then mkKid (k_pid c) (sg =? SIGKILL) (if sg =? SIGKILL then SIGKILL else k_status c) (sg :: k_sigs c) (k_master c)
  else c.
Definition kill_in (l : list kid) (p sg : Z) : option (list kid) :=
  if existsb (fun c => k_pid c =? p) l then Some (map (sig_kid p sg) l) else None.

(* Arbiter.kill_worker *)
Definition kill_worker (s : st) (p sg : Z) : st :=
  match kill_in (kids s) p sg with
  | None => set_ws s (remove_z p (ws s))                 (* ESRCH: WORKERS.pop(pid) *)
  | Some k => set_kids s k
  end.

(* waitpid(-1, WNOHANG): the first zombie in fork order *)
Fixpoint first_zombie (l : list kid) : option (kid * list kid) :=
  match l with
  | [] => None
  | c :: t => if k_zomb c then Some (c, t)
              else match first_zombie t with
                   | None => None
                   | Some (z, t') => Some (z, c :: t')
                   end
  end.

Definition exit_kid (p status : Z) (l : list kid) : list kid :=
  map (fun c => if (k_pid c =? p) && negb (k_zomb c) then mkKid (k_pid c) true status (k_sigs c) (k_master c) else c) l.

(* ---- Arbiter.stop ------------------------------------------------------------------------------------ *)
(* the `unlink` flag of Arbiter.stop *)
Definition unlink_flag (c : cfg) (s : st) : bool :=
  (reexec s =? 0) && (mpid s =? 0) && negb (systemd c) && negb (reuse c).

(* sock.close_sockets(LISTENERS, unlink); LISTENERS = [] *)
Definition close_listeners (c : cfg) (s : st) : st :=
  let u := unlink_flag c s in
  let gone := map l_id (filter l_unix (lst s)) in
  set_close s (if u then filter (fun x => negb (zmem x gone)) (sockfs s) else sockfs s)
            (closed s ++ map l_id (lst s)).

(* stop(graceful) up to kill_workers' snapshot *)
Definition enter_stop (c : cfg) (s : st) (is_graceful : bool) (a : after) : st :=
  let s0 := close_listeners c s in
  let s1 := set_lim s0 (wall s0 + grace c) (wall s0 - slack s0 + grace c) in
  set_pc s1 (PSnap (if is_graceful then SIGTERM else SIGQUIT) (KWait (wall s1 + grace c) a)).

(* after the last kill_workers(SIGKILL) of a stop() *)
Definition finish_stop (c : cfg) (s : st) (a : after) : st :=
  match a with
  | AHalt => enter_stop c s true (AExit 0)                  (* handle_int / handle_quit: raise StopIteration -> halt() *)
  | AExit status =>                                         (* halt(): pidfile.unlink(); sys.exit(status) *)
      set_pc (if pidconf c then set_pidfs s false else s) (PExited status)
  end.

Definition kill_next (c : cfg) (s : st) (l : list Z) (sg : Z) (k : kcont) : st :=
  match l with
  | _ :: _ => set_pc s (PKill l sg k)
  | [] => match k with
          | KWait limit a => set_pc s (PWait limit a)
          | KDone a => finish_stop c s a
          end
  end.

Definition master (c : cfg) (s : st) : st :=
  match cur s with
  | PDispatch sg =>
      if sg =? SIGTERM then enter_stop c s true (AExit 0)                     (* handle_term *)
      else if (sg =? SIGINT) || (sg =? SIGQUIT) then enter_stop c s false AHalt   (* handle_int / handle_quit *)
      else s
  | PSnap sg k => kill_next c s (ws s) sg k
  | PKill [] sg k => kill_next c s [] sg k
  | PKill (p :: l) sg k => kill_next c (kill_worker s p sg) l sg k
  | PWait limit a =>
      if negb (Nat.eqb (length (ws s)) 0) && (wall s <? limit) then set_pc s (PNap limit a)
      else set_pc s (PSnap SIGKILL (KDone a))
  | PNap limit a => set_pc (set_wall s (wall s + stop_nap_ticks)) (PWait limit a)
  | PExited _ | PCrashed => s
  end.

(* ---- the SIGCHLD handler ------------------------------------------------------------------------------ *)
(* self._stopping (the repaired tree): set by the first statement of stop(), never cleared; stop() is entered only through
   [enter_stop], which ends at kill_workers' snapshot, and its pcs are left only for another stop() or for the exit: at every
   point where the handler can run the flag is true exactly at these pcs (same reading as Model/Arbiter.v) *)
Definition in_stop (p : pc) : bool :=
  match p with
  | PSnap _ _ | PKill _ _ _ | PWait _ _ | PNap _ _ => true
  | _ => false
  end.
Definition stopping (s : st) : bool := in_stop (cur s).
(* `if exitcode == self.WORKER_BOOT_ERROR [and not self._stopping]: raise HaltServer(...)` - the form is read from the tree *)
Definition raises (s : st) : bool := negb (reap_guards_halting && stopping s).
Arguments raises : simpl never.

Fixpoint reap (fuel : nat) (s : st) : st * option Z :=
  match fuel with
  | O => (s, None)
  | S f =>
      match first_zombie (kids s) with
      | None => (s, None)
      | Some (z, rest) =>
          let s1 := set_kids s rest in
          if reexec s1 =? k_pid z then reap f (set_reexec s1 0)
          else
            let code := Z.shiftr (k_status z) 8 in
            if (code =? worker_boot_error) && raises s1 then (s1, Some worker_boot_error)
            else if (code =? app_load_error) && raises s1 then (s1, Some app_load_error)
            else reap f (set_ws s1 (remove_z (k_pid z) (ws s1)))
      end
  end.

Definition master_gone (p : pc) : bool := match p with PExited _ | PCrashed => true | _ => false end.

(* is the master inside the stop() called by halt()?  (an exception raised there leaves run()) *)
Definition after_final (a : after) : bool := match a with AExit _ => true | AHalt => false end.
Definition kcont_after (k : kcont) : after := match k with KWait _ a => a | KDone a => a end.
Definition in_final_stop (p : pc) : bool :=
  match p with
  | PSnap _ k | PKill _ _ k => after_final (kcont_after k)
  | PWait _ a | PNap _ a => after_final a
  | _ => false
  end.

Definition chld (c : cfg) (s : st) : st :=
  if master_gone (cur s) then s else
  match reap (S (length (kids s))) s with
  | (s1, None) => s1
  | (s1, Some code) =>
      if in_final_stop (cur s1) then set_pc s1 PCrashed           (* HaltServer escapes from halt(): only without the guard *)
      else enter_stop c s1 true (AExit code)                       (* except HaltServer: halt(reason, status) *)
  end.

(* ---- labels -------------------------------------------------------------------------------------------- *)
Inductive label := Master | Chld | Exit (p status : Z) | Tick (dt : Z).

Definition step (c : cfg) (s : st) (l : label) : st :=
  match l with
  | Master => master c s
  | Chld => chld c s
  | Exit p status => set_kids s (exit_kid p status (kids s))
  | Tick dt => if 0 <=? dt then set_tick s (wall s + dt) (slack s + dt) else s
  end.

Definition run (c : cfg) (s : st) (ls : list label) : st := fold_left (step c) ls s.

(* ---- observation (mirrors lib_arb2.StopWorld.snap2) --------------------------------------------------- *)
Definition b2z (b : bool) : Z := if b then 1 else 0.

Definition pc_code (s : st) : list Z :=
  match cur s with
  | PDispatch _ => [1; 0; 0]
  | PSnap _ _ => [10; 0; 0]
  | PKill (p :: _) sg _ => [5; p; sg] | PKill [] _ _ => [5; 0; 0]
  | PWait _ _ => [6; 0; 0]
  | PNap _ _ => [9; stop_nap_ticks; 0]
  | PExited status => [12; status; 0]
  | PCrashed => [13; 0; 0]
  end.

Definition obs_kid (k : kid) : list Z := [k_pid k; b2z (k_zomb k); k_status k; Z.of_nat (length (k_sigs k))].

Definition obs (s : st) : list Z :=
  pc_code s ++
  [wall s; reexec s; Z.of_nat (length (lst s)); b2z (pidfs s)] ++
  (Z.of_nat (length (ws s)) :: ws s) ++
  (Z.of_nat (length (kids s)) :: flat_map obs_kid (kids s)) ++
  (Z.of_nat (length (closed s)) :: closed s) ++
  (Z.of_nat (length (sockfs s)) :: sockfs s).

Definition emits (l : label) : bool := match l with Master | Chld => true | _ => false end.

Fixpoint run_obs (c : cfg) (s : st) (ls : list label) : list Z :=
  match ls with
  | [] => obs s
  | l :: t => let s' := step c s l in
              if emits l then obs s' ++ run_obs c s' t else run_obs c s' t
  end.

(* ---- what the theorems talk about ------------------------------------------------------------------------ *)
Definition running (k : kid) : bool := negb (k_zomb k).
Definition worker_running (k : kid) : bool := running k && negb (k_master k).

(* every running worker process is tracked in WORKERS (the invariant C03 proves for the main loop) *)
Definition covered (s : st) : Prop :=
  forall k, In k (kids s) -> worker_running k = true -> In (k_pid k) (ws s).

Definition boot_code (status : Z) : bool :=
  let code := Z.shiftr status 8 in (code =? worker_boot_error) || (code =? app_load_error).

(* no child ends with one of the two exit codes that make reap_workers raise HaltServer *)
Definition no_boot_failure (s : st) (ls : list label) : Prop :=
  (forall k, In k (kids s) -> boot_code (k_status k) = false) /\
  (forall p status, In (Exit p status) ls -> boot_code status = false).

Definition is_master (l : label) : bool := match l with Master => true | _ => false end.
(* what happens before the master dispatches the signal: the schedule up to its first Master label *)
Fixpoint pre_dispatch (ls : list label) : list label :=
  match ls with
  | [] => []
  | Master :: _ => []
  | l :: t => l :: pre_dispatch t
  end.
(* where a boot failure changes the outcome of a shutdown: on a tree whose reap_workers tests `not self._stopping` only
   before the signal is dispatched (then the boot failure came first and decides the status: C03); on a tree without the
   test, anywhere *)
Definition boot_scope (ls : list label) : list label := if reap_guards_halting then pre_dispatch ls else ls.
Definition count_master (ls : list label) : nat := length (filter is_master ls).

(* ---- the canonical fair environment: told workers exit during the naps, SIGCHLD is delivered -------------- *)
Definition fatal (sg : Z) : bool := (sg =? SIGTERM) || (sg =? SIGQUIT) || (sg =? SIGINT) || (sg =? SIGABRT).
Definition told (k : kid) : bool := running k && existsb fatal (k_sigs k).
Definition exit_told (s : st) : st :=
  set_kids s (map (fun k => if told k then mkKid (k_pid k) true 0 (k_sigs k) (k_master k) else k) (kids s)).
Definition fair_step (c : cfg) (s : st) : st :=
  match cur s with
  | PNap _ _ | PWait _ _ => master c (chld c (exit_told s))
  | _ => master c s
  end.
Fixpoint fair (c : cfg) (n : nat) (s : st) : st :=
  match n with O => s | S k => fair c k (fair_step c s) end.

(* ================================================================================================ *)
(* Part 2: one connection in one worker                                                             *)
(* ================================================================================================ *)

Inductive wclass := Sync | GThread | GEvent | Eventlet.

(* where a connection is in its life *)
Inductive cphase :=
| CIdle          (* accepted, no byte of a request received yet *)
| CHead          (* part of the request head received *)
| CApp           (* the application is running *)
| CResp          (* part of the response written *)
| CKeep          (* keep-alive, waiting for the next request *)
| CDone          (* the response was written in full *)
| CLost.         (* closed without a full response *)

(* what the worker's main loop is doing *)
Inductive wmode :=
| Serving                    (* `while self.alive` *)
| Draining (since : Z)       (* left the loop; waiting for the requests in flight (gthread, gevent, eventlet) *)
| Leaving                    (* run() returned: sys.exit(0) is under way *)
| Gone.                      (* the process no longer exists *)

Record wst := mkW {
  w_cls : wclass;
  w_alive : bool;
  w_mode : wmode;
  w_conn : cphase;
  w_need : Z;               (* ticks of application + write time still needed once the request is complete *)
  w_clk : Z;
  w_term : option Z;        (* when the first TERM was handled *)
  w_keep : Z                (* cfg.keepalive in ticks (gevent / eventlet: bound of the read of a request) *)
}.

Definition w_set (w : wst) (al : bool) (m : wmode) (cn : cphase) (nd : Z) (ck : Z) (tm : option Z) : wst :=
  mkW (w_cls w) al m cn nd ck tm (w_keep w).

(* is a handler (the sync worker itself, a pool thread, a greenlet) executing this connection's request? *)
Definition in_handler (cl : wclass) (p : cphase) : bool :=
  match p with
  | CHead | CApp | CResp => true
  | CIdle | CKeep => match cl with GThread => false | Sync => (match p with CIdle => true | _ => false end) | _ => true end
  | CDone | CLost => false
  end.

Definition finished (p : cphase) : bool := match p with CDone | CLost => true | _ => false end.
Definition lose (p : cphase) : cphase := match p with CDone => CDone | _ => CLost end.

(* the tables read from the tree (Gen/GenShutdown.v): TERM reaches handle_exit, which only clears `alive`, in every
   worker class, and does not interrupt system calls *)
Definition term_is_graceful : bool :=
  (worker_handler_term =? 1) && handle_exit_clears_alive_only && handle_exit_shared && term_no_interrupt.
(* how long a class waits for the requests in flight after it left its loop *)
Definition drain_bound (cl : wclass) (g : Z) : Z :=
  match cl with
  | Sync => g
  | GThread => if gthread_drain_graceful then g else 0
  | GEvent => if gevent_drain_graceful then g else 0
  | Eventlet => if eventlet_drain_graceful then g else 0
  end.

Inductive wev :=
| WTerm                 (* SIGTERM: Worker.handle_exit *)
| WQuit                 (* SIGQUIT / SIGINT: Worker.handle_quit *)
| WKill                 (* SIGKILL *)
| WTick (dt : Z)        (* time passes; the handler of the connection makes progress *)
| WClient               (* the client sends the rest of its request *)
| WLoop                 (* the main loop gets to its next test of self.alive / the drain condition *)
| WIdleTimeout.         (* gevent / eventlet: the keepalive timeout of the request read expires *)

Definition wstep (g : Z) (w : wst) (e : wev) : wst :=
  match w_mode w with
  | Gone => w
  | _ =>
    match e with
    | WTerm =>
        let tm := match w_term w with None => Some (w_clk w) | t => t end in
        if term_is_graceful then w_set w false (w_mode w) (w_conn w) (w_need w) (w_clk w) tm
        else w_set w false Gone (lose (w_conn w)) (w_need w) (w_clk w) tm
    | WQuit =>
        (* handle_quit: alive = False; sleep(quit_sleep); sys.exit(0).  What was in flight is not waited for - except
           by gthread: its handle_quit calls tpool.shutdown(False) and sys.exit(0) in the main thread, and the
           interpreter's shutdown joins the pool threads (observed on real processes): requests in a thread go on *)
        match w_cls w with
        | GThread => w_set w false Leaving (if in_handler GThread (w_conn w) then w_conn w else lose (w_conn w))
                           (w_need w) (w_clk w) (w_term w)
        | _ => w_set w false Gone (lose (w_conn w)) (w_need w) (w_clk w) (w_term w)
        end
    | WKill => w_set w (w_alive w) Gone (lose (w_conn w)) (w_need w) (w_clk w) (w_term w)
    | WTick dt =>
        if dt <? 0 then w else
        let ck := w_clk w + dt in
        match w_conn w with
        | CApp | CResp =>
            if w_need w <=? dt
            then w_set w (w_alive w) (w_mode w) CDone 0 ck (w_term w)
            else w_set w (w_alive w) (w_mode w) (w_conn w) (w_need w - dt) ck (w_term w)
        | _ => w_set w (w_alive w) (w_mode w) (w_conn w) (w_need w) ck (w_term w)
        end
    | WClient =>
        match w_conn w with
        | CIdle | CHead | CKeep =>
            if in_handler (w_cls w) (w_conn w) then w_set w (w_alive w) (w_mode w) CApp (w_need w) (w_clk w) (w_term w)
            else
              (* gthread: the main loop must still be polling to hand the connection to a thread *)
              match w_mode w with
              | Serving => w_set w (w_alive w) (w_mode w) CApp (w_need w) (w_clk w) (w_term w)
              | _ => w
              end
        | _ => w
        end
    | WLoop =>
        match w_mode w with
        | Serving =>
            if w_alive w then w else
            match w_cls w with
            | Sync =>
                (* the loop is only reached between two handle() calls *)
                if in_handler Sync (w_conn w) then w
                else w_set w false Gone (lose (w_conn w)) (w_need w) (w_clk w) (w_term w)
            | GThread =>
                (* tpool.shutdown(False); poller.close(); listeners closed: connections that are not in a thread
                   are never looked at again *)
                w_set w false (Draining (w_clk w))
                      (if in_handler GThread (w_conn w) then w_conn w else lose (w_conn w))
                      (w_need w) (w_clk w) (w_term w)
            | GEvent | Eventlet => w_set w false (Draining (w_clk w)) (w_conn w) (w_need w) (w_clk w) (w_term w)
            end
        | Draining t0 =>
            if finished (w_conn w) then w_set w false Gone (w_conn w) (w_need w) (w_clk w) (w_term w)   (* nothing in flight *)
            else if w_clk w <? t0 + drain_bound (w_cls w) g then w
            else match w_cls w with
                 | GThread => w_set w false Leaving (w_conn w) (w_need w) (w_clk w) (w_term w)
                     (* futures.wait timed out; interpreter shutdown joins the pool threads *)
                 | _ => w_set w false Gone (lose (w_conn w)) (w_need w) (w_clk w) (w_term w)
                     (* gevent: server.stop kills the handlers; eventlet: the process exits under them *)
                 end
        | Leaving => if finished (w_conn w) then w_set w false Gone (w_conn w) (w_need w) (w_clk w) (w_term w) else w
        | Gone => w
        end
    | WIdleTimeout =>
        match w_cls w, w_conn w with
        | GEvent, CIdle | GEvent, CKeep | GEvent, CHead | Eventlet, CIdle | Eventlet, CKeep | Eventlet, CHead =>
            w_set w (w_alive w) (w_mode w) CLost (w_need w) (w_clk w) (w_term w)
        | _, _ => w
        end
    end
  end.

Definition wrun (g : Z) (w : wst) (es : list wev) : wst := fold_left (wstep g) es w.

(* A schedule is admissible for a graceful stop whose limit is dl (the master's `limit`: the wall clock at the start of
   stop() plus graceful_timeout) when no QUIT arrives, TERM is handled no earlier than the stop began (dl <= now + g),
   SIGKILL arrives only once the limit has passed (Proof/ShutdownMaster.v kill_not_before_limit proves that this is what
   the master does), and the client of a half-received head is not cut by the async workers' read timeout. *)
Fixpoint admissible (g dl : Z) (w : wst) (es : list wev) : Prop :=
  match es with
  | [] => True
  | e :: t =>
      (match e with
       | WQuit => False
       | WKill => dl <= w_clk w
       | WTerm => dl <= w_clk w + g
       | WIdleTimeout => w_conn w <> CHead
       | _ => True
       end) /\ admissible g dl (wstep g w e) t
  end.

Definition w_init (cl : wclass) (ph : cphase) (need keep clk : Z) : wst := mkW cl true Serving ph need clk None keep.

(* the request of the connection has been started: a handler is reading it or running it *)
Definition started (w : wst) : bool :=
  match w_conn w with
  | CHead | CApp | CResp => true
  | CIdle => match w_cls w with Sync => true | _ => false end
  | _ => false
  end.

(* outcome of the connection, for the comparison with real processes *)
Definition phase_code (p : cphase) : Z :=
  match p with CIdle => 0 | CHead => 1 | CApp => 2 | CResp => 3 | CKeep => 4 | CDone => 5 | CLost => 6 end.
Definition mode_code (m : wmode) : Z := match m with Serving => 0 | Draining _ => 1 | Leaving => 2 | Gone => 3 end.
Definition wobs (w : wst) : list Z := [phase_code (w_conn w); mode_code (w_mode w); b2z (w_alive w)].
