(* C11 - the heartbeat protocol between the master and its workers.  Definitions only.

   Master side (arbiter.py murder_workers): for every worker, compare the monotonic clock with the mtime of
   its heartbeat file; when the difference exceeds the timeout send SIGABRT the first time, SIGKILL the next.
   [murder_decision] is that decision; Model/Arbiter.v's PMurderCheck step takes exactly it
   (Proof/HeartbeatProofs.v murder_check_is_decision).

   Worker side: every worker class calls notify() once per iteration of its main loop; what bounds the time
   between two calls is the wait of that loop:
     sync      notify(); accept -> handle one request | wait(): notify(); select(timeout/2)     (sync.py)
     gthread   notify(); poller.select(1.0) | futures.wait(1.0)                                  (gthread.py)
     gevent    notify(); gevent.sleep(1.0)                                                       (ggevent.py)
     eventlet  notify(); eventlet.sleep(1.0)                                                     (geventlet.py)
   The waits are the constants regenerated in Gen/GenArbiter.v.  A worker run is a list of loop iterations
   [wev]; [notify_times] gives the instants of its notify() calls.  Scheduling latency is explicit (the [lat]
   fields): the time an iteration takes beyond its nominal wait.  Times in ticks of 1/256 s. *)
From Coq Require Import List ZArith Bool Lia.
From GV Require Import Gen.GenArbiter.
Import ListNotations.
Local Open Scope Z_scope.

Inductive action := Nothing | SigAbrt | SigKill.

Definition murder_decision (now hb tmo : Z) (aborted : bool) : action :=
  if now - hb <=? tmo then Nothing else if aborted then SigKill else SigAbrt.

(* ---- worker classes ---------------------------------------------------------------------------------- *)
Inductive wclass := Sync | GThread | Gevent | Eventlet.

(* the longest nominal wait between two notify() calls of an idle worker, given cfg.timeout in seconds *)
Definition period (c : wclass) (timeout : Z) : Z :=
  match c with
  | Sync => if timeout =? 0 then sync_default_wait_ticks
            else timeout * ticks_per_second / worker_timeout_div      (* Arbiter passes timeout / 2.0 *)
  | GThread => gthread_period_ticks
  | Gevent => gevent_period_ticks
  | Eventlet => eventlet_period_ticks
  end.

(* one iteration of a worker's main loop *)
Inductive wev :=
| Idle (lat : Z)                 (* nothing to do: the wait runs to its end, then lat ticks until the loop is back at notify() *)
| Woken (after lat : Z)          (* the wait returns after [after] <= period ticks (a connection / a finished request) *)
| Request (dur lat : Z).         (* sync only: accept() succeeded, the request is handled in the loop for dur ticks *)

(* the notify() instants of a run that starts its first iteration at time t *)
Fixpoint notify_times (c : wclass) (timeout : Z) (t : Z) (evs : list wev) : list Z :=
  match evs with
  | [] => [t]
  | e :: r =>
      match c, e with
      | Sync, Idle lat =>
          (* run_for_one: notify(); accept -> EAGAIN; wait(): notify(); select(period) *)
          t :: t :: notify_times c timeout (t + period c timeout + lat) r
      | Sync, Woken a lat => t :: t :: notify_times c timeout (t + Z.min a (period c timeout) + lat) r
      | Sync, Request d lat => t :: notify_times c timeout (t + d + lat) r
      | _, Idle lat => t :: notify_times c timeout (t + period c timeout + lat) r
      | _, Woken a lat => t :: notify_times c timeout (t + Z.min a (period c timeout) + lat) r
      | _, Request d lat => t :: notify_times c timeout (t + lat) r       (* handled by a thread / greenlet: the loop does not wait for it *)
      end
  end.

(* the time one iteration takes *)
Definition iter_len (c : wclass) (timeout : Z) (e : wev) : Z :=
  match c, e with
  | _, Idle lat => period c timeout + lat
  | _, Woken a lat => Z.min a (period c timeout) + lat
  | Sync, Request d lat => d + lat
  | _, Request d lat => lat
  end.

Definition ev_ok (e : wev) : bool :=
  match e with
  | Idle lat => 0 <=? lat
  | Woken a lat => (0 <=? a) && (0 <=? lat)
  | Request d lat => (0 <=? d) && (0 <=? lat)
  end.

(* the largest gap between two consecutive elements of a list *)
Fixpoint max_gap (l : list Z) : Z :=
  match l with
  | a :: ((b :: _) as r) => Z.max (b - a) (max_gap r)
  | _ => 0
  end.

(* the heartbeat value a scan at time t sees: the last notify() at or before t *)
Fixpoint last_before (ns : list Z) (t : Z) (dflt : Z) : Z :=
  match ns with
  | [] => dflt
  | n :: r => if n <=? t then last_before r t n else dflt
  end.

(* the slack the configuration leaves to a worker class: timeout minus the nominal wait *)
Definition slack_budget (c : wclass) (timeout : Z) : Z := timeout * ticks_per_second - period c timeout.
