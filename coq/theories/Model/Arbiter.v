(* Executable model of gunicorn/arbiter.py (class Arbiter) running against a simulated kernel.
   Definitions only; proofs are in Proof/Arbiter*.v.

   The master's code is cut at every point where it touches state that it shares with its signal
   handlers or with the kernel: the accesses to WORKERS and SIG_QUEUE made by the main code and the
   system calls fork / kill / select / sleep / getppid / the clock read of murder_workers.  A [pc] names
   the access or call that is about to happen; the label [Master] executes it together with the pure
   code up to the next such point.  Everything the environment does happens between two such points:
   [Chld] is the whole SIGCHLD handler (handle_chld -> reap_workers, atomic), [Exit] a child dying,
   [Sig] a signal reaching Arbiter.signal, [Tick] time passing, [Notify] a worker touching its
   heartbeat file, [EditCfg] the configuration source changing, [ParentDies] for a USR2-born master.
   A schedule is a list of labels; quantifying over schedules quantifies over all histories and over
   all positions of the SIGCHLD handler relative to the master's own fork/kill/wait calls.

   Time is in ticks of 1/256 s on two clocks (monotonic for heartbeats, wall for stop()).
   Not modelled: failing fork/kill (other than ESRCH), KeyboardInterrupt, cfg.daemon (WINCH is ignored),
   systemd / reuse_port, a changed bind address on reload, pid reuse by the kernel, re-entrant handlers. *)
From Coq Require Import List ZArith Bool Lia.
From GV Require Import Gen.GenArbiter.
Import ListNotations.
Local Open Scope Z_scope.

Definition tps : Z := ticks_per_second.

Record wk := mkWk { w_pid : Z; w_age : Z; w_aborted : bool; w_hb : Z }.

Inductive cstate := Running | Zombie (status : Z).
Record child := mkChild { c_pid : Z; c_st : cstate; c_sigs : list Z; c_master : bool }.

Inductive after := AExit (status : Z) | AHalt.
Inductive kacont :=
| KALoop
| KAWait (limit : Z) (a : after)
| KADone (a : after).
Inductive scont := KSpawn (n : nat) | KReload (n : nat).

Inductive pc :=
| PSigq | PSelect
| PMurderSnap | PMurderCheck (todo : list Z) | PMurderKill (p sg : Z) (todo : list Z)
| PManageLen | PSpawnCount
| PFork (age hb : Z) (k : scont) | PRegister (p age hb : Z) (k : scont) | PNap (n : nat)
| PManageSort | PManageKill (victims : list Z)
| PKillAllSnap (sg : Z) (k : kacont) | PKillAll (pids : list Z) (sg : Z) (k : kacont)
| PStopWait (limit : Z) (a : after) | PStopNap (limit : Z) (a : after)
| PForkMaster | PSetReexec (p : Z)
| PPromote
| PExited (status : Z) | PCrashed.

Record st := mkSt {
  (* the master *)
  workers : list wk;          (* WORKERS, insertion order *)
  num : Z;                    (* num_workers *)
  wage : Z;                   (* worker_age *)
  sigq : list Z;              (* SIG_QUEUE *)
  woken : bool;               (* PIPE readable *)
  hctx : bool;                (* inside the handler of a dequeued signal (wakeup() follows) *)
  reexec : Z;                 (* reexec_pid *)
  master_pid : Z;
  timeout : Z;                (* seconds *)
  graceful : Z;               (* seconds *)
  cfgw : Z;                   (* cfg.workers *)
  lopen : bool;               (* LISTENERS non-empty *)
  lunlinked : bool;           (* close_sockets was told to unlink *)
  cur : pc;
  (* the environment *)
  kids : list child;          (* process table: children of the master, fork order *)
  next_pid : Z;
  mono : Z; wall : Z;
  orphan : bool;              (* getppid() no longer returns master_pid *)
  disk_w : Z; disk_t : Z;     (* configuration source *)
  nap : Z;                    (* spawn_workers' random nap, fixed per run *)
  (* ghost *)
  sent : list (Z * Z);        (* signals delivered to running children, most recent first *)
  forks : Z
}.

Definition set_workers s x := mkSt x (num s) (wage s) (sigq s) (woken s) (hctx s) (reexec s) (master_pid s) (timeout s) (graceful s) (cfgw s) (lopen s) (lunlinked s) (cur s) (kids s) (next_pid s) (mono s) (wall s) (orphan s) (disk_w s) (disk_t s) (nap s) (sent s) (forks s).
Definition set_num s x := mkSt (workers s) x (wage s) (sigq s) (woken s) (hctx s) (reexec s) (master_pid s) (timeout s) (graceful s) (cfgw s) (lopen s) (lunlinked s) (cur s) (kids s) (next_pid s) (mono s) (wall s) (orphan s) (disk_w s) (disk_t s) (nap s) (sent s) (forks s).
Definition set_wage s x := mkSt (workers s) (num s) x (sigq s) (woken s) (hctx s) (reexec s) (master_pid s) (timeout s) (graceful s) (cfgw s) (lopen s) (lunlinked s) (cur s) (kids s) (next_pid s) (mono s) (wall s) (orphan s) (disk_w s) (disk_t s) (nap s) (sent s) (forks s).
Definition set_sigq s x := mkSt (workers s) (num s) (wage s) x (woken s) (hctx s) (reexec s) (master_pid s) (timeout s) (graceful s) (cfgw s) (lopen s) (lunlinked s) (cur s) (kids s) (next_pid s) (mono s) (wall s) (orphan s) (disk_w s) (disk_t s) (nap s) (sent s) (forks s).
Definition set_woken s x := mkSt (workers s) (num s) (wage s) (sigq s) x (hctx s) (reexec s) (master_pid s) (timeout s) (graceful s) (cfgw s) (lopen s) (lunlinked s) (cur s) (kids s) (next_pid s) (mono s) (wall s) (orphan s) (disk_w s) (disk_t s) (nap s) (sent s) (forks s).
Definition set_hctx s x := mkSt (workers s) (num s) (wage s) (sigq s) (woken s) x (reexec s) (master_pid s) (timeout s) (graceful s) (cfgw s) (lopen s) (lunlinked s) (cur s) (kids s) (next_pid s) (mono s) (wall s) (orphan s) (disk_w s) (disk_t s) (nap s) (sent s) (forks s).
Definition set_reexec s x := mkSt (workers s) (num s) (wage s) (sigq s) (woken s) (hctx s) x (master_pid s) (timeout s) (graceful s) (cfgw s) (lopen s) (lunlinked s) (cur s) (kids s) (next_pid s) (mono s) (wall s) (orphan s) (disk_w s) (disk_t s) (nap s) (sent s) (forks s).
Definition set_master_pid s x := mkSt (workers s) (num s) (wage s) (sigq s) (woken s) (hctx s) (reexec s) x (timeout s) (graceful s) (cfgw s) (lopen s) (lunlinked s) (cur s) (kids s) (next_pid s) (mono s) (wall s) (orphan s) (disk_w s) (disk_t s) (nap s) (sent s) (forks s).
Definition set_cfg s t w := mkSt (workers s) (num s) (wage s) (sigq s) (woken s) (hctx s) (reexec s) (master_pid s) t (graceful s) w (lopen s) (lunlinked s) (cur s) (kids s) (next_pid s) (mono s) (wall s) (orphan s) (disk_w s) (disk_t s) (nap s) (sent s) (forks s).
Definition set_listeners s o u := mkSt (workers s) (num s) (wage s) (sigq s) (woken s) (hctx s) (reexec s) (master_pid s) (timeout s) (graceful s) (cfgw s) o u (cur s) (kids s) (next_pid s) (mono s) (wall s) (orphan s) (disk_w s) (disk_t s) (nap s) (sent s) (forks s).
Definition set_pc s x := mkSt (workers s) (num s) (wage s) (sigq s) (woken s) (hctx s) (reexec s) (master_pid s) (timeout s) (graceful s) (cfgw s) (lopen s) (lunlinked s) x (kids s) (next_pid s) (mono s) (wall s) (orphan s) (disk_w s) (disk_t s) (nap s) (sent s) (forks s).
Definition set_kids s x := mkSt (workers s) (num s) (wage s) (sigq s) (woken s) (hctx s) (reexec s) (master_pid s) (timeout s) (graceful s) (cfgw s) (lopen s) (lunlinked s) (cur s) x (next_pid s) (mono s) (wall s) (orphan s) (disk_w s) (disk_t s) (nap s) (sent s) (forks s).
Definition set_fork s kds np f := mkSt (workers s) (num s) (wage s) (sigq s) (woken s) (hctx s) (reexec s) (master_pid s) (timeout s) (graceful s) (cfgw s) (lopen s) (lunlinked s) (cur s) kds np (mono s) (wall s) (orphan s) (disk_w s) (disk_t s) (nap s) (sent s) f.
Definition set_clock s m w := mkSt (workers s) (num s) (wage s) (sigq s) (woken s) (hctx s) (reexec s) (master_pid s) (timeout s) (graceful s) (cfgw s) (lopen s) (lunlinked s) (cur s) (kids s) (next_pid s) m w (orphan s) (disk_w s) (disk_t s) (nap s) (sent s) (forks s).
Definition set_orphan s x := mkSt (workers s) (num s) (wage s) (sigq s) (woken s) (hctx s) (reexec s) (master_pid s) (timeout s) (graceful s) (cfgw s) (lopen s) (lunlinked s) (cur s) (kids s) (next_pid s) (mono s) (wall s) x (disk_w s) (disk_t s) (nap s) (sent s) (forks s).
Definition set_disk s w t := mkSt (workers s) (num s) (wage s) (sigq s) (woken s) (hctx s) (reexec s) (master_pid s) (timeout s) (graceful s) (cfgw s) (lopen s) (lunlinked s) (cur s) (kids s) (next_pid s) (mono s) (wall s) (orphan s) w t (nap s) (sent s) (forks s).
Definition set_sent s x := mkSt (workers s) (num s) (wage s) (sigq s) (woken s) (hctx s) (reexec s) (master_pid s) (timeout s) (graceful s) (cfgw s) (lopen s) (lunlinked s) (cur s) (kids s) (next_pid s) (mono s) (wall s) (orphan s) (disk_w s) (disk_t s) (nap s) x (forks s).

Definition advance s dt := set_clock s (mono s + dt) (wall s + dt).

Definition init (w t g napt mpid : Z) : st :=
  mkSt [] w 0 [] false false 0 mpid t g w true false PManageLen [] 100 0 0 false w t napt [] 0.

(* ---- WORKERS ---------------------------------------------------------------------------------- *)
Definition find_wk (p : Z) (l : list wk) : option wk := find (fun w => w_pid w =? p) l.
Definition remove_wk (p : Z) (l : list wk) : list wk := filter (fun w => negb (w_pid w =? p)) l.
Definition wlen (s : st) : Z := Z.of_nat (length (workers s)).
Definition pids (l : list wk) : list Z := map w_pid l.

(* sorted(WORKERS.items(), key=lambda w: w[1].age): stable insertion sort on the age *)
Fixpoint insert_by_age (w : wk) (l : list wk) : list wk :=
  match l with
  | [] => [w]
  | x :: t => if w_age w <? w_age x then w :: x :: t else x :: insert_by_age w t
  end.
Definition sort_by_age (l : list wk) : list wk := fold_right insert_by_age [] l.

Definition set_aborted (p : Z) (l : list wk) : list wk :=
  map (fun w => if w_pid w =? p then mkWk (w_pid w) (w_age w) true (w_hb w) else w) l.
Definition set_hb (p t : Z) (l : list wk) : list wk :=
  map (fun w => if w_pid w =? p then mkWk (w_pid w) (w_age w) (w_aborted w) t else w) l.

(* ---- the kernel ------------------------------------------------------------------------------- *)
Definition find_kid (p : Z) (l : list child) : option child := find (fun c => c_pid c =? p) l.
Definition is_zombie (c : child) : bool := match c_st c with Zombie _ => true | Running => false end.
Definition is_running (c : child) : bool := negb (is_zombie c).
Definition status_of (c : child) : Z := match c_st c with Zombie x => x | Running => 0 end.

(* kill(p, sg): None = ESRCH; Some (table, delivered-to-a-running-process?).  SIGKILL takes effect at once. *)
Fixpoint kill_in (l : list child) (p sg : Z) : option (list child * bool) :=
  match l with
  | [] => None
  | c :: t =>
      if c_pid c =? p then
        match c_st c with
        | Zombie _ => Some (c :: t, false)
        | Running => Some (mkChild (c_pid c) (if sg =? SIGKILL then Zombie SIGKILL else Running) (sg :: c_sigs c) (c_master c) :: t, true)
        end
      else match kill_in t p sg with
           | None => None
           | Some (t', d) => Some (c :: t', d)
           end
  end.

(* Arbiter.kill_worker *)
Definition kill_worker (s : st) (p sg : Z) : st :=
  match kill_in (kids s) p sg with
  | None => set_workers s (remove_wk p (workers s))             (* ESRCH: WORKERS.pop(pid), tmp.close() *)
  | Some (k, d) => let s1 := set_kids s k in if d then set_sent s1 ((p, sg) :: sent s1) else s1
  end.

(* waitpid(-1, WNOHANG): the first zombie in fork order *)
Fixpoint first_zombie (l : list child) : option (child * list child) :=
  match l with
  | [] => None
  | c :: t => if is_zombie c then Some (c, t)
              else match first_zombie t with
                   | None => None
                   | Some (z, t') => Some (z, c :: t')
                   end
  end.

Definition exit_child (p status : Z) (l : list child) : list child :=
  map (fun c => if (c_pid c =? p) && is_running c then mkChild (c_pid c) (Zombie status) (c_sigs c) (c_master c) else c) l.

(* ---- control ------------------------------------------------------------------------------------ *)
Definition master_gone (p : pc) : bool := match p with PExited _ | PCrashed => true | _ => false end.

(* back to the top of `while True` in run() *)
Definition to_loop (s : st) : st :=
  let s1 := if hctx s then set_hctx (set_woken s true) false else s in
  set_pc s1 (if master_pid s1 =? 0 then PSigq else PPromote).

(* spawn_worker up to the fork *)
Definition begin_spawn (s : st) (k : scont) : st :=
  let s1 := set_wage s (wage s + 1) in set_pc s1 (PFork (wage s1) (mono s1) k).

(* stop(graceful) up to kill_workers' snapshot *)
Definition enter_stop (s : st) (is_graceful : bool) (a : after) : st :=
  let s1 := if lopen s then set_listeners s false ((reexec s =? 0) && (master_pid s =? 0)) else s in
  set_pc s1 (PKillAllSnap (if is_graceful then SIGTERM else SIGQUIT) (KAWait (wall s1 + graceful s1 * tps) a)).

Definition finish_stop (s : st) (a : after) : st :=
  match a with
  | AExit status => set_pc s (PExited status)
  | AHalt => enter_stop s true (AExit 0)             (* handle_int/quit: raise StopIteration -> halt() *)
  end.

Definition murder_next (s : st) (todo : list Z) : st :=
  match todo with [] => set_pc s PManageLen | _ => set_pc s (PMurderCheck todo) end.
Definition manage_kill_next (s : st) (v : list Z) : st :=
  match v with [] => to_loop s | _ => set_pc s (PManageKill v) end.
Definition killall_next (s : st) (l : list Z) (sg : Z) (k : kacont) : st :=
  match l with
  | _ :: _ => set_pc s (PKillAll l sg k)
  | [] => match k with
          | KALoop => to_loop s
          | KAWait limit a => set_pc s (PStopWait limit a)
          | KADone a => finish_stop s a
          end
  end.

Definition after_register (s : st) (k : scont) : st :=
  match k with
  | KSpawn n => set_pc s (PNap n)
  | KReload O => set_pc s PManageLen
  | KReload (S n) => begin_spawn s (KReload n)
  end.

Definition dispatch (s0 : st) (sg : Z) : st :=
  let s := set_hctx s0 true in
  if sg =? SIGHUP then
    let s1 := set_num (set_cfg s (disk_t s) (disk_w s)) (disk_w s) in
    match Z.to_nat (cfgw s1) with
    | O => set_pc s1 PManageLen
    | S n => begin_spawn s1 (KReload n)
    end
  else if sg =? SIGTERM then enter_stop s true (AExit 0)
  else if (sg =? SIGINT) || (sg =? SIGQUIT) then enter_stop s false AHalt
  else if sg =? SIGTTIN then set_pc (set_num s (num s + 1)) PManageLen
  else if sg =? SIGTTOU then (if num s <=? 1 then to_loop s else set_pc (set_num s (num s - 1)) PManageLen)
  else if sg =? SIGUSR1 then set_pc s (PKillAllSnap SIGUSR1 KALoop)
  else if sg =? SIGUSR2 then (if negb (reexec s =? 0) || negb (master_pid s =? 0) then to_loop s else set_pc s PForkMaster)
  else to_loop s.

Definition do_fork (s : st) (is_master : bool) : st * Z :=
  let p := next_pid s in
  (set_fork s (kids s ++ [mkChild p Running [] is_master]) (p + 1) (forks s + 1), p).

(* one master step: the pending access / system call and the code up to the next one *)
Definition master (s : st) : st :=
  match cur s with
  | PSigq =>
      match sigq s with
      | [] => set_pc s PSelect
      | sg :: q => dispatch (set_sigq s q) sg
      end
  | PSelect =>
      let s1 := if woken s then set_woken s false else advance s select_ticks in
      if timeout s1 =? 0 then set_pc s1 PManageLen else set_pc s1 PMurderSnap
  | PMurderSnap => murder_next s (pids (workers s))
  | PMurderCheck [] => set_pc s PManageLen
  | PMurderCheck (p :: todo) =>
      match find_wk p (workers s) with
      | None => murder_next s todo                                     (* closed heartbeat file: ValueError *)
      | Some w =>
          if mono s - w_hb w <=? timeout s * tps then murder_next s todo
          else if w_aborted w then set_pc s (PMurderKill p SIGKILL todo)
          else set_pc (set_workers s (set_aborted p (workers s))) (PMurderKill p SIGABRT todo)
      end
  | PMurderKill p sg todo => murder_next (kill_worker s p sg) todo
  | PManageLen => if wlen s <? num s then set_pc s PSpawnCount else set_pc s PManageSort
  | PSpawnCount =>
      let n := num s - wlen s in
      if n <=? 0 then set_pc s PManageSort else begin_spawn s (KSpawn (Z.to_nat n - 1))
  | PFork age hb k => let (s1, p) := do_fork s false in set_pc s1 (PRegister p age hb k)
  | PRegister p age hb k => after_register (set_workers s (workers s ++ [mkWk p age false hb])) k
  | PNap n =>
      let s1 := advance s (nap s) in
      match n with O => set_pc s1 PManageSort | S n' => begin_spawn s1 (KSpawn n') end
  | PManageSort =>
      manage_kill_next s (pids (firstn (Z.to_nat (wlen s - num s)) (sort_by_age (workers s))))
  | PManageKill [] => to_loop s
  | PManageKill (p :: v) => manage_kill_next (kill_worker s p SIGTERM) v
  | PKillAllSnap sg k => killall_next s (pids (workers s)) sg k
  | PKillAll [] sg k => killall_next s [] sg k
  | PKillAll (p :: l) sg k => killall_next (kill_worker s p sg) l sg k
  | PStopWait limit a =>
      if negb (wlen s =? 0) && (wall s <? limit) then set_pc s (PStopNap limit a)
      else set_pc s (PKillAllSnap SIGKILL (KADone a))
  | PStopNap limit a => set_pc (advance s stop_nap_ticks) (PStopWait limit a)
  | PForkMaster => let (s1, p) := do_fork s true in set_pc s1 (PSetReexec p)
  | PSetReexec p => to_loop (set_reexec s p)
  | PPromote =>
      set_pc (if negb (master_pid s =? 0) && orphan s then set_master_pid s 0 else s) PSigq
  | PExited _ | PCrashed => s
  end.

(* ---- the SIGCHLD handler --------------------------------------------------------------------- *)
(* self._stopping (the repaired tree): False in __init__, set by the FIRST statement of stop(), never cleared.  stop() is
   entered only through [enter_stop] - inside one Master step, or inside the handler when run() catches HaltServer - which
   ends at kill_workers' snapshot, and the master leaves the pcs of stop() only to enter stop() again (handle_int / quit ->
   halt) or to exit; so at every point where a handler can run the flag is true exactly at these pcs. *)
Definition in_stop (p : pc) : bool :=
  match p with
  | PKillAllSnap _ (KAWait _ _) | PKillAllSnap _ (KADone _)
  | PKillAll _ _ (KAWait _ _) | PKillAll _ _ (KADone _)
  | PStopWait _ _ | PStopNap _ _ => true
  | _ => false
  end.
Definition stopping (s : st) : bool := in_stop (cur s).

(* reap_workers: `if exitcode == self.WORKER_BOOT_ERROR [and not self._stopping]: raise HaltServer(...)`; which of the two
   forms the tree under test has is read from its source by gen_arbiter.py ([reap_guards_halting]) *)
Definition raises (s : st) : bool := negb (reap_guards_halting && stopping s).
Arguments raises : simpl never.

(* reap_workers: returns the state and the exit status of a HaltServer raised inside the handler *)
Fixpoint reap (fuel : nat) (s : st) : st * option Z :=
  match fuel with
  | O => (s, None)
  | S f =>
      match first_zombie (kids s) with
      | None => (s, None)
      | Some (z, rest) =>
          let s1 := set_kids s rest in
          if reexec s1 =? c_pid z then reap f (set_reexec s1 0)
          else
            let code := Z.shiftr (status_of z) 8 in
            if (code =? worker_boot_error) && raises s1 then (s1, Some worker_boot_error)
            else if (code =? app_load_error) && raises s1 then (s1, Some app_load_error)
            else reap f (set_workers s1 (remove_wk (c_pid z) (workers s1)))
      end
  end.

(* is the master inside the stop() called by halt()?  (an exception raised there leaves run(): nothing catches it, the
   interpreter prints the traceback and exits with status 1, the pid file stays) *)
Definition after_is_exit (a : after) : bool := match a with AExit _ => true | AHalt => false end.
Definition in_final_stop (p : pc) : bool :=
  match p with
  | PKillAllSnap _ (KAWait _ a) | PKillAllSnap _ (KADone a)
  | PKillAll _ _ (KAWait _ a) | PKillAll _ _ (KADone a)
  | PStopWait _ a | PStopNap _ a => after_is_exit a
  | _ => false
  end.

Definition chld (s : st) : st :=
  if master_gone (cur s) then s else
  match reap (S (length (kids s))) s with
  | (s1, None) => set_woken s1 true
  | (s1, Some code) =>
      if in_final_stop (cur s1) then set_pc s1 PCrashed          (* HaltServer escapes from halt(): only without the guard *)
      else enter_stop s1 true (AExit code)                        (* except HaltServer: halt(reason, status) *)
  end.

(* ---- labels ------------------------------------------------------------------------------------ *)
Inductive label :=
| Master | Chld
| Exit (p status : Z)
| Sig (sg : Z)
| Tick (dt : Z)
| Notify (p : Z)
| EditCfg (w t : Z)
| ParentDies
| ExitTold                  (* every running child that was told to stop exits with status 0 *)
| NotifyAll                 (* every running worker notifies *)
| NotifyAt (p t : Z).       (* the worker p notified at instant t <= now (its own clock read happened then) *)

Definition zmem (z : Z) (l : list Z) : bool := existsb (Z.eqb z) l.

Definition notify (s : st) (p : Z) : st :=
  match find_kid p (kids s) with
  | Some c =>
      if is_running c && negb (c_master c) then
        let s1 := set_workers s (set_hb p (mono s) (workers s)) in
        match cur s1 with
        | PRegister q age hb k => if q =? p then set_pc s1 (PRegister q age (mono s1) k) else s1
        | _ => s1
        end
      else s
  | None => s
  end.

Definition fatal (sg : Z) : bool := (sg =? SIGTERM) || (sg =? SIGQUIT) || (sg =? SIGABRT) || (sg =? SIGINT).
Definition told (c : child) : bool := is_running c && existsb fatal (c_sigs c).
Definition exit_told (s : st) : st :=
  set_kids s (map (fun c => if told c then mkChild (c_pid c) (Zombie 0) (c_sigs c) (c_master c) else c) (kids s)).

Definition live_pid (l : list child) (p : Z) : bool :=
  existsb (fun c => (c_pid c =? p) && is_running c && negb (c_master c)) l.
Definition notify_all (s : st) : st :=
  let s1 := set_workers s (map (fun w => if live_pid (kids s) (w_pid w)
                                          then mkWk (w_pid w) (w_age w) (w_aborted w) (mono s) else w) (workers s)) in
  match cur s1 with
  | PRegister q age hb k => if live_pid (kids s1) q then set_pc s1 (PRegister q age (mono s1) k) else s1
  | _ => s1
  end.

Definition notify_at (s : st) (p t : Z) : st :=
  match find_kid p (kids s) with
  | Some c =>
      if is_running c && negb (c_master c) && (t <=? mono s) then
        let s1 := set_workers s (set_hb p t (workers s)) in
        match cur s1 with
        | PRegister q age hb k => if q =? p then set_pc s1 (PRegister q age t k) else s1
        | _ => s1
        end
      else s
  | None => s
  end.

Definition step (s : st) (l : label) : st :=
  match l with
  | Master => master s
  | Chld => chld s
  | Exit p status => set_kids s (exit_child p status (kids s))
  | Sig sg =>
      if master_gone (cur s) then s
      else if zmem sg queued_signals && (Z.of_nat (length (sigq s)) <? sig_queue_max)
           then set_woken (set_sigq s (sigq s ++ [sg])) true else s
  | Tick dt => if 0 <=? dt then advance s dt else s
  | Notify p => notify s p
  | EditCfg w t => if (0 <=? w) && (0 <=? t) then set_disk s w t else s   (* the validators refuse negative values *)
  | ParentDies => set_orphan s true
  | ExitTold => exit_told s
  | NotifyAll => notify_all s
  | NotifyAt p t => notify_at s p t
  end.

Definition run (s : st) (ls : list label) : st := fold_left step ls s.

(* ---- observation (mirrors lib_arbiter.World.snap) ---------------------------------------------- *)
Definition b2z (b : bool) : Z := if b then 1 else 0.

Definition pc_code (s : st) : list Z :=
  match cur s with
  | PSigq => [1; 0; 0] | PSelect => [2; 0; 0]
  | PMurderSnap => [3; 0; 0] | PMurderCheck _ => [4; 0; 0] | PMurderKill p sg _ => [5; p; sg]
  | PManageLen => [6; 0; 0] | PSpawnCount => [6; 0; 0]
  | PFork _ _ _ => [7; 0; 0] | PRegister p _ _ _ => [8; p; 0] | PNap _ => [9; nap s; 0]
  | PManageSort => [3; 0; 0]
  | PManageKill (p :: _) => [5; p; SIGTERM] | PManageKill [] => [5; 0; 0]
  | PKillAllSnap _ _ => [10; 0; 0]
  | PKillAll (p :: _) sg _ => [5; p; sg] | PKillAll [] _ _ => [5; 0; 0]
  | PStopWait _ _ => [6; 0; 0] | PStopNap _ _ => [9; stop_nap_ticks; 0]
  | PForkMaster => [7; 0; 0] | PSetReexec p => [8; p; 0]
  | PPromote => [11; 0; 0]
  | PExited status => [12; status; 0] | PCrashed => [13; 0; 0]
  end.

Definition obs_wk (w : wk) : list Z := [w_pid w; w_age w; b2z (w_aborted w); w_hb w].
Definition obs_kid (c : child) : list Z :=
  [c_pid c; b2z (is_zombie c); status_of c; Z.of_nat (length (c_sigs c))].
Definition obs_sent (x : Z * Z) : list Z := [fst x; snd x].

Definition obs (s : st) (nsent : nat) : list Z :=
  pc_code s ++
  [num s; wage s; Z.of_nat (length (sigq s)); b2z (woken s); reexec s; master_pid s; mono s; wall s; b2z (lopen s)] ++
  (Z.of_nat (length (workers s)) :: flat_map obs_wk (workers s)) ++
  (Z.of_nat (length (kids s)) :: flat_map obs_kid (kids s)) ++
  (let new := rev (firstn (length (sent s) - nsent) (sent s)) in
   Z.of_nat (length new) :: flat_map obs_sent new).

Definition emits (l : label) : bool := match l with Master | Chld => true | _ => false end.

(* the observation after every Master and Chld label, and a final one *)
Fixpoint run_obs_from (s : st) (nsent : nat) (ls : list label) : list Z :=
  match ls with
  | [] => obs s nsent
  | l :: t =>
      let s' := step s l in
      if emits l then obs s' nsent ++ run_obs_from s' (length (sent s')) t
      else run_obs_from s' nsent t
  end.
Definition run_obs (s : st) (ls : list label) : list Z := run_obs_from s 0 ls.

(* ---- the canonical fair environment (mirrors lib_arbiter.make_settle) ---------------------------- *)
(* "once events stop": nothing happens any more except what fairness demands - workers that were told
   to stop do exit and SIGCHLD is delivered (at the top of the main loop, and in the naps of stop()),
   healthy workers keep proving liveness (before every select()). *)
Definition exit_point (p : pc) : bool := match p with PSigq | PStopNap _ _ => true | _ => false end.
Definition notify_point (p : pc) : bool := match p with PSelect => true | _ => false end.
Definition fair_env (s : st) : list label :=
  if exit_point (cur s) then
    (if existsb told (kids s) || existsb is_zombie (kids s) then [ExitTold; Chld] else [])
  else if notify_point (cur s) then [NotifyAll]
  else [].
Definition settle_step (s : st) : st := master (run s (fair_env s)).
Fixpoint settle (n : nat) (s : st) : st :=
  match n with O => s | S k => settle k (settle_step s) end.
Fixpoint settle_labels (n : nat) (s : st) : list label :=
  match n with O => [] | S k => fair_env s ++ Master :: settle_labels k (settle_step s) end.
(* a scripted schedule followed by n steps of the fair environment *)
Definition with_tail (s : st) (ls : list label) (n : nat) : list label := ls ++ settle_labels n (run s ls).
