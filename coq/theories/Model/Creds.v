(* Executable model of how a gunicorn worker gets its identity.  Definitions only; proofs are in
   Proof/CredsProofs.v, the property statements in Props/C20.v.

   Layers (bottom up):
   1. Linux process credentials: real/effective/saved uid and gid plus the supplementary group set,
      and the rules of setuid(2), setgid(2), setgroups(2) with and without CAP_SETUID/CAP_SETGID.
      "Privileged" is the classical rule euid = 0 (no file capabilities, securebits, user namespaces;
      fsuid/fsgid always follow euid/egid here and are not separate fields).
   2. The user database (passwd/group) as a record of functions [userdb]; a table-backed instance
      [db_of_tab] is what the correspondence run feeds with the live pwd/grp contents.
   3. gunicorn/config.py validate_user/validate_group (spellings), gunicorn/util.py
      set_owner_process (line by line), gunicorn/workers/workertmp.py (chown condition), gunicorn/sock.py
      UnixSocket.bind (umask + chown), gunicorn/workers/base.py Worker.init_process (call order).
   4. The spawn paths of gunicorn/arbiter.py as a process table: boot, a worker dies and is replaced,
      HUP (reload with a possibly different configuration), USR2 (a new master that boots its own
      workers), TTIN/TTOU, a master terminating.  Every new worker is made by [spawn_worker]
      (fork: credentials copied from its master; then init_process). *)
From Coq Require Import List NArith ZArith Bool Lia.
From GV Require Import Base.Enc.
Import ListNotations.
Local Open Scope Z_scope.

(* ------------------------------------------------------------------------------------------ *)
(* 1. kernel credentials                                                                      *)
(* ------------------------------------------------------------------------------------------ *)

Record creds := { ruid : Z; euid : Z; suid : Z; rgid : Z; egid : Z; sgid : Z; groups : list Z }.

Definition privileged (c : creds) : bool := euid c =? 0.

(* the supplementary set is kept as a strictly increasing list *)
Fixpoint insert (x : Z) (l : list Z) : list Z :=
  match l with
  | [] => [x]
  | y :: t => if x <? y then x :: l else if x =? y then l else y :: insert x t
  end.
Definition norm (l : list Z) : list Z := fold_right insert [] l.

Definition zmem (z : Z) (l : list Z) : bool := existsb (Z.eqb z) l.

Inductive sysres := SysOk (c : creds) | SysEPERM.

Definition with_uids (c : creds) (r e s : Z) : creds :=
  {| ruid := r; euid := e; suid := s; rgid := rgid c; egid := egid c; sgid := sgid c; groups := groups c |}.
Definition with_gids (c : creds) (r e s : Z) : creds :=
  {| ruid := ruid c; euid := euid c; suid := suid c; rgid := r; egid := e; sgid := s; groups := groups c |}.
Definition with_groups (c : creds) (g : list Z) : creds :=
  {| ruid := ruid c; euid := euid c; suid := suid c; rgid := rgid c; egid := egid c; sgid := sgid c; groups := g |}.

(* setuid(2): with CAP_SETUID all three ids are set; without it only the effective id, and only to
   the real or the saved id. *)
Definition k_setuid (u : Z) (c : creds) : sysres :=
  if privileged c then SysOk (with_uids c u u u)
  else if (u =? ruid c) || (u =? suid c) then SysOk (with_uids c (ruid c) u (suid c))
  else SysEPERM.

Definition k_setgid (g : Z) (c : creds) : sysres :=
  if privileged c then SysOk (with_gids c g g g)
  else if (g =? rgid c) || (g =? sgid c) then SysOk (with_gids c (rgid c) g (sgid c))
  else SysEPERM.

Definition k_setgroups (l : list Z) (c : creds) : sysres :=
  if privileged c then SysOk (with_groups c (norm l)) else SysEPERM.

(* ------------------------------------------------------------------------------------------ *)
(* 2. user database                                                                           *)
(* ------------------------------------------------------------------------------------------ *)

Definition name := N.      (* user names and group names are identifiers; separate name spaces *)

Record userdb := {
  pw_uid_name : Z -> option name;     (* pwd.getpwuid(uid).pw_name, None = KeyError *)
  pw_name_uid : name -> option Z;     (* pwd.getpwnam(name).pw_uid *)
  gr_name_gid : name -> option Z;     (* grp.getgrnam(name).gr_gid *)
  memberships : name -> list Z        (* gids of the groups whose member list names that user *)
}.

Record dbtab := {
  t_pw : list (Z * name);             (* passwd entries in file order: uid, user name *)
  t_gr : list (name * Z);             (* group entries: group name, gid *)
  t_mem : list (name * list Z)        (* user name -> gids of groups listing it as a member *)
}.

Fixpoint assocZ {A} (k : Z) (l : list (Z * A)) : option A :=
  match l with [] => None | (k', v) :: t => if k =? k' then Some v else assocZ k t end.
Fixpoint assocN {A} (k : N) (l : list (N * A)) : option A :=
  match l with [] => None | (k', v) :: t => if (k =? k')%N then Some v else assocN k t end.
Fixpoint rassocN (k : N) (l : list (Z * N)) : option Z :=
  match l with [] => None | (v, k') :: t => if (k =? k')%N then Some v else rassocN k t end.

Definition db_of_tab (t : dbtab) : userdb :=
  {| pw_uid_name := fun u => assocZ u (t_pw t);
     pw_name_uid := fun n => rassocN n (t_pw t);
     gr_name_gid := fun n => assocN n (t_gr t);
     memberships := fun n => match assocN n (t_mem t) with Some l => l | None => [] end |}.

(* ------------------------------------------------------------------------------------------ *)
(* 3. gunicorn code                                                                           *)
(* ------------------------------------------------------------------------------------------ *)

Inductive exn := PermissionError | UnboundLocalError | ConfigError.
(* a Python call either returns, or raises with the process in the credential state reached so far *)
Inductive outcome := Done (c : creds) | Raised (e : exn) (c : creds).

Definition lift (r : sysres) (c : creds) : outcome :=
  match r with SysOk c' => Done c' | SysEPERM => Raised PermissionError c end.
Definition bind (o : outcome) (f : creds -> outcome) : outcome :=
  match o with Done c => f c | Raised e c => Raised e c end.

Definition truthy (z : Z) : bool := negb (z =? 0).      (* `if uid:` on a Python int *)

(* the -u / -g value as the user spelled it *)
Inductive spelling :=
| SpNone                 (* not configured *)
| SpInt (z : Z)          (* an int from a config file *)
| SpDigits (z : Z)       (* a string of digits *)
| SpName (n : name).     (* a name *)

Section WithDB.
Variable db : userdb.

(* config.validate_user / validate_group; None = ConfigError *)
Definition validate_user (m : creds) (s : spelling) : option Z :=
  match s with
  | SpNone => Some (euid m)
  | SpInt z | SpDigits z => Some z
  | SpName n => pw_name_uid db n
  end.
Definition validate_group (m : creds) (s : spelling) : option Z :=
  match s with
  | SpNone => Some (egid m)
  | SpInt z | SpDigits z => Some z
  | SpName n => gr_name_gid db n
  end.

(* os.initgroups(username, gid) = setgroups(getgrouplist(username, gid)) *)
Definition getgrouplist (n : name) (g : Z) : list Z := norm (g :: memberships db n).
Definition os_initgroups (n : name) (g : Z) (c : creds) : outcome :=
  lift (k_setgroups (g :: memberships db n) c) c.

(* util.set_owner_process(uid, gid, initgroups):

     if initgroups:
         try:
             os.initgroups(get_username(uid), gid)
         except KeyError:
             os.setgroups([gid])              # no passwd entry: that user is a member of no group
     if gid != os.getgid():
         os.setgid(gid)
     if uid and uid != os.getuid():
         os.setuid(uid)                                                                       *)
Definition set_owner_process (uid gid : Z) (ig : bool) (c : creds) : outcome :=
  bind
    (if ig then
       match pw_uid_name db uid with
       | Some n => os_initgroups n gid c
       | None => lift (k_setgroups [gid] c) c
       end
     else Done c)
    (fun c1 =>
       bind (if gid =? rgid c1 then Done c1 else lift (k_setgid gid c1) c1)
            (fun c2 => if truthy uid && negb (uid =? ruid c2) then lift (k_setuid uid c2) c2 else Done c2)).

(* ---- files the worker needs after the drop ---- *)
Record file := { f_uid : Z; f_gid : Z; f_mode : Z }.     (* owner, group, permission bits *)

(* chown(2) by the master: root may do anything; an unprivileged owner may keep the owner and pick
   one of its own groups *)
Definition k_chown (m : creds) (f : file) (u g : Z) : option file :=
  if privileged m then Some {| f_uid := u; f_gid := g; f_mode := f_mode f |}
  else if (euid m =? f_uid f) && (u =? f_uid f) && ((g =? f_gid f) || (g =? egid m) || zmem g (groups m))
       then Some {| f_uid := u; f_gid := g; f_mode := f_mode f |}
  else None.

Definition created_by (m : creds) (base umask : Z) : file :=
  {| f_uid := euid m; f_gid := egid m; f_mode := Z.ldiff base umask |}.

(* WorkerTmp.__init__ (in the master, before the fork): mkstemp (0600 & ~umask), then
     if cfg.uid != os.geteuid() or cfg.gid != os.getegid(): util.chown(name, cfg.uid, cfg.gid)
   None = the chown raised *)
Definition workertmp_create (m : creds) (uid gid umask : Z) : option file :=
  let f := created_by m 384 umask in                      (* 0o600 *)
  if negb (uid =? euid m) || negb (gid =? egid m) then k_chown m f uid gid else Some f.

(* WorkerTmp.notify: os.utime(fd, (t, t)) with explicit times needs the owner (or CAP_FOWNER) *)
Definition can_utime (c : creds) (f : file) : bool := privileged c || (euid c =? f_uid f).

(* UnixSocket.bind: umask; bind (0o777 & ~umask); util.chown(path, cfg.uid, cfg.gid) - always *)
Definition unixsocket_bind (m : creds) (uid gid umask : Z) : option file :=
  k_chown m (created_by m 511 umask) uid gid.

(* connect(2) to a unix socket needs write permission on the socket file *)
Definition can_write (c : creds) (f : file) : bool :=
  if privileged c then true
  else if euid c =? f_uid f then Z.testbit (f_mode f) 7
  else if (egid c =? f_gid f) || zmem (f_gid f) (groups c) then Z.testbit (f_mode f) 4
  else Z.testbit (f_mode f) 1.

(* ---- Worker.init_process ---- *)
Inductive wstep :=
| StEnv | StSetOwner | StSeed | StPipe | StCloexec | StSignals | StReloader
| StLoadWsgi        (* self.load_wsgi(): the first application code of this worker *)
| StPostInit
| StRun.            (* self.run(): heartbeat (notify) and request handling *)

Definition init_process_steps (reload : bool) : list wstep :=
  [StEnv; StSetOwner; StSeed; StPipe; StCloexec; StSignals]
  ++ (if reload then [StReloader] else []) ++ [StLoadWsgi; StPostInit; StRun].

Inductive wevent :=
| EvOwner                          (* set_owner_process returned *)
| EvOwnerFail (e : exn)            (* ... raised: the worker dies at boot *)
| EvApp (c : creds)                (* application code runs with these credentials *)
| EvNotify (ok : bool).            (* heartbeat touch *)

Record wstate := { w_creds : creds; w_log : list wevent; w_dead : bool }.

Fixpoint exec_steps (uid gid : Z) (ig : bool) (tmp : file) (steps : list wstep) (w : wstate) : wstate :=
  match steps with
  | [] => w
  | st :: t =>
    if w_dead w then w else
    match st with
    | StSetOwner =>
      match set_owner_process uid gid ig (w_creds w) with
      | Done c' => exec_steps uid gid ig tmp t {| w_creds := c'; w_log := w_log w ++ [EvOwner]; w_dead := false |}
      | Raised e c' => {| w_creds := c'; w_log := w_log w ++ [EvOwnerFail e]; w_dead := true |}
      end
    | StLoadWsgi =>
      exec_steps uid gid ig tmp t {| w_creds := w_creds w; w_log := w_log w ++ [EvApp (w_creds w)]; w_dead := false |}
    | StRun =>
      if can_utime (w_creds w) tmp
      then exec_steps uid gid ig tmp t
             {| w_creds := w_creds w; w_log := w_log w ++ [EvNotify true; EvApp (w_creds w)]; w_dead := false |}
      else {| w_creds := w_creds w; w_log := w_log w ++ [EvNotify false]; w_dead := true |}
    | _ => exec_steps uid gid ig tmp t w
    end
  end.

Definition init_process (uid gid : Z) (ig reload : bool) (tmp : file) (c : creds) : wstate :=
  exec_steps uid gid ig tmp (init_process_steps reload) {| w_creds := c; w_log := []; w_dead := false |}.

(* ------------------------------------------------------------------------------------------ *)
(* 4. the arbiter's spawn paths                                                               *)
(* ------------------------------------------------------------------------------------------ *)

Record cfg := { c_uid : Z; c_gid : Z; c_ig : bool; c_umask : Z; c_reload : bool; c_workers : nat }.

Inductive role := Master | Worker.
Record proc := {
  p_role : role;
  p_alive : bool;
  p_parent : nat;            (* index of the master that forked this process (a first master: itself) *)
  p_creds : creds;
  p_cfg : cfg;               (* master: configuration in force; worker: configuration it was spawned under *)
  p_log : list wevent
}.
Definition sys := list proc.       (* index in the list = order of creation *)

Definition is_master (p : proc) := match p_role p with Master => true | Worker => false end.
Definition set_nth (i : nat) (x : proc) (l : sys) : sys := firstn i l ++ x :: skipn (S i) l.
Definition kill_proc (p : proc) : proc :=
  {| p_role := p_role p; p_alive := false; p_parent := p_parent p; p_creds := p_creds p; p_cfg := p_cfg p; p_log := p_log p |}.
Definition set_cfg (p : proc) (k : cfg) : proc :=
  {| p_role := p_role p; p_alive := p_alive p; p_parent := p_parent p; p_creds := p_creds p; p_cfg := k; p_log := p_log p |}.

(* Arbiter.spawn_worker of master [m]: WorkerTmp is created in the master, fork copies the master's
   credentials, the child runs init_process.  When the chown of the heartbeat file raises, no worker
   is forked. *)
Definition spawn_worker (s : sys) (m : nat) : sys :=
  match nth_error s m with
  | Some mp =>
    let k := p_cfg mp in
    match workertmp_create (p_creds mp) (c_uid k) (c_gid k) (c_umask k) with
    | Some tmp =>
      let w := init_process (c_uid k) (c_gid k) (c_ig k) (c_reload k) tmp (p_creds mp) in
      s ++ [{| p_role := Worker; p_alive := negb (w_dead w); p_parent := m; p_creds := w_creds w;
               p_cfg := k; p_log := w_log w |}]
    | None => s
    end
  | None => s
  end.

Fixpoint spawn_n (n : nat) (s : sys) (m : nat) : sys :=
  match n with O => s | S k => spawn_n k (spawn_worker s m) m end.

Definition live_worker_of (m : nat) (p : proc) : bool :=
  negb (is_master p) && p_alive p && Nat.eqb (p_parent p) m.
Definition count_workers (s : sys) (m : nat) : nat := length (filter (live_worker_of m) s).

(* kill the [n] oldest live workers of master [m] *)
Fixpoint kill_oldest (n : nat) (m : nat) (s : sys) : sys :=
  match s with
  | [] => []
  | p :: t => match n with
              | O => s
              | S k => if live_worker_of m p then kill_proc p :: kill_oldest k m t else p :: kill_oldest n m t
              end
  end.

(* Arbiter.manage_workers *)
Definition manage (s : sys) (m : nat) : sys :=
  match nth_error s m with
  | Some mp =>
    let want := c_workers (p_cfg mp) in
    let have := count_workers s m in
    if Nat.ltb have want then spawn_n (want - have) s m else kill_oldest (have - want) m s
  | None => s
  end.

Definition live_master (s : sys) (m : nat) : bool :=
  match nth_error s m with Some p => is_master p && p_alive p | None => false end.
Definition has_live_child_master (s : sys) (m : nat) : bool :=
  existsb (fun ip => let '(i, p) := ip in is_master p && p_alive p && Nat.eqb (p_parent p) m && negb (Nat.eqb i m))
          (combine (seq 0 (length s)) s).

(* a re-executed master ignores USR2 while the master that forked it is still there *)
Definition parent_master_alive (s : sys) (m : nat) (mp : proc) : bool :=
  negb (Nat.eqb (p_parent mp) m) && live_master s (p_parent mp).

Inductive sevent :=
| SKillWorker (i : nat)            (* worker i dies (any reason); its master replaces it *)
| SHup (m : nat) (k : cfg)         (* reload: configuration re-read (k), new workers, old ones stopped *)
| SUsr2 (m : nat) (k : cfg)        (* upgrade: fork + exec of a new master, which reads the configuration (k) and boots its own workers *)
| STtin (m : nat)
| STtou (m : nat)
| STerm (m : nat).                 (* master m and its workers exit *)

Definition set_workers (k : cfg) (n : nat) : cfg :=
  {| c_uid := c_uid k; c_gid := c_gid k; c_ig := c_ig k; c_umask := c_umask k; c_reload := c_reload k; c_workers := n |}.

Definition step (s : sys) (e : sevent) : sys :=
  match e with
  | SKillWorker i =>
    match nth_error s i with
    | Some p => if negb (is_master p) && p_alive p
                then let s1 := set_nth i (kill_proc p) s in
                     if live_master s1 (p_parent p) then manage s1 (p_parent p) else s1
                else s
    | None => s
    end
  | SHup m k =>
    match nth_error s m with
    | Some mp => if live_master s m
                 then let s1 := set_nth m (set_cfg mp k) s in
                      manage (spawn_n (c_workers k) s1 m) m
                 else s
    | None => s
    end
  | SUsr2 m k =>
    match nth_error s m with
    | Some mp => if live_master s m && (negb (has_live_child_master s m) && negb (parent_master_alive s m mp))
                 then let m' := length s in
                      spawn_n (c_workers k)
                        (s ++ [{| p_role := Master; p_alive := true; p_parent := m; p_creds := p_creds mp;
                                  p_cfg := k; p_log := [] |}]) m'
                 else s
    | None => s
    end
  | STtin m =>
    match nth_error s m with
    | Some mp => if live_master s m
                 then manage (set_nth m (set_cfg mp (set_workers (p_cfg mp) (S (c_workers (p_cfg mp))))) s) m
                 else s
    | None => s
    end
  | STtou m =>
    match nth_error s m with
    | Some mp => if live_master s m && Nat.ltb 1 (c_workers (p_cfg mp))
                 then manage (set_nth m (set_cfg mp (set_workers (p_cfg mp) (pred (c_workers (p_cfg mp))))) s) m
                 else s
    | None => s
    end
  | STerm m =>
    if live_master s m
    then map (fun ip => let '(i, p) := ip in
                        if Nat.eqb i m || live_worker_of m p then kill_proc p else p)
             (combine (seq 0 (length s)) s)
    else s
  end.

Definition boot (c0 : creds) (k : cfg) : sys :=
  spawn_n (c_workers k)
    [{| p_role := Master; p_alive := true; p_parent := O; p_creds := c0; p_cfg := k; p_log := [] |}] O.

Definition run (s : sys) (evs : list sevent) : sys := fold_left step evs s.

End WithDB.

(* ------------------------------------------------------------------------------------------ *)
(* observations (flat list Z), mirrored by harness/props/c20.py                               *)
(* ------------------------------------------------------------------------------------------ *)

Definition enc_creds (c : creds) : list Z :=
  [ruid c; euid c; suid c; rgid c; egid c; sgid c] ++ enc_list enc_Z (groups c).

Definition exn_code (e : exn) : Z :=
  match e with PermissionError => 1 | UnboundLocalError => 2 | ConfigError => 3 end.

(* a call that raises kills the worker: only the exception class is observed, not the credentials it died with *)
Definition obs_outcome (o : outcome) : list Z :=
  match o with Done c => 0 :: enc_creds c | Raised e _ => [exn_code e] end.

Definition mk (ru eu su rg eg sg : Z) (gs : list Z) : creds :=
  {| ruid := ru; euid := eu; suid := su; rgid := rg; egid := eg; sgid := sg; groups := gs |}.

(* one cell of the identity matrix: spellings -> Config -> set_owner_process *)
Definition obs_cell (t : dbtab) (m : creds) (us gs : spelling) (ig : bool) : list Z :=
  let db := db_of_tab t in
  match validate_user db m us, validate_group db m gs with
  | Some u, Some g => obs_outcome (set_owner_process db u g ig m)
  | _, _ => [exn_code ConfigError]
  end.

Definition enc_wevent (e : wevent) : list Z :=
  match e with
  | EvOwner => [1]
  | EvOwnerFail x => [2; exn_code x]
  | EvApp c => 3 :: enc_creds c
  | EvNotify ok => [4; if ok then 1 else 0]
  end.

Definition enc_file (f : option file) : list Z :=
  match f with None => [0] | Some f => [1; f_uid f; f_gid f; f_mode f] end.

(* a worker built in a root process and run through init_process: heartbeat file, event log *)
Definition obs_worker (t : dbtab) (m : creds) (uid gid : Z) (ig reload : bool) (umask : Z) : list Z :=
  let db := db_of_tab t in
  match workertmp_create m uid gid umask with
  | None => [0]
  | Some tmp =>
    let w := init_process db uid gid ig reload tmp m in
    enc_file (Some tmp) ++ enc_list enc_wevent (w_log w) ++ (if w_dead w then [] else enc_creds (w_creds w))
  end.

(* the unix socket: owner/group/mode after bind, and whether the dropped worker identity may connect *)
Definition obs_socket (t : dbtab) (m : creds) (uid gid : Z) (ig : bool) (umask : Z) : list Z :=
  let db := db_of_tab t in
  match unixsocket_bind m uid gid umask with
  | None => [0]
  | Some f =>
    enc_file (Some f) ++
    match set_owner_process db uid gid ig m with
    | Done c => [1; if can_write c f then 1 else 0]
    | Raised e _ => [2; exn_code e]
    end
  end.

(* the process table after a history: every live master in creation order with its live workers in
   creation order; per worker its credentials and those its first application code ran with *)
Fixpoint first_app (l : list wevent) : option creds :=
  match l with [] => None | EvApp c :: _ => Some c | _ :: t => first_app t end.
Definition enc_worker (p : proc) : list Z :=
  enc_creds (p_creds p) ++ enc_opt enc_creds (first_app (p_log p)).
Definition enc_master (s : sys) (ip : nat * proc) : list Z :=
  let '(i, p) := ip in
  if is_master p && p_alive p
  then enc_creds (p_creds p) ++ enc_list enc_worker (filter (live_worker_of i) s)
  else [].
Definition obs_sys (s : sys) : list Z :=
  Z.of_nat (length (filter (fun p => is_master p && p_alive p) s))
  :: flat_map (enc_master s) (combine (seq 0 (length s)) s).
Definition obs_history (t : dbtab) (c0 : creds) (k : cfg) (evs : list sevent) : list Z :=
  obs_sys (run (db_of_tab t) (boot (db_of_tab t) c0 k) evs).
