(* Executable model of gunicorn's configuration loading (C16):
     gunicorn/config.py   Config.__init__ / make_settings / Setting.__init__ / Setting.set / Config.set /
                          Config.parser / Setting.add_option / get_cmd_args_from_env / auto_int
     gunicorn/app/base.py Application.load_config, load_config_from_module_name_or_filename
     gunicorn/app/wsgiapp.py WSGIApplication.init / load_config
   plus the two library layers that decide what the command line and GUNICORN_CMD_ARGS "mention":
     argparse.ArgumentParser.parse_args (CPython 3.12) for the parser that Config.parser() builds
     shlex.split (posix mode).
   Definitions only; proofs are in Proof/ConfigProofs.v.

   External behaviour enters as Section variables: the validated-value type, the per-setting validator
   ([validate i r = None] = the validator raised), Python's None as a validated value.  The settings
   table [tbl] and the parser's extra option strings come from theories/Gen/GenConfig.v, regenerated
   from the tree under test on every run.

   Not modelled (the model answers [OutOfModel], never a normal-looking result): argv / environment
   strings with characters outside printable ASCII (the environment string may also contain TAB, CR,
   LF), a literal "--" argument, --paste on the command line (needs PasteDeploy and the file system),
   non-ASCII keys in the framework dict, an [append] option whose argparse default is neither None nor
   a list of strings. *)
From Coq Require Import List NArith ZArith Bool Arith.
From GV Require Import Base.Enc Base.Dec.
Import ListNotations.

(* ------------------------------------------------------------------------------------------- *)
(* strings (lists of code points) and raw (unvalidated) Python values                            *)
(* ------------------------------------------------------------------------------------------- *)
Definition str := list N.

Fixpoint str_eqb (a b : str) : bool :=
  match a, b with
  | [], [] => true
  | x :: a', y :: b' => N.eqb x y && str_eqb a' b'
  | _, _ => false
  end.

Fixpoint strs_eqb (a b : list str) : bool :=
  match a, b with
  | [], [] => true
  | x :: a', y :: b' => str_eqb x y && strs_eqb a' b'
  | _, _ => false
  end.

(* s.startswith(p) *)
Fixpoint starts_with (p s : str) : bool :=
  match p, s with
  | [], _ => true
  | x :: p', y :: s' => N.eqb x y && starts_with p' s'
  | _ :: _, [] => false
  end.

Definition mem_char (c : N) (s : str) : bool := existsb (N.eqb c) s.

(* s.split(c, 1) when c occurs in s *)
Fixpoint split_at (c : N) (s : str) : option (str * str) :=
  match s with
  | [] => None
  | x :: t => if N.eqb x c then Some ([], t)
              else match split_at c t with Some (a, b) => Some (x :: a, b) | None => None end
  end.

(* str.lower() on ASCII text *)
Definition lower_char (c : N) : N := if (N.leb 65 c && N.leb c 90)%bool then (c + 32)%N else c.
Definition lower (s : str) : str := map lower_char s.

Definition is_nil {A} (l : list A) : bool := match l with [] => true | _ => false end.

Inductive raw :=
| RNone
| RBool (b : bool)
| RInt (z : Z)
| RStr (s : str)
| RStrs (l : list str)          (* list of strings (what action="append" builds) *)
| ROpaque (t : N).              (* any other object (dict, callable, class, tuple, ...), by identity *)

Definition raw_eqb (a b : raw) : bool :=
  match a, b with
  | RNone, RNone => true
  | RBool x, RBool y => Bool.eqb x y
  | RInt x, RInt y => Z.eqb x y
  | RStr x, RStr y => str_eqb x y
  | RStrs x, RStrs y => strs_eqb x y
  | ROpaque x, ROpaque y => N.eqb x y
  | _, _ => false
  end.

Definition is_rnone (r : raw) : bool := match r with RNone => true | _ => false end.

(* bool(v) *)
Definition truthy (r : raw) : bool :=
  match r with
  | RNone => false
  | RBool b => b
  | RInt z => negb (Z.eqb z 0)
  | RStr s => negb (is_nil s)
  | RStrs l => negb (is_nil l)
  | ROpaque _ => true
  end.

(* ------------------------------------------------------------------------------------------- *)
(* the settings table (one row per class in KNOWN_SETTINGS, in that order)                       *)
(* ------------------------------------------------------------------------------------------- *)
Inductive action := AStore | AStoreConst | AAppend.     (* store_true/store_false are store_const *)
Inductive argtype := TStr | TInt | TAutoInt.

Record setting := {
  s_name : str;
  s_flags : list str;        (* option strings of the argparse action; [] = not on the command line *)
  s_action : action;
  s_type : argtype;          (* the action's type (identity / str, int, gunicorn.config.auto_int) *)
  s_const : raw;             (* the action's const *)
  s_argdefault : raw;        (* the action's default, i.e. what add_option passes as "default" *)
  s_default : raw            (* the class attribute `default` *)
}.

(* ------------------------------------------------------------------------------------------- *)
(* Python int(text, 0) and gunicorn.config.auto_int on printable ASCII                           *)
(* ------------------------------------------------------------------------------------------- *)
Definition digit_val (c : N) : option N :=
  if (N.leb 48 c && N.leb c 57)%bool then Some (c - 48)%N
  else if (N.leb 97 c && N.leb c 122)%bool then Some (c - 87)%N
  else if (N.leb 65 c && N.leb c 90)%bool then Some (c - 55)%N
  else None.

(* digits of the given base with single underscores between digits *)
Fixpoint digits_b (base a : N) (prev_us : bool) (l : str) : option N :=
  match l with
  | [] => if prev_us then None else Some a
  | c :: t =>
      match digit_val c with
      | Some d => if N.ltb d base then digits_b base (a * base + d)%N false t
                  else None
      | None => if (N.eqb c 95 && negb prev_us)%bool then digits_b base a true t else None
      end
  end.

(* at least one digit first *)
Definition nat_b (base : N) (l : str) : option N :=
  match l with
  | c :: _ => match digit_val c with
              | Some d => if N.ltb d base then digits_b base 0 false l else None
              | None => None
              end
  | [] => None
  end.

(* the unsigned part of a base-0 literal *)
Definition lit0 (l : str) : option N :=
  match l with
  | 48%N :: x :: t =>
      let after_prefix (base : N) :=
        match t with
        | 95%N :: t' => nat_b base t'          (* one underscore may follow the prefix *)
        | _ => nat_b base t
        end in
      if (N.eqb x 120 || N.eqb x 88)%bool then after_prefix 16%N
      else if (N.eqb x 111 || N.eqb x 79)%bool then after_prefix 8%N
      else if (N.eqb x 98 || N.eqb x 66)%bool then after_prefix 2%N
      else nat_b 1 l                            (* "00", "0_0": zeros only *)
  | [48%N] => Some 0%N
  | _ => match l with
         | 48%N :: _ => None
         | _ => nat_b 10 l
         end
  end.

Definition py_int0 (l : str) : option Z :=
  if existsb (fun c => N.leb 128 c) l then None else
  match strip_ws l with
  | [] => None
  | c :: t => if N.eqb c 43 then option_map Z.of_N (lit0 t)
              else if N.eqb c 45 then option_map (fun n => Z.opp (Z.of_N n)) (lit0 t)
              else option_map Z.of_N (lit0 (c :: t))
  end.

(* def auto_int(_, x): if re.match(r'0(\d)', x): x = x.replace('0', '0o', 1); return int(x, 0) *)
Definition auto_int (x : str) : option Z :=
  match x with
  | 48%N :: d :: t => if is_digit d then py_int0 (48%N :: 111%N :: d :: t) else py_int0 x
  | _ => py_int0 x
  end.

Definition convert (t : argtype) (a : str) : option raw :=
  match t with
  | TStr => Some (RStr a)
  | TInt => option_map RInt (py_int a)
  | TAutoInt => option_map RInt (auto_int a)
  end.

(* ------------------------------------------------------------------------------------------- *)
(* shlex.split(s)  (posix=True, comments=False, whitespace_split=True)                           *)
(* ------------------------------------------------------------------------------------------- *)
Inductive shstate :=
| ShSpace                       (* state ' ' : between tokens *)
| ShWord                        (* state 'a' *)
| ShQuote (q : N)               (* inside '...' or "..." *)
| ShEsc (back : option N).      (* after a backslash; back = escapedstate ('a' = None, or the quote) *)

Definition is_sh_ws (c : N) : bool := (N.eqb c 32 || N.eqb c 9 || N.eqb c 13 || N.eqb c 10)%bool.
Definition is_sh_quote (c : N) : bool := (N.eqb c 39 || N.eqb c 34)%bool.

(* tok is the current token reversed, acc the finished tokens reversed; None = ValueError *)
Fixpoint shlex_go (l : str) (st : shstate) (tok : str) (quoted : bool) (acc : list str) : option (list str) :=
  match l with
  | [] =>
      match st with
      | ShSpace => Some (rev acc)
      | ShWord => if (negb (is_nil tok) || quoted)%bool then Some (rev (rev tok :: acc)) else Some (rev acc)
      | ShQuote _ => None                         (* No closing quotation *)
      | ShEsc _ => None                           (* No escaped character *)
      end
  | c :: t =>
      match st with
      | ShSpace =>
          if is_sh_ws c then shlex_go t ShSpace [] false acc
          else if N.eqb c 92 then shlex_go t (ShEsc None) [] false acc
          else if is_sh_quote c then shlex_go t (ShQuote c) [] true acc
          else shlex_go t ShWord [c] false acc
      | ShQuote q =>
          if N.eqb c q then shlex_go t ShWord tok quoted acc
          else if (N.eqb c 92 && N.eqb q 34)%bool then shlex_go t (ShEsc (Some q)) tok quoted acc
          else shlex_go t (ShQuote q) (c :: tok) quoted acc
      | ShEsc back =>
          match back with
          | None => shlex_go t ShWord (c :: tok) quoted acc
          | Some q =>
              let tok' := if (negb (N.eqb c 92) && negb (N.eqb c q))%bool then c :: 92%N :: tok else c :: tok in
              shlex_go t (ShQuote q) tok' quoted acc
          end
      | ShWord =>
          if is_sh_ws c then
            (if (negb (is_nil tok) || quoted)%bool then shlex_go t ShSpace [] false (rev tok :: acc)
             else shlex_go t ShSpace [] false acc)
          else if is_sh_quote c then shlex_go t (ShQuote c) tok true acc
          else if N.eqb c 92 then shlex_go t (ShEsc None) tok quoted acc
          else shlex_go t ShWord (c :: tok) quoted acc
      end
  end.

Definition shlex_split (s : str) : option (list str) := shlex_go s ShSpace [] false [].

(* ------------------------------------------------------------------------------------------- *)
(* argparse for the parser built by Config.parser()                                              *)
(* ------------------------------------------------------------------------------------------- *)
Inductive target := TgExit | TgSet (i : nat).     (* -h/--help/-v/--version print and exit 0 *)

Fixpoint optmap_from (i : nat) (tbl : list setting) : list (str * target) :=
  match tbl with
  | [] => []
  | s :: t => map (fun f => (f, TgSet i)) (s_flags s) ++ optmap_from (S i) t
  end.

(* parser._option_string_actions *)
Definition optmap (extra : list str) (tbl : list setting) : list (str * target) :=
  map (fun f => (f, TgExit)) extra ++ optmap_from 0 tbl.

Fixpoint assoc {B} (k : str) (l : list (str * B)) : option B :=
  match l with
  | [] => None
  | (k', v) :: t => if str_eqb k' k then Some v else assoc k t
  end.

(* result of ArgumentParser._parse_optional *)
Inductive cls :=
| CPos                                                       (* 'A' *)
| COpt (t : option target) (flag : str) (explicit : option str)   (* 'O'; t = None: no such option *)
| CAmbig.                                                    (* "ambiguous option" error *)

(* ArgumentParser._get_option_tuples, for an argument of at least two characters starting with '-' *)
Definition option_tuples (om : list (str * target)) (a : str) : list (str * target * option str) :=
  match a with
  | c0 :: c1 :: rest =>
      if N.eqb c1 45 then
        (* two prefix characters: only split at '=' ; any option string starting with the prefix matches *)
        let pe := match split_at 61 a with Some (p, e) => (p, Some e) | None => (a, None) end in
        flat_map (fun ft => if starts_with (fst pe) (fst ft) then [(fst ft, snd ft, snd pe)] else []) om
      else
        (* a single-dash option may be concatenated with its argument *)
        flat_map (fun ft => if str_eqb (fst ft) [c0; c1] then [(fst ft, snd ft, Some rest)]
                            else if starts_with a (fst ft) then [(fst ft, snd ft, None)] else []) om
  | _ => []
  end.

Definition is_ascii_digit (c : N) : bool := (N.leb 48 c && N.leb c 57)%bool.

(* '^-\d+$|^-\d*\.\d+$' on printable ASCII *)
Definition is_negative_number (a : str) : bool :=
  match a with
  | 45%N :: t =>
      (negb (is_nil t) && forallb is_ascii_digit t)
      || match split_at 46 t with
         | Some (p, q) => forallb is_ascii_digit p && negb (is_nil q) && forallb is_ascii_digit q
         | None => false
         end
  | _ => false
  end.

Definition parse_optional (om : list (str * target)) (a : str) : cls :=
  match a with
  | [] => CPos
  | c :: rest =>
      if negb (N.eqb c 45) then CPos else
      match assoc a om with
      | Some t => COpt (Some t) a None
      | None =>
          if is_nil rest then CPos else
          let by_eq := match split_at 61 a with
                       | Some (o, e) => match assoc o om with Some t => Some (COpt (Some t) o (Some e)) | None => None end
                       | None => None
                       end in
          match by_eq with
          | Some r => r
          | None =>
              match option_tuples om a with
              | _ :: _ :: _ => CAmbig
              | [(f, t, e)] => COpt (Some t) f e
              | [] => if is_negative_number a then CPos
                      else if mem_char 32 a then CPos
                      else COpt None a None
              end
          end
      end
  end.

(* one recognised option occurrence: which action fires, with which argument string *)
Definition occ := (target * option str)%type.

Definition arity (tbl : list setting) (t : target) : nat :=
  match t with
  | TgExit => 0
  | TgSet i => match nth_error tbl i with
               | Some s => match s_action s with AStoreConst => 0 | _ => 1 end
               | None => 0
               end
  end.

(* the while-loop of consume_optional for an option that came with an explicit argument e;
   returns the actions collected so far and the last (action, explicit argument), None = ArgumentError *)
Fixpoint cluster (tbl : list setting) (om : list (str * target)) (e : str) (t : target) (flag : str)
  : option (list occ * target * option str) :=
  match arity tbl t with
  | 0 =>
      match flag, e with
      | _ :: f1 :: _, c :: e' =>
          if N.eqb f1 45 then None                      (* --flag=x on a flag without argument *)
          else match assoc [45%N; c] om with
               | Some t' =>
                   match e' with
                   | [] => Some ([(t, None)], t', None)
                   | _ => match cluster tbl om e' t' [45%N; c] with
                          | Some (occs, tl, el) => Some ((t, None) :: occs, tl, el)
                          | None => None
                          end
                   end
               | None => None                           (* ignored explicit argument *)
               end
      | _, _ => None                                    (* explicit argument '' *)
      end
  | _ => Some ([], t, Some e)
  end.

Inductive pos_state := PNone | PCollecting (acc : list str) | PDone (l : list str).

Definition close_pos (p : pos_state) : pos_state :=
  match p with PCollecting acc => PDone acc | _ => p end.

Record collected := {
  k_occs : list occ;       (* action occurrences, in the order take_action sees them *)
  k_err : bool;            (* an ArgumentError was raised after those *)
  k_pos : pos_state;
  k_extras : bool          (* unrecognised arguments *)
}.

Definition k_cons (o : list occ) (k : collected) : collected :=
  {| k_occs := o ++ k_occs k; k_err := k_err k; k_pos := k_pos k; k_extras := k_extras k |}.
Definition k_extra (k : collected) : collected :=
  {| k_occs := k_occs k; k_err := k_err k; k_pos := k_pos k; k_extras := true |}.
Definition k_fail (p : pos_state) : collected :=
  {| k_occs := []; k_err := true; k_pos := p; k_extras := false |}.

(* the main loop of _parse_known_args over the classified arguments *)
Fixpoint collect (tbl : list setting) (om : list (str * target)) (l : list (str * cls)) (p : pos_state) : collected :=
  match l with
  | [] => {| k_occs := []; k_err := false; k_pos := close_pos p; k_extras := false |}
  | (a, CPos) :: rest =>
      match p with
      | PNone => collect tbl om rest (PCollecting [a])
      | PCollecting acc => collect tbl om rest (PCollecting (acc ++ [a]))
      | PDone _ => k_extra (collect tbl om rest p)
      end
  | (a, CAmbig) :: rest => k_fail p                  (* excluded earlier: classification fails as a whole *)
  | (a, COpt None _ _) :: rest => k_extra (collect tbl om rest (close_pos p))
  | (a, COpt (Some t) flag explicit) :: rest =>
      let p' := close_pos p in
      let finish (pre : list occ) (tl : target) (el : option str) :=
        match arity tbl tl, el with
        | 0, None => k_cons (pre ++ [(tl, None)]) (collect tbl om rest p')
        | 0, Some _ => k_fail p'
        | _, Some e => k_cons (pre ++ [(tl, Some e)]) (collect tbl om rest p')
        | _, None =>
            match rest with
            | (b, CPos) :: rest' => k_cons (pre ++ [(tl, Some b)]) (collect tbl om rest' p')
            | _ => k_fail p'                            (* expected one argument *)
            end
        end in
      match explicit with
      | None => finish [] t None
      | Some e =>
          match cluster tbl om e t flag with
          | Some (pre, tl, el) => finish pre tl el
          | None => k_fail p'
          end
      end
  end.

Fixpoint upd {A} (i : nat) (x : A) (l : list A) : list A :=
  match l, i with
  | [], _ => []
  | _ :: t, O => x :: t
  | h :: t, S j => h :: upd j x t
  end.

Inductive occ_result := OOk (ns : list raw) | OExit | OErr | OOut.

(* take_action for one occurrence *)
Definition apply_occ (tbl : list setting) (ns : list raw) (o : occ) : occ_result :=
  match o with
  | (TgExit, _) => OExit
  | (TgSet i, arg) =>
      match nth_error tbl i with
      | None => OOut
      | Some s =>
          match s_action s, arg with
          | AStore, Some a => match convert (s_type s) a with
                              | Some r => OOk (upd i r ns)
                              | None => OErr             (* invalid int value *)
                              end
          | AStoreConst, None => OOk (upd i (s_const s) ns)
          | AAppend, Some a =>
              match nth i ns RNone with
              | RNone => OOk (upd i (RStrs [a]) ns)
              | RStrs l => OOk (upd i (RStrs (l ++ [a])) ns)
              | _ => OOut
              end
          | _, _ => OOut
          end
      end
  end.

Fixpoint run_occs (tbl : list setting) (ns : list raw) (l : list occ) : occ_result :=
  match l with
  | [] => OOk ns
  | o :: t => match apply_occ tbl ns o with
              | OOk ns' => run_occs tbl ns' t
              | r => r
              end
  end.

(* the namespace before parsing: one slot per setting; a setting that is not on the command line has
   no attribute at all, which the loading code never sees - represented as None *)
Definition init_ns (tbl : list setting) : list raw :=
  map (fun s => if is_nil (s_flags s) then RNone else s_argdefault s) tbl.

Inductive presult := POk (ns : list raw) (pos : list str) | PUsage | PHelp | POut.

Definition printable (c : N) : bool := (N.leb 32 c && N.leb c 126)%bool.
Definition dashdash : str := [45%N; 45%N].

Fixpoint classify (om : list (str * target)) (l : list str) : option (list (str * cls)) :=
  match l with
  | [] => Some []
  | a :: t => match parse_optional om a with
              | CAmbig => None
              | c => match classify om t with Some r => Some ((a, c) :: r) | None => None end
              end
  end.

Definition argparse (extra : list str) (tbl : list setting) (argv : list str) : presult :=
  if negb (forallb (forallb printable) argv) then POut else
  if existsb (str_eqb dashdash) argv then POut else
  let om := optmap extra tbl in
  match classify om argv with
  | None => PUsage
  | Some cl =>
      let k := collect tbl om cl PNone in
      match run_occs tbl (init_ns tbl) (k_occs k) with
      | OExit => PHelp
      | OErr => PUsage
      | OOut => POut
      | OOk ns => if (k_err k || k_extras k)%bool then PUsage
                  else POk ns (match k_pos k with PDone l => l | PCollecting l => l | PNone => [] end)
      end
  end.

(* ------------------------------------------------------------------------------------------- *)
(* Config and Application.load_config                                                            *)
(* ------------------------------------------------------------------------------------------- *)
Definition items := list (str * raw).     (* a dict / module namespace, in iteration order *)

Record input := {
  i_argv : list str;                        (* sys.argv[1:] *)
  i_dict : items;                           (* what the framework's init() returns ([] = None / {}) *)
  i_env : option str;                       (* GUNICORN_CMD_ARGS *)
  i_files : list (str * items);             (* readable configuration files, by the name used to open them *)
  i_modules : list (str * items);           (* importable modules, for "python:NAME" *)
  i_default_file : option items             (* gunicorn.conf.py in the working directory *)
}.

Definition n_config : str := [99;111;110;102;105;103]%N.
Definition n_paste : str := [112;97;115;116;101]%N.
Definition n_wsgi_app : str := [119;115;103;105;95;97;112;112]%N.
Definition n_default_proc_name : str := [100;101;102;97;117;108;116;95;112;114;111;99;95;110;97;109;101]%N.
Definition p_file : str := [102;105;108;101;58]%N.              (* "file:" *)
Definition p_python : str := [112;121;116;104;111;110;58]%N.    (* "python:" *)

Fixpoint find_idx_from (n : nat) (tbl : list setting) (k : str) : option nat :=
  match tbl with
  | [] => None
  | s :: t => if str_eqb (s_name s) k then Some n else find_idx_from (S n) t k
  end.

Inductive appuri := UriArg (s : str) | UriCfg.    (* app_uri = args[0] / cfg.wsgi_app *)

Section Load.
  Variable value : Type.
  Variable vnone : value.                         (* Python None as a setting value *)
  Variable is_none : value -> bool.
  Variable validate : nat -> raw -> option value. (* the validator of setting i; None = it raised *)
  Variable extra : list str.
  Variable tbl : list setting.

  Definition config := list value.                (* Config.settings[name].value, by table position *)

  Inductive outcome :=
  | Loaded (c : config) (u : appuri)
  | ExitConfig              (* do_load_config: "Error: ..." and sys.exit(1) *)
  | ExitUsage               (* argparse error: sys.exit(2) *)
  | ExitHelp                (* --help / --version: sys.exit(0) *)
  | OutOfModel.

  Definition find_idx (k : str) : option nat := find_idx_from 0 tbl k.

  (* Setting.set: self.value = self.validator(val) *)
  Definition set_idx (c : config) (i : nat) (r : raw) : option config :=
    if i <? length c then
      match validate i r with Some v => Some (upd i v c) | None => None end
    else None.

  (* Config.set(name, value): unknown name -> AttributeError *)
  Definition set_name (c : config) (k : str) (r : raw) : option config :=
    match find_idx k with Some i => set_idx c i r | None => None end.

  (* Config.__init__ -> make_settings -> Setting.__init__: if self.default is not None: self.set(default) *)
  Fixpoint initial_from (i : nat) (l : list setting) : option config :=
    match l with
    | [] => Some []
    | s :: t =>
        match (if is_rnone (s_default s) then Some vnone else validate i (s_default s)) with
        | None => None
        | Some v => match initial_from (S i) t with Some c => Some (v :: c) | None => None end
        end
    end.
  Definition initial_config : option config := initial_from 0 tbl.

  (* for k, v in cfg.items(): self.cfg.set(k.lower(), v)          (framework dict) *)
  Fixpoint run_dict (c : config) (l : items) : option config :=
    match l with
    | [] => Some c
    | (k, r) :: t => match set_name c (lower k) r with Some c' => run_dict c' t | None => None end
    end.

  (* for k, v in cfg.items(): if k not in self.cfg.settings: continue; self.cfg.set(k.lower(), v)   (file) *)
  Fixpoint run_file (c : config) (l : items) : option config :=
    match l with
    | [] => Some c
    | (k, r) :: t =>
        match find_idx k with
        | None => run_file c t
        | Some _ => match set_name c (lower k) r with Some c' => run_file c' t | None => None end
        end
    end.

  (* for k, v in vars(args).items(): if v is None: continue; if k == "args": continue; set(k.lower(), v) *)
  Fixpoint ns_items (l : list setting) (ns : list raw) : items :=
    match l, ns with
    | s :: t, r :: ns' => if is_rnone r then ns_items t ns' else (s_name s, r) :: ns_items t ns'
    | _, _ => []
    end.
  Definition run_ns (c : config) (ns : list raw) : option config := run_dict c (ns_items tbl ns).

  Definition ns_get (ns : list raw) (k : str) : raw :=
    match find_idx k with Some i => nth i ns RNone | None => RNone end.

  Definition parse_env (e : option str) : option presult :=       (* None = shlex raised ValueError *)
    match e with
    | None => Some (argparse extra tbl [])
    | Some s => match shlex_split s with
                | Some toks => Some (argparse extra tbl toks)
                | None => None
                end
    end.

  Inductive file_choice := FNone | FMissing | FItems (l : items).

  Definition open_location (inp : input) (loc : raw) : file_choice :=
    match loc with
    | RStr s =>
        if starts_with p_python s then
          match assoc (skipn (length p_python) s) (i_modules inp) with Some l => FItems l | None => FMissing end
        else
          let fn := if starts_with p_file s then skipn (length p_file) s else s in
          match assoc fn (i_files inp) with Some l => FItems l | None => FMissing end
    | _ => FMissing
    end.

  (* if args.config: ... elif env_args.config: ... else: get_default_config_file() *)
  Definition select_file (inp : input) (ns ens : list raw) : file_choice :=
    if truthy (ns_get ns n_config) then open_location inp (ns_get ns n_config)
    else if truthy (ns_get ens n_config) then open_location inp (ns_get ens n_config)
    else match i_default_file inp with Some l => FItems l | None => FNone end.

  Definition ascii (s : str) : bool := forallb (fun c => N.ltb c 128) s.
  Definition env_char_ok (c : N) : bool := (printable c || N.eqb c 9 || N.eqb c 10 || N.eqb c 13)%bool.

  Definition in_model (inp : input) : bool :=
    (forallb (fun kv => ascii (fst kv)) (i_dict inp)
     && match i_env inp with Some s => forallb env_char_ok s | None => true end)%bool.

  Definition load (inp : input) : outcome :=
    if negb (in_model inp) then OutOfModel else
    (* BaseApplication.load_default_config *)
    match initial_config with
    | None => ExitConfig
    | Some c0 =>
    (* Application.load_config: parser.parse_args() *)
    match argparse extra tbl (i_argv inp) with
    | PUsage => ExitUsage
    | PHelp => ExitHelp
    | POut => OutOfModel
    | POk ns pos =>
    (* WSGIApplication.init *)
    if truthy (ns_get ns n_paste) then OutOfModel else
    match (match pos with
           | a :: _ => set_name c0 n_default_proc_name (RStr a)
           | [] => Some c0
           end) with
    | None => ExitConfig
    | Some c1 =>
    (* the dict returned by init() *)
    match run_dict c1 (i_dict inp) with
    | None => ExitConfig
    | Some c2 =>
    (* env_args = parser.parse_args(self.cfg.get_cmd_args_from_env()) *)
    match parse_env (i_env inp) with
    | None => ExitConfig
    | Some PUsage => ExitUsage
    | Some PHelp => ExitHelp
    | Some POut => OutOfModel
    | Some (POk ens _) =>
    (* the configuration file *)
    match (match select_file inp ns ens with
           | FMissing => None
           | FNone => Some c2
           | FItems l => run_file c2 l
           end) with
    | None => ExitConfig
    | Some c3 =>
    (* environment, then command line *)
    match run_ns c3 ens with
    | None => ExitConfig
    | Some c4 =>
    match run_ns c4 ns with
    | None => ExitConfig
    | Some c5 =>
    (* WSGIApplication.load_config: the application must be named somewhere *)
    match pos with
    | a :: _ => Loaded c5 (UriArg a)
    | [] =>
        match find_idx n_wsgi_app with
        | None => OutOfModel
        | Some i => match nth_error c5 i with
                    | Some v => if is_none v then ExitConfig else Loaded c5 UriCfg
                    | None => OutOfModel
                    end
        end
    end
    end end end end end end end end.
End Load.

(* ------------------------------------------------------------------------------------------- *)
(* the instance that is run against the implementation: values are canonical encodings, the      *)
(* validator is a finite table computed by the real validators on the raw values of the run      *)
(* ------------------------------------------------------------------------------------------- *)
Definition venc := list Z.
Definition vt_entry := (nat * raw * option venc)%type.

Fixpoint vt_lookup (vt : list vt_entry) (i : nat) (r : raw) : option (option venc) :=
  match vt with
  | [] => None
  | (j, r', res) :: t => if Nat.eqb i j then (if raw_eqb r r' then Some res else vt_lookup t i r)
                         else vt_lookup t i r
  end.

(* a miss is a harness error; it shows as the impossible value [98] *)
Definition validate_tbl (vt : list vt_entry) (i : nat) (r : raw) : option venc :=
  match vt_lookup vt i r with Some res => res | None => Some [98%Z] end.

Definition venc_none : venc := [0%Z].
Fixpoint zs_eqb (a b : list Z) : bool :=
  match a, b with
  | [], [] => true
  | x :: a', y :: b' => Z.eqb x y && zs_eqb a' b'
  | _, _ => false
  end.
Definition venc_is_none (v : venc) : bool := zs_eqb v venc_none.

Definition enc_str (s : str) : list Z := Z.of_nat (length s) :: map Z.of_N s.

(* settings whose final value differs from the built-in default value: (index, value) pairs *)
Fixpoint delta_from (i : nat) (d c : list venc) : list (list Z) :=
  match d, c with
  | dv :: d', cv :: c' => if zs_eqb dv cv then delta_from (S i) d' c' else (Z.of_nat i :: cv) :: delta_from (S i) d' c'
  | _, _ => []
  end.

Definition obs_outcome (d : option (list venc)) (o : outcome venc) : list Z :=
  match o with
  | Loaded _ c u =>
      let dl := match d with Some d => delta_from 0 d c | None => [] end in
      0%Z :: Z.of_nat (length dl) :: concat dl ++
      match u with UriArg s => 1%Z :: enc_str s | UriCfg => [2%Z] end
  | ExitConfig _ => [1%Z]
  | ExitUsage _ => [2%Z]
  | ExitHelp _ => [3%Z]
  | OutOfModel _ => [99%Z]
  end.

Definition run_obs (extra : list str) (tbl : list setting) (vt : list vt_entry) (inp : input) : list Z :=
  obs_outcome (initial_config venc venc_none (validate_tbl vt) tbl)
              (load venc venc_none venc_is_none (validate_tbl vt) extra tbl inp).
