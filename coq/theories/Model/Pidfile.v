(* Executable model of gunicorn/pidfile.py (class Pidfile) over a small file system and process
   table.  Definitions only; proofs are in Proof/PidfileProofs.v.

   Modelled: create (split into its system calls so that a crash can be placed after any of them),
   validate, rename, unlink; environment steps: a foreign process overwrites / removes a file, a
   process dies or starts.  One operation = one atomic step (the property quantifies over sequences
   of whole operations plus crash points inside create).
   Not modelled: fname = "" (gunicorn only builds a Pidfile when cfg.pidfile is set), non-ASCII file
   contents, pids <= 0 written by foreign processes other than 0. *)
From Coq Require Import List NArith ZArith Bool Lia.
From GV Require Import Base.Enc Base.Dec.
Import ListNotations.

Definition path := N.
(* a path >= 100 lies in a directory that does not exist *)
Definition dir_exists (p : path) : bool := (p <? 100)%N.

Record inst := { fname : path; ipid : option Z; ospid : Z }.

Record st := {
  fs : list (path * bytes);      (* association list, first binding wins; pid-file name space *)
  temps : list bytes;            (* leftover mkstemp files (contents); never in the pid-file name space *)
  live : list Z;                 (* processes that kill(pid, 0) reports as alive *)
  eperm : list Z;                (* alive, but owned by someone else: kill -> EPERM *)
  insts : list inst
}.

Fixpoint lookup (p : path) (l : list (path * bytes)) : option bytes :=
  match l with
  | [] => None
  | (q, c) :: t => if (p =? q)%N then Some c else lookup p t
  end.
Fixpoint remove (p : path) (l : list (path * bytes)) : list (path * bytes) :=
  match l with
  | [] => []
  | (q, c) :: t => if (p =? q)%N then remove p t else (q, c) :: remove p t
  end.
Definition store (p : path) (c : bytes) (l : list (path * bytes)) := (p, c) :: remove p l.

Definition pid_text (pid : Z) : bytes :=              (* ("%s\n" % pid).encode() *)
  (if (pid <? 0)%Z then [45%N] else []) ++ dec (Z.to_N (Z.abs pid)) ++ [10%N].

Definition zmem (z : Z) (l : list Z) : bool := existsb (Z.eqb z) l.

(* os.kill(pid, 0): alive (success or EPERM) or ESRCH.  kill(0, 0) signals our own group: success *)
Inductive probe := PAlive | PEperm | PDead.
Definition kill0 (s : st) (pid : Z) : probe :=
  if (pid =? 0)%Z then PAlive else if zmem pid (live s) then PAlive else if zmem pid (eperm s) then PEperm else PDead.

(* Pidfile.validate: None / Some pid *)
Definition validate_path (s : st) (p : path) : option Z :=
  match lookup p (fs s) with
  | None => None                                       (* ENOENT *)
  | Some c => match py_int c with
              | None => None                           (* ValueError *)
              | Some w => match kill0 s w with
                          | PAlive | PEperm => Some w
                          | PDead => None
                          end
              end
  end.

Inductive result :=
| RNone                      (* returned None *)
| RPid (p : Z)               (* validate returned a pid *)
| RRuntimeError              (* create refused *)
| RCrash                     (* the process was killed inside create *)
| RBadInst.

Definition set_inst (i : nat) (x : inst) (l : list inst) : list inst :=
  firstn i l ++ x :: skipn (S i) l.
Definition upd_insts (s : st) (l : list inst) : st :=
  {| fs := fs s; temps := temps s; live := live s; eperm := eperm s; insts := l |}.
Definition upd_fs (s : st) (f : list (path * bytes)) : st :=
  {| fs := f; temps := temps s; live := live s; eperm := eperm s; insts := insts s |}.
Definition upd_temps (s : st) (t : list bytes) : st :=
  {| fs := fs s; temps := t; live := live s; eperm := eperm s; insts := insts s |}.

(* Events: every change of the pid-file name space is recorded, with who did it and what was there. *)
Inductive event :=
| EUnlink (who : option Z) (p : path) (before : bytes)        (* os.unlink by an instance with self.pid = who *)
| EInstall (who : option Z) (p : path) (before : option bytes) (after : bytes).   (* os.rename(temp, p) *)

(* Pidfile.create(pid) for instance x; [crash] = Some k: the process is killed inside create after k
   of the system calls  mkstemp(1) write(2) rename(3) close(4) chmod(5)  have completed (k = 0: at any
   point before mkstemp, validate included).  A killed process takes its Pidfile object with it: the
   slot is re-occupied by a fresh instance for the same configured path (ipid = None). *)
Definition crashed (crash : option nat) (k : nat) : bool :=
  match crash with Some c => Nat.leb c k | None => false end.

Definition create_at (s : st) (i : nat) (x : inst) (fdead : path) (pid : Z) (crash : option nat) : st * result * list event :=
  let xdead := {| fname := fdead; ipid := None; ospid := ospid x |} in
  let sdead := upd_insts s (set_inst i xdead (insts s)) in
  if crashed crash 0 then (sdead, RCrash, []) else
  let old := validate_path s (fname x) in
  let proceed :=
      match old with
      | None => true
      | Some o => (o =? 0)%Z         (* "if oldpid:" is false for 0 *)
      end in
  if negb proceed then
    match old with
    | Some o => if (o =? ospid x)%Z then (s, RNone, []) else (s, RRuntimeError, [])
    | None => (s, RNone, [])
    end
  else
    let x' := {| fname := fname x; ipid := Some pid; ospid := ospid x |} in
    let s1 := upd_insts s (set_inst i x' (insts s)) in
    if negb (dir_exists (fname x)) then (s1, RRuntimeError, [])
    else
      (* mkstemp done *)
      if crashed crash 1 then (upd_temps sdead ([] :: temps s), RCrash, [])
      else (* write done *)
        if crashed crash 2 then (upd_temps sdead (pid_text pid :: temps s), RCrash, [])
        else (* rename done *)
          let ev := EInstall (Some pid) (fname x) (lookup (fname x) (fs s)) (pid_text pid) in
          if crashed crash 4 then (upd_fs sdead (store (fname x) (pid_text pid) (fs s)), RCrash, [ev])
          else (upd_fs s1 (store (fname x) (pid_text pid) (fs s)), RNone, [ev]).

(* Pidfile.unlink: int(f.read() or 0) == self.pid -> os.unlink; every exception swallowed *)
Definition unlink_at (s : st) (x : inst) : st * list event :=
  match lookup (fname x) (fs s) with
  | None => (s, [])
  | Some c =>
      let pid1 := match c with [] => Some 0%Z | _ => py_int c end in
      match pid1, ipid x with
      | Some a, Some b => if (a =? b)%Z then (upd_fs s (remove (fname x) (fs s)), [EUnlink (ipid x) (fname x) c]) else (s, [])
      | _, _ => (s, [])
      end
  end.

Inductive op :=
| Create (i : nat) (pid : Z) (crash : option nat)
| Validate (i : nat)
| Rename (i : nat) (p : path) (crash : option nat) (early : bool)   (* early: killed before os.unlink could run *)
| Unlink (i : nat)
| Foreign (p : path) (c : bytes)          (* some other program writes the file *)
| ForeignRm (p : path)
| Die (pid : Z)
| Spawn (pid : Z) (other_user : bool).

Definition step (s : st) (o : op) : st * result * list event :=
  match o with
  | Create i pid crash =>
      match nth_error (insts s) i with
      | Some x => create_at s i x (fname x) pid crash
      | None => (s, RBadInst, [])
      end
  | Validate i =>
      match nth_error (insts s) i with
      | Some x => (s, match validate_path s (fname x) with Some p => RPid p | None => RNone end, [])
      | None => (s, RBadInst, [])
      end
  | Unlink i =>
      match nth_error (insts s) i with
      | Some x => let '(s', ev) := unlink_at s x in (s', RNone, ev)
      | None => (s, RBadInst, [])
      end
  | Rename i p crash early =>
      match nth_error (insts s) i with
      | Some x =>
          if early then
            (upd_insts s (set_inst i {| fname := fname x; ipid := None; ospid := ospid x |} (insts s)), RCrash, [])
          else
          let '(s1, ev1) := unlink_at s x in
          let x' := {| fname := p; ipid := ipid x; ospid := ospid x |} in
          let s2 := upd_insts s1 (set_inst i x' (insts s1)) in
          (* self.create(self.pid): str(None) would be written when pid is None; the harness never
             renames an instance that has not created (gunicorn does not either) *)
          match ipid x with
          | Some pid => let '(s3, r, ev2) := create_at s2 i x' (fname x) pid crash in (s3, r, ev1 ++ ev2)
          | None => (s2, RBadInst, ev1)
          end
      | None => (s, RBadInst, [])
      end
  | Foreign p c => (upd_fs s (store p c (fs s)), RNone, [])
  | ForeignRm p => (upd_fs s (remove p (fs s)), RNone, [])
  | Die pid =>
      ({| fs := fs s; temps := temps s; live := filter (fun q => negb (Z.eqb q pid)) (live s);
          eperm := filter (fun q => negb (Z.eqb q pid)) (eperm s); insts := insts s |}, RNone, [])
  | Spawn pid other =>
      (if other then {| fs := fs s; temps := temps s; live := live s; eperm := pid :: eperm s; insts := insts s |}
       else {| fs := fs s; temps := temps s; live := pid :: live s; eperm := eperm s; insts := insts s |}, RNone, [])
  end.

Fixpoint run (s : st) (ops : list op) : st * list result * list event :=
  match ops with
  | [] => (s, [], [])
  | o :: t => let '(s1, r, ev) := step s o in
              let '(s2, rs, evs) := run s1 t in (s2, r :: rs, ev ++ evs)
  end.

(* ---- observation (what the harness compares with the real class) ------------------------------ *)
Definition enc_result (r : result) : list Z :=
  match r with
  | RNone => [0%Z] | RPid p => [1%Z; p] | RRuntimeError => [2%Z] | RCrash => [3%Z] | RBadInst => [9%Z]
  end.

(* contents of the paths 0..k-1 and 100..100+k-1, number of leftover temp files, per instance (fname, pid) *)
Definition obs_paths : list path := [0; 1; 2; 100; 101]%N.
Definition enc_state (s : st) : list Z :=
  flat_map (fun p => enc_opt enc_bytes (lookup p (fs s))) obs_paths
  ++ enc_nat (length (temps s))
  ++ enc_list (fun x => enc_N (fname x) ++ enc_opt enc_Z (ipid x)) (insts s).

Fixpoint run_obs (s : st) (ops : list op) : list Z :=
  match ops with
  | [] => []
  | o :: t => let '(s1, r, _) := step s o in enc_result r ++ enc_state s1 ++ run_obs s1 t
  end.

Definition init (pids : list Z) (paths : list path) (live0 : list Z) : st :=
  {| fs := []; temps := []; live := live0 ++ pids; eperm := [];
     insts := map (fun pp => {| fname := snd pp; ipid := None; ospid := fst pp |}) (combine pids paths) |}.
