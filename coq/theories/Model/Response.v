(* Executable model of the response writer of gunicorn:
     gunicorn/http/wsgi.py     class Response (start_response, process_headers, is_chunked, should_close,
                               default_headers, send_headers, write, sendfile, write_file, close),
                               class FileWrapper (__getitem__ iteration protocol)
     gunicorn/util.py          write, write_chunk, is_hoppish
     gunicorn/http/message.py  Message.should_close
     gunicorn/workers/sync.py, gthread.py, base_async.py   the response part of handle_request and the
                               keep-alive decision of handle
   Definitions only, mirroring the code line by line; lemmas live in Proof/Resp*.v.

   An application is a program: a list of actions (start_response calls with arbitrary strings and an
   exc_info flag; write()/yield of a byte string - both end in Response.write) followed by how it ends
   (iterable exhausted, a wsgi.file_wrapper object returned, an exception).  Text is a list of code
   points (any N, also > 255).  The observable result: the exact bytes written to the socket, how the
   request ended (completed and connection kept open or not / aborted after the head was sent /
   exception propagated to Worker.handle_error before any byte), Response.sent, Response.status.

   Character classes, the hop-by-hop set, SERVER and the FileWrapper block size come from
   Gen/GenResponse.v, regenerated from the tree under test on every run.

   Not modelled: file-like objects that have fileno() but no tell() (sendfile then starts at the descriptor's
   offset), socket errors while writing (C05 family), TLS (cfg.is_ssl = False), non-str /
   non-bytes arguments (TypeError branches), the 100-continue line of wsgi.create, the error page
   written by Worker.handle_error (the model stops at "exception propagated"), is_already_handled. *)
From Coq Require Import List NArith ZArith Bool.
From GV Require Import Base.Enc Base.Dec Model.RespStr Gen.GenResponse.
Import ListNotations.
Local Open Scope N_scope.

(* ---- the request as far as the response depends on it ------------------------------------------- *)
Record reqinfo := {
  rq_major : N; rq_minor : N;          (* req.version *)
  rq_method : str;                     (* req.method *)
  rq_conn : list str;                  (* values of the request's Connection header fields, in order *)
  rq_must_close : bool                 (* Message.must_close (set by a compress/deflate/gzip transfer coding) *)
}.

(* req.version <= (1, 0)  (tuple comparison) *)
Definition ver_le_10 (rq : reqinfo) : bool :=
  (rq_major rq <? 1) || ((rq_major rq =? 1) && (rq_minor rq =? 0)).

(* Message.should_close *)
Definition conn_options (v : str) : list str := map strip_sp_tab (split_comma (lower v)).
Fixpoint conn_scan (vals : list str) (keepalive : bool) : option bool :=   (* Some true = return True inside the loop *)
  match vals with
  | [] => if keepalive then Some false else None
  | v :: t => let opts := conn_options v in
              if mem_str s_close opts then Some true
              else conn_scan t (keepalive || mem_str s_keep_alive opts)
  end.
Definition req_should_close (rq : reqinfo) : bool :=
  if rq_must_close rq then true else
  match conn_scan (rq_conn rq) false with
  | Some b => b
  | None => ver_le_10 rq
  end.

(* ---- exceptions ---------------------------------------------------------------------------------- *)
Inductive exn :=
| EInvalidHeader | EInvalidHeaderName | EAssertion | ETypeError | EValueError | EIndexError
| EAttributeError | EUnicodeEncode
| EApp.             (* raised by the application itself, or its exc_info re-raised by start_response *)

(* ---- Response object ------------------------------------------------------------------------------ *)
Inductive scode := SCUnset | SCNone | SCInt (z : Z).      (* attribute missing / None / int *)

Record rstate := {
  r_status : option str;
  r_code : scode;
  r_headers : list (str * str);
  r_headers_sent : bool;
  r_chunked : bool;
  r_must_close : bool;
  r_length : option Z;                 (* response_length *)
  r_sent : Z;
  r_upgrade : bool;
  r_wire : bytes                       (* everything written to the socket so far *)
}.

Definition init_resp : rstate :=
  {| r_status := None; r_code := SCUnset; r_headers := []; r_headers_sent := false; r_chunked := false;
     r_must_close := false; r_length := None; r_sent := 0%Z; r_upgrade := false; r_wire := [] |}.

Definition set_status st v := {| r_status := v; r_code := r_code st; r_headers := r_headers st; r_headers_sent := r_headers_sent st;
  r_chunked := r_chunked st; r_must_close := r_must_close st; r_length := r_length st; r_sent := r_sent st; r_upgrade := r_upgrade st; r_wire := r_wire st |}.
Definition set_code st v := {| r_status := r_status st; r_code := v; r_headers := r_headers st; r_headers_sent := r_headers_sent st;
  r_chunked := r_chunked st; r_must_close := r_must_close st; r_length := r_length st; r_sent := r_sent st; r_upgrade := r_upgrade st; r_wire := r_wire st |}.
Definition set_headers st v := {| r_status := r_status st; r_code := r_code st; r_headers := v; r_headers_sent := r_headers_sent st;
  r_chunked := r_chunked st; r_must_close := r_must_close st; r_length := r_length st; r_sent := r_sent st; r_upgrade := r_upgrade st; r_wire := r_wire st |}.
Definition set_headers_sent st v := {| r_status := r_status st; r_code := r_code st; r_headers := r_headers st; r_headers_sent := v;
  r_chunked := r_chunked st; r_must_close := r_must_close st; r_length := r_length st; r_sent := r_sent st; r_upgrade := r_upgrade st; r_wire := r_wire st |}.
Definition set_chunked st v := {| r_status := r_status st; r_code := r_code st; r_headers := r_headers st; r_headers_sent := r_headers_sent st;
  r_chunked := v; r_must_close := r_must_close st; r_length := r_length st; r_sent := r_sent st; r_upgrade := r_upgrade st; r_wire := r_wire st |}.
Definition set_must_close st v := {| r_status := r_status st; r_code := r_code st; r_headers := r_headers st; r_headers_sent := r_headers_sent st;
  r_chunked := r_chunked st; r_must_close := v; r_length := r_length st; r_sent := r_sent st; r_upgrade := r_upgrade st; r_wire := r_wire st |}.
Definition set_length st v := {| r_status := r_status st; r_code := r_code st; r_headers := r_headers st; r_headers_sent := r_headers_sent st;
  r_chunked := r_chunked st; r_must_close := r_must_close st; r_length := v; r_sent := r_sent st; r_upgrade := r_upgrade st; r_wire := r_wire st |}.
Definition set_sent st v := {| r_status := r_status st; r_code := r_code st; r_headers := r_headers st; r_headers_sent := r_headers_sent st;
  r_chunked := r_chunked st; r_must_close := r_must_close st; r_length := r_length st; r_sent := v; r_upgrade := r_upgrade st; r_wire := r_wire st |}.
Definition set_upgrade st v := {| r_status := r_status st; r_code := r_code st; r_headers := r_headers st; r_headers_sent := r_headers_sent st;
  r_chunked := r_chunked st; r_must_close := r_must_close st; r_length := r_length st; r_sent := r_sent st; r_upgrade := v; r_wire := r_wire st |}.
(* sock.sendall(data) *)
Definition sock_send st (data : bytes) := {| r_status := r_status st; r_code := r_code st; r_headers := r_headers st; r_headers_sent := r_headers_sent st;
  r_chunked := r_chunked st; r_must_close := r_must_close st; r_length := r_length st; r_sent := r_sent st; r_upgrade := r_upgrade st; r_wire := r_wire st ++ data |}.

(* ---- validation (regenerated character classes) ------------------------------------------------------ *)
Definition is_token (s : str) : bool :=                 (* TOKEN_RE.fullmatch(s) *)
  match s with [] => false | _ => forallb (fun c => memN c token_chars) s end.
Definition is_value (s : str) : bool :=                 (* HEADER_VALUE_RE.fullmatch(s) *)
  forallb (fun c => memN c value_chars) s.
Definition is_hoppish (name : str) : bool :=            (* util.is_hoppish: header.lower().strip() in hop_headers *)
  mem_str (strip_by py_space (lower name)) hop_headers.

(* ---- Response.is_chunked / should_close ------------------------------------------------------------------ *)
Definition code_in_204_304 (c : scode) : bool :=
  match c with SCInt z => (z =? 204)%Z || (z =? 304)%Z | _ => false end.

Definition is_chunked (rq : reqinfo) (st : rstate) : bool + exn :=
  match r_length st with
  | Some _ => inl false
  | None =>
    if ver_le_10 rq then inl false
    else if list_eqb (rq_method rq) s_HEAD then inl false
    else match r_code st with
         | SCUnset => inr EAttributeError               (* start_response was never called *)
         | c => if code_in_204_304 c then inl false else inl true
         end
  end.

Definition should_close (rq : reqinfo) (st : rstate) : bool + exn :=
  if r_must_close st || req_should_close rq then inl true
  else if (match r_length st with Some _ => true | None => false end) || r_chunked st then inl false
  else if list_eqb (rq_method rq) s_HEAD then inl false
  else match r_code st with
       | SCUnset => inr EAttributeError
       | SCNone => inr ETypeError                       (* None < 200 *)
       | SCInt z => if (z <? 200)%Z || (z =? 204)%Z || (z =? 304)%Z then inl false else inl true
       end.

(* ---- Response.process_headers ---------------------------------------------------------------------------- *)
Fixpoint process_headers (st : rstate) (hdrs : list (str * str)) : rstate * option exn :=
  match hdrs with
  | [] => (st, None)
  | (name, value) :: t =>
    if negb (is_token name) then (st, Some EInvalidHeaderName)
    else if negb (is_value value) then (st, Some EInvalidHeader)
    else
      let value := strip_sp_tab value in
      let lname := lower name in
      if list_eqb lname s_content_length then
        match py_int value with
        | None => (st, Some EValueError)
        | Some z => process_headers (set_headers (set_length st (Some z)) (r_headers st ++ [(name, value)])) t
        end
      else if is_hoppish name then
        if list_eqb lname s_connection then
          process_headers (if list_eqb (lower value) s_upgrade then set_upgrade st true else st) t
        else if list_eqb lname s_upgrade then
          process_headers (if list_eqb (lower value) s_websocket then set_headers st (r_headers st ++ [(name, value)]) else st) t
        else process_headers st t
      else process_headers (set_headers st (r_headers st ++ [(name, value)])) t
  end.

(* ---- Response.start_response ----------------------------------------------------------------------------- *)
Definition status_truthy (s : option str) : bool := match s with Some (_ :: _) => true | _ => false end.

Definition start_response_body (rq : reqinfo) (st : rstate) (status : str) (hdrs : list (str * str)) : rstate * option exn :=
  if negb (is_value status) then (st, Some EInvalidHeader) else
  let st := set_status st (Some status) in
  match first_word status with
  | None => (st, Some EIndexError)                        (* self.status.split()[0] *)
  | Some w =>
    let st := set_code st (match py_int w with Some z => SCInt z | None => SCNone end) in
    match process_headers st hdrs with
    | (st, Some e) => (st, Some e)
    | (st, None) =>
      match is_chunked rq st with
      | inl b => (set_chunked st b, None)
      | inr e => (st, Some e)
      end
    end
  end.

Definition start_response (rq : reqinfo) (st : rstate) (status : str) (hdrs : list (str * str)) (exc_info : bool)
  : rstate * option exn :=
  if exc_info then
    if status_truthy (r_status st) && r_headers_sent st then (st, Some EApp)          (* util.reraise(exc_info) *)
    else start_response_body rq (set_upgrade (set_length (set_headers st []) None) false) status hdrs
  else
    match r_status st with
    | Some _ => (st, Some EAssertion)
    | None => start_response_body rq st status hdrs
    end.

(* ---- default_headers / send_headers ---------------------------------------------------------------------- *)
Definition fmt_header (h : str * str) : str := fst h ++ s_colon_sp ++ snd h ++ crlf.        (* "%s: %s\r\n" *)

Definition status_text (s : option str) : str := match s with Some t => t | None => s_None end.
Definition status_line (rq : reqinfo) (s : option str) : str :=                             (* "HTTP/%s.%s %s\r\n" *)
  s_HTTP ++ dec (rq_major rq) ++ [46] ++ dec (rq_minor rq) ++ [32] ++ status_text s ++ crlf.

Definition default_headers (rq : reqinfo) (date : str) (st : rstate) : list str + exn :=
  let conn : str + exn :=
    if r_upgrade st then inl s_upgrade
    else match should_close rq st with
         | inl true => inl s_close
         | inl false => inl s_keep_alive
         | inr e => inr e
         end in
  match conn with
  | inr e => inr e
  | inl c =>
    inl ([ status_line rq (r_status st);
           fmt_header (s_Server_name, server_name);
           fmt_header (s_Date_name, date);
           fmt_header (s_Connection_name, c) ]
         ++ (if r_chunked st then [fmt_header (s_TE_name, s_chunked)] else []))
  end.

(* str.encode("latin-1") *)
Definition latin1_ok (s : str) : bool := forallb (fun c => c <? 256) s.

Definition send_headers (rq : reqinfo) (date : str) (st : rstate) : rstate * option exn :=
  if r_headers_sent st then (st, None) else
  match default_headers rq date st with
  | inr e => (st, Some e)
  | inl lines =>
    let header_str := concat (lines ++ map fmt_header (r_headers st)) ++ crlf in
    if latin1_ok header_str then (set_headers_sent (sock_send st header_str) true, None)
    else (st, Some EUnicodeEncode)
  end.

(* ---- util.write / write_chunk ------------------------------------------------------------------------------ *)
Definition chunk_bytes (data : bytes) : bytes := hex_upper (N.of_nat (length data)) ++ crlf ++ data ++ crlf.
Definition util_write (st : rstate) (data : bytes) (chunked : bool) : rstate :=
  if chunked then sock_send st (chunk_bytes data) else sock_send st data.

(* ---- Response.write ---------------------------------------------------------------------------------------- *)
Definition resp_write (rq : reqinfo) (date : str) (st : rstate) (arg : bytes) : rstate * option exn :=
  match send_headers rq date st with
  | (st, Some e) => (st, Some e)
  | (st, None) =>
    let arglen := Z.of_nat (length arg) in
    let go (tosend : Z) (arg : bytes) :=
      if r_chunked st && (tosend =? 0)%Z then (st, None)
      else (util_write (set_sent st (r_sent st + tosend)%Z) arg (r_chunked st), None) in
    match r_length st with
    | Some len =>
      if (len <=? r_sent st)%Z then (st, None)
      else let tosend := Z.min (len - r_sent st) arglen in
           go tosend (if (tosend <? arglen)%Z then firstn (Z.to_nat tosend) arg else arg)
    | None => go arglen arg
    end
  end.

(* ---- file wrapper --------------------------------------------------------------------------------------------- *)
Record filespec := {
  f_content : bytes;       (* content of the underlying file *)
  f_offset : N;            (* position of the file object (filelike.tell()) when it is handed to the server *)
  f_blksize : N;           (* FileWrapper(filelike, blksize) *)
  f_has_fileno : bool      (* util.has_fileno(filelike) *)
}.

(* FileWrapper.__getitem__ until IndexError: successive read(blksize) results *)
Fixpoint blocks_aux (fuel : nat) (blk : nat) (l : bytes) : list bytes :=
  match fuel with
  | O => []
  | S f => match l with [] => [] | _ => firstn blk l :: blocks_aux f blk (skipn blk l) end
  end.
Definition file_blocks (f : filespec) : list bytes :=
  let rest := skipn (N.to_nat (f_offset f)) (f_content f) in
  match N.to_nat (f_blksize f) with
  | O => []                                             (* read(0) = b"" : IndexError at once *)
  | blk => blocks_aux (length rest) blk rest
  end.

Fixpoint write_all (rq : reqinfo) (date : str) (st : rstate) (items : list bytes) : rstate * option exn :=
  match items with
  | [] => (st, None)
  | x :: t => match resp_write rq date st x with
              | (st, Some e) => (st, Some e)
              | (st, None) => write_all rq date st t
              end
  end.

(* Response.sendfile: inl true = handled, inl false = fall back to iteration *)
Definition resp_sendfile (rq : reqinfo) (date : str) (sendfile_ok : bool) (st : rstate) (f : filespec)
  : rstate * (bool + exn) :=
  if negb sendfile_ok then (st, inl false)                                   (* cfg.is_ssl or not can_sendfile() *)
  else if negb (f_has_fileno f) then (st, inl false)
  else
    let offset := Z.of_N (f_offset f) in                                      (* respiter.filelike.tell() *)
    let filesize := Z.of_nat (length (f_content f)) in
    let nbytes := match r_length st with None => (filesize - offset)%Z | Some len => (len - r_sent st)%Z end in
    match send_headers rq date st with
    | (st, Some e) => (st, inr e)
    | (st, None) =>
      if (0 <? nbytes)%Z then
        match is_chunked rq st with
        | inr e => (st, inr e)
        | inl c1 =>
          let st := if c1 then sock_send st (hex_upper (Z.to_N nbytes) ++ crlf) else st in
          let data := firstn (Z.to_nat nbytes) (skipn (N.to_nat (f_offset f)) (f_content f)) in    (* sock.sendfile(file, offset, count) *)
          let st := set_sent (sock_send st data) (r_sent st + Z.of_nat (length data))%Z in
          match is_chunked rq st with
          | inr e => (st, inr e)
          | inl c2 => ((if c2 then sock_send st crlf else st), inl true)
          end
        end
      else (st, inl true)
    end.

Definition resp_write_file (rq : reqinfo) (date : str) (sendfile_ok : bool) (st : rstate) (f : filespec) : rstate * option exn :=
  match resp_sendfile rq date sendfile_ok st f with
  | (st, inr e) => (st, Some e)
  | (st, inl true) => (st, None)
  | (st, inl false) => write_all rq date st (file_blocks f)
  end.

(* ---- Response.close --------------------------------------------------------------------------------------------- *)
Definition resp_close (rq : reqinfo) (date : str) (st : rstate) : rstate * option exn :=
  match send_headers rq date st with
  | (st, Some e) => (st, Some e)
  | (st, None) => if r_chunked st then (sock_send st (chunk_bytes []), None) else (st, None)
  end.

(* ---- the application as a program ----------------------------------------------------------------------------------- *)
Inductive action :=
| StartResponse (status : str) (hdrs : list (str * str)) (exc_info : bool)
| Write (data : bytes).                      (* write(data) or an item yielded by the iterable *)

Inductive ending :=
| EndDone                                    (* the iterable is exhausted *)
| EndFile (f : filespec)                     (* the application returned wsgi.file_wrapper(f, blksize) *)
| EndRaise.                                  (* the application raises (not an OSError) *)

Record app := { a_acts : list action; a_end : ending }.

Fixpoint run_acts (rq : reqinfo) (date : str) (st : rstate) (acts : list action) : rstate * option exn :=
  match acts with
  | [] => (st, None)
  | a :: t =>
    let r := match a with
             | StartResponse s h e => start_response rq st s h e
             | Write d => resp_write rq date st d
             end in
    match r with
    | (st, Some e) => (st, Some e)
    | (st, None) => run_acts rq date st t
    end
  end.

Definition run_app (rq : reqinfo) (date : str) (sendfile_ok : bool) (st : rstate) (a : app) : rstate * option exn :=
  match run_acts rq date st (a_acts a) with
  | (st, Some e) => (st, Some e)
  | (st, None) =>
    match a_end a with
    | EndRaise => (st, Some EApp)
    | EndDone => resp_close rq date st
    | EndFile f => match resp_write_file rq date sendfile_ok st f with
                   | (st, Some e) => (st, Some e)
                   | (st, None) => resp_close rq date st
                   end
    end
  end.

(* ---- the three handle_request wrappers -------------------------------------------------------------------------------- *)
Inductive worker := WSync | WGthread | WAsync.

Record wstate := {
  w_nr : N;                 (* requests handled so far by this worker *)
  w_max_requests : N;
  w_alive : bool;
  w_keepalive : bool;       (* cfg.keepalive is non-zero *)
  w_keep_full : bool;       (* gthread: len(self._keep) >= self.max_keepalived *)
  w_sendfile : bool         (* cfg.sendfile is not False *)
}.

Inductive ended :=
| Completed (kept_open : bool)      (* response finished; the connection stays open for another request or not *)
| Aborted (e : exn)                 (* exception after the head was sent: socket shut down *)
| Propagated (e : exn).             (* exception before any byte: handed to Worker.handle_error *)

Record outcome := { o_wire : bytes; o_ended : ended; o_sent : Z; o_status : option str; o_headers_sent : bool }.

Definition bump (ws : wstate) : wstate :=
  let nr := w_nr ws + 1 in
  {| w_nr := nr; w_max_requests := w_max_requests ws;
     w_alive := if w_max_requests ws <=? nr then false else w_alive ws;
     w_keepalive := w_keepalive ws; w_keep_full := w_keep_full ws; w_sendfile := w_sendfile ws |}.

Definition forced_close (w : worker) (ws' : wstate) : bool :=        (* ws' = state after the bump *)
  match w with
  | WSync => true
  | WGthread => (w_max_requests ws' <=? w_nr ws') || negb (w_alive ws') || negb (w_keepalive ws') || w_keep_full ws'
  | WAsync => negb (w_alive ws') || negb (w_keepalive ws')
  end.

Definition serve (w : worker) (ws : wstate) (date : str) (rq : reqinfo) (a : app) : outcome * wstate :=
  let ws' := bump ws in
  let st0 := set_must_close init_resp (forced_close w ws') in
  let (st, r) := run_app rq date (w_sendfile ws') st0 a in
  let mk e := {| o_wire := r_wire st; o_ended := e; o_sent := r_sent st; o_status := r_status st;
                 o_headers_sent := r_headers_sent st |} in
  match r with
  | Some e => (mk (if r_headers_sent st then Aborted e else Propagated e), ws')
  | None =>
    match w with
    | WSync => (mk (Completed false), ws')                    (* SyncWorker.handle closes the client in its finally *)
    | _ => match should_close rq st with
           | inl b => (mk (Completed (negb b)), ws')
           | inr e => (mk (Aborted e), ws')                    (* headers were sent by close() *)
           end
    end
  end.

(* one connection: requests are served while the previous one completed with the connection kept open *)
Fixpoint serve_conn (w : worker) (ws : wstate) (date : str) (l : list (reqinfo * app)) : list outcome :=
  match l with
  | [] => []
  | (rq, a) :: t =>
    let (o, ws') := serve w ws date rq a in
    o :: match o_ended o with
         | Completed true => serve_conn w ws' date t
         | _ => []
         end
  end.

Definition conn_wire (os : list outcome) : bytes := concat (map o_wire os).

(* ---- canonical observation ------------------------------------------------------------------------------------------------- *)
Definition exn_code (e : exn) : Z :=
  match e with
  | EInvalidHeader => 1 | EInvalidHeaderName => 2 | EAssertion => 3 | ETypeError => 4 | EValueError => 5
  | EIndexError => 6 | EAttributeError => 7 | EUnicodeEncode => 8 | EApp => 9
  end%Z.
Definition enc_ended (e : ended) : list Z :=
  match e with
  | Completed true => [0; 1] | Completed false => [0; 0]
  | Aborted e => [1; exn_code e] | Propagated e => [2; exn_code e]
  end%Z.

(* long byte strings are summarised: length, a position-weighted checksum, first 200 and last 100 bytes *)
Fixpoint cksum (l : bytes) (i acc : N) : N :=
  match l with [] => acc | b :: t => cksum t (i + 1) ((acc + (i mod 65521 + 1) * (b + 1)) mod 4294967291) end.
Definition enc_wire (w : bytes) : list Z :=
  if (600 <? length w)%nat
  then [(-1)%Z; Z.of_nat (length w); Z.of_N (cksum w 0 0)] ++ map Z.of_N (firstn 200 w) ++ map Z.of_N (skipn (length w - 100) w)
  else enc_bytes w.

Definition enc_outcome (o : outcome) : list Z :=
  enc_wire (o_wire o) ++ enc_ended (o_ended o) ++ [o_sent o] ++ enc_opt enc_bytes (o_status o) ++ enc_bool (o_headers_sent o).

Definition serve_conn_obs (w : worker) (ws : wstate) (date : str) (l : list (reqinfo * app)) : list Z :=
  enc_list enc_outcome (serve_conn w ws date l).
