(* Model of gunicorn/workers/gthread.py (ThreadWorker): a transition system over the atomic blocks of the
   main thread (run / accept / on_client_socket_readable / murder_keepalived), of the pool threads
   (handle / finish_request) and of the environment (clients, signals, clock).

   Granularity.  A main-thread step runs from one of the points {poller.select, listener.accept,
   `with self._lock`, futures.wait} to the next one; a pool-thread step is one of: the job starts
   (set_running_or_notify_cancel), worker.handle runs, set_result + finish_request up to its lock,
   the lock block of finish_request.  These are exactly the yield points of the correspondence driver
   (harness/lib_gthread.py), so one schedule step of the driver is one [step] here.
   Definitions only; proofs are in Proof/GThreadProofs.v. *)
From Coq Require Import List ZArith Bool Arith Lia.
From GV Require Import Base.Enc.
Import ListNotations.
Local Open Scope Z_scope.

(* request kinds a client can send: keep-alive GET, GET with Connection: close, GET whose application
   raises, malformed request line *)
Inductive kind := KA | CL | ERR | BAD.

Inductive cst :=
| CPending        (* connected, in the listen backlog, not accepted *)
| CNew            (* accepted (TConn created, counted), never dispatched *)
| CKeep           (* idle keep-alive connection (in _keep once the lock block of finish_request ran) *)
| CQueued         (* future submitted, job not started *)
| CRunning        (* worker.handle running in a pool thread *)
| CDone (ka:bool) (* handle returned (ka, conn); finish_request not yet run *)
| CTimed          (* finish_request: set_timeout done, waiting for the lock *)
| CExpiring       (* murder_keepalived: popped, expired, nr_conns decremented, not yet closed *)
| CClosed.

Record conn := mkConn {
  st : cst;
  sockbuf : list kind;   (* requests in the socket buffer: visible to the selector *)
  pbuf : list kind;      (* requests already read into the connection's parser: invisible to it *)
  eof : bool;            (* client closed its side *)
  inited : bool;         (* TConn.initialized *)
  tmo : Z;               (* TConn.timeout *)
  since : Z;             (* ghost: clock value when finish_request made the connection idle *)
  closes : nat;          (* how often the worker closed the socket *)
  resp : nat             (* responses written *)
}.

Inductive ev := EvAcc (l:nat) | EvRd (c:nat).

Inductive pc :=
| MSel                          (* in poller.select *)
| MAcc (r:list ev)              (* in listener.accept *)
| MAccReg (c:nat) (r:list ev)   (* accept: at the lock around poller.register *)
| MRd (c:nat) (r:list ev)       (* on_client_socket_readable: at its lock *)
| MFin (c:nat) (r:list ev)      (* the job completed inside submit(): finish_request runs in the main thread
                                   (from add_done_callback) and is at its lock *)
| MWait                         (* in futures.wait (either branch) *)
| MPop (now:Z)                  (* murder_keepalived: at the lock around popleft *)
| MPutback (c:nat)              (* murder_keepalived: at the lock around appendleft *)
| MUnreg (now:Z) (c:nat)        (* murder_keepalived: at the lock around poller.unregister *)
| MFinal                        (* after the loop: in futures.wait(graceful_timeout) *)
| MStopped                      (* run() returned *)
| MCrashed.                     (* an exception escaped run() *)

Record cfg := mkCfg { threads : Z; wconn : Z; keepalive : Z; maxreq : Z; nlisten : nat }.

Record state := mkState {
  conns : list conn;
  backlog : list nat;
  nr_conns : Z;
  keep : list nat;            (* _keep, leftmost first *)
  futs : list (nat * bool);   (* self.futures: (connection, done?) *)
  regd : list nat;            (* client sockets registered with the poller, in registration order *)
  alive : bool;
  orphan : bool;              (* os.getppid() <> self.ppid *)
  clock : Z;
  nrq : Z;                    (* self.nr *)
  pclosed : bool;             (* poller closed (after the loop) *)
  mpc : pc
}.

Inductive label :=
| LMain (evs:list ev) (inl_:bool)   (* the main thread runs to its next yield point; [evs] is what select returns
                                      (used at MSel only); [inl_]: jobs submitted in this step run to completion
                                      inside submit() *)
| LStart (c:nat) | LHandle (c:nat) | LFinish (c:nat) | LFinLock (c:nat) | LCancel (c:nat)
| LConnect | LSend (c:nat) (ks:list kind) | LCClose (c:nat) | LTerm | LTick | LOrphan.

(* ---- record plumbing ---- *)
Definition set_st (v:cst) (x:conn) := mkConn v (sockbuf x) (pbuf x) (eof x) (inited x) (tmo x) (since x) (closes x) (resp x).
Definition set_bufs (sb pb:list kind) (x:conn) := mkConn (st x) sb pb (eof x) (inited x) (tmo x) (since x) (closes x) (resp x).
Definition set_eof (x:conn) := mkConn (st x) (sockbuf x) (pbuf x) true (inited x) (tmo x) (since x) (closes x) (resp x).
Definition set_inited (x:conn) := mkConn (st x) (sockbuf x) (pbuf x) (eof x) true (tmo x) (since x) (closes x) (resp x).
Definition set_tmo (t s0:Z) (x:conn) := mkConn (st x) (sockbuf x) (pbuf x) (eof x) (inited x) t s0 (closes x) (resp x).
Definition inc_resp (x:conn) := mkConn (st x) (sockbuf x) (pbuf x) (eof x) (inited x) (tmo x) (since x) (closes x) (S (resp x)).
Definition close_conn (x:conn) := mkConn CClosed (sockbuf x) (pbuf x) (eof x) (inited x) (tmo x) (since x) (S (closes x)) (resp x).

Definition set_conns v s := mkState v (backlog s) (nr_conns s) (keep s) (futs s) (regd s) (alive s) (orphan s) (clock s) (nrq s) (pclosed s) (mpc s).
Definition set_backlog v s := mkState (conns s) v (nr_conns s) (keep s) (futs s) (regd s) (alive s) (orphan s) (clock s) (nrq s) (pclosed s) (mpc s).
Definition set_nr v s := mkState (conns s) (backlog s) v (keep s) (futs s) (regd s) (alive s) (orphan s) (clock s) (nrq s) (pclosed s) (mpc s).
Definition set_keep v s := mkState (conns s) (backlog s) (nr_conns s) v (futs s) (regd s) (alive s) (orphan s) (clock s) (nrq s) (pclosed s) (mpc s).
Definition set_futs v s := mkState (conns s) (backlog s) (nr_conns s) (keep s) v (regd s) (alive s) (orphan s) (clock s) (nrq s) (pclosed s) (mpc s).
Definition set_regd v s := mkState (conns s) (backlog s) (nr_conns s) (keep s) (futs s) v (alive s) (orphan s) (clock s) (nrq s) (pclosed s) (mpc s).
Definition set_alive v s := mkState (conns s) (backlog s) (nr_conns s) (keep s) (futs s) (regd s) v (orphan s) (clock s) (nrq s) (pclosed s) (mpc s).
Definition set_orphan v s := mkState (conns s) (backlog s) (nr_conns s) (keep s) (futs s) (regd s) (alive s) v (clock s) (nrq s) (pclosed s) (mpc s).
Definition set_clock v s := mkState (conns s) (backlog s) (nr_conns s) (keep s) (futs s) (regd s) (alive s) (orphan s) v (nrq s) (pclosed s) (mpc s).
Definition set_nrq v s := mkState (conns s) (backlog s) (nr_conns s) (keep s) (futs s) (regd s) (alive s) (orphan s) (clock s) v (pclosed s) (mpc s).
Definition set_pclosed v s := mkState (conns s) (backlog s) (nr_conns s) (keep s) (futs s) (regd s) (alive s) (orphan s) (clock s) (nrq s) v (mpc s).
Definition set_mpc v s := mkState (conns s) (backlog s) (nr_conns s) (keep s) (futs s) (regd s) (alive s) (orphan s) (clock s) (nrq s) (pclosed s) v.

(* ---- lists ---- *)
Fixpoint upd {A} (n:nat) (f:A->A) (l:list A) : list A :=
  match l with
  | [] => []
  | x :: t => match n with O => f x :: t | S m => x :: upd m f t end
  end.

Fixpoint mem (c:nat) (l:list nat) : bool :=
  match l with [] => false | x :: t => Nat.eqb c x || mem c t end.

Fixpoint remove1 (c:nat) (l:list nat) : list nat :=          (* deque.remove / unregister: first occurrence *)
  match l with [] => [] | x :: t => if Nat.eqb c x then t else x :: remove1 c t end.

Fixpoint count_if {A} (f:A->bool) (l:list A) : Z :=
  match l with [] => 0 | x :: t => (if f x then 1 else 0) + count_if f t end.

Fixpoint mark_done (c:nat) (l:list (nat*bool)) : list (nat*bool) :=   (* the pending future of c completes *)
  match l with
  | [] => []
  | (c', d) :: t => if Nat.eqb c c' && negb d then (c', true) :: t else (c', d) :: mark_done c t
  end.

Definition getc (s:state) (c:nat) : option conn := nth_error (conns s) c.
Definition updc (c:nat) (f:conn->conn) (s:state) : state := set_conns (upd c f (conns s)) s.

Definition is_counted (v:cst) : bool :=
  match v with CNew | CKeep | CQueued | CRunning | CDone _ | CTimed => true | _ => false end.
Definition is_running (v:cst) : bool :=
  match v with CRunning | CDone _ | CTimed => true | _ => false end.
Definition n_counted (s:state) : Z := count_if (fun x => is_counted (st x)) (conns s).
Definition n_running (s:state) : Z := count_if (fun x => is_running (st x)) (conns s).

(* ---- events ---- *)
Definition ev_eqb (a b:ev) : bool :=
  match a, b with EvAcc x, EvAcc y => Nat.eqb x y | EvRd x, EvRd y => Nat.eqb x y | _, _ => false end.
Fixpoint ev_mem (a:ev) (l:list ev) : bool := match l with [] => false | x :: t => ev_eqb a x || ev_mem a t end.
Fixpoint ev_nodup (l:list ev) : bool := match l with [] => true | x :: t => negb (ev_mem x t) && ev_nodup t end.
(* what a selector can return: at most one event per registered file object *)
Definition ev_ok (c:cfg) (s:state) (e:ev) : bool :=
  match e with EvAcc l => Nat.ltb l (nlisten c) | EvRd k => mem k (regd s) end.
Definition evs_ok (c:cfg) (s:state) (evs:list ev) : bool := forallb (ev_ok c s) evs && ev_nodup evs.
(* ... and a level-triggered selector reports only what is readable *)
Definition ev_ready (s:state) (e:ev) : bool :=
  match e with
  | EvAcc _ => true                       (* a spurious listener wake-up is possible: accept() sees EAGAIN *)
  | EvRd k => match getc s k with
              | Some x => negb (match sockbuf x with [] => true | _ => false end) || eof x
              | None => false end
  end.

Definition dispatch (r:list ev) : pc :=
  match r with [] => MWait | EvAcc _ :: r' => MAcc r' | EvRd c :: r' => MRd c r' end.

(* after the loop: tpool.shutdown(False); poller.close(); listeners closed; futures.wait(graceful_timeout) *)
Definition exit_seq (s:state) : state := set_mpc MFinal (set_pclosed true (set_regd [] s)).

(* `while self.alive:` ... `if self.nr_conns < self.worker_connections:` select | wait *)
Definition head (c:cfg) (s:state) : state :=
  if negb (alive s) then exit_seq s
  else if nr_conns s <? wconn c then set_mpc MSel s else set_mpc MWait s.

(* ---- pool thread blocks ---- *)
Definition p_start (s:state) (c:nat) : option state :=
  match getc s c with
  | Some x => match st x with CQueued => Some (updc c (set_st CRunning) s) | _ => None end
  | None => None
  end.

(* worker.handle: next(conn.parser), handle_request with its keep-alive decision *)
Definition p_handle (g:cfg) (s:state) (c:nat) : option state :=
  match getc s c with
  | Some x =>
    match st x with
    | CRunning =>
      let pb := match pbuf x with [] => sockbuf x | _ => pbuf x end in
      let sb := match pbuf x with [] => [] | _ => sockbuf x end in
      match pb with
      | [] => if eof x then Some (updc c (fun y => set_st (CDone false) (set_bufs sb [] y)) s)
              else None                                   (* recv blocks *)
      | BAD :: rest => Some (updc c (fun y => inc_resp (set_st (CDone false) (set_bufs sb rest y))) s)
      | k :: rest =>
        let nrq' := nrq s + 1 in
        let hit := (0 <? maxreq g) && (maxreq g <=? nrq') in
        let alive' := alive s && negb hit in
        let force := negb alive' || (keepalive g =? 0) || (wconn g - threads g <=? Z.of_nat (length (keep s))) in
        let ka := match k with KA => negb force | _ => false end in
        Some (set_alive alive' (set_nrq nrq'
               (updc c (fun y => inc_resp (set_st (CDone ka) (set_bufs sb rest y))) s)))
      end
    | _ => None
    end
  | None => None
  end.

Definition do_close (c:nat) (s:state) : state := set_nr (nr_conns s - 1) (updc c close_conn s).

(* set_result (the future is done) + finish_request up to `with self._lock` *)
Definition p_finish (g:cfg) (s:state) (c:nat) : option state :=
  match getc s c with
  | Some x =>
    match st x with
    | CDone ka =>
      let s1 := set_futs (mark_done c (futs s)) s in
      if ka && alive s
      then Some (updc c (fun y => set_st CTimed (set_tmo (clock s + keepalive g) (clock s) y)) s1)
      else Some (do_close c s1)
    | _ => None
    end
  | None => None
  end.

(* the lock block of finish_request: _keep.append; poller.register (an exception there: decrement, close) *)
Definition p_finlock (s:state) (c:nat) : option state :=
  match getc s c with
  | Some x =>
    match st x with
    | CTimed =>
      let s1 := set_keep (keep s ++ [c]) s in
      if pclosed s || mem c (regd s) then Some (do_close c s1)
      else Some (updc c (set_st CKeep) (set_regd (regd s ++ [c]) s1))
    | _ => None
    end
  | None => None
  end.

(* a queued future is cancelled: finish_request(cancelled) runs at once *)
Definition p_cancel (s:state) (c:nat) : option state :=
  match getc s c with
  | Some x => match st x with CQueued => Some (do_close c (set_futs (mark_done c (futs s)) s)) | _ => None end
  | None => None
  end.

Definition obind {A B} (o:option A) (f:A -> option B) : option B := match o with Some x => f x | None => None end.

(* the job runs to completion inside submit(); add_done_callback then runs finish_request in the main thread,
   which stops at its lock when the connection is kept alive *)
Definition inline_run (g:cfg) (s:state) (c:nat) (r:list ev) : option state :=
  obind (p_start s c) (fun s1 =>
  obind (p_handle g s1 c) (fun s2 =>
  obind (p_finish g s2 c) (fun s3 =>
  match getc s3 c with
  | Some x => match st x with CTimed => Some (set_mpc (MFin c r) s3) | _ => Some s3 end
  | None => Some s3
  end))).

(* ---- main thread blocks ---- *)
Definition rd_step (g:cfg) (s:state) (c:nat) (r:list ev) (inl_:bool) : option state :=
  if negb (mem c (regd s)) then Some (set_mpc MCrashed s)          (* unregister raises KeyError *)
  else
    let s1 := set_regd (remove1 c (regd s)) s in
    match getc s c with
    | None => Some (set_mpc MCrashed s)
    | Some x =>
      if inited x && negb (mem c (keep s)) then Some (set_mpc (dispatch r) s1)   (* ValueError: "race condition", return *)
      else
        let s2 := if inited x then set_keep (remove1 c (keep s1)) s1 else s1 in
        let s3 := set_futs (futs s2 ++ [(c, false)]) (updc c (fun y => set_st CQueued (set_inited y)) s2) in
        let s4 := set_mpc (dispatch r) s3 in
        if inl_ then inline_run g s4 c r else Some s4
    end.

Definition main_step (g:cfg) (s:state) (evs:list ev) (inl_:bool) : option state :=
  match mpc s with
  | MSel => if evs_ok g s evs then Some (set_mpc (dispatch evs) s) else None
  | MAcc r =>
    match backlog s with
    | [] => Some (set_mpc (dispatch r) s)                            (* EAGAIN *)
    | c :: b => Some (set_mpc (MAccReg c r) (set_nr (nr_conns s + 1) (set_backlog b (updc c (set_st CNew) s))))
    end
  | MAccReg c r =>
    if mem c (regd s) then Some (set_mpc MCrashed s)
    else Some (set_mpc (dispatch r) (set_regd (regd s ++ [c]) s))
  | MRd c r => rd_step g s c r inl_
  | MFin c r => obind (p_finlock s c) (fun s1 => Some (set_mpc (dispatch r) s1))
  | MWait =>
    let s1 := set_futs (filter (fun f => negb (snd f)) (futs s)) s in
    if orphan s then Some (exit_seq s1) else Some (set_mpc (MPop (clock s)) s1)
  | MPop now =>
    match keep s with
    | [] => Some (head g s)
    | c :: k =>
      match getc s c with
      | None => Some (set_mpc MCrashed s)
      | Some x =>
        let s1 := set_keep k s in
        if now <? tmo x then Some (set_mpc (MPutback c) s1)
        else Some (set_mpc (MUnreg now c) (set_nr (nr_conns s - 1) (updc c (set_st CExpiring) s1)))
      end
    end
  | MPutback c => Some (head g (set_keep (c :: keep s) s))
  | MUnreg now c => Some (set_mpc (MPop now) (updc c close_conn (set_regd (remove1 c (regd s)) s)))
  | MFinal => Some (set_mpc MStopped s)
  | MStopped | MCrashed => None
  end.

(* pool threads in use: a job that completed inside submit() has given its thread back although its
   finish_request (run by the main thread, pc MFin) is not through yet *)
Definition pool_busy (s:state) : Z := n_running s - match mpc s with MFin _ _ => 1 | _ => 0 end.

(* finish_request of a job that completed inside submit() is run by the main thread, not by a pool thread *)
Definition fin_by_main (s:state) (c:nat) : bool :=
  match mpc s with MFin c' _ => Nat.eqb c' c | _ => false end.

Definition new_conn : conn := mkConn CPending [] [] false false 0 0 0 0.

Definition step (g:cfg) (s:state) (l:label) : option state :=
  match l with
  | LMain evs inl_ => main_step g s evs inl_
  | LStart c => if pool_busy s <? threads g then p_start s c else None
  | LHandle c => p_handle g s c
  | LFinish c => p_finish g s c
  | LFinLock c => if fin_by_main s c then None else p_finlock s c
  | LCancel c => p_cancel s c
  | LConnect => Some (set_backlog (backlog s ++ [length (conns s)]) (set_conns (conns s ++ [new_conn]) s))
  | LSend c ks =>
    match getc s c with
    | Some x => if eof x then None
                else match st x with
                     | CClosed => Some s
                     | _ => Some (updc c (fun y => set_bufs (sockbuf y ++ ks) (pbuf y) y) s)
                     end
    | None => None
    end
  | LCClose c =>
    match getc s c with
    | Some x => if eof x then None else Some (updc c set_eof s)
    | None => None
    end
  | LTerm => Some (set_alive false s)
  | LTick => Some (set_clock (clock s + 1) s)
  | LOrphan => Some (set_orphan true s)
  end.

Definition init (g:cfg) : state :=
  head g (mkState [] [] 0 [] [] [] true false 0 0 false MSel).

Fixpoint run (g:cfg) (s:state) (ls:list label) : option state :=
  match ls with
  | [] => Some s
  | l :: t => obind (step g s l) (fun s' => run g s' t)
  end.

(* realistic selector: select reports only readable connections *)
Definition label_ready (s:state) (l:label) : bool :=
  match l with
  | LMain evs _ => match mpc s with MSel => forallb (ev_ready s) evs | _ => true end
  | _ => true
  end.

Fixpoint runr (g:cfg) (s:state) (ls:list label) : option state :=
  match ls with
  | [] => Some s
  | l :: t => if label_ready s l then obind (step g s l) (fun s' => runr g s' t) else None
  end.

(* ---- observation compared with the real worker at every schedule step ---- *)
Definition park_code (p:pc) : Z :=
  match p with
  | MSel => 0 | MAcc _ => 1 | MAccReg _ _ | MRd _ _ | MFin _ _ | MPop _ | MPutback _ | MUnreg _ _ => 2
  | MWait | MFinal => 3 | MStopped => 4 | MCrashed => 5
  end.

Definition tmo_of (s:state) (c:nat) : Z := match getc s c with Some x => tmo x | None => -1 end.

Definition obs (s:state) : list Z :=
  [park_code (mpc s); nr_conns s; if alive s then 1 else 0;
   Z.of_nat (length (futs s)); Z.of_nat (length (filter (fun f => negb (snd f)) (futs s)))]
  ++ enc_list enc_nat (keep s)
  ++ enc_list (fun c => [tmo_of s c]) (keep s)
  ++ enc_list enc_nat (regd s)
  ++ enc_list (fun x => enc_nat (closes x)) (conns s)
  ++ enc_list (fun x => enc_nat (resp x)) (conns s)
  ++ [nrq s].

Fixpoint run_obs (g:cfg) (s:state) (ls:list label) : list Z :=
  match ls with
  | [] => []
  | l :: t => match step g s l with
              | Some s' => 1 :: obs s' ++ run_obs g s' t
              | None => 0 :: run_obs g s t
              end
  end.
