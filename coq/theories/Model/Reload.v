(* C10 - executable model of Arbiter.reload (HUP) and of the main loop around it.  Definitions only; proofs in
   Proof/Reload*.v.

   A dedicated transition system (it does not import Model/Arbiter.v, whose micro-steps it follows for the part it keeps):
   gunicorn/arbiter.py run (205-226), handle_hup, reload (435-488), manage_workers (566-586), spawn_worker (588-598),
   spawn_workers, kill_worker, reap_workers, with what the family model leaves out: WHICH configuration object and WHICH
   listener objects every worker was forked with, the listeners as objects (closed only when the bind address changes).
   The code is cut where lib_arbiter's simulated kernel yields (the test of SIG_QUEUE, select, len(WORKERS), os.fork,
   fork's return, time.sleep, WORKERS.items(), os.kill); [Master] runs up to the next cut, [Chld] is the whole SIGCHLD
   handler and may come between any two, [Exit] a child dying, [Sig] HUP reaching Arbiter.signal, [Edit] the configuration
   source changing (read by the next reload).

   Restrictions: cfg.timeout = 0 (murder_workers is off: it belongs to C11), HUP, TTIN and TTOU among the signals (TERM ...
   are C03 / C04), no boot-failure exit codes (C03), no time.  The pid-file lines of reload are in
   Model/Upgrade.v. *)
From Coq Require Import List ZArith Bool Lia.
From GV Require Import Gen.GenArbiter.
Import ListNotations.
Local Open Scope Z_scope.

Record wk := mkWk { w_pid : Z; w_age : Z; w_cfg : Z; w_lsn : list Z }.
Record kid := mkKid { k_pid : Z; k_zomb : bool; k_status : Z; k_sigs : list Z }.

Inductive scont := KSpawn (n : nat) | KReload (n : nat).

Inductive pc :=
| PSigq | PSelect
| PManageLen | PSpawnCount
| PFork (age : Z) (k : scont) | PRegister (p age : Z) (k : scont) | PNap (n : nat)
| PManageSort | PManageKill (victims : list Z).

Record st := mkSt {
  (* the master *)
  workers : list wk;        (* WORKERS, insertion order *)
  num : Z;                  (* num_workers *)
  wage : Z;                 (* worker_age *)
  sigq : list Z;            (* SIG_QUEUE *)
  cfgid : Z;                (* which Config object self.cfg is (0 = the one loaded at start) *)
  cfgw : Z;                 (* cfg.workers *)
  addr : Z;                 (* cfg.address (an id) *)
  lsn : list Z;             (* LISTENERS: ids of the listener objects *)
  cur : pc;
  (* the environment *)
  kids : list kid;
  next_pid : Z;
  next_lsn : Z;
  ncfg : Z;                 (* Config objects created so far *)
  disk_w : Z; disk_addr : Z;(* the configuration source *)
  (* ghost *)
  closed : list Z;          (* listener objects closed so far *)
  hup_age : Z               (* worker_age when the last reload began *)
}.

Definition set_workers s x := mkSt x (num s) (wage s) (sigq s) (cfgid s) (cfgw s) (addr s) (lsn s) (cur s) (kids s) (next_pid s) (next_lsn s) (ncfg s) (disk_w s) (disk_addr s) (closed s) (hup_age s).
Definition set_num s x := mkSt (workers s) x (wage s) (sigq s) (cfgid s) (cfgw s) (addr s) (lsn s) (cur s) (kids s) (next_pid s) (next_lsn s) (ncfg s) (disk_w s) (disk_addr s) (closed s) (hup_age s).
Definition set_wage s x := mkSt (workers s) (num s) x (sigq s) (cfgid s) (cfgw s) (addr s) (lsn s) (cur s) (kids s) (next_pid s) (next_lsn s) (ncfg s) (disk_w s) (disk_addr s) (closed s) (hup_age s).
Definition set_sigq s x := mkSt (workers s) (num s) (wage s) x (cfgid s) (cfgw s) (addr s) (lsn s) (cur s) (kids s) (next_pid s) (next_lsn s) (ncfg s) (disk_w s) (disk_addr s) (closed s) (hup_age s).
Definition set_pc s x := mkSt (workers s) (num s) (wage s) (sigq s) (cfgid s) (cfgw s) (addr s) (lsn s) x (kids s) (next_pid s) (next_lsn s) (ncfg s) (disk_w s) (disk_addr s) (closed s) (hup_age s).
Definition set_kids s x := mkSt (workers s) (num s) (wage s) (sigq s) (cfgid s) (cfgw s) (addr s) (lsn s) (cur s) x (next_pid s) (next_lsn s) (ncfg s) (disk_w s) (disk_addr s) (closed s) (hup_age s).
Definition set_fork s k np := mkSt (workers s) (num s) (wage s) (sigq s) (cfgid s) (cfgw s) (addr s) (lsn s) (cur s) k np (next_lsn s) (ncfg s) (disk_w s) (disk_addr s) (closed s) (hup_age s).
Definition set_disk s w a := mkSt (workers s) (num s) (wage s) (sigq s) (cfgid s) (cfgw s) (addr s) (lsn s) (cur s) (kids s) (next_pid s) (next_lsn s) (ncfg s) w a (closed s) (hup_age s).

(* ---- WORKERS --------------------------------------------------------------------------------------------------- *)
Definition remove_wk (p : Z) (l : list wk) : list wk := filter (fun w => negb (w_pid w =? p)) l.
Definition wlen (s : st) : Z := Z.of_nat (length (workers s)).
Definition pids (l : list wk) : list Z := map w_pid l.

Fixpoint insert_by_age (w : wk) (l : list wk) : list wk :=
  match l with
  | [] => [w]
  | x :: t => if w_age w <? w_age x then w :: x :: t else x :: insert_by_age w t
  end.
Definition sort_by_age (l : list wk) : list wk := fold_right insert_by_age [] l.

(* ---- the kernel ------------------------------------------------------------------------------------------------------ *)
Definition sig_kid (p sg : Z) (c : kid) : kid :=
  if (k_pid c =? p) && negb (k_zomb c)
  then mkKid (k_pid c) (sg =? SIGKILL) (if sg =? SIGKILL then SIGKILL else k_status c) (sg :: k_sigs c)
  else c.
Definition kill_in (l : list kid) (p sg : Z) : option (list kid) :=
  if existsb (fun c => k_pid c =? p) l then Some (map (sig_kid p sg) l) else None.

Definition kill_worker (s : st) (p sg : Z) : st :=
  match kill_in (kids s) p sg with
  | None => set_workers s (remove_wk p (workers s))
  | Some k => set_kids s k
  end.

Fixpoint first_zombie (l : list kid) : option (kid * list kid) :=
  match l with
  | [] => None
  | c :: t => if k_zomb c then Some (c, t)
              else match first_zombie t with
                   | None => None
                   | Some (z, t') => Some (z, c :: t')
                   end
  end.

Definition exit_kid (p status : Z) (l : list kid) : list kid :=
  map (fun c => if (k_pid c =? p) && negb (k_zomb c) then mkKid (k_pid c) true status (k_sigs c) else c) l.

Definition told (c : kid) : bool := existsb (fun sg => sg =? SIGTERM) (k_sigs c).
(* the child p exits only if it was told to *)
Definition exit_told_kid (p : Z) (l : list kid) : list kid :=
  map (fun c => if (k_pid c =? p) && negb (k_zomb c) && told c then mkKid (k_pid c) true 0 (k_sigs c) else c) l.

(* ---- control ------------------------------------------------------------------------------------------------------------- *)
Definition to_loop (s : st) : st := set_pc s PSigq.

Definition begin_spawn (s : st) (k : scont) : st :=
  let s1 := set_wage s (wage s + 1) in set_pc s1 (PFork (wage s1) k).

Definition manage_kill_next (s : st) (v : list Z) : st :=
  match v with [] => to_loop s | _ => set_pc s (PManageKill v) end.

Definition after_register (s : st) (k : scont) : st :=
  match k with
  | KSpawn n => set_pc s (PNap n)
  | KReload O => set_pc s PManageLen
  | KReload (S n) => begin_spawn s (KReload n)
  end.

(* Arbiter.reload up to the first spawn_worker *)
Definition reload (s : st) : st :=
  let changed := negb (addr s =? disk_addr s) in
  mkSt (workers s) (disk_w s) (wage s) (sigq s)
       (ncfg s) (disk_w s) (disk_addr s)
       (if changed then [next_lsn s] else lsn s)
       (cur s) (kids s) (next_pid s)
       (if changed then next_lsn s + 1 else next_lsn s)
       (ncfg s + 1) (disk_w s) (disk_addr s)
       (if changed then closed s ++ lsn s else closed s)
       (wage s).

Definition dispatch (s : st) (sg : Z) : st :=
  if sg =? SIGHUP then
    let s1 := reload s in
    match Z.to_nat (cfgw s1) with
    | O => set_pc s1 PManageLen
    | S n => begin_spawn s1 (KReload n)
    end
  else if sg =? SIGTTIN then           (* handle_ttin: num_workers += 1; manage_workers() *)
    set_pc (set_num s (num s + 1)) PManageLen
  else if sg =? SIGTTOU then           (* handle_ttou: nothing when num_workers <= 1, else num_workers -= 1; manage_workers() *)
    if num s <=? 1 then to_loop s else set_pc (set_num s (num s - 1)) PManageLen
  else to_loop s.

Definition master (s : st) : st :=
  match cur s with
  | PSigq =>
      match sigq s with
      | [] => set_pc s PSelect
      | sg :: q => dispatch (set_sigq s q) sg
      end
  | PSelect => set_pc s PManageLen
  | PManageLen => if wlen s <? num s then set_pc s PSpawnCount else set_pc s PManageSort
  | PSpawnCount =>
      let n := num s - wlen s in
      if n <=? 0 then set_pc s PManageSort else begin_spawn s (KSpawn (Z.to_nat n - 1))
  | PFork age k =>
      let p := next_pid s in
      set_pc (set_fork s (kids s ++ [mkKid p false 0 []]) (p + 1)) (PRegister p age k)
  | PRegister p age k => after_register (set_workers s (workers s ++ [mkWk p age (cfgid s) (lsn s)])) k
  | PNap n => match n with O => set_pc s PManageSort | S n' => begin_spawn s (KSpawn n') end
  | PManageSort =>
      manage_kill_next s (pids (firstn (Z.to_nat (wlen s - num s)) (sort_by_age (workers s))))
  | PManageKill [] => to_loop s
  | PManageKill (p :: v) => manage_kill_next (kill_worker s p SIGTERM) v
  end.

(* the SIGCHLD handler (no boot-failure codes here) *)
Fixpoint reap (fuel : nat) (s : st) : st :=
  match fuel with
  | O => s
  | S f =>
      match first_zombie (kids s) with
      | None => s
      | Some (z, rest) => reap f (set_workers (set_kids s rest) (remove_wk (k_pid z) (workers s)))
      end
  end.
Definition chld (s : st) : st := reap (S (length (kids s))) s.

Inductive label :=
| Master | Chld
| Exit (p status : Z)        (* any death *)
| ExitTold (p : Z)           (* the child p exits if it was sent SIGTERM *)
| Hup                        (* SIGHUP reaches Arbiter.signal *)
| Edit (w a : Z)             (* the configuration source now says workers = w, bind = a *)
| Ttin | Ttou.               (* SIGTTIN / SIGTTOU reach Arbiter.signal *)

Definition queue_sig (s : st) (sg : Z) : st :=
  if Z.of_nat (length (sigq s)) <? sig_queue_max then set_sigq s (sigq s ++ [sg]) else s.

Definition step (s : st) (l : label) : st :=
  match l with
  | Master => master s
  | Chld => chld s
  | Exit p status => set_kids s (exit_kid p status (kids s))
  | ExitTold p => set_kids s (exit_told_kid p (kids s))
  | Hup => queue_sig s SIGHUP
  | Edit w a => if 0 <=? w then set_disk s w a else s
  | Ttin => queue_sig s SIGTTIN
  | Ttou => queue_sig s SIGTTOU
  end.

Definition run (s : st) (ls : list label) : st := fold_left step ls s.

(* a pool as Arbiter.run leaves it once it idles: n workers, aged 1..n, all forked with configuration 0 *)
Fixpoint boot_workers (n : nat) (l : list Z) : list wk :=
  match n with O => [] | S k => boot_workers k l ++ [mkWk (100 + Z.of_nat k) (Z.of_nat k + 1) 0 l] end.
Fixpoint boot_kids (n : nat) : list kid :=
  match n with O => [] | S k => boot_kids k ++ [mkKid (100 + Z.of_nat k) false 0 []] end.
Definition init (n : nat) (a : Z) : st :=
  mkSt (boot_workers n [0]) (Z.of_nat n) (Z.of_nat n) [] 0 (Z.of_nat n) a [0] PSigq (boot_kids n) (100 + Z.of_nat n) 1 1
       (Z.of_nat n) a [] 0.

(* the same pool after TTIN / TTOU have resized it to n workers while the configuration (file and Config object) says k:
   num_workers = n, cfg.workers = k *)
Definition init_resized (n : nat) (k a : Z) : st :=
  mkSt (boot_workers n [0]) (Z.of_nat n) (Z.of_nat n) [] 0 k a [0] PSigq (boot_kids n) (100 + Z.of_nat n) 1 1
       k a [] 0.

(* ---- observation (mirrors props/c10.py) -------------------------------------------------------------------------------------- *)
Definition b2z (b : bool) : Z := if b then 1 else 0.
Definition pc_code (s : st) : list Z :=
  match cur s with
  | PSigq => [1; 0; 0] | PSelect => [2; 0; 0]
  | PManageLen => [6; 0; 0] | PSpawnCount => [6; 0; 0]
  | PFork _ _ => [7; 0; 0] | PRegister p _ _ => [8; p; 0] | PNap _ => [9; 0; 0]
  | PManageSort => [3; 0; 0]
  | PManageKill (p :: _) => [5; p; SIGTERM] | PManageKill [] => [5; 0; 0]
  end.
Definition obs_wk (w : wk) : list Z := [w_pid w; w_age w; w_cfg w] ++ (Z.of_nat (length (w_lsn w)) :: w_lsn w).
Definition obs_kid (c : kid) : list Z := [k_pid c; b2z (k_zomb c); k_status c; Z.of_nat (length (k_sigs c))].
Definition obs (s : st) : list Z :=
  pc_code s ++ [num s; wage s; Z.of_nat (length (sigq s)); cfgid s] ++
  (Z.of_nat (length (lsn s)) :: lsn s) ++ [Z.of_nat (length (closed s))] ++
  (Z.of_nat (length (workers s)) :: flat_map obs_wk (workers s)) ++
  (Z.of_nat (length (kids s)) :: flat_map obs_kid (kids s)).
Definition emits (l : label) : bool := match l with Master | Chld => true | _ => false end.
Fixpoint run_obs (s : st) (ls : list label) : list Z :=
  match ls with
  | [] => obs s
  | l :: t => let s' := step s l in if emits l then obs s' ++ run_obs s' t else run_obs s' t
  end.

(* ---- what the theorems talk about ------------------------------------------------------------------------------------------------ *)
Definition kid_told (s : st) (p : Z) : bool :=
  existsb (fun c => (k_pid c =? p) && told c) (kids s).
(* a worker counts as retired when it was sent SIGTERM, is already dead, or is gone from the process table *)
Definition retired (s : st) (w : wk) : bool :=
  negb (existsb (fun c => (k_pid c =? w_pid w) && negb (k_zomb c) && negb (told c)) (kids s)).
Definition fresh (s : st) (w : wk) : bool := hup_age s <? w_age w.

(* the schedule contains no death of a worker that was not told to stop *)
Definition only_told (ls : list label) : Prop := forall p status, ~ In (Exit p status) ls.
(* the configuration source never changes the bind address *)
Definition addr_fixed (a : Z) (ls : list label) : Prop := forall w a', In (Edit w a') ls -> a' = a.
