#!/bin/sh
# usage: selftest/run_all_arb2.sh <Cxx> [parallelism]   -- every selftest/mutants/<Cxx>-*.diff: repository tests + this check; summary on stdout
HERE="$(cd "$(dirname "$0")/.." && pwd)"
PROP="$1"; PAR="${2:-3}"
OUT="$HERE/.build/mutlogs"; mkdir -p "$OUT"
ls "$HERE"/selftest/mutants/$PROP-*.diff | xargs -P "$PAR" -I{} sh -c 'n=$(basename {} .diff); "$0"/selftest/run_mutant_arb2.sh {} "$1" quick --pytest > "$2/$n.log" 2>&1' "$HERE" "$PROP" "$OUT"
for f in "$HERE"/selftest/mutants/$PROP-*.diff; do
  n=$(basename $f .diff)
  echo "== $n: $(grep -E "passed|failed" $OUT/$n.log | head -1) | $(grep -c '^VIOLATION' $OUT/$n.log) violation line(s), $(grep -c 'no-failing-input-found' $OUT/$n.log) without input | $(grep 'mutrun rc' $OUT/$n.log)"
  grep -A1 '^VIOLATION' $OUT/$n.log | grep '^  (' | head -2 | cut -c1-220
done
