#!/bin/sh
# usage: selftest/mutrun_here.sh <patch.diff> <Cxx> [tier]  -- like tools/mutrun.sh, but runs the check of THIS worktree
HERE="$(cd "$(dirname "$0")/.." && pwd)"
PATCH="$(realpath "$1")"; PROP="$2"; TIER="${3:-quick}"
W="$(mktemp -d /tmp/gvmut.XXXXXX)"; rmdir "$W"
git -C /repo worktree add --detach "$W" HEAD >/dev/null 2>&1 || exit 3
( cd "$W" && git apply "$PATCH" ) || { git -C /repo worktree remove --force "$W"; echo "PATCH FAILED"; exit 3; }
cd "$HERE" && VERIF_REPO="$W" ./check "$PROP" "$TIER"
RC=$?
git -C /repo worktree remove --force "$W"
rm -rf "$HERE/.build/$(python3 -c "import hashlib,sys;print(hashlib.sha1(sys.argv[1].encode()).hexdigest()[:10])" "$W")"
echo "mutrun rc=$RC"
exit $RC
