import subprocess, sys, os
W = "/tmp/c16mut"
OUT = "/work/c16/selftest"
def sh(c, **k): return subprocess.run(c, shell=True, cwd=W, stdout=subprocess.PIPE, stderr=subprocess.STDOUT, **k)
def edit(path, old, new, count=1):
    p = os.path.join(W, path); s = open(p).read()
    assert s.count(old) >= 1, (path, old)
    s = s.replace(old, new, count); open(p, "w").write(s)

ENV_LOOP = '''        for k, v in vars(env_args).items():
            if v is None:
                continue
            if k == "args":
                continue
            self.cfg.set(k.lower(), v)
'''
CLI_LOOP = '''        for k, v in vars(args).items():
            if v is None:
                continue
            if k == "args":
                continue
            self.cfg.set(k.lower(), v)
'''
M = {}
def m_swap():
    # command line applied first, GUNICORN_CMD_ARGS afterwards - unless -c was given on the command line
    edit("gunicorn/app/base.py", ENV_LOOP, "@@ENV@@"); edit("gunicorn/app/base.py", CLI_LOOP, "@@CLI@@")
    edit("gunicorn/app/base.py", "@@ENV@@", """        sources = [env_args, args] if args.config else [args, env_args]
        for namespace in sources:
            for k, v in vars(namespace).items():
                if v is None:
                    continue
                if k == "args":
                    continue
                self.cfg.set(k.lower(), v)
""")
    edit("gunicorn/app/base.py", "\n        # Lastly, update the configuration with any command line settings.\n@@CLI@@", "")
M["mutants/C16-swap-env-cli"] = m_swap
def m_envnone():
    # "so that the environment can switch a flag off": unmentioned boolean flags are applied as None when GUNICORN_CMD_ARGS is set
    edit("gunicorn/app/base.py", ENV_LOOP, '''        env_given = 'GUNICORN_CMD_ARGS' in self.cfg.env_orig
        for k, v in vars(env_args).items():
            if k == "args":
                continue
            if v is None and not (env_given and isinstance(self.cfg.settings[k].default, bool)):
                continue
            self.cfg.set(k.lower(), v)
''')
M["mutants/C16-env-none-applied"] = m_envnone
def m_fileaftercli():
    # the default gunicorn.conf.py is read after the command line has been applied
    edit("gunicorn/app/base.py", '''        else:
            default_config = get_default_config_file()
            if default_config is not None:
                self.load_config_from_file(default_config)
''', "")
    edit("gunicorn/app/base.py", CLI_LOOP, CLI_LOOP + '''
        if not args.config and not env_args.config:
            default_config = get_default_config_file()
            if default_config is not None:
                self.load_config_from_file(default_config)
''')
M["mutants/C16-default-file-after-cli"] = m_fileaftercli
def m_bypass():
    edit("gunicorn/config.py", '''        self.settings[name].set(value)
''', '''        if name == "keepalive":
            self.settings[name].value = value
            return
        self.settings[name].set(value)
''')
M["mutants/C16-set-bypasses-validator"] = m_bypass
def m_argdefault():
    edit("gunicorn/config.py", '''        if self.const is not None:
            kwargs["const"] = self.const
''', '''        if self.const is not None:
            kwargs["const"] = self.const

        if self.name == "reuse_port":
            kwargs["default"] = False
''')
M["mutants/C16-argparse-default-not-none"] = m_argdefault
def m_falsy():
    edit("gunicorn/app/base.py", CLI_LOOP, CLI_LOOP.replace("if v is None:", "if not v:"))
M["mutants/C16-falsy-cli-values-skipped"] = m_falsy
def m_nolower():
    edit("gunicorn/app/base.py", '''            for k, v in cfg.items():
                self.cfg.set(k.lower(), v)
''', '''            for k, v in cfg.items():
                self.cfg.set(k, v)
''')
M["mutants/C16-framework-keys-not-lowered"] = m_nolower
def m_dictafterfile():
    edit("gunicorn/app/base.py", '''        # Load up the any app specific configuration
        if cfg:
            for k, v in cfg.items():
                self.cfg.set(k.lower(), v)

''', "")
    edit("gunicorn/app/base.py", '''        # Load up environment configuration
''', '''        # Load up the any app specific configuration
        if cfg:
            for k, v in cfg.items():
                self.cfg.set(k.lower(), v)

        # Load up environment configuration
''')
M["mutants/C16-framework-after-file"] = m_dictafterfile
def m_fileinvalid():
    edit("gunicorn/app/base.py", '''            except Exception:
                print("Invalid value for %s: %s\\n" % (k, v), file=sys.stderr)
                sys.stderr.flush()
                raise
''', '''            except Exception:
                print("Invalid value for %s: %s\\n" % (k, v), file=sys.stderr)
                sys.stderr.flush()
''')
M["mutants/C16-invalid-file-value-ignored"] = m_fileinvalid
def m_append_default():
    # bind given on the command line extends the list from the configuration file instead of replacing it
    edit("gunicorn/app/base.py", CLI_LOOP, '''        for k, v in vars(args).items():
            if v is None:
                continue
            if k == "args":
                continue
            if k == "raw_env" and self.cfg.settings[k].value:
                v = list(self.cfg.settings[k].value) + list(v)
            self.cfg.set(k.lower(), v)
''')
M["mutants/C16-raw-env-merged-not-replaced"] = m_append_default
# ---- behaviour-preserving refactorings
def r_helper():
    edit("gunicorn/app/base.py", ENV_LOOP, "        self._apply_namespace(env_args)\n")
    edit("gunicorn/app/base.py", CLI_LOOP, "        self._apply_namespace(args)\n")
    edit("gunicorn/app/base.py", "    def load_config(self):\n        # parse console args", '''    def _apply_namespace(self, namespace):
        for key, val in vars(namespace).items():
            if key != "args" and val is not None:
                self.cfg.set(key.lower(), val)

    def load_config(self):
        # parse console args''')
M["refactors/C16-ref-apply-namespace-helper"] = r_helper
def r_set():
    edit("gunicorn/config.py", '''        if name not in self.settings:
            raise AttributeError("No configuration setting for: %s" % name)
        self.settings[name].set(value)
''', '''        setting = self.settings.get(name)
        if setting is None:
            raise AttributeError("No configuration setting for: %s" % name)
        setting.set(value)
''')
    edit("gunicorn/config.py", '''        if not callable(self.validator):
            raise TypeError('Invalid validator: %s' % self.name)
        self.value = self.validator(val)
''', '''        validator = self.validator
        if not callable(validator):
            raise TypeError('Invalid validator: %s' % self.name)
        new_value = validator(val)
        self.value = new_value
''')
M["refactors/C16-ref-config-set"] = r_set
def r_kwargs():
    # mirrors a detail the extractor reads (the "default": None literal): expected no-failing-input-found
    edit("gunicorn/config.py", '''            "default": None,
            "help": help_txt
        }
''', '''            "help": help_txt
        }
        kwargs.setdefault("default", None)
''')
M["refactors/C16-ref-add-option-kwargs"] = r_kwargs

which = sys.argv[1:] or list(M)
for name in which:
    sh("git checkout -q . && git clean -fdq")
    M[name]()
    d = sh("git diff").stdout.decode()
    open(os.path.join(OUT, name + ".diff"), "w").write(d)
    r = sh("/venv/bin/python -m pytest -q -p no:cacheprovider 2>&1 | grep -E '^[0-9]+ (passed|failed)|passed|failed' | tail -2")
    print(name, "| diff lines", len(d.splitlines()), "|", r.stdout.decode().strip().replace("\n", " / "))
sh("git checkout -q . && git clean -fdq")
