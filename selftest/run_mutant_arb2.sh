#!/bin/sh
# usage: selftest/run_mutant_arb2.sh <patch.diff> <Cxx> [tier] [--pytest]
# apply a patch to a scratch worktree of /repo, (optionally run the repository's own tests), run THIS worktree's check on it
HERE="$(cd "$(dirname "$0")/.." && pwd)"
PATCH="$(realpath "$1")"; PROP="$2"; TIER="${3:-quick}"
W="$(mktemp -d /tmp/gvmut.XXXXXX)"; rmdir "$W"
git -C /repo worktree add --detach "$W" HEAD >/dev/null 2>&1 || exit 3
( cd "$W" && git apply "$PATCH" ) || { git -C /repo worktree remove --force "$W"; echo "PATCH FAILED"; exit 3; }
if [ "$4" = "--pytest" ]; then
  ( cd "$W" && /venv/bin/python -m pytest -q -p no:cacheprovider 2>&1 | tail -2 )
fi
cd "$HERE" && VERIF_REPO="$W" ./check "$PROP" "$TIER"
RC=$?
git -C /repo worktree remove --force "$W"
rm -rf "$HERE/.build/$(python3 -c "import hashlib,sys;print(hashlib.sha1(sys.argv[1].encode()).hexdigest()[:10])" "$W")"
echo "mutrun rc=$RC"
exit $RC
