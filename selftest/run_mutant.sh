#!/bin/sh
# usage: selftest/run_mutant.sh <patch.diff> <Cxx> [tier]
# Same as tools/mutrun.sh but relative to this checkout (tools/mutrun.sh is hard-wired to /verif):
# applies the patch to a scratch worktree of /repo under /tmp, runs the check against it, removes the worktree.
HERE="$(cd "$(dirname "$0")/.." && pwd)"
PATCH="$(realpath "$1")"; PROP="$2"; TIER="${3:-quick}"
W="$(mktemp -d /tmp/gvmut.XXXXXX)"; rmdir "$W"
git -C /repo worktree add --detach "$W" HEAD >/dev/null 2>&1 || exit 3
( cd "$W" && git apply "$PATCH" ) || { git -C /repo worktree remove --force "$W"; echo "PATCH FAILED"; exit 3; }
if [ -n "$MUT_PYTEST" ]; then
  ( cd "$W" && /venv/bin/python -m pytest -q -p no:cacheprovider 2>&1 | tail -2 )
fi
cd "$HERE" && VERIF_REPO="$W" ./check "$PROP" "$TIER"
RC=$?
git -C /repo worktree remove --force "$W"
rm -rf "$HERE/.build/$(python3 -c "import hashlib,sys;print(hashlib.sha1(sys.argv[1].encode()).hexdigest()[:10])" "$W")"
echo "mutrun rc=$RC"
exit $RC
