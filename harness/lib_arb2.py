"""C04 / C10 / C14: extensions of lib_arbiter's simulated-kernel driver (the REAL gunicorn.arbiter.Arbiter runs in-process)
and a driver for REAL master + worker processes started from $VERIF_REPO.

World2 adds to lib_arbiter.World what the three properties look at and the family model leaves out:
  * the pid file: the real gunicorn.pidfile.Pidfile on a real scratch directory, with os.kill / os.getpid of that module
    answering from the simulated process table (so "the other master is alive" is scripted);
  * systemd socket activation and reuse_port (both switch off the unlink decision of Arbiter.stop);
  * unix and TCP listeners as recording fakes with identities; every close / unlink is logged;
  * the environment handed to a re-executed master (GUNICORN_PID / GUNICORN_FD / LISTEN_FDS) and fd adoption in start();
  * every Config object ever loaded (a reload makes a new one): which configuration a worker was forked with;
  * new labels: ("B", binds) the configured bind addresses change, ("PF", name-or-None) the configured pid file changes,
    ("L", pid, alive) another process (the other master) appears / disappears for Pidfile.validate,
    ("Q", key, value) any other setting changes on disk.
"""
import errno
import os
import shutil
import signal as _signal
import tempfile
import time as _time

import lib_arbiter as L
import vlib

SIG = {n: int(getattr(_signal, "SIG" + n)) for n in "HUP QUIT INT TERM TTIN TTOU USR1 USR2 WINCH ABRT KILL CHLD".split()}
STOP_SIGNALS = (SIG["TERM"], SIG["INT"], SIG["QUIT"])
SELF_PID = L.SELF_PID
TICK = L.TICK


def scratch_root():
    d = vlib.VERIF / ".build" / "tmp"
    d.mkdir(parents=True, exist_ok=True)
    return d


class World2(L.World):
    def __init__(self, workers=2, timeout=30, graceful=30, worker_class="sync", pidfile=None, binds=None,
                 master_pid=0, rand=0.0, env=None, daemon=False, reuse_port=False, systemd_fds=0, inherited=None,
                 live=(), snapshot_stop=False):
        """pidfile: a file NAME (created inside a scratch directory) or None.
        inherited: {fd: listener name} for a re-executed master (GUNICORN_FD is derived from it)."""
        env = dict(env or {})
        self._fdn = {}
        if inherited:
            self._fdn = dict(inherited)
            env.setdefault("GUNICORN_FD", ",".join(str(fd) for fd in inherited))
        if systemd_fds:
            env["LISTEN_FDS"] = str(systemd_fds)
            env["LISTEN_PID"] = str(SELF_PID)
        self.dir = tempfile.mkdtemp(prefix="w2-", dir=str(scratch_root()))
        self.pidname = pidfile
        L.World.__init__(self, workers=workers, timeout=timeout, graceful=graceful, worker_class=worker_class,
                         pidfile=(os.path.join(self.dir, pidfile) if pidfile else None), binds=binds,
                         master_pid=master_pid, rand=rand, env=env, daemon=daemon)
        self.reuse_port = reuse_port
        self.extra = {}
        self.live = set(live) | {SELF_PID}
        if master_pid:
            self.live.add(master_pid)
        self.cfgs = []                  # every Config object loaded, in order
        self.pid_events = []            # (op, basename) for create / rename / unlink seen on the pid file module
        self.exec_env = None
        self.snapshot_stop = snapshot_stop
        self.stop_init = None           # state at the dispatch of the first TERM / INT / QUIT
        self.stop_index = None          # number of labels executed before that point
        self.trace2 = []
        self.listener_ids = {}          # id(listener object) -> small int, in order of creation
        self.listener_objs = []
        self.closed_ids = []

    # fd names survive the reset done by lib_arbiter.World.run
    @property
    def fd_names(self):
        return self._fdn

    @fd_names.setter
    def fd_names(self, v):
        pass

    def pidpath(self, name=None):
        return os.path.join(self.dir, name or self.pidname)

    def pid_files(self):
        """{basename: pid-or-text} of everything that looks like a pid file in the scratch directory"""
        out = {}
        for n in sorted(os.listdir(self.dir)):
            try:
                with open(os.path.join(self.dir, n)) as fh:
                    t = fh.read().strip()
                out[n] = int(t) if t.lstrip("-").isdigit() else t
            except OSError:
                pass
        return out

    def cleanup(self):
        shutil.rmtree(self.dir, ignore_errors=True)

    # ---- listeners -------------------------------------------------------------------------------------------------
    def lid(self, lnr):
        k = id(lnr)
        if k not in self.listener_ids:
            self.listener_ids[k] = len(self.listener_objs)
            self.listener_objs.append(lnr)
            orig = lnr.close

            def close(l=lnr, orig=orig):
                self.closed_ids.append(self.listener_ids[id(l)])
                return orig()
            lnr.close = close
        return self.listener_ids[k]

    def note_listeners(self):
        for l in self.listeners:
            self.lid(l)

    # ---- labels ------------------------------------------------------------------------------------------------------
    def apply_env(self, lab):
        kind = lab[0]
        if kind == "B":
            self.resolved.append(tuple(lab))
            self.nlabels += 1
            self.binds = list(lab[1])
        elif kind == "PF":
            self.resolved.append(tuple(lab))
            self.nlabels += 1
            self.pidname = lab[1]
            self.pidfile = os.path.join(self.dir, lab[1]) if lab[1] else None
        elif kind == "L":
            self.resolved.append(tuple(lab))
            self.nlabels += 1
            if lab[2]:
                self.live.add(lab[1])
            else:
                self.live.discard(lab[1])
        elif kind == "Q":
            self.resolved.append(tuple(lab))
            self.nlabels += 1
            self.extra[lab[1]] = lab[2]
        else:
            L.World.apply_env(self, lab)

    # ---- yield points ---------------------------------------------------------------------------------------------------
    def yield_(self, code, a=0, b=0):
        if self.in_handler or not self.active:
            return
        self.cur = (code, int(a), int(b))
        if self.pending_obs:
            self.snap()
        if self.snapshot_stop and self.stop_init is None and code == L.Y_QLEN:
            q = [int(s) for s in list.__iter__(self.arbiter.SIG_QUEUE)]
            if q and q[0] in STOP_SIGNALS:
                self.stop_index = len(self.resolved)
                self.stop_init = self.stop_state(q[0])
                self.snap2()
                self.trace2 = []          # observations start after the first label
        L.World.yield_(self, code, a, b)

    def snap(self):
        L.World.snap(self)
        if self.stop_init is not None:
            self.snap2()

    # ---- C04 observation (mirrors Model/Shutdown.v obs) ---------------------------------------------------------------------
    def sock_ids(self):
        """ids of the unix socket files that still exist"""
        init = self.stop_init
        gone = set(self.fs_unlinked)
        return [i for i, p in init["sock_paths"] if p not in gone]

    def pid_present(self):
        if not self.pidfile:
            return 0
        try:
            with open(self.pidfile) as fh:
                return 1 if fh.read().strip() == str(SELF_PID) else 0
        except OSError:
            return 0

    def stop_state(self, sig):
        a = self.arbiter
        self.note_listeners()
        lst = [(self.lid(l), 1 if isinstance(l.getsockname(), str) else 0, l.getsockname()) for l in a.LISTENERS]
        return {
            "sig": sig,
            "ws": [int(p) for p in dict.keys(a.WORKERS)],
            "kids": [(k["pid"], 1 if k["st"] == "Z" else 0, k["status"], list(k["sigs"]), 1 if k["master"] else 0) for k in self.kids],
            "wall": self.wall - L.WALL0,
            "lst": [(i, u) for i, u, _ in lst],
            "sock_paths": [(i, n) for i, u, n in lst if u],
            "reexec": int(a.reexec_pid), "mpid": int(a.master_pid),
            "systemd": bool(a.systemd), "reuse": bool(a.cfg.reuse_port),
            "pidconf": a.pidfile is not None, "pidfs": None,
            "grace": int(a.cfg.graceful_timeout) * TICK,
            "closed0": len(self.closed_ids), "ndelivered": len(self.all_delivered),
        }

    def snap2(self):
        init = self.stop_init
        if init["pidfs"] is None:
            init["pidfs"] = self.pid_present()
        a = self.arbiter
        code, x, y = self.cur
        out = [code, x, y, self.wall - L.WALL0, int(a.reexec_pid), len(a.LISTENERS), self.pid_present()]
        ws = [int(p) for p in dict.keys(a.WORKERS)]
        out += [len(ws)] + ws
        out.append(len(self.kids))
        for k in self.kids:
            out += [k["pid"], 0 if k["st"] == "R" else 1, k["status"], len(k["sigs"])]
        cl = self.closed_ids[init["closed0"]:]
        out += [len(cl)] + cl
        fs = self.sock_ids()
        out += [len(fs)] + fs
        self.trace2.append(out)

    # ---- run ---------------------------------------------------------------------------------------------------------------------
    def run(self, script, policy=None):
        import gunicorn.app.base as gbase
        import gunicorn.pidfile as gpid
        import gunicorn.systemd as gsd
        import gunicorn.arbiter as ga
        world = self

        class PidOs(L.Passthrough):
            def kill(self, pid, sig):
                if int(pid) in world.live or any(k["pid"] == pid and k["st"] == "R" for k in world.kids):
                    return None
                raise ProcessLookupError(errno.ESRCH, "No such process")

            def getpid(self):
                return SELF_PID

            def rename(self, a, b):
                world.pid_events.append(("write", os.path.basename(b)))
                return os.rename(a, b)

            def unlink(self, p):
                world.pid_events.append(("unlink", os.path.basename(p)))
                return os.unlink(p)

        class SdOs(L.Passthrough):
            environ = world.environ

            def getpid(self):
                return SELF_PID

        orig_ldc = gbase.BaseApplication.load_default_config

        def load_default_config(app):
            orig_ldc(app)
            world.cfgs.append(app.cfg)
            app.cfg.set("reuse_port", bool(world.reuse_port))
            for k, v in world.extra.items():
                app.cfg.set(k, v)

        saved = (gpid.os, gsd.os)
        gpid.os = PidOs(os)
        gsd.os = SdOs(os)
        gbase.BaseApplication.load_default_config = load_default_config
        real = (ga.os, ga.time, ga.select, ga.signal, ga.random, ga.sock)
        try:
            L.World.run(self, script, policy)
        finally:
            gbase.BaseApplication.load_default_config = orig_ldc
            gsd.os = saved[1]
            gpid.os = saved[0]
            ga.os, ga.time, ga.select, ga.signal, ga.random, ga.sock = real
        return self

    def cfg_index(self, cfg):
        for i, c in enumerate(self.cfgs):
            if c is cfg:
                return i
        return -1


# ---- tail policies -------------------------------------------------------------------------------------------------------------

def steps_policy(n):
    """n further master steps, nothing else"""
    box = {"n": n}

    def policy(world):
        if box["n"] <= 0:
            return None
        box["n"] -= 1
        return ("M",)
    return policy


def fair_stop_policy(limit=4000, exit_status=0):
    """C04: during the naps of stop() (and at its WORKERS test) every told child exits and SIGCHLD is delivered; mirrors
    Model/Shutdown.v fair_step"""
    box = {"q": [], "n": limit}

    def policy(world):
        if box["q"]:
            return box["q"].pop(0)
        box["n"] -= 1
        if box["n"] <= 0:
            return None
        code = world.cur[0]
        q = []
        if world.stopping_at is not None and code in (L.Y_SLEEP, L.Y_WLEN):
            dying = [k for k in world.kids if k["st"] == "R" and any(s in L.FATAL for s in k["sigs"])]
            for k in dying:
                q.append(("X", k["pid"], exit_status))
            q.append(("C",))
        q.append(("M",))
        box["q"] = q
        return box["q"].pop(0)
    return policy


# ---- Coq side of a C04 run ------------------------------------------------------------------------------------------------------

HEADER_STOP = """From Coq Require Import List ZArith Bool.
From GV Require Import Gen.GenArbiter Gen.GenShutdown Model.Shutdown.
Import ListNotations.
Open Scope Z_scope.
"""


def coq_bool(b):
    return "true" if b else "false"


def stop_label(lab):
    k = lab[0]
    if k == "M":
        return "Master"
    if k == "C":
        return "Chld"
    if k == "X":
        return "Exit %d %d" % (lab[1], lab[2])
    if k == "T":
        return "Tick %d" % lab[1]
    return None        # signals and the rest do not exist in the shutdown model (they are queued and never read)


def stop_init_expr(init):
    kids = "[" + "; ".join("mkKid %d %s %d %s %s" % (p, coq_bool(z), st, vlib.coq_listZ(sg), coq_bool(m)) for p, z, st, sg, m in init["kids"]) + "]"
    lst = "[" + "; ".join("mkLsn %d %s" % (i, coq_bool(u)) for i, u in init["lst"]) + "]"
    cfg = "(mkCfg %d %s %s %s)" % (init["grace"], coq_bool(init["systemd"]), coq_bool(init["reuse"]), coq_bool(init["pidconf"]))
    st = "(mkSt %s %s %d %d (PDispatch %d) %s %d %s %s [] 0 0 0)" % (
        vlib.coq_listZ(init["ws"]), lst, init["reexec"], init["mpid"], init["sig"], kids, init["wall"],
        vlib.coq_listZ([i for i, _ in init["sock_paths"]]), coq_bool(init["pidfs"]))
    return cfg, st


def stop_model_expr(w):
    cfg, st = stop_init_expr(w.stop_init)
    labs = [stop_label(l) for l in w.resolved[w.stop_index:]]
    labs = [l for l in labs if l is not None]
    return "run_obs %s %s [%s]" % (cfg, st, "; ".join(labs))
