"""Table extractor for the arbiter family (C03 C11 C10 C04 C14): constants of gunicorn/arbiter.py and of the worker
heartbeat loops, read from the tree under test (introspection + AST).  Prints Coq text; exits non-zero on anything
it cannot interpret (fail closed).  Times are in ticks of 1/256 s (exactly representable as floats)."""
import ast
import inspect
import signal
import sys
import textwrap
import warnings

warnings.simplefilter("ignore")

TICK = 256


def die(msg):
    sys.stderr.write("gen_arbiter: " + msg + "\n")
    sys.exit(2)


def fn_ast(obj):
    try:
        src = textwrap.dedent(inspect.getsource(obj))
    except (OSError, TypeError) as e:
        die("no source for %r: %s" % (obj, e))
    return ast.parse(src).body[0]


def num(node):
    if isinstance(node, ast.Constant) and isinstance(node.value, (int, float)) and not isinstance(node.value, bool):
        return node.value
    return None


def ticks(x, what):
    t = x * TICK
    r = int(round(t))
    if r < 0:
        die("%s: negative duration %r" % (what, x))
    return r


def calls(tree, owner, attr):
    """all Call nodes `owner.attr(...)` (owner may be dotted: 'self.poller')"""
    out = []
    for n in ast.walk(tree):
        if isinstance(n, ast.Call) and isinstance(n.func, ast.Attribute) and n.func.attr == attr:
            try:
                if ast.unparse(n.func.value) == owner:
                    out.append(n)
            except Exception:
                pass
    return out


def reap_guard(A):
    """How Arbiter.reap_workers turns the exit codes 3 / 4 of a worker into HaltServer.
    False: `if exitcode == self.WORKER_BOOT_ERROR: raise HaltServer(...)` (and the same for APP_LOAD_ERROR), unconditionally.
    True:  both tests read `exitcode == self.<CODE> and not self.<flag>`, where <flag> is an attribute that __init__ sets to
           False and that the FIRST statement of stop() sets to True, written nowhere else and read nowhere else.
    Anything else is not understood (fail closed)."""
    t = fn_ast(A.reap_workers)
    parent = {}
    for n in ast.walk(t):
        for c in ast.iter_child_nodes(n):
            parent[c] = n
    if not any(isinstance(n, ast.Assign) and ast.unparse(n) == "exitcode = status >> 8" for n in ast.walk(t)):
        die("reap_workers: expected `exitcode = status >> 8`")
    raises = [n for n in ast.walk(t) if isinstance(n, ast.Raise) and n.exc is not None]     # not the bare re-raise of OSError
    if len(raises) != 2:
        die("reap_workers: expected exactly two raise statements, found %d" % len(raises))
    seen = {}
    for r in raises:
        e = r.exc
        if not (isinstance(e, ast.Call) and isinstance(e.func, ast.Name) and e.func.id == "HaltServer" and len(e.args) == 2
                and not e.keywords and r.cause is None):
            die("reap_workers: cannot interpret `%s`" % ast.unparse(r))
        code = ast.unparse(e.args[1])
        if code not in ("self.WORKER_BOOT_ERROR", "self.APP_LOAD_ERROR") or code in seen:
            die("reap_workers: unexpected exit status in `%s`" % ast.unparse(r))
        iff = parent.get(r)
        if not isinstance(iff, ast.If) or r not in iff.body or iff.orelse:
            die("reap_workers: `%s` is not the body of a plain `if`" % ast.unparse(r))
        if any(isinstance(x, (ast.Break, ast.Continue, ast.Return)) for x in iff.body):
            die("reap_workers: control flow next to `%s`" % ast.unparse(r))
        # where the `if` sits: try: while True: ... if self.reexec_pid == wpid: ... else: <here>
        p1 = parent.get(iff)
        if not (isinstance(p1, ast.If) and ast.unparse(p1.test) == "self.reexec_pid == wpid" and iff in p1.orelse
                and isinstance(parent.get(p1), ast.While) and isinstance(parent.get(parent.get(p1)), ast.Try)
                and parent.get(parent.get(parent.get(p1))) is t):
            die("reap_workers: the test guarding `%s` is not in the worker branch of the waitpid loop" % ast.unparse(r))
        test = iff.test
        flag = None
        if isinstance(test, ast.BoolOp) and isinstance(test.op, ast.And) and len(test.values) == 2:
            g = test.values[1]
            if not (isinstance(g, ast.UnaryOp) and isinstance(g.op, ast.Not) and isinstance(g.operand, ast.Attribute)
                    and isinstance(g.operand.value, ast.Name) and g.operand.value.id == "self"):
                die("reap_workers: cannot interpret the test `%s`" % ast.unparse(test))
            flag = g.operand.attr
            test = test.values[0]
        if ast.unparse(test) != "exitcode == %s" % code:
            die("reap_workers: cannot interpret the test `%s` before `%s`" % (ast.unparse(iff.test), ast.unparse(r)))
        seen[code] = flag
    flags = set(seen.values())
    if len(flags) != 1:
        die("reap_workers: the two boot-failure tests are guarded differently: %r" % (seen,))
    flag = flags.pop()
    if flag is None:
        return False
    try:
        cls = ast.parse(textwrap.dedent(inspect.getsource(A))).body[0]
    except (OSError, TypeError) as e:
        die("no source for Arbiter: %s" % e)
    stores, loads = [], 0
    for fn in cls.body:
        if not isinstance(fn, (ast.FunctionDef, ast.AsyncFunctionDef)):
            continue
        for n in ast.walk(fn):
            if isinstance(n, ast.Attribute) and n.attr == flag and isinstance(n.value, ast.Name) and n.value.id == "self":
                if isinstance(n.ctx, ast.Load):
                    loads += 1
                else:
                    stores.append((fn, n))
    if loads != 2:
        die("self.%s is read %d times in Arbiter (expected: the two tests of reap_workers only)" % (flag, loads))
    if sorted(fn.name for fn, _ in stores) != ["__init__", "stop"]:
        die("self.%s is written in %r (expected: __init__ and stop only)" % (flag, sorted(fn.name for fn, _ in stores)))
    for fn, n in stores:
        st = parent_stmt(fn, n)
        want = "self.%s = %s" % (flag, "False" if fn.name == "__init__" else "True")
        if st is None or ast.unparse(st) != want or st not in fn.body:
            die("%s: expected the top-level statement `%s`" % (fn.name, want))
        if fn.name == "stop":
            body = [s for s in fn.body if not (isinstance(s, ast.Expr) and isinstance(s.value, ast.Constant) and isinstance(s.value.value, str))]
            if body[0] is not st:
                die("stop: `%s` is not the first statement" % want)
    return True


def parent_stmt(fn, node):
    for st in ast.walk(fn):
        if isinstance(st, ast.stmt) and st is not fn:
            for c in ast.iter_child_nodes(st):
                if c is node:
                    return st
    return None


def main():
    import gunicorn.arbiter as ga
    A = ga.Arbiter
    out = []
    w = out.append
    w("(* generated by harness/gen/gen_arbiter.py from %s - do not edit *)" % inspect.getsourcefile(ga))
    w("From Coq Require Import List ZArith.")
    w("Import ListNotations.")
    w("Local Open Scope Z_scope.")

    # --- exit codes -------------------------------------------------------------------------------
    for name in ("WORKER_BOOT_ERROR", "APP_LOAD_ERROR"):
        v = getattr(A, name, None)
        if not isinstance(v, int) or isinstance(v, bool):
            die("Arbiter.%s is not an int" % name)
        w("Definition %s : Z := %d." % (name.lower(), v))

    # --- reap_workers: when does a boot-failure exit code raise HaltServer? ---------------------------------
    w("Definition reap_guards_halting : bool := %s.   (* reap_workers raises HaltServer only while stop() has not been entered *)"
      % ("true" if reap_guard(A) else "false"))

    # --- signal queue bound: the literal compared with len(self.SIG_QUEUE) in Arbiter.signal ----------
    t = fn_ast(A.signal)
    bound = None
    for n in ast.walk(t):
        if isinstance(n, ast.Compare) and len(n.ops) == 1 and isinstance(n.ops[0], ast.Lt):
            if ast.unparse(n.left) == "len(self.SIG_QUEUE)" and num(n.comparators[0]) is not None:
                bound = num(n.comparators[0])
    if not isinstance(bound, int):
        die("cannot find `len(self.SIG_QUEUE) < <int>` in Arbiter.signal")
    w("Definition sig_queue_max : Z := %d." % bound)

    # --- signal numbers -------------------------------------------------------------------------------
    names = "HUP QUIT INT TERM TTIN TTOU USR1 USR2 WINCH CHLD ABRT KILL".split()
    for nm in names:
        w("Definition SIG%s : Z := %d." % (nm, int(getattr(signal, "SIG" + nm))))
    queued = [int(s) for s in A.SIGNALS]
    w("Definition queued_signals : list Z := [%s]." % "; ".join(str(s) for s in queued))
    # handler table: which handle_<name> methods exist for the queued signals
    for s in A.SIGNALS:
        nm = A.SIG_NAMES.get(s)
        if nm is None or not hasattr(A, "handle_%s" % nm):
            die("queued signal %r has no handler" % (s,))

    # --- main loop sleep: select.select([...], [], [], <float>) in Arbiter.sleep --------------------------
    t = fn_ast(A.sleep)
    cs = calls(t, "select", "select")
    if len(cs) != 1 or len(cs[0].args) != 4 or num(cs[0].args[3]) is None:
        die("Arbiter.sleep: expected exactly one select.select(r, w, x, <literal>)")
    w("Definition select_ticks : Z := %d." % ticks(num(cs[0].args[3]), "select timeout"))

    # --- stop(): time.sleep(<float>) in the wait loop ------------------------------------------------------
    t = fn_ast(A.stop)
    cs = calls(t, "time", "sleep")
    if len(cs) != 1 or len(cs[0].args) != 1 or num(cs[0].args[0]) is None:
        die("Arbiter.stop: expected exactly one time.sleep(<literal>)")
    w("Definition stop_nap_ticks : Z := %d." % ticks(num(cs[0].args[0]), "stop nap"))

    # --- spawn_workers(): time.sleep(<float> * random.random()) ------------------------------------------------
    t = fn_ast(A.spawn_workers)
    cs = calls(t, "time", "sleep")
    if len(cs) != 1 or len(cs[0].args) != 1:
        die("Arbiter.spawn_workers: expected exactly one time.sleep(...)")
    arg = cs[0].args[0]
    if not (isinstance(arg, ast.BinOp) and isinstance(arg.op, ast.Mult) and num(arg.left) is not None
            and ast.unparse(arg.right) == "random.random()"):
        die("Arbiter.spawn_workers: expected time.sleep(<literal> * random.random())")
    w("Definition spawn_nap_max_ticks : Z := %d." % ticks(num(arg.left), "spawn nap"))

    # --- wait bound handed to workers: self.timeout / <literal> in spawn_worker ---------------------------------
    t = fn_ast(A.spawn_worker)
    div = None
    for n in ast.walk(t):
        if isinstance(n, ast.BinOp) and isinstance(n.op, ast.Div) and ast.unparse(n.left) == "self.timeout" and num(n.right) is not None:
            div = num(n.right)
    if div is None or int(div) != div or div <= 0:
        die("Arbiter.spawn_worker: expected self.timeout / <positive integer literal>")
    w("Definition worker_timeout_div : Z := %d." % int(div))

    # --- heartbeat periods of the worker loops (C11) --------------------------------------------------------------
    def loop_literal(cls, owner, attr, what):
        t = fn_ast(cls.run)
        found = []
        for n in ast.walk(t):
            if isinstance(n, ast.While) and ast.unparse(n.test) == "self.alive":
                body_calls = [c for c in ast.walk(n) if isinstance(c, ast.Call)]
                has_notify = any(isinstance(c.func, ast.Attribute) and c.func.attr == "notify" and ast.unparse(c.func.value) == "self"
                                 for c in body_calls)
                if not has_notify:
                    die("%s: the `while self.alive` loop does not call self.notify()" % what)
                for c in calls(n, owner, attr):
                    if len(c.args) >= 1 and num(c.args[0]) is not None:
                        found.append(num(c.args[0]))
        if not found:
            die("%s: no %s.%s(<literal>) in the `while self.alive` loop of run()" % (what, owner, attr))
        return max(found)

    try:
        from gunicorn.workers.gthread import ThreadWorker
        w("Definition gthread_period_ticks : Z := %d." % ticks(loop_literal(ThreadWorker, "self.poller", "select", "gthread"), "gthread"))
    except ImportError as e:
        die("gthread: %s" % e)
    try:
        from gunicorn.workers.ggevent import GeventWorker
        w("Definition gevent_period_ticks : Z := %d." % ticks(loop_literal(GeventWorker, "gevent", "sleep", "gevent"), "gevent"))
    except ImportError as e:
        die("gevent: %s" % e)
    try:
        from gunicorn.workers.geventlet import EventletWorker
        w("Definition eventlet_period_ticks : Z := %d." % ticks(loop_literal(EventletWorker, "eventlet", "sleep", "eventlet"), "eventlet"))
    except ImportError as e:
        die("eventlet: %s" % e)
    # sync: `timeout = self.timeout or <literal>` in SyncWorker.run; wait(timeout) = notify(); select(..., timeout)
    from gunicorn.workers.sync import SyncWorker
    t = fn_ast(SyncWorker.run)
    lit = None
    for n in ast.walk(t):
        if isinstance(n, ast.Assign) and ast.unparse(n.targets[0]) == "timeout" and isinstance(n.value, ast.BoolOp) \
                and isinstance(n.value.op, ast.Or) and ast.unparse(n.value.values[0]) == "self.timeout" and num(n.value.values[1]) is not None:
            lit = num(n.value.values[1])
    if lit is None:
        die("SyncWorker.run: expected `timeout = self.timeout or <literal>`")
    w("Definition sync_default_wait_ticks : Z := %d." % ticks(lit, "sync default wait"))
    t = fn_ast(SyncWorker.wait)
    cs = calls(t, "select", "select")
    if len(cs) != 1 or len(cs[0].args) != 4 or ast.unparse(cs[0].args[3]) != "timeout":
        die("SyncWorker.wait: expected select.select(..., timeout)")
    if not calls(t, "self", "notify"):
        die("SyncWorker.wait: no self.notify()")
    w("Definition ticks_per_second : Z := %d." % TICK)
    sys.stdout.write("\n".join(out) + "\n")


if __name__ == "__main__":
    main()
