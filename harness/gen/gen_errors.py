#!/usr/bin/env python3
"""Table extractor for the connection-handling family (C05, C18, C19).

Prints theories/Gen/GenErrors.v:
  * an inductive [ecls] with one constructor per exception class the except ladders can see: every class
    defined in gunicorn/http/errors.py plus ssl.SSLError, OSError, Exception, StopIteration, SystemExit,
    KeyboardInterrupt, BaseException (the most specific of these along the MRO stands for any other class);
  * the subclass facts the ladders test (is Exception / OSError / StopIteration / NoMoreData / SSLError /
    ParseException);
  * the behaviour table of the real Worker.handle_error, obtained by exhaustive behavioural enumeration: one
    instance of every class is passed to the real method with a capturing socket and a capturing logger; we
    record the (status, reason, mesg) handed to util.write_error (mesg as prefix ++ str(exc) ++ suffix), whether
    an access record is produced from exc.req when no request object was passed, and whether the page on the
    wire carries `Connection: close` and a Content-Length equal to the body length.
Fail closed: anything unexpected exits non-zero.
"""
import errno
import inspect
import io
import ssl
import sys

SENT = "\u0001SENTINEL\u0002"


def fail(msg):
    sys.stderr.write("gen_errors: " + msg + "\n")
    sys.exit(1)


def coq_bytes(s):
    if isinstance(s, str):
        s = s.encode("latin-1")
    return "[" + ";".join(str(b) for b in s) + "]"


def classes():
    import gunicorn.http.errors as E
    own = [c for n, c in sorted(vars(E).items()) if inspect.isclass(c) and c.__module__ == E.__name__
           and issubclass(c, BaseException)]
    extra = [ssl.SSLError, OSError, Exception, StopIteration, SystemExit, KeyboardInterrupt, BaseException]
    # most specific first, so that "first class along the MRO that is in the table" is well defined
    out = []
    for c in own + extra:
        if c not in out:
            out.append(c)
    return out


class CapSock:
    def __init__(self):
        self.data = b""
        self.blocking = True

    def gettimeout(self):
        return None if self.blocking else 0.0

    def setblocking(self, b):
        self.blocking = bool(b)

    def sendall(self, d):
        self.data += d

    def send(self, d):
        self.data += d
        return len(d)

    def close(self):
        pass


class CapLog:
    def __init__(self):
        self.access_calls = []

    def access(self, resp, req, environ, request_time):
        self.access_calls.append((resp.status, resp.sent))

    def __getattr__(self, name):
        return lambda *a, **k: None


class FakeReq:
    method = "GET"
    uri = "/x"
    query = ""
    fragment = ""
    path = "/x"
    version = (1, 1)
    headers = []
    body = None
    scheme = "http"
    proxy_protocol_info = None

    def should_close(self):
        return True


def probe(cls, with_req_attr):
    """Run the real handle_error on an instance of (a str-overriding subclass of) cls."""
    import gunicorn.config
    import gunicorn.util
    import gunicorn.workers.base as base
    sub = type(cls.__name__, (cls,), {"__str__": lambda self: SENT, "__init__": lambda self, *a, **k: None})
    exc = sub.__new__(sub)
    if issubclass(cls, OSError):
        exc.errno = None
    if with_req_attr:
        exc.req = FakeReq()
    cfg = gunicorn.config.Config()
    w = base.Worker.__new__(base.Worker)
    w.cfg = cfg
    w.log = CapLog()
    sock = CapSock()
    seen = []
    real = gunicorn.util.write_error

    def spy(s, status_int, reason, mesg):
        seen.append((status_int, reason, mesg))
        return real(s, status_int, reason, mesg)
    base.util.write_error = spy
    try:
        w.handle_error(None, sock, ("9.9.9.9", 9), exc)
    finally:
        base.util.write_error = real
    if len(seen) != 1:
        fail("handle_error(%s) called write_error %d times" % (cls.__name__, len(seen)))
    return seen[0], sock.data, w.log.access_calls


def page_facts(data):
    head, sep, body = data.partition(b"\r\n\r\n")
    if not sep:
        return False, False
    lines = head.split(b"\r\n")
    fields = [l.split(b":", 1) for l in lines[1:]]
    conn = [v.strip().lower() for k, v in (f for f in fields if len(f) == 2) if k.strip().lower() == b"connection"]
    cl = [v.strip() for k, v in (f for f in fields if len(f) == 2) if k.strip().lower() == b"content-length"]
    return conn == [b"close"], (len(cl) == 1 and cl[0].isdigit() and int(cl[0]) == len(body))


def main():
    import gunicorn.http.errors as E
    cl = classes()
    names = []
    for c in cl:
        n = c.__name__
        if n in names:
            fail("duplicate class name " + n)
        names.append(n)
    rows = []
    for c in cl:
        (st, reason, mesg), data, acc0 = probe(c, False)
        (st2, reason2, mesg2), data2, acc1 = probe(c, True)
        if (st, reason, mesg) != (st2, reason2, mesg2):
            fail("handle_error(%s) depends on exc.req in an unmodelled way" % c.__name__)
        if acc0:
            fail("handle_error(%s) logged an access record without any request" % c.__name__)
        if len(acc1) > 1:
            fail("handle_error(%s) logged more than one record" % c.__name__)
        if not isinstance(st, int) or not isinstance(reason, str) or not isinstance(mesg, str):
            fail("handle_error(%s): unexpected write_error argument types" % c.__name__)
        if mesg.count(SENT) > 1:
            fail("handle_error(%s): str(exc) used more than once" % c.__name__)
        if SENT in mesg:
            pre, suf = mesg.split(SENT)
            uses = True
        else:
            pre, suf, uses = mesg, "", False
        try:
            pre.encode("latin-1"), suf.encode("latin-1"), reason.encode("latin-1")
        except UnicodeEncodeError:
            fail("non latin-1 text in the handle_error table")
        if acc1 and acc1[0] != ("%s %s" % (st, reason), 0):
            fail("handle_error(%s): unexpected access record %r" % (c.__name__, acc1[0]))
        cc, clen = page_facts(data)
        rows.append(dict(cls=c, name=c.__name__, status=st, reason=reason, pre=pre, suf=suf, uses=uses,
                         adopts=bool(acc1), conn_close=cc, clen_ok=clen))

    def fn(name, typ, f):
        out = ["Definition %s (c : ecls) : %s :=" % (name, typ), "  match c with"]
        for r in rows:
            out.append("  | E_%s => %s" % (r["name"], f(r)))
        out.append("  end.")
        return "\n".join(out)

    def b(x):
        return "true" if x else "false"
    o = []
    o.append("(* GENERATED by harness/gen/gen_errors.py from the tree under test - do not edit. *)")
    o.append("From Coq Require Import List NArith.")
    o.append("Import ListNotations.")
    o.append("Local Open Scope N_scope.")
    o.append("")
    o.append("Inductive ecls : Type :=\n" + "\n".join("  | E_%s" % n for n in names) + ".")
    o.append("")
    o.append("Definition all_ecls : list ecls := [" + "; ".join("E_%s" % n for n in names) + "].")
    o.append("")
    o.append("Definition ecls_id (c : ecls) : N :=\n  match c with\n" +
             "\n".join("  | E_%s => %d" % (n, i) for i, n in enumerate(names)) + "\n  end.")
    o.append("")
    o.append("Definition ecls_eqb (a b : ecls) : bool := N.eqb (ecls_id a) (ecls_id b).")
    o.append("")
    o.append(fn("is_exception", "bool", lambda r: b(issubclass(r["cls"], Exception))))
    o.append(fn("is_oserror", "bool", lambda r: b(issubclass(r["cls"], OSError))))
    o.append(fn("is_stopiter", "bool", lambda r: b(issubclass(r["cls"], StopIteration))))
    o.append(fn("is_nomoredata", "bool", lambda r: b(issubclass(r["cls"], E.NoMoreData))))
    o.append(fn("is_sslerror", "bool", lambda r: b(issubclass(r["cls"], ssl.SSLError))))
    o.append(fn("is_parse", "bool", lambda r: b(issubclass(r["cls"], E.ParseException))))
    o.append("(* behaviour of the real Worker.handle_error, one row per class *)")
    o.append(fn("he_status", "N", lambda r: str(r["status"])))
    o.append(fn("he_reason", "list N", lambda r: coq_bytes(r["reason"])))
    o.append(fn("he_uses_text", "bool", lambda r: b(r["uses"])))
    o.append(fn("he_prefix", "list N", lambda r: coq_bytes(r["pre"])))
    o.append(fn("he_suffix", "list N", lambda r: coq_bytes(r["suf"])))
    o.append(fn("he_adopts_req", "bool", lambda r: b(r["adopts"])))
    o.append(fn("he_conn_close", "bool", lambda r: b(r["conn_close"])))
    o.append(fn("he_clen_ok", "bool", lambda r: b(r["clen_ok"])))
    o.append("")
    o.append("Definition errno_EPIPE : N := %d." % errno.EPIPE)
    o.append("Definition errno_ECONNRESET : N := %d." % errno.ECONNRESET)
    o.append("Definition errno_ENOTCONN : N := %d." % errno.ENOTCONN)
    o.append("Definition ssl_ERROR_EOF : N := %d." % int(ssl.SSL_ERROR_EOF))
    o.append("(* Worker.__init__: max_requests = cfg.max_requests + jitter, or sys.maxsize when cfg.max_requests is 0 *)")
    o.append("Definition sys_maxsize : N := %d." % sys.maxsize)
    print("\n".join(o))


if __name__ == "__main__":
    main()
