"""Fail-closed expansion of the regex shapes gunicorn uses into explicit latin-1 character sets."""
import re
import re._parser as sp
import re._constants as sc


class Shape(Exception):
    pass


def _in_members(items):
    """IN [...] -> set of code points 0..255 (negation supported)."""
    neg = False
    s = set()
    for op, arg in items:
        if op is sc.NEGATE:
            neg = True
        elif op is sc.LITERAL:
            s.add(arg)
        elif op is sc.RANGE:
            s.update(range(arg[0], arg[1] + 1))
        elif op is sc.CATEGORY and arg is sc.CATEGORY_DIGIT:
            s.update(c for c in range(256) if chr(c).isdigit() and re.fullmatch(r"\d", chr(c)))
        else:
            raise Shape("unsupported class member %r" % ((op, arg),))
    s = {c for c in s if c < 256}
    if neg:
        s = set(range(256)) - s
    return s


def char_class(rx, repeat=None):
    """rx must be exactly one character class, optionally under the repetition `repeat`
    ('+' or '*').  Returns the sorted list of latin-1 code points, re-validated against the live
    regex object on all 256 characters."""
    if rx.flags & ~re.UNICODE:
        raise Shape("unexpected flags %r on %r" % (rx.flags, rx.pattern))
    tree = list(sp.parse(rx.pattern))
    if len(tree) != 1:
        raise Shape("pattern %r is not a single item" % rx.pattern)
    op, arg = tree[0]
    if repeat:
        if op is not sc.MAX_REPEAT:
            raise Shape("pattern %r: expected a repetition" % rx.pattern)
        lo, hi, sub = arg
        want_lo = 1 if repeat == "+" else 0
        if lo != want_lo or hi is not sc.MAXREPEAT or len(sub) != 1:
            raise Shape("pattern %r: unexpected repetition bounds" % rx.pattern)
        op, arg = sub[0]
    if op is sc.LITERAL:
        members = {arg}
    elif op is sc.IN:
        members = _in_members(arg)
    else:
        raise Shape("pattern %r is not a character class" % rx.pattern)
    single = re.compile(rx.pattern if not repeat else sp_unrepeat(rx.pattern, repeat))
    for c in range(256):
        if bool(single.fullmatch(chr(c))) != (c in members):
            raise Shape("class expansion of %r disagrees with the regex on %d" % (rx.pattern, c))
    return sorted(members)


def sp_unrepeat(pattern, repeat):
    if not pattern.endswith(repeat):
        raise Shape("pattern %r does not end with %r" % (pattern, repeat))
    return pattern[:-1]


def coq_N_list(name, xs, comment=""):
    return "Definition %s : list N := [%s]%%N.%s\n" % (name, "; ".join(str(x) for x in xs), ("  (* %s *)" % comment) if comment else "")
