"""Simulated kernel and step-wise driver for the REAL gunicorn.arbiter.Arbiter (C03 C11 C10 C04 C14).

The real Arbiter.run() executes in this process.  Every system call it makes goes to a proxy installed
in the namespace of gunicorn.arbiter (os / time / select / signal / sock / random), and the two
pieces of state it shares with its signal handlers (WORKERS, SIG_QUEUE) are dict / list subclasses
that report every access of the main code.  Each such call or access is a *yield point*: the driver
takes labels from a schedule until it meets the label M (master step) and then lets the real code
continue to its next yield point.  The other labels are what the environment does in between:

   ("C",)               SIGCHLD is delivered: the real arbiter.handle_chld runs to completion (atomic)
   ("X", pid, status)   a running child dies with raw wait status `status` (becomes a zombie)
   ("S", signo)         a signal reaches the master: the real arbiter.signal(signo, None) runs
   ("T", dt)            dt ticks pass (1 tick = 1/256 s, so that every clock value is an exact float)
   ("N", pid)           the child pid proves liveness: the real WorkerTmp.notify() of its worker object
   ("E", workers, timeout)  the configuration source changes (read by the next reload)
   ("P",)               the parent of this master dies (getppid() changes)

os.fork() returns fresh pids without forking (the child branch is never taken); the heartbeat files
are the real WorkerTmp objects on real unlinked temp files with the virtual monotonic clock.
Unresolved labels ("Xk", k, status) / ("Nk", k) pick the k-th running child at the moment they are
applied; the schedule actually executed is recorded in `resolved` (that is what the model gets).
"""
import errno
import os
import select as _select
import signal as _signal
import sys
import time as _time

TICK = 256                      # ticks per second
MONO0 = 1000 * TICK             # the virtual monotonic clock starts at 1000 s
WALL0 = 5000 * TICK             # the virtual wall clock starts at 5000 s

SELF_PID = 50
PARENT_PID = 40

# yield point codes (mirrored by pc_code in Model/Arbiter.v)
Y_QLEN, Y_SELECT, Y_WITEMS, Y_MONO, Y_KILL, Y_WLEN, Y_FORK, Y_FORKRET, Y_SLEEP, Y_WKEYS, Y_GETPPID = 1, 2, 3, 4, 5, 6, 7, 8, 9, 10, 11
Y_EXIT, Y_CRASH, Y_WVALUES = 12, 13, 14
YNAMES = {1: "SIG_QUEUE test", 2: "select", 3: "WORKERS.items", 4: "time.monotonic", 5: "os.kill", 6: "len(WORKERS)",
          7: "os.fork", 8: "fork returned", 9: "time.sleep", 10: "WORKERS.keys", 11: "os.getppid", 12: "exited", 13: "crashed",
          14: "WORKERS.values"}


class Done(BaseException):
    """The schedule is exhausted."""


class Unexpected(Exception):
    pass


class HookedDict(dict):
    def __init__(self, world):
        dict.__init__(self)
        self._w = world

    def __len__(self):
        self._w.yield_(Y_WLEN)
        return dict.__len__(self)

    def items(self):
        self._w.yield_(Y_WITEMS)
        return dict.items(self)

    def keys(self):
        self._w.yield_(Y_WKEYS)
        return dict.keys(self)

    def values(self):
        self._w.yield_(Y_WVALUES)
        return dict.values(self)


class HookedList(list):
    def __init__(self, world):
        list.__init__(self)
        self._w = world

    def __len__(self):
        self._w.yield_(Y_QLEN)
        return list.__len__(self)


class Passthrough:
    def __init__(self, real):
        object.__setattr__(self, "_real", real)

    def __getattr__(self, name):
        return getattr(self._real, name)


class NullLog:
    def __init__(self, cfg):
        self.cfg = cfg

    def __getattr__(self, name):
        return lambda *a, **k: None


class FakeListener:
    def __init__(self, name, fd):
        self.name = name
        self.fd = fd
        self.closed = False

    def getsockname(self):
        # what the kernel reports for the bound socket, which need not be the text of the bind setting: a host NAME is an
        # address, an empty host is the wildcard address, port 0 is a port the kernel chose
        n = self.name
        if isinstance(n, tuple) and len(n) >= 2:
            host = {"localhost": "127.0.0.1", "": "0.0.0.0"}.get(n[0], n[0])
            port = n[1] if n[1] else 40000 + self.fd
            return (host, port) + tuple(n[2:])
        return n

    def fileno(self):
        return self.fd

    def close(self):
        self.closed = True

    def shutdown(self, how):
        # shutdown() acts on the open file description, which the workers and - during a binary upgrade - the other master share:
        # recorded, and judged by the oracles of C04 / C14 (a master never has a reason to do this to a listening socket)
        SHUTDOWNS.append((self.name, how))

    def __str__(self):
        return str(self.name)


SHUTDOWNS = []


class World:
    def __init__(self, workers=2, timeout=30, graceful=30, worker_class="sync", pidfile=None, binds=None,
                 master_pid=0, rand=0.0, env=None, daemon=False):
        self.disk = {"workers": workers, "timeout": timeout, "graceful_timeout": graceful}
        self.worker_class = worker_class
        self.pidfile = pidfile
        self.binds = binds or ["127.0.0.1:8000"]
        self.rand = rand
        self.daemon = daemon
        # kernel
        self.kids = []            # dicts: pid, st ('R'|'Z'), status, sigs, master
        self.next_pid = 100
        self.mono = MONO0
        self.wall = WALL0
        self.ppid = master_pid if master_pid else PARENT_PID
        self.environ = dict(env or {})
        if master_pid:
            self.environ["GUNICORN_PID"] = str(master_pid)
        self.delivered = []       # successful kill()s on running children since the last observation
        self.all_delivered = []   # (pid, sig, mono) for the whole run
        self.kill_log = []        # every kill attempt (pid, sig, result)
        self.forks = []           # (pid, master?, mono)
        self.reaps = []           # (pid, status) in waitpid order
        self.reaps_ctx = []       # reexec_pid of the master at each of them
        self.fork_at = {}         # pid -> number of labels executed when it was forked
        self.reap_at = {}         # pid -> number of labels executed when it was reaped
        self.fs_unlinked = []     # paths unlinked through sock.close_sockets
        self.closed_listeners = []
        self.created_sockets = [] # (fds argument) per create_sockets call
        self.listeners = []
        # driver
        self.script = []
        self.resolved = []
        self.trace = []
        self.labels_obs = []      # label index of every observation
        self.active = False
        self.in_handler = 0
        self.pending_obs = False
        self.cur = (0, 0, 0)
        self.policy = None
        self.objs = {}            # pid -> worker object (set at fork)
        self.pending_worker = None
        self.all_workers = []
        self.arbiter = None
        self.outcome = None       # ("exit", status) | ("crash", repr) | ("done",) | ("error", repr)
        self.events = []          # oracle-side log: (kind, ...)
        self.sig_disp = {}        # signal number -> the handler the master installed last (SignalProxy.signal)
        self.oracle_notes = []    # violations seen by the environment itself (judged by the C03 oracle)
        self.nlabels = 0
        self.in_script = True
        self.probe = None         # optional callback(world, yield_code) for property oracles
        self.tmp_now = None       # clock value seen by WorkerTmp.notify() during an "Nt" label
        self.script_labels = None  # number of executed labels that came from the script (the rest is the tail)
        self.stopping_at = None   # number of labels executed when stop() was first entered
        self.final_stop_at = None # ... when the stop() called from halt() was entered

    # ---- kernel ------------------------------------------------------------------------------------
    def kid(self, pid):
        for k in self.kids:
            if k["pid"] == pid:
                return k
        return None

    def running(self, master=None):
        return [k for k in self.kids if k["st"] == "R" and (master is None or k["master"] == master)]

    def k_fork(self, master):
        pid = self.next_pid
        self.next_pid += 1
        self.kids.append({"pid": pid, "st": "R", "status": 0, "sigs": [], "master": master})
        self.forks.append((pid, master, self.mono))
        self.fork_at[pid] = self.nlabels
        return pid

    def k_kill(self, pid, sig):
        k = self.kid(pid)
        if k is None:
            self.kill_log.append((pid, int(sig), "ESRCH"))
            raise ProcessLookupError(errno.ESRCH, "No such process")
        self.kill_log.append((pid, int(sig), k["st"]))
        if k["st"] == "R":
            k["sigs"].append(int(sig))
            self.delivered.append((pid, int(sig)))
            self.all_delivered.append((pid, int(sig), self.mono))
            if int(sig) == int(_signal.SIGKILL):
                k["st"] = "Z"
                self.chld_pending = True
                k["status"] = int(_signal.SIGKILL)
                self.events.append(("death", pid, k["status"], self.mono))

    def k_waitpid(self):
        if not self.kids:
            raise ChildProcessError(errno.ECHILD, "No child processes")
        for k in self.kids:
            if k["st"] == "Z":
                self.kids.remove(k)
                self.reaps.append((k["pid"], k["status"]))
                self.reaps_ctx.append(int(self.arbiter.reexec_pid))
                self.reap_at[k["pid"]] = self.nlabels
                return k["pid"], k["status"]
        return 0, 0

    # ---- driver --------------------------------------------------------------------------------------
    def yield_(self, code, a=0, b=0):
        if self.in_handler or not self.active:
            return
        self.cur = (code, int(a), int(b))
        if self.pending_obs:
            self.snap()
        if self.probe is not None:
            self.probe(self, code)
        while True:
            if self.script:
                lab = self.script.pop(0)
                self.in_script = True
            elif self.policy is not None:
                if self.in_script:
                    self.in_script = False
                    self.script_labels = len(self.resolved)
                lab = self.policy(self)
                if lab is None:
                    raise Done()
            else:
                raise Done()
            if lab[0] == "M":
                self.resolved.append(("M",))
                self.nlabels += 1
                self.pending_obs = True
                return
            self.apply_env(lab)

    def apply_env(self, lab):
        kind = lab[0]
        if kind == "Xk" or kind == "Nk":
            run = self.running(master=None if kind == "Xk" else False)
            if not run:
                return
            pid = run[lab[1] % len(run)]["pid"]
            lab = ("X", pid, lab[2]) if kind == "Xk" else ("N", pid)
            kind = lab[0]
        if kind == "Sp":          # a child of the master that is not a worker (started by a server hook, say) appears - and dies:
            # it is reaped first by the next SIGCHLD handler run, before any worker that died in the same batch
            pid = 9000 + self.nlabels
            self.kids.insert(0, {"pid": pid, "st": "Z", "status": int(lab[1]) if len(lab) > 1 else 0, "sigs": [], "master": False, "stray": True})
            self.chld_pending = True
            self.resolved.append(("Sp", pid))
            self.nlabels += 1
            return
        if kind == "LTk":         # a SIGTERM is swallowed: the child was still running the handlers inherited from the master
            told = [k for k in self.running(master=False) if int(_signal.SIGTERM) in k["sigs"]]
            if told:
                k = told[lab[1] % len(told)]
                k["sigs"] = [x for x in k["sigs"] if x != int(_signal.SIGTERM)]
                self.resolved.append(("LT", k["pid"]))
                self.nlabels += 1
            return
        if kind == "XT":          # every running child that was told to stop exits (status: the last fatal signal, or lab[1])
            for k in list(self.running()):
                fatal = [s for s in k["sigs"] if s in (int(_signal.SIGTERM), int(_signal.SIGQUIT), int(_signal.SIGABRT), int(_signal.SIGINT))]
                if fatal:
                    self.apply_env(("X", k["pid"], lab[1] if len(lab) > 1 and lab[1] is not None else 0))
            return
        if kind == "NA":          # every running worker notifies
            for k in list(self.running(master=False)):
                self.apply_env(("N", k["pid"]))
            return
        self.resolved.append(tuple(lab))
        self.nlabels += 1
        if kind == "C" and self.sig_disp.get(int(_signal.SIGCHLD)) in (_signal.SIG_DFL, _signal.SIG_IGN):
            self.chld_pending = False
            self.oracle_notes.append("SIGCHLD arrived while the master had reset its disposition (signal.signal(SIGCHLD, %r)): "
                                     "the kernel discards it and the dead child is never reaped"
                                     % self.sig_disp.get(int(_signal.SIGCHLD)))
        elif kind == "C":
            self.chld_pending = False
            self.pending_obs = True
            self.in_handler += 1
            try:
                self.arbiter.handle_chld(int(_signal.SIGCHLD), None)
            finally:
                self.in_handler -= 1
            self.snap()
        elif kind == "X":
            k = self.kid(lab[1])
            if k is not None and k["st"] == "R":
                k["st"] = "Z"
                self.chld_pending = True
                k["status"] = int(lab[2])
                self.events.append(("death", lab[1], int(lab[2]), self.mono))
        elif kind == "S":
            q = self.arbiter.SIG_QUEUE
            before = list(list.__iter__(q))
            self.in_handler += 1
            try:
                self.arbiter.signal(int(lab[1]), None)
            finally:
                self.in_handler -= 1
            after = list(list.__iter__(q))
            # a signal that reaches the master while its queue has room is queued (TTIN / TTOU / HUP are requests: two of them are
            # two requests); the queue holds five, what arrives beyond that is dropped
            if len(before) < 5 and after != before + [int(lab[1])] :
                self.oracle_notes.append("signal %d reached the master while its queue held %r (room for %d more) and was not queued: "
                                         "the queue is now %r" % (int(lab[1]), before, 5 - len(before), after))
            self.events.append(("signal", int(lab[1]), self.mono))
        elif kind == "T":
            self.mono += int(lab[1])
            self.wall += int(lab[1])
        elif kind == "N":
            k = self.kid(lab[1])
            if k is not None and k["st"] == "R" and not k["master"]:
                w = self.objs.get(lab[1])
                if w is not None:
                    try:
                        w.tmp.notify()
                        self.events.append(("notify", lab[1], self.mono))
                    except ValueError:
                        pass      # the master closed its copy: the file is no longer looked at
        elif kind == "Nt":
            # the child pid notified at virtual time lab[2] (<= now): its own clock read happened then
            k = self.kid(lab[1])
            if k is not None and k["st"] == "R" and not k["master"] and MONO0 + int(lab[2]) <= self.mono:
                w = self.objs.get(lab[1])
                if w is not None:
                    self.tmp_now = MONO0 + int(lab[2])
                    try:
                        w.tmp.notify()
                        self.events.append(("notify", lab[1], self.tmp_now))
                    except ValueError:
                        pass
                    finally:
                        self.tmp_now = None
        elif kind == "E":
            self.disk["workers"] = int(lab[1])
            self.disk["timeout"] = int(lab[2])
        elif kind == "P":
            self.ppid = 1
        else:
            raise Unexpected("label %r" % (lab,))

    # ---- observation ---------------------------------------------------------------------------------
    def hb_of(self, w):
        try:
            return int(round(w.tmp.last_update() * TICK)) - MONO0
        except (ValueError, OSError):
            return -1

    def woken(self):
        a = self.arbiter
        if not a.PIPE:
            return 0
        r, _, _ = _select.select([a.PIPE[0]], [], [], 0)
        return 1 if r else 0

    def snap(self):
        self.pending_obs = False
        a = self.arbiter
        code, x, y = self.cur
        out = [code, x, y, int(a.num_workers), int(a.worker_age), list.__len__(a.SIG_QUEUE), self.woken(),
               int(a.reexec_pid), int(a.master_pid), self.mono - MONO0, self.wall - WALL0,
               1 if a.LISTENERS else 0]
        ws = list(dict.items(a.WORKERS))
        out.append(len(ws))
        for pid, w in ws:
            out += [int(pid), int(w.age), 1 if w.aborted else 0, self.hb_of(w)]
        out.append(len(self.kids))
        for k in self.kids:
            out += [k["pid"], 0 if k["st"] == "R" else 1, k["status"], len(k["sigs"])]
        out.append(len(self.delivered))
        for pid, sig in self.delivered:
            out += [pid, sig]
        self.delivered = []
        self.trace.append(out)
        self.labels_obs.append(self.nlabels)

    def state(self):
        """Oracle view of the current state (not compared with the model)."""
        a = self.arbiter
        return {
            "workers": [(int(p), int(w.age), bool(w.aborted)) for p, w in dict.items(a.WORKERS)],
            "num_workers": int(a.num_workers), "worker_age": int(a.worker_age),
            "running": [k["pid"] for k in self.kids if k["st"] == "R" and not k["master"]],
            "zombies": [k["pid"] for k in self.kids if k["st"] == "Z"],
            "masters": [k["pid"] for k in self.kids if k["st"] == "R" and k["master"]],
            "reexec_pid": int(a.reexec_pid), "master_pid": int(a.master_pid),
            "queue": [int(s) for s in list.__iter__(a.SIG_QUEUE)],
        }

    # ---- run -------------------------------------------------------------------------------------------
    def run(self, script, policy=None):
        import gunicorn.arbiter as ga
        import gunicorn.workers.workertmp as wt
        import gunicorn.sock as gsock
        import gunicorn.util as gutil
        import gunicorn.app.base as gbase
        import gunicorn.pidfile as gpid
        from gunicorn.errors import HaltServer
        world = self
        self.script = list(script)
        self.policy = policy

        class OsProxy(Passthrough):
            environ = world.environ

            def fork(self):
                world.yield_(Y_FORK)
                master = world.pending_worker is None
                pid = world.k_fork(master)
                if not master:
                    world.objs[pid] = world.pending_worker
                    world.pending_worker = None
                world.events.append(("fork", pid, master, world.mono))
                world.yield_(Y_FORKRET, pid)
                return pid

            def kill(self, pid, sig):
                world.yield_(Y_KILL, pid, int(sig))
                return world.k_kill(pid, sig)

            def waitpid(self, pid, opts):
                return world.k_waitpid()

            def getpid(self):
                return SELF_PID

            def getppid(self):
                world.yield_(Y_GETPPID)
                return world.ppid

            def execvpe(self, *a):
                raise Unexpected("execvpe in the master")

            def chdir(self, *a):
                raise Unexpected("chdir in the master")

        class TimeProxy(Passthrough):
            def time(self):
                return world.wall / float(TICK)

            def monotonic(self):
                world.yield_(Y_MONO)
                return world.mono / float(TICK)

            def sleep(self, x):
                t = int(round(x * TICK))
                world.yield_(Y_SLEEP, t)
                world.mono += t
                world.wall += t

        class TmpTimeProxy(Passthrough):
            def monotonic(self):
                if world.tmp_now is not None:
                    return world.tmp_now / float(TICK)
                return world.mono / float(TICK)

            def time(self):
                return world.wall / float(TICK)

        class SelectProxy(Passthrough):
            def select(self, r, w, x, timeout=None):
                world.yield_(Y_SELECT)
                ready = _select.select(r, w, x, 0)
                if ready[0] or ready[1] or ready[2]:
                    return ready
                t = int(round(timeout * TICK))
                world.mono += t
                world.wall += t
                return ready

        class SignalProxy(Passthrough):
            def signal(self, signo, handler):
                # the disposition is remembered: a SIGCHLD that arrives while the master has reset it to SIG_DFL / SIG_IGN
                # is discarded by the kernel (apply_env "C")
                old = world.sig_disp.get(int(signo))
                world.sig_disp[int(signo)] = handler
                return old

        class RandomProxy(Passthrough):
            def random(self):
                return world.rand

        class SockProxy(Passthrough):
            def create_sockets(self, conf, log, fds=None):
                world.created_sockets.append(None if fds is None else list(fds))
                ls = []
                if fds:
                    for fd in fds:
                        ls.append(FakeListener(world.fd_names.get(fd, "fd%d" % fd), fd))
                else:
                    for i, addr in enumerate(conf.address):
                        ls.append(FakeListener(addr, 10 + i))
                world.listeners = ls
                return ls

            def close_sockets(self, listeners, unlink=True):
                saved = gsock.os
                gsock.os = SockOs(os)
                if world.stopping_at is None:
                    world.stopping_at = world.nlabels
                if world.final_stop_at is None:
                    f = sys._getframe(1)
                    while f is not None:
                        if f.f_code.co_name == "halt":
                            world.final_stop_at = world.nlabels      # the stop() called by halt(): exceptions raised in it leave run()
                            break
                        f = f.f_back
                try:
                    world.closed_listeners.append(([l.name for l in listeners], bool(unlink)))
                    return gsock.close_sockets(listeners, unlink)
                finally:
                    gsock.os = saved

        class SockOs(Passthrough):
            def unlink(self, path):
                world.fs_unlinked.append(path)

        self.fd_names = {}

        class App(gbase.BaseApplication):
            def init(self, parser, opts, args):
                pass

            def load(self):
                return None

            def load_config(self):
                c = self.cfg
                c.set("workers", world.disk["workers"])
                c.set("timeout", world.disk["timeout"])
                c.set("graceful_timeout", world.disk["graceful_timeout"])
                c.set("worker_class", world.worker_class)
                c.set("logger_class", "lib_arbiter.NullLog")
                c.set("bind", world.binds)
                c.set("daemon", world.daemon)
                if world.pidfile:
                    c.set("pidfile", world.pidfile)
                c.set("pre_fork", pre_fork)
                c.set("when_ready", when_ready)
                world.events.append(("load_config", dict(world.disk)))

        def pre_fork(server, worker):
            world.pending_worker = worker
            world.all_workers.append(worker)

        def when_ready(server):
            world.active = True

        saved = (ga.os, ga.time, ga.select, ga.signal, ga.random, ga.sock, wt.time, gutil._setproctitle)
        ga.os, ga.time, ga.select, ga.signal, ga.random, ga.sock = (
            OsProxy(os), TimeProxy(_time), SelectProxy(_select), SignalProxy(_signal), RandomProxy(ga.random), SockProxy(gsock))
        wt.time = TmpTimeProxy(_time)
        gutil._setproctitle = lambda title: None
        saved_pid_os = gpid.os
        arb = None
        try:
            arb = ga.Arbiter(App())
            self.arbiter = arb
            arb.WORKERS = HookedDict(self)
            arb.SIG_QUEUE = HookedList(self)
            arb.LISTENERS = []
            arb.PIPE = []
            try:
                arb.run()
                self.outcome = ("returned",)
            except Done:
                self.outcome = ("done",)
            except SystemExit as e:
                self.cur = (Y_EXIT, int(e.code) if isinstance(e.code, int) else (0 if e.code is None else 1), 0)
                self.outcome = ("exit", self.cur[1])
            except HaltServer as e:
                self.cur = (Y_CRASH, 0, 0)
                self.outcome = ("crash", "HaltServer(%r, %r)" % (e.reason, e.exit_status))
            except Unexpected:
                raise
            except BaseException as e:          # anything else: never matches the model
                self.cur = (99, 0, 0)
                self.outcome = ("error", "%s: %s" % (type(e).__name__, e))
            self.active = False
            if self.script_labels is None:
                self.script_labels = len(self.resolved)
            if self.pending_obs:
                self.snap()
            self.snap()                          # final observation
        finally:
            self.active = False
            ga.os, ga.time, ga.select, ga.signal, ga.random, ga.sock, wt.time, gutil._setproctitle = saved
            gpid.os = saved_pid_os
            for w in self.all_workers:
                try:
                    w.tmp.close()
                except Exception:
                    pass
            if arb is not None:
                for p in arb.PIPE:
                    try:
                        os.close(p)
                    except OSError:
                        pass
        return self


# ---- Coq side of a run -------------------------------------------------------------------------------

def coq_label(lab):
    k = lab[0]
    if k == "M":
        return "Master"
    if k == "C":
        return "Chld"
    if k == "X":
        return "Exit %d %d" % (lab[1], lab[2])
    if k == "S":
        return "Sig %d" % lab[1]
    if k == "T":
        return "Tick %d" % lab[1]
    if k == "N":
        return "Notify %d" % lab[1]
    if k == "Nt":
        return "NotifyAt %d %d" % (lab[1], lab[2])
    if k == "E":
        return "EditCfg %d %d" % (lab[1], lab[2])
    if k == "P":
        return "ParentDies"
    raise ValueError(lab)


def flat(trace):
    out = []
    for o in trace:
        out += o
    return out


# ---- the canonical fair environment (mirrors Model/Arbiter.v fair_env / settle) ------------------------
FATAL = (int(_signal.SIGTERM), int(_signal.SIGQUIT), int(_signal.SIGABRT), int(_signal.SIGINT))


def make_settle(loops, strict_sigchld=False):
    """Policy used after the scripted part of a schedule (mirrors fair_env / settle_labels of Model/Arbiter.v):
    at the top of the main loop (and in the naps of stop()) every running child that was told to stop exits
    with status 0 and SIGCHLD is delivered if there is anything to reap; when the master is about to sleep in
    select() every running worker notifies; then the master takes a step.  Ends after `loops` further visits of
    the top of the main loop."""
    box = {"q": [], "loops": loops, "seen_top": 0}

    def policy(world):
        if box["q"]:
            return box["q"].pop(0)
        code = world.cur[0]
        if code == Y_QLEN:
            box["seen_top"] += 1
            if box["seen_top"] > box["loops"]:
                return None
        q = []
        if code == Y_QLEN or (code == Y_SLEEP and world.stopping_at is not None):
            dying = [k for k in world.kids if k["st"] == "R" and any(s in FATAL for s in k["sigs"])]
            for k in dying:
                q.append(("X", k["pid"], 0))
            # SIGCHLD is raised by a death, not by the existence of a zombie: a handler run that leaves zombies behind is not
            # followed by another one unless a further child dies (the signal is not queued per child)
            # (strict_sigchld: oracle-only schedules; the default mirrors settle_labels of Model/Arbiter.v, which delivers
            #  SIGCHLD whenever there is anything to reap)
            if dying or (getattr(world, "chld_pending", False) if strict_sigchld else any(k["st"] == "Z" for k in world.kids)):
                q.append(("C",))
        elif code == Y_SELECT:
            for k in world.kids:
                if k["st"] == "R" and not k["master"]:
                    q.append(("N", k["pid"]))
        q.append(("M",))
        box["q"] = q
        return box["q"].pop(0)
    return policy


HEADER = """From Coq Require Import List ZArith.
From GV Require Import Gen.GenArbiter Model.Arbiter.
Import ListNotations.
Open Scope Z_scope.
"""


def init_expr(cfg):
    return "(init %d %d %d %d %d)" % (cfg["workers"], cfg["timeout"], cfg["graceful_timeout"],
                                      int(round(0.1 * cfg.get("rand", 0.0) * TICK)), cfg.get("master_pid", 0))


def labels_expr(labels):
    return "[" + "; ".join(coq_label(l) for l in labels) + "]"


def tail_expr(cfg, w):
    """the schedule of a finished World as a Coq expression: the scripted part as executed, then the tail as
    generated by the model's own fair environment (settle_labels); environment labels after the last master step
    of the tail (the master died inside a handler) are passed as executed"""
    k = w.script_labels
    tail = w.resolved[k:]
    ntail = sum(1 for l in tail if l[0] == "M")
    last = max([i for i, l in enumerate(tail) if l[0] == "M"], default=-1)
    rest = tail[last + 1:]
    e = "(with_tail %s %s %d%%nat)" % (init_expr(cfg), labels_expr(w.resolved[:k]), ntail)
    if rest:
        e = "(%s ++ %s)" % (e, labels_expr(rest))
    return e


def reaped_before_registration(w, pid):
    """D17 signature: the SIGCHLD handler reaped `pid` before the master step that registers it ran, i.e. no
    master label was executed between the fork and the reap."""
    if pid not in w.fork_at or pid not in w.reap_at:
        return False
    return not any(l[0] == "M" for l in w.resolved[w.fork_at[pid]:w.reap_at[pid]])
