"""Shared machinery of the gunicorn verification checks.

One check run = one Ctx.  The flow (DESIGN.md 2.4):
  1. regenerate coq/theories/Gen/*.v from the repository under test (fail closed)
  2. full .vo build of the dependency cone of Props/<id>.v, then Props/<id>.v itself
     (always recompiled; Print Assumptions output captured)
  3. correspondence: implementation vs model (model evaluated by the Coq kernel, vm_compute)
  4. oracle: implementation vs the property's own statement / spec
  5. evidence/<id>.json, exit status

Nothing here knows about a particular property.
"""
import contextlib
import fcntl
import hashlib
import importlib
import json
import os
import random
import re
import shutil
import subprocess
import sys
import time
from pathlib import Path

VERIF = Path(__file__).resolve().parent.parent
REPO = Path(os.environ.get("VERIF_REPO", "/repo")).resolve()
COQ_SRC = VERIF / "coq" / "theories"
NCPU = int(os.environ.get("VERIF_NCPU") or min(16, os.cpu_count() or 4))
LOGICAL = "GV"

COQ_TIMEOUT = int(os.environ.get("VERIF_COQ_TIMEOUT", "900"))


def build_root():
    key = hashlib.sha1(str(REPO).encode()).hexdigest()[:10]
    d = VERIF / ".build" / key
    d.mkdir(parents=True, exist_ok=True)
    return d


@contextlib.contextmanager
def locked(path):
    path.parent.mkdir(parents=True, exist_ok=True)
    with open(path, "w") as fh:
        fcntl.flock(fh, fcntl.LOCK_EX)
        try:
            yield
        finally:
            fcntl.flock(fh, fcntl.LOCK_UN)


def sh(cmd, cwd=None, timeout=None, env=None, inp=None):
    """Run a command, return (rc, combined output).  Never raises on failure."""
    try:
        p = subprocess.run(cmd, cwd=cwd, timeout=timeout, env=env, input=inp,
                           stdout=subprocess.PIPE, stderr=subprocess.STDOUT,
                           shell=isinstance(cmd, str))
        return p.returncode, p.stdout.decode("utf-8", "replace")
    except subprocess.TimeoutExpired as e:
        out = (e.stdout or b"").decode("utf-8", "replace")
        return 124, out + "\n[timeout after %ss]" % timeout


# ---------------------------------------------------------------------------------------------
# Coq literal encoding (the canonical observation type of every model is `list Z`)
# ---------------------------------------------------------------------------------------------

def coq_Z(n):
    n = int(n)
    return "(%d)" % n if n < 0 else str(n)


def coq_listZ(xs):
    return "[" + ";".join(coq_Z(x) for x in xs) + "]"


def coq_listN(xs):
    return "[" + ";".join(str(int(x)) for x in xs) + "]"


def coq_bytes(b):
    """bytes / latin-1 str / iterable of ints  ->  `list N` literal (use inside %N scope)."""
    if isinstance(b, str):
        b = b.encode("latin-1")
    return "[" + ";".join(str(x) for x in b) + "]"


def respell_setting(name, value, salt):
    """A non-canonical spelling of a setting's value that gunicorn's validators accept and normalise (what a configuration file
    or the command line may hold): keyword settings in other letter case / padded with blanks, booleans and integers as
    strings.  Chosen by a hash of (salt, name): two thirds of the configurations keep the canonical spelling.  The models always
    see the canonical value - the running code must not see anything else either."""
    import zlib
    h = zlib.crc32(repr((salt, name)).encode())
    if h % 3:
        return value
    k = (h // 3) % 4
    if name == "header_map" and isinstance(value, str):
        return [value.upper(), value.capitalize(), " " + value, value + "  "][k]
    if isinstance(value, bool):
        return [("True" if value else "False"), ("true" if value else "false"), (" TRUE" if value else "FALSE "), value][k]
    if isinstance(value, int) and name.startswith("limit_request"):
        return [str(value), " %d" % value, value, value][k]
    return value


def coq_bool(b):
    return "true" if b else "false"


def coq_list(items):
    return "[" + ";".join(items) + "]"


def coq_opt(x, f=str):
    return "None" if x is None else "(Some %s)" % f(x)


# canonical encoders, mirrored by coq/theories/Base/Enc.v
def enc_bool(b):
    return [1 if b else 0]


def enc_int(n):
    return [int(n)]


def enc_bytes(b):
    if isinstance(b, str):
        b = b.encode("latin-1")
    return [len(b)] + list(b)


def enc_codepoints(s):
    """str with arbitrary code points -> length-prefixed list"""
    return [len(s)] + [ord(c) for c in s]


def enc_list(f, xs):
    out = [len(xs)]
    for x in xs:
        out.extend(f(x))
    return out


def enc_opt(f, x):
    return [0] if x is None else [1] + list(f(x))


_INT_RE = re.compile(r"-?\d+")


def parse_coq_results(text):
    """Split the output of a file of `Eval vm_compute in ...` commands into one int list per
    command (each result is a list / number; wrapping and scopes are ignored)."""
    res = []
    cur = None
    for line in text.splitlines():
        if line.lstrip().startswith("= "):
            if cur is not None:
                res.append(cur)
            cur = line.lstrip()[2:]
        elif cur is not None:
            cur += " " + line
    if cur is not None:
        res.append(cur)
    out = []
    for r in res:
        # cut the type annotation:  ... : list Z   (the last " : " at nesting depth 0)
        idx = r.rfind(" : ")
        if idx >= 0:
            r = r[:idx]
        out.append([int(x) for x in _INT_RE.findall(r.replace("%Z", "").replace("%N", "").replace("%nat", ""))])
    return out


# ---------------------------------------------------------------------------------------------
# known findings
# ---------------------------------------------------------------------------------------------

class Known:
    def __init__(self):
        self.known = {}   # (prop, key) -> text
        self.fixed = []
        p = VERIF / "KNOWN_FINDINGS.txt"
        if p.exists():
            for line in p.read_text().splitlines():
                line = line.strip()
                if not line or line.startswith("#"):
                    continue
                m = re.match(r"known:\s+property=(\S+)\s+key=(\S+)\s+(.*)", line)
                if m:
                    self.known[(m.group(1), m.group(2))] = m.group(3)
                elif line.startswith("fixed:"):
                    self.fixed.append(line)

    def has(self, prop, key):
        return (prop, key) in self.known

    def text(self, prop, key):
        return self.known[(prop, key)]


# ---------------------------------------------------------------------------------------------
# the context of one check run
# ---------------------------------------------------------------------------------------------

class BrokenTie(Exception):
    pass


class Ctx:
    def __init__(self, prop, tier, seed):
        self.prop = prop
        self.tier = tier
        self.seed = seed
        self.rng = random.Random(seed)
        self.t0 = time.time()
        self.bdir = build_root()
        self.known = Known()
        self.violations = []          # list of (replay_path, no_input)
        self.known_hits = {}          # key -> count
        self.broken = []              # names of theorems / correspondences that no longer check
        self.cov = {
            "obligations": 0, "discharged": 0, "checker_cmd": "", "trusted_base": [],
            "evaluations": 0, "distinct_nontrivial": 0, "rule": "", "samples": [],
            "traces_validated_against_impl": 0,
        }
        self.assumptions = []
        self.extra = {}
        self._seen = set()
        self.print_assumptions = ""
        self.log_lines = []

    # ---- logging -------------------------------------------------------------------------
    def log(self, *a):
        msg = " ".join(str(x) for x in a)
        self.log_lines.append(msg)
        print("[%s %6.1fs] %s" % (self.prop, time.time() - self.t0, msg), flush=True)

    def quick(self):
        return self.tier == "quick"

    # ---- step 1+2: regenerate, build ---------------------------------------------------------
    def sync_sources(self):
        """Mirror coq/theories into the build dir (mtime preserving), regenerate Gen/*.v."""
        th = self.bdir / "theories"
        th.mkdir(exist_ok=True)
        rc, out = sh(["rsync", "-a", "--delete", "--exclude", "*.vo", "--exclude", "*.vok", "--exclude", "*.vos",
                      "--exclude", "*.glob", "--exclude", "*.aux", "--exclude", ".*.aux", "--exclude", "Gen/",
                      "--exclude", "Cases/",
                      str(COQ_SRC) + "/", str(th) + "/"])
        if rc != 0:
            raise BrokenTie("rsync failed: " + out)
        (th / "Gen").mkdir(exist_ok=True)
        gens = sorted((VERIF / "harness" / "gen").glob("gen_*.py"))
        produced = set()
        for g in gens:
            name = g.stem[4:]
            modname = "Gen" + name[0].upper() + name[1:]
            rc, out = sh([sys.executable, str(g)], timeout=300, env=impl_env())
            if rc != 0:
                raise BrokenTie("table extractor %s failed (fail-closed):\n%s" % (g.name, out[-3000:]))
            target = th / "Gen" / (modname + ".v")
            produced.add(target.name)
            if not target.exists() or target.read_text() != out:
                target.write_text(out)
        for f in (th / "Gen").glob("*.v"):
            if f.name not in produced:
                f.unlink()
        # _CoqProject + Makefile
        files = sorted(str(p.relative_to(self.bdir)) for p in th.rglob("*.v") if "Cases" not in p.parts)
        proj = "-Q theories %s\n-arg -w -arg -notation-overridden,-deprecated-hint-without-locality,-deprecated-instance-without-locality\n" % LOGICAL + "\n".join(files) + "\n"
        pf = self.bdir / "_CoqProject"
        if not pf.exists() or pf.read_text() != proj or not (self.bdir / "Makefile").exists():
            pf.write_text(proj)
            rc, out = sh(["coq_makefile", "-f", "_CoqProject", "-o", "Makefile"], cwd=self.bdir)
            if rc != 0:
                raise BrokenTie("coq_makefile failed: " + out)

    def make(self, targets, timeout=None):
        """Full .vo build (never -vos) of the given targets and what they depend on."""
        cmd = ["make", "-j%d" % NCPU, "-k"] + targets
        rc, out = sh(cmd, cwd=self.bdir, timeout=timeout or COQ_TIMEOUT)
        return rc, out

    def build(self, props_file=None):
        """Steps 1-2.  Returns True when the whole cone of Props/<id>.v compiled."""
        props_file = props_file or ("theories/Props/%s.v" % self.prop)
        with locked(self.bdir / ".lock"):
            try:
                self.sync_sources()
            except BrokenTie as e:
                self.broken.append("table-extraction: " + str(e)[:2000])
                self.log("BROKEN TIE:", str(e)[:2000])
                return False
            vo = props_file[:-2] + ".vo"
            # the property file is always recompiled so that Print Assumptions is captured
            with contextlib.suppress(FileNotFoundError):
                (self.bdir / vo).unlink()
            t = time.time()
            rc, out = self.make([vo])
            self.log("coq build of %s: rc=%d in %.1fs" % (vo, rc, time.time() - t))
            self.cov["checker_cmd"] = ("coqc 8.16.1 via `make -j%d %s` (full .vo, generated by coq_makefile from -Q theories %s) in %s"
                                       % (NCPU, vo, LOGICAL, self.bdir))
            self._count_obligations(props_file, rc == 0)
            if rc != 0:
                err = self._first_error(out)
                self.broken.append("coq: " + err)
                self.log("PROOF BROKEN:", err)
                return False
            self.print_assumptions = self._assumptions(out)
            if "Axioms:" in self.print_assumptions:
                # every property theorem of this development is closed under the global context; an axiom showing up under a
                # Print Assumptions means a proof was weakened
                self.broken.append("coq: a property theorem depends on axioms: " + self.print_assumptions[self.print_assumptions.find("Axioms:"):][:600])
            bad = self._forbidden(props_file)
            if bad:
                self.broken.append("coq: forbidden construct in the development: " + "; ".join(bad[:5]))
            if self.tier == "thorough" and os.environ.get("VERIF_NO_COQCHK") != "1":
                self._coqchk(props_file)
            return True

    def _coqchk(self, props_file):
        """Thorough tier: re-check the compiled cone with the independent checker and list its axioms."""
        mod = LOGICAL + "." + props_file[len("theories/"):-2].replace("/", ".")
        t = time.time()
        rc, out = sh(["coqchk", "-o", "-silent", "-Q", "theories", LOGICAL, mod], cwd=self.bdir, timeout=3000)
        if rc != 0 and "Inconsistent assumptions" in out:
            self.make(["all"], timeout=3000)
            rc, out = sh(["coqchk", "-o", "-silent", "-Q", "theories", LOGICAL, mod], cwd=self.bdir, timeout=3000)
        tail = out[out.find("* Theory"):] if "* Theory" in out else out[-1500:]
        self.extra["coqchk"] = {"module": mod, "rc": rc, "wall_s": round(time.time() - t, 1), "summary": tail.strip()}
        self.log("coqchk -o %s: rc=%d in %.0fs" % (mod, rc, time.time() - t))
        if rc != 0:
            self.broken.append("coqchk rejects the compiled development: " + out[-800:])

    FORBIDDEN = re.compile(r"\b(Admitted|admit|Axiom|Axioms|Parameter|Parameters|Conjecture|Admit\s+Obligations|bypass_check|"
                           r"Unset\s+Guard\s+Checking|Unset\s+Positivity\s+Checking|Unset\s+Universe\s+Checking|give_up)\b")

    def _forbidden(self, props_file):
        """Admitted / Axiom / Parameter / disabled kernel checks anywhere in the cone of the property file (comments removed)."""
        found = []
        for f in sorted(self.cone(props_file)):
            try:
                txt = (self.bdir / f).read_text()
            except FileNotFoundError:
                continue
            txt = strip_coq_comments(txt)
            for m in self.FORBIDDEN.finditer(txt):
                found.append("%s: %s" % (f, m.group(0)))
        return found

    def _first_error(self, out):
        lines = out.splitlines()
        for i, l in enumerate(lines):
            if l.startswith("File ") and i + 1 < len(lines) and "Error" in "\n".join(lines[i:i + 4]):
                return " | ".join(lines[i:i + 6])[:1500]
        return out[-1500:]

    def _assumptions(self, out):
        keep = []
        grab = False
        for l in out.splitlines():
            if l.startswith("Closed under the global context") or l.startswith("Axioms:"):
                grab = True
            if grab:
                if l.startswith("COQC") or l.startswith("make"):
                    grab = False
                    continue
                keep.append(l)
        return "\n".join(keep)

    def cone(self, props_file):
        """.v files the property file depends on (transitively), from coqdep's .d files."""
        seen = set()
        todo = [props_file]
        logical_to_file = {}
        th = self.bdir / "theories"
        for p in th.rglob("*.v"):
            rel = p.relative_to(th).with_suffix("")
            logical_to_file[LOGICAL + "." + ".".join(rel.parts)] = "theories/" + str(rel) + ".v"
        while todo:
            f = todo.pop()
            if f in seen:
                continue
            seen.add(f)
            try:
                txt = (self.bdir / f).read_text()
            except FileNotFoundError:
                continue
            txt_nc = re.sub(r"\(\*.*?\*\)", "", txt, flags=re.S)
            for m in re.finditer(r"(?:From\s+(\S+)\s+)?Require\s+(?:Import\s+|Export\s+)?(.*?)\.\s", txt_nc, re.S):
                frm = m.group(1)
                for name in m.group(2).split():
                    cands = []
                    if frm:
                        cands.append(frm + "." + name)
                    cands.append(name)
                    cands.append(LOGICAL + "." + name)
                    for c in cands:
                        if c in logical_to_file:
                            todo.append(logical_to_file[c])
                            break
                    else:
                        hits = [v for k, v in logical_to_file.items() if k.endswith("." + name)]
                        if len(hits) == 1:
                            todo.append(hits[0])
        return sorted(seen)

    def _count_obligations(self, props_file, ok):
        files = self.cone(props_file)
        n = 0
        done = 0
        names = []
        pat = re.compile(r"^\s*(?:Local\s+|Global\s+|#\[[^\]]*\]\s*)?(Theorem|Lemma|Corollary|Example|Fact|Proposition|Remark)\s+([A-Za-z_][\w']*)", re.M)
        bad = re.compile(r"\b(Admitted|admit|Axiom|Parameter|Conjecture|Abort)\b")
        for f in files:
            txt = (self.bdir / f).read_text()
            txt_nc = re.sub(r"\(\*.*?\*\)", "", txt, flags=re.S)
            k = len(pat.findall(txt_nc))
            n += k
            vo = self.bdir / (f[:-2] + ".vo")
            if vo.exists() and not bad.search(txt_nc):
                done += k
            if f == props_file:
                names = [m[1] for m in pat.findall(txt_nc)]
        self.cov["obligations"] = n
        self.cov["discharged"] = done
        self.extra["cone_files"] = files
        self.extra["property_theorems"] = names

    # ---- step 3: run the model inside Coq ------------------------------------------------------
    def coq_eval(self, tag, header, exprs, shard=400, timeout=600):
        """Evaluate each Coq expression (of type list Z / nat / ...) with vm_compute, sharded over
        the cores.  Returns a list of int lists, one per expression.  Raises BrokenTie when the
        model no longer compiles against the cases."""
        cdir = self.bdir / "theories" / "Cases" / ("%s_%s_%d" % (self.prop, tag, os.getpid()))
        if cdir.exists():
            shutil.rmtree(cdir)
        cdir.mkdir(parents=True)
        shards = [exprs[i:i + shard] for i in range(0, len(exprs), shard)]
        files = []
        for si, sh_exprs in enumerate(shards):
            f = cdir / ("s%04d.v" % si)
            with open(f, "w") as fh:
                fh.write(header + "\n")
                for e in sh_exprs:
                    fh.write("Eval vm_compute in (%s).\n" % e)
            files.append(f)
        results = [None] * len(shards)

        def run_one(i):
            rc, out = sh(["coqc", "-Q", "theories", LOGICAL, "-w", "-all", str(files[i].relative_to(self.bdir))],
                         cwd=self.bdir, timeout=timeout)
            return i, rc, out
        from concurrent.futures import ThreadPoolExecutor
        with ThreadPoolExecutor(NCPU) as ex:
            for i, rc, out in ex.map(run_one, range(len(shards))):
                if rc != 0:
                    shutil.rmtree(cdir, ignore_errors=True)
                    raise BrokenTie("model evaluation failed in shard %d: %s" % (i, out[-1500:]))
                r = parse_coq_results(out)
                if len(r) != len(shards[i]):
                    shutil.rmtree(cdir, ignore_errors=True)
                    raise BrokenTie("model evaluation: expected %d results, parsed %d" % (len(shards[i]), len(r)))
                results[i] = r
        shutil.rmtree(cdir, ignore_errors=True)
        return [x for r in results for x in r]

    def correspond(self, tag, header, cases, shard=400):
        """cases: list of (coq_expr_for_model_observation, impl_observation_as_int_list, printable_case).
        Returns list of (index, model_obs, impl_obs) that disagree."""
        if not cases:
            return []
        try:
            model = self.coq_eval(tag, header, [c[0] for c in cases], shard=shard)
        except BrokenTie as e:
            self.broken.append("correspondence %s: %s" % (tag, str(e)[:1500]))
            self.log("CORRESPONDENCE BROKEN:", str(e)[:1500])
            return None
        bad = []
        for i, (m, c) in enumerate(zip(model, cases)):
            if list(m) != list(c[1]):
                bad.append((i, m, list(c[1])))
        self.cov["traces_validated_against_impl"] += len(cases) - len(bad)
        return bad

    # ---- counting ------------------------------------------------------------------------------
    def count_case(self, key, nontrivial=True):
        self.cov["evaluations"] += 1
        if nontrivial:
            h = hashlib.blake2b(repr(key).encode("utf-8", "backslashreplace"), digest_size=8).digest()
            if h not in self._seen:
                self._seen.add(h)
                self.cov["distinct_nontrivial"] += 1

    def sample(self, obj, cap=6):
        if len(self.cov["samples"]) < cap:
            self.cov["samples"].append(obj)

    def hist(self, name, key):
        h = self.extra.setdefault("distribution", {}).setdefault(name, {})
        h[str(key)] = h.get(str(key), 0) + 1

    # ---- reporting -----------------------------------------------------------------------------
    def evidence_dir(self):
        """evidence/ for the repository itself; a scratch place for any other tree under test (selftest,
        seeded changes), so that committed evidence is never overwritten by a run on a modified tree."""
        if str(REPO) == "/repo":
            return VERIF / "evidence"
        return self.bdir / "evidence"

    def replay_path(self, obj):
        d = self.evidence_dir() / "replay"
        d.mkdir(parents=True, exist_ok=True)
        blob = json.dumps(obj, sort_keys=True, default=repr)
        p = d / ("%s-%s.json" % (self.prop, hashlib.sha1(blob.encode()).hexdigest()[:12]))
        p.write_text(json.dumps(obj, indent=1, sort_keys=True, default=repr))
        return p

    def violation(self, what, replay, key=None):
        """A concrete failing input.  If `key` names a listed known finding it is reported as such."""
        if key is not None and self.known.has(self.prop, key):
            self.known_hits[key] = self.known_hits.get(key, 0) + 1
            return False
        replay = dict(replay)
        replay.setdefault("property", self.prop)
        replay.setdefault("what", what)
        replay.setdefault("repo", str(REPO))
        replay.setdefault("replay_cmd", "cd /verif && ./check %s --replay <this file>" % self.prop)
        if len(self.violations) < 5:
            p = self.replay_path(replay)
            self.violations.append((str(p), False, what))
        else:
            self.violations.append((self.violations[0][0], False, what))
        return True

    def finish(self):
        # a broken proof / tie with no concrete failing input is still a violation
        if self.broken and not any(not v[1] for v in self.violations):
            p = self.replay_path({"property": self.prop, "no_failing_input_found": True,
                                  "no_longer_checks": self.broken, "repo": str(REPO)})
            self.violations.append((str(p), True, "; ".join(self.broken)[:300]))
        for key, n in sorted(self.known_hits.items()):
            print("KNOWN-FINDING: property=%s %s (key=%s, %d case(s) this run)" %
                  (self.prop, self.known.text(self.prop, key), key, n), flush=True)
        tb = self.cov["trusted_base"]
        if not tb:
            self.cov["trusted_base"] = default_trusted_base()
        self.cov["print_assumptions"] = self.print_assumptions
        self.cov["known_findings_matched"] = self.known_hits
        self.cov["broken"] = self.broken
        self.cov.update(self.extra)
        ev = {
            "property_id": self.prop, "tier": self.tier, "seed": self.seed, "level": "proof",
            "coverage": self.cov, "assumptions": self.assumptions or default_assumptions(),
            "wall_s": round(time.time() - self.t0, 2), "violations": len(self.violations),
        }
        self.evidence_dir().mkdir(parents=True, exist_ok=True)
        (self.evidence_dir() / ("%s.json" % self.prop)).write_text(json.dumps(ev, indent=1, default=repr) + "\n")
        seen = set()
        for path, noinput, what in self.violations:
            if path in seen:
                continue
            seen.add(path)
            print("VIOLATION property=%s replay=%s%s" % (self.prop, path, " no-failing-input-found" if noinput else ""), flush=True)
            print("  (%s)" % what[:400], flush=True)
        self.log("done: %d violation(s), %d known finding(s), obligations %d/%d, evaluations %d" % (
            len(self.violations), len(self.known_hits), self.cov["discharged"], self.cov["obligations"], self.cov["evaluations"]))
        return 1 if self.violations else 0


def default_trusted_base():
    return [
        "Coq 8.16.1 kernel incl. the vm_compute reduction machine (no native_compute)",
        "no axioms: every property theorem is followed by Print Assumptions (captured in print_assumptions)",
        "harness/gen/gen_*.py table extractors (regex character classes, constants, tables) - fail-closed",
        "the differential correspondence harness (harness/props/*.py) and its generators: bounded by the cases generated",
        "CPython semantics of str/bytes/re primitives as modelled in Base/PyStr.v (validated exhaustively per latin-1 character)",
        "OS / kernel behaviour (sockets, signals, rename(2), credentials) is modelled, not verified",
    ]


def strip_coq_comments(txt):
    """remove (possibly nested) Coq comments; string literals are kept as they are"""
    out, depth, i, n = [], 0, 0, len(txt)
    in_str = False
    while i < n:
        c = txt[i]
        if depth == 0 and c == '"':
            in_str = not in_str
            out.append(c)
            i += 1
        elif not in_str and txt.startswith("(*", i):
            depth += 1
            i += 2
        elif not in_str and depth and txt.startswith("*)", i):
            depth -= 1
            i += 2
        else:
            if depth == 0:
                out.append(c)
            i += 1
    return "".join(out)


def default_assumptions():
    return ["the hand-written Gallina model corresponds to the implementation on inputs beyond those the correspondence run covered",
            "CPython 3.12 library semantics (io.BytesIO, str methods, re) as modelled"]


def impl_env():
    env = dict(os.environ)
    env["PYTHONPATH"] = str(REPO) + os.pathsep + str(VERIF / "harness")
    env["PYTHONHASHSEED"] = "0"
    env["GUNICORN_VERIF"] = "1"
    env["VERIF_REPO"] = str(REPO)
    env.pop("GUNICORN_CMD_ARGS", None)
    return env


def assert_repo_imported():
    import gunicorn
    p = Path(gunicorn.__file__).resolve()
    if REPO not in p.parents:
        raise SystemExit("gunicorn imported from %s, not from %s" % (p, REPO))


# delta debugging -------------------------------------------------------------------------------

def shrink_list(items, still_fails, max_steps=400):
    """ddmin-style: remove chunks while `still_fails(list)` holds."""
    items = list(items)
    n = 2
    steps = 0
    while len(items) >= 2 and steps < max_steps:
        chunk = max(1, len(items) // n)
        reduced = False
        for i in range(0, len(items), chunk):
            cand = items[:i] + items[i + chunk:]
            steps += 1
            if cand and still_fails(cand):
                items = cand
                n = max(n - 1, 2)
                reduced = True
                break
        if not reduced:
            if chunk == 1:
                break
            n = min(len(items), n * 2)
    return items
