"""An independent strict reader of an HTTP/1.x request stream (RFC 9112 / RFC 9110), written from
the RFC grammar and DESIGN.md section 5 - it shares no code with gunicorn.

strict_stream(data) -> list of items, one per message, ending with a terminal item:
   ("req", {"body": bytes, "end": offset just after the message, "must_close": bool})
   ("reject", reason)        the message at this position is malformed / ambiguous
   ("incomplete", reason)    the stream ends inside a message
   ("end",)                  clean end of the stream
Documented leniencies (DESIGN.md 5): Transfer-Encoding without chunked is framed by Content-Length /
none and the connection must end after that request; CTLs other than NUL/CR/LF inside field values and
garbage without CR/LF inside a chunk extension are tolerated (they cannot move a message boundary)."""

TCHAR = set(b"!#$%&'*+-.^_`|~0123456789ABCDEFGHIJKLMNOPQRSTUVWXYZabcdefghijklmnopqrstuvwxyz")
HEX = set(b"0123456789abcdefABCDEF")
KNOWN_CODINGS = {b"chunked", b"identity", b"gzip", b"compress", b"deflate"}


def is_token(b):
    return len(b) > 0 and all(c in TCHAR for c in b)


def ascii_lower(b):
    return bytes(c + 32 if 65 <= c <= 90 else c for c in b)


def parse_head(data, pos):
    """Returns ("ok", headers[(lower name, value)], version, next_pos) | ("reject", why) | ("incomplete", why)."""
    end = data.find(b"\r\n", pos)
    if end < 0:
        return ("incomplete", "request line")
    line = data[pos:end]
    parts = line.split(b" ")
    if len(parts) != 3:
        return ("reject", "request line is not 'method SP target SP version'")
    method, target, version = parts
    if not is_token(method):
        return ("reject", "method is not a token")
    if len(target) == 0 or any(c <= 0x20 or c == 0x7f for c in target):
        return ("reject", "request-target contains whitespace or control characters")
    if not (len(version) == 8 and version[:5] == b"HTTP/" and 48 <= version[5] <= 57 and version[6] == 46 and 48 <= version[7] <= 57):
        return ("reject", "HTTP-version")
    ver = (version[5] - 48, version[7] - 48)
    pos = end + 2
    headers = []
    while True:
        end = data.find(b"\r\n", pos)
        if end < 0:
            return ("incomplete", "header section")
        line = data[pos:end]
        pos = end + 2
        if line == b"":
            break
        if line[0] in (0x20, 0x09):
            return ("reject", "obsolete line folding")
        colon = line.find(b":")
        if colon <= 0:
            return ("reject", "field line without a name")
        name, value = line[:colon], line[colon + 1:]
        if not is_token(name):
            return ("reject", "field name is not a token (whitespace before the colon included)")
        value = value.strip(b" \t")
        if any(c in (0, 10, 13) for c in value):
            return ("reject", "NUL / CR / LF in a field value")
        headers.append((ascii_lower(name), value))
    return ("ok", headers, ver, pos, method, target)


def framing(headers, ver):
    """("chunked",) | ("length", n) | ("none",) with a must_close flag, or ("reject", why)."""
    cls = [v for (n, v) in headers if n == b"content-length"]
    tes = [v for (n, v) in headers if n == b"transfer-encoding"]
    codings = []
    for v in tes:
        for item in v.split(b","):
            codings.append(ascii_lower(item.strip(b" \t")))
    for c in codings:
        if not is_token(c) or c not in KNOWN_CODINGS:
            return ("reject", "unknown or non-token transfer coding %r" % c)
    nchunked = codings.count(b"chunked")
    if nchunked > 1:
        return ("reject", "chunked repeated")
    if nchunked == 1:
        if codings[-1] != b"chunked":
            return ("reject", "chunked is not the last coding")
        if cls:
            return ("reject", "Content-Length together with chunked")
        if ver < (1, 1):
            return ("reject", "chunked on HTTP/1.0")
        return ("chunked", any(c in (b"gzip", b"compress", b"deflate") for c in codings))
    must_close = any(c in (b"gzip", b"compress", b"deflate") for c in codings)
    if len(cls) > 1:
        return ("reject", "repeated Content-Length")
    if len(cls) == 1:
        v = cls[0]
        if len(v) == 0 or not all(48 <= c <= 57 for c in v):
            return ("reject", "Content-Length is not 1*DIGIT")
        return ("length", int(v), must_close)
    return ("none", must_close)


def parse_chunked(data, pos):
    """("ok", body, end) | ("reject", why) | ("incomplete", why, body_so_far)."""
    body = b""
    while True:
        end = data.find(b"\r\n", pos)
        if end < 0:
            return ("incomplete", "chunk-size line", body)
        line = data[pos:end]
        if b"\r" in line or b"\n" in line:
            return ("reject", "bare CR or LF in a chunk-size line")
        semi = line.find(b";")
        size = line if semi < 0 else line[:semi].rstrip(b" \t")
        if len(size) == 0 or not all(c in HEX for c in size):
            return ("reject", "chunk size is not 1*HEXDIG")
        n = int(size, 16)
        pos = end + 2
        if n == 0:
            break
        if len(data) - pos < n:
            return ("incomplete", "chunk data", body + data[pos:])
        body += data[pos:pos + n]
        pos += n
        if len(data) - pos < 2:
            if data[pos:pos + 2] == b"\r\n"[:len(data) - pos]:
                return ("incomplete", "chunk terminator", body)
            return ("reject", "missing CRLF after chunk data")
        if data[pos:pos + 2] != b"\r\n":
            return ("reject", "missing CRLF after chunk data")
        pos += 2
    # trailer section = *( field-line CRLF ) CRLF : it ends with the first empty line
    if data[pos:pos + 2] == b"\r\n":
        return ("ok", body, pos + 2)
    stop = data.find(b"\r\n\r\n", pos)
    if stop < 0:
        return ("incomplete", "trailer section", body)
    for line in data[pos:stop].split(b"\r\n"):
        if line[:1] in (b" ", b"\t"):
            return ("reject", "obsolete line folding in trailers")
        colon = line.find(b":")
        if colon <= 0 or not is_token(line[:colon]):
            return ("reject", "malformed trailer field")
        if any(c in (0, 10, 13) for c in line[colon + 1:]):
            return ("reject", "NUL / CR / LF in a trailer value")
    return ("ok", body, stop + 4)


def connection_close(headers, ver):
    opts = []
    for n, v in headers:
        if n == b"connection":
            opts += [ascii_lower(o.strip(b" \t")) for o in v.split(b",")]
    if b"close" in opts:
        return True
    if b"keep-alive" in opts:
        return False
    return ver <= (1, 0)


def strict_stream(data):
    out = []
    pos = 0
    while True:
        if pos >= len(data):
            out.append(("end",))
            return out
        h = parse_head(data, pos)
        if h[0] != "ok":
            out.append(h)
            return out
        _, headers, ver, p2, method, target = h
        f = framing(headers, ver)
        if f[0] == "reject":
            out.append(f)
            return out
        te_no_chunked = any(n == b"transfer-encoding" for n, _ in headers) and f[0] != "chunked"
        if f[0] == "chunked":
            r = parse_chunked(data, p2)
            if r[0] != "ok":
                out.append(r)
                return out
            body, end = r[1], r[2]
            must_close = f[1]
        elif f[0] == "length":
            n = f[1]
            if len(data) - p2 < n:
                out.append(("incomplete", "content-length body", data[p2:]))
                return out
            body, end = data[p2:p2 + n], p2 + n
            must_close = f[2]
        else:
            body, end = b"", p2
            must_close = f[1]
        close = must_close or te_no_chunked or connection_close(headers, ver)
        out.append(("req", {"body": body, "end": end, "must_close": close, "method": method, "target": target}))
        if close:
            out.append(("end",))
            return out
        pos = end
