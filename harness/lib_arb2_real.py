"""C04 / C10 / C14: REAL gunicorn master + worker processes started from $VERIF_REPO, driven phase by phase.

A Server lives in a scratch directory under <verif>/.build/tmp: launcher script, application module, configuration file,
pid file, unix socket (or a loopback TCP port), log file.  It is started through a launcher that does
`from gunicorn.app.wsgiapp import run; run()` (so that a USR2 re-exec starts the same program with the same sys.path).

A Client holds one connection in a chosen phase of its life:
   idle      connected, nothing sent                          (send the whole request later)
   head      part of the request head sent                    (send the rest later)
   app       request sent, the application is sleeping d seconds
   resp      first part of the body received, the application sleeps before the second part
   keep      one keep-alive exchange done, connection idle    (send a second request later)
and reports what came back: status, whether the response is complete, which worker pid / configuration marker served it.
"""
import errno
import os
import shutil
import signal
import socket
import subprocess
import sys
import tempfile
import threading
import time

import vlib

PY = sys.executable

APP_SRC = r'''
import os, time
def app(environ, start_response):
    q = environ.get("QUERY_STRING", "")
    args = dict(kv.split("=", 1) for kv in q.split("&") if "=" in kv)
    d = float(args.get("d", "0"))
    w = float(args.get("w", "0"))
    if d or w:
        # tell the harness that the application has been entered for this request (a phase it waits for instead of guessing)
        sd = os.environ.get("GV_STARTED_DIR")
        if sd:
            try:
                open(os.path.join(sd, "started-%d-%d" % (os.getpid(), time.monotonic_ns())), "w").close()
            except OSError:
                pass
    if d:
        time.sleep(d)
    ident = ("pid=%d;ppid=%d;marker=%s;" % (os.getpid(), os.getppid(), os.environ.get("GV_MARKER", "-"))).encode()
    part2 = b"tail-of-the-body;END"
    start_response("200 OK", [("Content-Type", "text/plain"), ("Content-Length", str(len(ident) + len(part2)))])
    yield ident
    if w:
        time.sleep(w)
    yield part2
'''

LAUNCH_SRC = "from gunicorn.app.wsgiapp import run\nrun()\n"


def scratch_root():
    d = vlib.VERIF / ".build" / "tmp"
    d.mkdir(parents=True, exist_ok=True)
    return d


def free_port():
    s = socket.socket()
    s.bind(("127.0.0.1", 0))
    p = s.getsockname()[1]
    s.close()
    return p


def pid_alive(pid):
    try:
        with open("/proc/%d/stat" % pid) as fh:
            st = fh.read().rsplit(")", 1)[1].split()[0]
        return st != "Z"
    except OSError:
        return False


def proc_ppid(pid):
    try:
        with open("/proc/%d/stat" % pid) as fh:
            return int(fh.read().rsplit(")", 1)[1].split()[1])
    except (OSError, ValueError, IndexError):
        return None


class Server:
    def __init__(self, worker_class="sync", workers=1, graceful=3, bind="unix", pidfile=True, marker="m0", threads=2,
                 keepalive=2, timeout=30, daemon=False, extra=None, dash_m=False, app_prelude="", second_bind=False,
                 app_in_conf=False):
        self.dir = tempfile.mkdtemp(prefix="srv-", dir=str(scratch_root()))
        self.worker_class = worker_class
        self.bind = bind
        self.sock_path = os.path.join(self.dir, "g.sock")
        self.port = free_port() if bind == "tcp" else None
        self.pidfile = os.path.join(self.dir, "g.pid") if pidfile else None
        self.log = os.path.join(self.dir, "log.txt")
        self.conf = os.path.join(self.dir, "conf.py")
        if worker_class == "sync":
            threads = 1                 # (threads > 1 silently turns the sync class into gthread)
        self.settings = {"workers": workers, "graceful_timeout": graceful, "worker_class": worker_class, "threads": threads,
                         "keepalive": keepalive, "timeout": timeout, "raw_env": ["GV_MARKER=%s" % marker]}
        self.started_dir = os.path.join(self.dir, "started")
        os.mkdir(self.started_dir)
        os.chmod(self.started_dir, 0o1777)
        if extra:
            self.settings.update(extra)
        self.daemon = daemon
        self.dash_m = dash_m
        self.second_bind = second_bind              # a second listener (unix socket) on which nothing ever arrives
        self.app_in_conf = app_in_conf              # the application is named by `wsgi_app` in the configuration file, not on the
        #                                             command line; gvapp2.py is the same application with "-app2" added to its marker
        if app_in_conf:
            self.settings["wsgi_app"] = "gvapp:app"
        self.cli_loglevel = "info"                  # the --log-level of the command line (None: leave it to the configuration file)
        self.proc = None
        self.master = None
        with open(os.path.join(self.dir, "launch.py"), "w") as fh:
            fh.write(LAUNCH_SRC)
        with open(os.path.join(self.dir, "gvapp.py"), "w") as fh:
            fh.write(app_prelude + APP_SRC)
        with open(os.path.join(self.dir, "gvapp2.py"), "w") as fh:
            fh.write(app_prelude + APP_SRC.replace('os.environ.get("GV_MARKER", "-")', 'os.environ.get("GV_MARKER", "-") + "-app2"'))
        self.write_conf()

    def n_started(self):
        """how many long requests have entered the application so far"""
        try:
            return len(os.listdir(self.started_dir))
        except OSError:
            return 0

    def wait_started(self, n, wait=8.0):
        t0 = time.time()
        while time.time() - t0 < wait:
            if self.n_started() >= n:
                return True
            time.sleep(0.02)
        return False

    def write_conf(self, **changes):
        self.settings.update(changes)
        # (the application learns where to report that it was entered)
        env = [e for e in self.settings.get("raw_env", []) if not e.startswith("GV_STARTED_DIR=")]
        self.settings["raw_env"] = env + ["GV_STARTED_DIR=%s" % self.started_dir]
        with open(self.conf + ".tmp", "w") as fh:
            for k, v in self.settings.items():
                fh.write("%s = %r\n" % (k, v))
        os.replace(self.conf + ".tmp", self.conf)

    def bind_arg(self):
        return "unix:" + self.sock_path if self.bind == "unix" else "127.0.0.1:%d" % self.port

    def start(self, wait=15.0):
        env = dict(os.environ)
        env["PYTHONPATH"] = str(vlib.REPO)
        env.pop("GUNICORN_CMD_ARGS", None)
        env["PYTHONDONTWRITEBYTECODE"] = "1"
        args = ([PY, "-m", "gunicorn"] if self.dash_m else [PY, "launch.py"]) + ["-c", self.conf, "-b", self.bind_arg(), "--log-file", self.log] + (["--log-level", self.cli_loglevel] if self.cli_loglevel else [])
        if self.second_bind:
            args += ["-b", "unix:" + os.path.join(self.dir, "g2.sock")]
        if self.pidfile:
            args += ["-p", self.pidfile]
        if self.daemon:
            args += ["--daemon"]
        if not self.app_in_conf:
            args += ["gvapp:app"]
        self.proc = subprocess.Popen(args, cwd=self.dir, env=env, stdout=subprocess.DEVNULL, stderr=subprocess.DEVNULL,
                                     start_new_session=True)
        t0 = time.time()
        while time.time() - t0 < wait:
            if self.try_connect():
                break
            if self.proc.poll() is not None and not self.daemon:
                raise RuntimeError("gunicorn exited with %r at start:\n%s" % (self.proc.returncode, self.read_log()[-2000:]))
            time.sleep(0.05)
        else:
            raise RuntimeError("gunicorn did not start:\n" + self.read_log()[-2000:])
        if self.daemon:
            self.proc.wait()
            t0 = time.time()
            while self.read_pid() is None and time.time() - t0 < wait:
                time.sleep(0.05)
            self.master = self.read_pid()
        else:
            self.master = self.proc.pid
        # wait until the configured number of workers answers
        self.wait_workers(self.settings["workers"], master=self.master, wait=wait)
        return self

    def try_connect(self):
        try:
            c = self.raw_connect(timeout=1.0)
            c.close()
            return True
        except OSError:
            return False

    def raw_connect(self, timeout=10.0):
        if self.bind == "unix":
            s = socket.socket(socket.AF_UNIX, socket.SOCK_STREAM)
            s.settimeout(timeout)
            s.connect(self.sock_path)
        else:
            s = socket.socket(socket.AF_INET, socket.SOCK_STREAM)
            s.settimeout(timeout)
            s.connect(("127.0.0.1", self.port))
        return s

    def read_pid(self, suffix=""):
        try:
            with open(self.pidfile + suffix) as fh:
                return int(fh.read().strip())
        except (OSError, ValueError, TypeError):
            return None

    def read_log(self):
        try:
            with open(self.log, errors="replace") as fh:
                return fh.read()
        except OSError:
            return ""

    def signal(self, sig, pid=None):
        os.kill(pid or self.master, sig)

    def children(self, pid=None):
        """live children of a master (workers and re-executed masters), from /proc"""
        pid = pid or self.master
        out = []
        for n in os.listdir("/proc"):
            if n.isdigit() and proc_ppid(int(n)) == pid and pid_alive(int(n)):
                out.append(int(n))
        return sorted(out)

    def family(self):
        """every live process whose command line mentions this server's scratch directory"""
        out = []
        for n in os.listdir("/proc"):
            if not n.isdigit():
                continue
            try:
                with open("/proc/%s/cmdline" % n, "rb") as fh:
                    cl = fh.read()
            except OSError:
                continue
            if self.dir.encode() in cl and pid_alive(int(n)):
                out.append(int(n))
        return sorted(out)

    def wait_workers(self, n, master=None, wait=15.0):
        t0 = time.time()
        while time.time() - t0 < wait:
            if len(self.children(master)) >= n:
                return True
            time.sleep(0.05)
        return False

    def wait_master_exit(self, pid=None, wait=30.0):
        """-> (exit status or None when not our child, seconds waited); None status when it never exited"""
        pid = pid or self.master
        t0 = time.time()
        if self.proc is not None and pid == self.proc.pid and not self.daemon:
            try:
                rc = self.proc.wait(timeout=wait)
                return rc, time.time() - t0
            except subprocess.TimeoutExpired:
                return "alive", time.time() - t0
        while time.time() - t0 < wait:
            if not pid_alive(pid):
                return None, time.time() - t0
            time.sleep(0.02)
        return "alive", time.time() - t0

    def cleanup(self):
        for pid in self.family():
            try:
                os.kill(pid, signal.SIGKILL)
            except OSError:
                pass
        if self.proc is not None:
            try:
                self.proc.wait(timeout=5)
            except Exception:
                pass
        t0 = time.time()
        while self.family() and time.time() - t0 < 3:
            time.sleep(0.05)
        shutil.rmtree(self.dir, ignore_errors=True)


def parse_response(data):
    """-> dict(status, complete, body, pid, marker, close)"""
    r = {"status": None, "complete": False, "body": b"", "pid": None, "marker": None, "raw_len": len(data), "conn_close": None}
    if b"\r\n\r\n" not in data:
        return r
    head, body = data.split(b"\r\n\r\n", 1)
    lines = head.split(b"\r\n")
    try:
        r["status"] = int(lines[0].split()[1])
    except (IndexError, ValueError):
        return r
    hdr = {}
    for l in lines[1:]:
        if b":" in l:
            k, v = l.split(b":", 1)
            hdr[k.strip().lower()] = v.strip()
    r["conn_close"] = hdr.get(b"connection", b"").lower() == b"close"
    if b"content-length" in hdr:
        n = int(hdr[b"content-length"])
        r["body"] = body[:n]
        r["complete"] = len(body) >= n
        r["rest"] = body[n:]
    for kv in r["body"].split(b";"):
        if kv.startswith(b"pid="):
            r["pid"] = int(kv[4:])
        if kv.startswith(b"marker="):
            r["marker"] = kv[7:].decode()
    if r["status"] == 200:
        r["complete"] = r["complete"] and r["body"].endswith(b"END")
    return r


class Client:
    def __init__(self, server, timeout=30.0):
        self.srv = server
        self.s = None
        self.buf = b""
        self.err = None
        self.timeout = timeout
        self.eof = False

    def connect(self):
        try:
            self.s = self.srv.raw_connect(timeout=self.timeout)
        except OSError as e:
            self.err = "connect: %s" % errno.errorcode.get(e.errno, e)
        return self

    def send(self, data):
        if self.s is None:
            return self
        try:
            self.s.sendall(data)
        except OSError as e:
            self.err = "send: %s" % errno.errorcode.get(e.errno, e)
        return self

    @staticmethod
    def request(d=0, w=0, keepalive=False):
        return ("GET /?d=%s&w=%s HTTP/1.1\r\nHost: gv\r\n%s\r\n" % (d, w, "" if keepalive else "Connection: close\r\n")).encode()

    def read_until(self, pred, deadline):
        """read until pred(buffer) or EOF or deadline"""
        if self.s is None:
            return self
        while not pred(self.buf) and not self.eof:
            left = deadline - time.time()
            if left <= 0:
                break
            self.s.settimeout(left)
            try:
                x = self.s.recv(65536)
            except socket.timeout:
                break
            except OSError as e:
                self.err = "recv: %s" % errno.errorcode.get(e.errno, e)
                self.eof = True
                break
            if not x:
                self.eof = True
                break
            self.buf += x
        return self

    def read_response(self, wait):
        """read one complete response (or to EOF / deadline)"""
        dl = time.time() + wait
        self.read_until(lambda b: parse_response(b)["complete"], dl)
        return parse_response(self.buf)

    def read_all(self, wait):
        dl = time.time() + wait
        self.read_until(lambda b: False, dl)
        return parse_response(self.buf)

    def close(self):
        if self.s is not None:
            try:
                self.s.close()
            except OSError:
                pass
            self.s = None


def wait_for(cond, timeout, step=0.05):
    t0 = time.time()
    while time.time() - t0 < timeout:
        v = cond()
        if v:
            return v
        time.sleep(step)
    return cond()


class Load(threading.Thread):
    """clients connecting all the time: every response must be complete, no connection may be refused"""

    def __init__(self, srv, period=0.04, d=0.05):
        threading.Thread.__init__(self)
        self.srv, self.period, self.d = srv, period, d
        self.stop_flag = False
        self.results = []          # (t, ok, detail, pid, ppid-of-worker)
        self.errors = []

    def run(self):
        while not self.stop_flag:
            t = time.time()
            c = Client(self.srv, timeout=10).connect()
            if c.err:
                self.errors.append((t, c.err))
            else:
                c.send(Client.request(d=self.d))
                r = c.read_response(10)
                ok = r["status"] == 200 and r["complete"]
                ppid = None
                for kv in (r.get("body") or b"").split(b";"):
                    if kv.startswith(b"ppid="):
                        ppid = int(kv[5:])
                self.results.append((t, ok, r["status"], r["pid"], ppid, r.get("marker")))
                if not ok:
                    self.errors.append((t, "incomplete response: status %r, %d bytes, client error %r" % (r["status"], r["raw_len"], c.err)))
                c.close()
            time.sleep(self.period)

    def finish(self):
        self.stop_flag = True
        self.join(15)


