"""The REAL gunicorn.workers.gthread.ThreadWorker.run() in a thread of the harness, on a real loopback listener: blocking
modes, partial arrivals, full send buffers - what scripted sockets do not have.  Used by C02 / C07 (C13 and C18 have their own
copies with extra instrumentation)."""
import logging
import os
import selectors
import socket
import threading
import time


class RealGthread:
    def __init__(self, app, threads=2, keepalive=5, settings=None):
        import gunicorn.config
        import gunicorn.glogging
        from gunicorn.workers.gthread import ThreadWorker
        cfg = gunicorn.config.Config()
        cfg.set("threads", threads)
        cfg.set("keepalive", keepalive)
        cfg.set("graceful_timeout", 2)
        for k, v in (settings or {}).items():
            cfg.set(k, v)
        log = gunicorn.glogging.Logger(cfg)
        log.error_log.handlers = [logging.NullHandler()]
        log.error_log.propagate = False
        self.ls = socket.socket()
        self.ls.setsockopt(socket.SOL_SOCKET, socket.SO_REUSEADDR, 1)
        self.ls.bind(("127.0.0.1", 0))
        self.ls.listen(16)
        self.addr = self.ls.getsockname()
        w = ThreadWorker(1, os.getppid(), [self.ls], app, 30, cfg, log)
        w.wsgi = app
        w.tpool = w.get_thread_pool()
        w.poller = selectors.DefaultSelector()
        w._lock = threading.RLock()
        self.w = w
        self.t = threading.Thread(target=w.run, daemon=True)
        self.t.start()

    def connect(self, timeout=8.0):
        c = socket.create_connection(self.addr)
        c.settimeout(timeout)
        return c

    def stop(self):
        self.w.alive = False
        self.t.join(6)
        try:
            self.ls.close()
        except OSError:
            pass
        try:
            self.w.tmp.close()
        except Exception:
            pass

    def __enter__(self):
        return self

    def __exit__(self, *a):
        self.stop()


def read_response(c, deadline_s=10.0):
    """one response with Content-Length or chunked framing from a keep-alive connection -> (status, headers dict (lower-case), body,
    complete, error).  Reads exactly the framed bytes."""
    t_end = time.time() + deadline_s
    buf = b""
    err = None

    def more():
        nonlocal buf, err
        left = t_end - time.time()
        if left <= 0:
            err = "timeout"
            return False
        c.settimeout(left)
        try:
            blk = c.recv(1 << 20)
        except socket.timeout:
            err = "timeout"
            return False
        except OSError as e:
            err = type(e).__name__
            return False
        if not blk:
            err = "eof"
            return False
        buf += blk
        return True
    while b"\r\n\r\n" not in buf:
        if not more():
            return None, {}, buf, False, err
    head, rest = buf.split(b"\r\n\r\n", 1)
    lines = head.split(b"\r\n")
    try:
        status = int(lines[0].split()[1])
    except (IndexError, ValueError):
        return None, {}, buf, False, "bad status line"
    hdr = {}
    for l in lines[1:]:
        if b":" in l:
            k, v = l.split(b":", 1)
            hdr[k.strip().lower().decode("latin-1")] = v.strip().decode("latin-1")
    buf = rest
    if "content-length" in hdr:
        n = int(hdr["content-length"])
        while len(buf) < n:
            if not more():
                return status, hdr, buf, False, err
        return status, hdr, buf[:n], True, None
    if hdr.get("transfer-encoding", "").lower() == "chunked":
        body = b""
        while True:
            while b"\r\n" not in buf:
                if not more():
                    return status, hdr, body, False, err
            line, buf = buf.split(b"\r\n", 1)
            try:
                n = int(line.split(b";")[0], 16)
            except ValueError:
                return status, hdr, body, False, "bad chunk size %r" % line[:20]
            while len(buf) < n + 2:
                if not more():
                    return status, hdr, body + buf[:n], False, err
            body += buf[:n]
            buf = buf[n + 2:]
            if n == 0:
                return status, hdr, body, True, None
    # neither: until EOF
    while more():
        pass
    return status, hdr, buf, err == "eof", None if err == "eof" else err
