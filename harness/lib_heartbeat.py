"""Worker side of the heartbeat protocol (C11): run the REAL main loop of a worker class in-process under a
virtual clock and record the instants of its notify() calls.

The loop is driven by a list of iterations (mirrors Model/Heartbeat.v wev):
   ("I", lat)          idle: the wait of the loop runs to its end, then lat ticks of latency
   ("W", after, lat)   the wait returns after `after` ticks (capped by the loop's own timeout)
   ("R", dur, lat)     sync only: accept() returns a connection whose handling takes dur ticks
Nothing of the worker is replaced except what blocks: select / poller.select / gevent.sleep / eventlet.sleep /
listener.accept / handle(); the heartbeat file is the real WorkerTmp with the virtual monotonic clock.
The loop ends when the list is exhausted (alive := False inside the blocking call)."""
import errno
import os
import select as _select
import time as _time

TICK = 256
CLASSES = ("sync", "gthread", "gevent", "eventlet")
CLASS_URI = {"sync": "sync", "gthread": "gthread", "gevent": "gevent", "eventlet": "eventlet"}
COQ_CLASS = {"sync": "Sync", "gthread": "GThread", "gevent": "Gevent", "eventlet": "Eventlet"}


class Passthrough:
    def __init__(self, real):
        object.__setattr__(self, "_real", real)

    def __getattr__(self, name):
        return getattr(self._real, name)


class NullLog:
    def __init__(self, cfg=None):
        pass

    def __getattr__(self, name):
        return lambda *a, **k: None


class FakeListener:
    def __init__(self, clock):
        self.clock = clock

    def setblocking(self, v):
        pass

    def getsockname(self):
        return ("127.0.0.1", 8000)

    def fileno(self):
        return self.clock.dummy_fd

    def close(self):
        pass

    def accept(self):
        return self.clock.accept()


class FakeClient:
    def __init__(self, fd):
        self.fd = fd

    def setblocking(self, v):
        pass

    def fileno(self):
        return self.fd

    def close(self):
        pass


class LoopClock:
    """virtual time + the script of iterations"""

    def __init__(self, events, wait_ticks_cap=None):
        self.now = 0
        self.events = list(events)
        self.pending_request = None
        self.notifies = []
        self.worker = None
        self.dummy_fd = None
        self.waits = []           # timeouts the loop asked for (ticks)

    def stop(self):
        self.worker.alive = False

    def wait(self, timeout_s):
        """the blocking call of the loop; returns True when it was woken early"""
        t = int(round(timeout_s * TICK))
        self.waits.append(t)
        if not self.events:
            self.stop()
            return False
        ev = self.events[0]
        if ev[0] == "I":
            self.events.pop(0)
            self.now += t + ev[1]
            return False
        if ev[0] == "W":
            self.events.pop(0)
            self.now += min(ev[1], t) + ev[2]
            return True
        # a request is next: the listener becomes readable at once
        return True

    def accept(self):
        if self.events and self.events[0][0] == "R":
            ev = self.events.pop(0)
            self.pending_request = ev
            return FakeClient(self.dummy_fd), ("127.0.0.1", 1234)
        if not self.events:
            self.stop()
        raise BlockingIOError(errno.EAGAIN, "would block")


def _mk_cfg(worker_class, timeout):
    from gunicorn.config import Config
    cfg = Config()
    cfg.set("worker_class", worker_class)
    cfg.set("timeout", timeout)
    if worker_class == "gthread":
        cfg.set("threads", 2)
    return cfg


def run_loop(cls, wait_seconds, cfg_timeout, events):
    """Run the real loop of worker class `cls` constructed the way the arbiter does (wait_seconds is the value the
    arbiter passed as `timeout`).  Returns (notify offsets in ticks, waits asked for in ticks)."""
    import gunicorn.workers.workertmp as wt
    import gunicorn.workers.base as wbase
    clock = LoopClock(events)
    r, w = os.pipe()
    clock.dummy_fd = r
    saved = []

    def patch(mod, name, value):
        saved.append((mod, name, getattr(mod, name)))
        setattr(mod, name, value)

    class TmpTime(Passthrough):
        def monotonic(self):
            return 1000.0 + clock.now / float(TICK)

    class OsProxy(Passthrough):
        def getppid(self):
            return 4242

        def read(self, fd, n):
            return b""

    patch(wt, "time", TmpTime(_time))
    ppid = 4242
    cfg = _mk_cfg(CLASS_URI[cls], cfg_timeout)
    try:
        if cls == "sync":
            import gunicorn.workers.sync as m

            class SelectProxy(Passthrough):
                def select(self, rl, wl, xl, timeout=None):
                    woke = clock.wait(timeout)
                    return ([rl[0]], [], []) if woke else ([], [], [])
            patch(m, "select", SelectProxy(_select))
            patch(m, "os", OsProxy(os))
            worker = m.SyncWorker(1, ppid, [FakeListener(clock)], None, wait_seconds, cfg, NullLog())
            clock.worker = worker
            worker.PIPE = (r, w)
            worker.wait_fds = worker.sockets + [worker.PIPE[0]]

            def handle(listener, client, addr):
                ev = clock.pending_request
                clock.now += ev[1] + ev[2]
            worker.handle = handle
            saved_coe = m.util.close_on_exec
            m.util.close_on_exec = lambda fd: None
            try:
                _instrument(worker, clock)
                worker.run()
            finally:
                m.util.close_on_exec = saved_coe
        elif cls == "gthread":
            import gunicorn.workers.gthread as m
            from collections import deque
            import threading
            patch(m, "os", OsProxy(os))
            worker = m.ThreadWorker(1, ppid, [FakeListener(clock)], None, wait_seconds, cfg, NullLog())
            clock.worker = worker

            class Poller:
                def register(self, *a, **k):
                    pass

                def unregister(self, *a, **k):
                    pass

                def select(self, timeout=None):
                    clock.wait(timeout)
                    return []

                def close(self):
                    pass

            class Pool:
                def shutdown(self, wait=True):
                    pass
            worker.poller = Poller()
            worker.tpool = Pool()
            worker._lock = threading.RLock()
            _instrument(worker, clock)
            worker.run()
        elif cls == "gevent":
            import gunicorn.workers.ggevent as m

            class GeventProxy(Passthrough):
                def sleep(self, seconds=0):
                    clock.wait(seconds)
            patch(m, "gevent", GeventProxy(m.gevent))
            patch(m, "os", OsProxy(os))
            worker = m.GeventWorker(1, ppid, [], None, wait_seconds, cfg, NullLog())
            clock.worker = worker
            _instrument(worker, clock)
            worker.run()
        elif cls == "eventlet":
            import gunicorn.workers.geventlet as m

            class DummyTimeout(BaseException):
                def __init__(self, *a, **k):
                    pass

                def __enter__(self):
                    return self

                def __exit__(self, *a):
                    return False

            class EventletProxy(Passthrough):
                Timeout = DummyTimeout

                def sleep(self, seconds=0):
                    clock.wait(seconds)
            patch(m, "eventlet", EventletProxy(m.eventlet))
            worker = m.EventletWorker(1, ppid, [], None, wait_seconds, cfg, NullLog())
            clock.worker = worker
            _instrument(worker, clock)
            worker.run()
        else:
            raise ValueError(cls)
    finally:
        for mod, name, val in reversed(saved):
            setattr(mod, name, val)
        try:
            clock.worker.tmp.close()
        except Exception:
            pass
        os.close(r)
        os.close(w)
    return clock.notifies, clock.waits


def _instrument(worker, clock):
    real = worker.tmp.notify

    def notify():
        if worker.alive:            # notify() calls after the loop has ended belong to the shutdown path
            clock.notifies.append(clock.now)
        return real()
    worker.tmp.notify = notify


def coq_events(events):
    out = []
    for e in events:
        if e[0] == "I":
            out.append("Idle %d" % e[1])
        elif e[0] == "W":
            out.append("Woken %d %d" % (e[1], e[2]))
        else:
            out.append("Request %d %d" % (e[1], e[2]))
    return "[" + "; ".join(out) + "]"
